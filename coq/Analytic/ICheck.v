(* Analytic/ICheck.v — comparing an implementation double with the rigorous enclosure of a
   model expression (DESIGN §3.2). *)
From Coq Require Import ZArith QArith Qabs List Bool.
From PT Require Import Dec Py IExpr.
Import ListNotations.

(* |py - value(e)| <= 2^tp * |scale| is implied by: lo - t <= py <= hi + t, with [lo,hi] the
   enclosure of e and t = 2^tp * (upper bound of |scale|) *)
Definition within (tp : Z) (p : Q) (enc : option (Q * Q)) (scale : option (Q * Q)) : bool :=
  match enc, scale with
  | Some (lo, hi), Some (slo, shi) =>
      let t := (Qmax (Qabs slo) (Qabs shi) * D2Q 1 tp)%Q in
      (Qle_bool (lo - t)%Q p && Qle_bool p (hi + t)%Q)%bool
  | _, _ => false
  end.

(* relative to the value itself *)
Definition chk_expr_rel (tp : Z) (v : pyval) (e : expr) : bool :=
  match py_Q v with
  | Some p => let enc := enclose e in within tp p enc enc
  | None => false
  end.

(* relative to a given scale expression (sum of absolute values of the terms) *)
Definition chk_expr_scaled (tp : Z) (v : pyval) (e scale : expr) : bool :=
  match py_Q v with
  | Some p => within tp p (enclose e) (enclose scale)
  | None => false
  end.

Definition is_none (v : pyval) : bool := match v with PNone => true | _ => false end.
Definition is_nan (v : pyval) : bool := match v with PNaN => true | _ => false end.
