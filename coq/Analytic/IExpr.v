(* Analytic/IExpr.v — a small expression language over the reals with two interpretations:
   evalR (the meaning, used by theorems) and evalI (a rigorous enclosure computed with
   Coq-Interval's FloatIntervalFull over StdZ floats under vm_compute), and the soundness
   theorem relating them. *)
From Coq Require Import Reals ZArith QArith Qreals List Lra.
From Interval Require Import Specific_stdz Specific_ops Float_full Interval Xreal Basic.
Import ListNotations.

Module F := SpecificFloat StdZRadix2.
Module I := FloatIntervalFull F.

Inductive expr :=
| EVar (n : nat)
| ECst (q : Q)
| EPi
| EAdd (a b : expr) | ESub (a b : expr) | EMul (a b : expr) | EDiv (a b : expr)
| ENeg (a : expr) | EAbs (a : expr) | ESqrt (a : expr) | ESqr (a : expr)
| EExp (a : expr) | ELn (a : expr) | ECos (a : expr) | ESin (a : expr)
| EPow (a : expr) (n : Z).

Definition powerRZ' (x : R) (n : Z) : R :=
  match n with
  | 0%Z => 1%R
  | Z.pos p => (x ^ Pos.to_nat p)%R
  | Z.neg p => (/ x ^ Pos.to_nat p)%R
  end.

Fixpoint evalR (env : nat -> R) (e : expr) : R :=
  match e with
  | EVar n => env n
  | ECst q => Q2R q
  | EPi => PI
  | EAdd a b => (evalR env a + evalR env b)%R
  | ESub a b => (evalR env a - evalR env b)%R
  | EMul a b => (evalR env a * evalR env b)%R
  | EDiv a b => (evalR env a / evalR env b)%R
  | ENeg a => (- evalR env a)%R
  | EAbs a => Rabs (evalR env a)
  | ESqrt a => sqrt (evalR env a)
  | ESqr a => (evalR env a * evalR env a)%R
  | EExp a => exp (evalR env a)
  | ELn a => ln (evalR env a)
  | ECos a => cos (evalR env a)
  | ESin a => sin (evalR env a)
  | EPow a n => powerRZ' (evalR env a) n
  end.

(* extended evaluation: Xnan where the real function is not defined (division by 0, ln <= 0) *)
Fixpoint evalX (env : nat -> R) (e : expr) : ExtendedR :=
  match e with
  | EVar n => Xreal (env n)
  | ECst q => Xdiv (Xreal (IZR (Qnum q))) (Xreal (IZR (Zpos (Qden q))))
  | EPi => Xreal PI
  | EAdd a b => Xadd (evalX env a) (evalX env b)
  | ESub a b => Xsub (evalX env a) (evalX env b)
  | EMul a b => Xmul (evalX env a) (evalX env b)
  | EDiv a b => Xdiv (evalX env a) (evalX env b)
  | ENeg a => Xneg (evalX env a)
  | EAbs a => Xabs (evalX env a)
  | ESqrt a => Xsqrt (evalX env a)
  | ESqr a => Xsqr (evalX env a)
  | EExp a => Xexp (evalX env a)
  | ELn a => Xln (evalX env a)
  | ECos a => Xcos (evalX env a)
  | ESin a => Xsin (evalX env a)
  | EPow a n => Xpower_int (evalX env a) n
  end.

Fixpoint evalI (prec : F.precision) (ienv : nat -> I.type) (e : expr) : I.type :=
  match e with
  | EVar n => ienv n
  | ECst q => I.div prec (I.fromZ prec (Qnum q)) (I.fromZ prec (Zpos (Qden q)))
  | EPi => I.pi prec
  | EAdd a b => I.add prec (evalI prec ienv a) (evalI prec ienv b)
  | ESub a b => I.sub prec (evalI prec ienv a) (evalI prec ienv b)
  | EMul a b => I.mul prec (evalI prec ienv a) (evalI prec ienv b)
  | EDiv a b => I.div prec (evalI prec ienv a) (evalI prec ienv b)
  | ENeg a => I.neg (evalI prec ienv a)
  | EAbs a => I.abs (evalI prec ienv a)
  | ESqrt a => I.sqrt prec (evalI prec ienv a)
  | ESqr a => I.sqr prec (evalI prec ienv a)
  | EExp a => I.exp prec (evalI prec ienv a)
  | ELn a => I.ln prec (evalI prec ienv a)
  | ECos a => I.cos prec (evalI prec ienv a)
  | ESin a => I.sin prec (evalI prec ienv a)
  | EPow a n => I.power_int prec (evalI prec ienv a) n
  end.

(* whenever the extended value is a real, it is the meaning *)
Lemma evalX_real : forall env e r, evalX env e = Xreal r -> r = evalR env e.
Proof.
  intros env e. induction e as [n|q| |a IHa b IHb|a IHa b IHb|a IHa b IHb|a IHa b IHb|a IHa|a IHa|a IHa|a IHa|a IHa|a IHa|a IHa|a IHa|a IHa n];
    intros r H; simpl in *.
  - inversion H. reflexivity.
  - unfold Xdiv' in H. destruct (is_zero (IZR (Z.pos (Qden q)))); [discriminate|]. inversion H.
    unfold Q2R, Rdiv. reflexivity.
  - inversion H. reflexivity.
  - destruct (evalX env a) as [|ra]; [discriminate|]. destruct (evalX env b) as [|rb]; [discriminate|].
    simpl in H. inversion H. rewrite <- (IHa ra eq_refl), <- (IHb rb eq_refl). reflexivity.
  - destruct (evalX env a) as [|ra]; [discriminate|]. destruct (evalX env b) as [|rb]; [discriminate|].
    simpl in H. inversion H. rewrite <- (IHa ra eq_refl), <- (IHb rb eq_refl). reflexivity.
  - destruct (evalX env a) as [|ra]; [discriminate|]. destruct (evalX env b) as [|rb]; [discriminate|].
    simpl in H. inversion H. rewrite <- (IHa ra eq_refl), <- (IHb rb eq_refl). reflexivity.
  - destruct (evalX env a) as [|ra]; [discriminate|]. destruct (evalX env b) as [|rb]; [discriminate|].
    simpl in H. unfold Xdiv' in H. destruct (is_zero rb); [discriminate|]. inversion H.
    rewrite <- (IHa ra eq_refl), <- (IHb rb eq_refl). reflexivity.
  - destruct (evalX env a) as [|ra]; [discriminate|]. simpl in H. inversion H. rewrite <- (IHa ra eq_refl). reflexivity.
  - destruct (evalX env a) as [|ra]; [discriminate|]. simpl in H. inversion H. rewrite <- (IHa ra eq_refl). reflexivity.
  - destruct (evalX env a) as [|ra]; [discriminate|]. simpl in H. unfold Xsqrt' in H. inversion H. rewrite <- (IHa ra eq_refl). reflexivity.
  - destruct (evalX env a) as [|ra]; [discriminate|]. simpl in H. inversion H. rewrite <- (IHa ra eq_refl). unfold Rsqr. reflexivity.
  - destruct (evalX env a) as [|ra]; [discriminate|]. simpl in H. inversion H. rewrite <- (IHa ra eq_refl). reflexivity.
  - destruct (evalX env a) as [|ra]; [discriminate|]. simpl in H. unfold Xln' in H. destruct (is_positive ra); [|discriminate].
    inversion H. rewrite <- (IHa ra eq_refl). reflexivity.
  - destruct (evalX env a) as [|ra]; [discriminate|]. simpl in H. inversion H. rewrite <- (IHa ra eq_refl). reflexivity.
  - destruct (evalX env a) as [|ra]; [discriminate|]. simpl in H. inversion H. rewrite <- (IHa ra eq_refl). reflexivity.
  - destruct (evalX env a) as [|ra]; [discriminate|]. simpl in H. unfold Xpower_int' in H.
    rewrite <- (IHa ra eq_refl). destruct n as [|p|p]; simpl.
    + inversion H. reflexivity.
    + inversion H. reflexivity.
    + destruct (is_zero ra); [discriminate|]. inversion H. reflexivity.
Qed.

Definition env_ok (ienv : nat -> I.type) (env : nat -> R) : Prop :=
  forall n, contains (I.convert (ienv n)) (Xreal (env n)).

Theorem evalI_sound : forall prec ienv env e, env_ok ienv env ->
  contains (I.convert (evalI prec ienv e)) (evalX env e).
Proof.
  intros prec ienv env e Henv. induction e; cbn [evalI evalX].
  - apply Henv.
  - apply I.div_correct; apply I.fromZ_correct.
  - apply I.pi_correct.
  - apply I.add_correct; assumption.
  - apply I.sub_correct; assumption.
  - apply I.mul_correct; assumption.
  - apply I.div_correct; assumption.
  - apply I.neg_correct; assumption.
  - apply I.abs_correct; assumption.
  - apply I.sqrt_correct; assumption.
  - apply I.sqr_correct; assumption.
  - apply I.exp_correct; assumption.
  - apply I.ln_correct; assumption.
  - apply I.cos_correct; assumption.
  - apply I.sin_correct; assumption.
  - apply (I.power_int_correct prec n); assumption.
Qed.

(* the enclosure computed by evalI bounds the meaning *)
Theorem evalI_bounds : forall prec ienv env e l u, env_ok ienv env ->
  I.convert (evalI prec ienv e) = Ibnd (Xreal l) (Xreal u) ->
  (l <= evalR env e <= u)%R.
Proof.
  intros prec ienv env e l u Henv Hc. pose proof (evalI_sound prec ienv env e Henv) as H.
  rewrite Hc in H. simpl in H. destruct (evalX env e) as [|r] eqn:E; [contradiction|].
  rewrite <- (evalX_real env e r E). exact H.
Qed.

(* closed expressions *)
Definition no_env_R : nat -> R := fun _ => 0%R.
Definition no_env_I : nat -> I.type := fun _ => I.fromZ (F.PtoP 30) 0.
Lemma no_env_ok : env_ok no_env_I no_env_R.
Proof. intro n. apply I.fromZ_correct. Qed.

(* ---------------------------------------------------------------- running: rational bounds *)
Definition float_Q (f : F.type) : option Q :=
  match f with
  | Specific_ops.Float m e =>
      Some (if (0 <=? e)%Z then Qmake (m * 2 ^ e) 1 else Qmake m (Z.to_pos (2 ^ (- e))))
  | _ => None
  end.

Definition bounds_Q (i : I.type) : option (Q * Q) :=
  match i with
  | Float.Ibnd l u => match float_Q l, float_Q u with Some a, Some b => Some (a, b) | _, _ => None end
  | _ => None
  end.

Definition PREC : F.precision := F.PtoP 80.
Definition enclose (e : expr) : option (Q * Q) := bounds_Q (evalI PREC no_env_I e).
Definition enclose_at (p : positive) (e : expr) : option (Q * Q) := bounds_Q (evalI (F.PtoP p) no_env_I e).

(* helpers to build expressions *)
Definition ez (z : Z) : expr := ECst (inject_Z z).
Fixpoint esum (l : list expr) : expr :=
  match l with [] => ECst 0 | [x] => x | x :: r => EAdd x (esum r) end.
