(* Spec/Grammar.v — derivation trees of the documented *compound* grammar
   (doc/sphinx/guide/formula_grammar.rst), their rendering as strings, and the denotation the
   guide describes: a count multiplies everything in its group, repeated atoms add.
   Written from the documentation, not from the code. *)
From Coq Require Import ZArith QArith String Ascii List Bool.
From PT Require Import Str Dec Formula.
Import ListNotations.
Open Scope string_scope.

(* count :: number | fraction, kept as its text; None = no count written *)
Definition ctext := option string.

Record elem := mkElem {
  el_sym : string;                        (* symbol :: [A-Z][a-z]* *)
  el_iso : option string;                 (* isotope :: '[' number ']' *)
  el_ion : option (string * bool);        (* ion :: '{' number? [+-] '}'  (digits, negative) *)
  el_cnt : ctext
}.

(* separator :: space? '+'? space? *)
Record sep := mkSep { sp1 : string; plus : bool; sp2 : string }.

(* group :: count element+ | '(' formula ')' count ; compound :: group (separator group)* *)
Inductive group :=
| GImp (c : ctext) (es : list elem)
| GExp (lsp : string) (inner : list (sep * group)) (rsp : string) (c : ctext).
(* a compound is a non-empty list of groups; the separator stored with the first group is unused *)
Definition comp := list (sep * group).

Record cstring := mkC { c_comp : comp; c_density : option (string * string * option ascii) }.
(* density :: '@' count  with the optional n/i marker; the first string is white space before '@' *)

Definition r_ctext (c : ctext) : string := match c with Some t => t | None => "" end.

Definition r_elem (e : elem) : string :=
  el_sym e
  ++ (match el_iso e with Some n => "[" ++ n ++ "]" | None => "" end)
  ++ (match el_ion e with Some (d, neg) => "{" ++ d ++ (if neg then "-" else "+") ++ "}" | None => "" end)
  ++ r_ctext (el_cnt e).

Definition r_sep (s : sep) : string := sp1 s ++ (if plus s then "+" else "") ++ sp2 s.

Fixpoint r_group (g : group) : string :=
  match g with
  | GImp c es => r_ctext c ++ String.concat "" (map r_elem es)
  | GExp l inner r c =>
      "(" ++ l ++
      (fix go (first : bool) (l : list (sep * group)) : string :=
         match l with
         | [] => ""
         | (s, g') :: rest => (if first then "" else r_sep s) ++ r_group g' ++ go false rest
         end) true inner
      ++ r ++ ")" ++ r_ctext c
  end.

Definition r_comp (c : comp) : string :=
  (fix go (first : bool) (l : list (sep * group)) : string :=
     match l with
     | [] => ""
     | (s, g) :: rest => (if first then "" else r_sep s) ++ r_group g ++ go false rest
     end) true c.

Definition render (c : cstring) : string :=
  r_comp (c_comp c) ++
  match c_density c with
  | Some (ws, t, m) => ws ++ "@" ++ t ++ (match m with Some ch => String ch "" | None => "" end)
  | None => ""
  end.

(* ---------------------------------------------------------------- denotation *)
Definition cval (c : ctext) : option Q :=
  match c with None => Some 1%Q | Some t => parse_dec t end.

(* the atom an element names in a table: symbol -> (Z, A0), isotope, charge *)
Definition elem_atom (symtab : string -> option (Z * Z)) (e : elem) : option atom :=
  match symtab (el_sym e) with
  | None => None
  | Some (z, a0) =>
      let a := match el_iso e with
               | Some n => match parse_int n with Some v => Some v | None => None end
               | None => Some a0
               end in
      let q := match el_ion e with
               | Some (d, neg) =>
                   match (if String.eqb d "" then Some 1%Z else parse_int d) with
                   | Some m => Some (if neg then (- m)%Z else m)
                   | None => None
                   end
               | None => Some 0%Z
               end in
      match a, q with Some a', Some q' => Some (mkAtom z a' q') | _, _ => None end
  end.

(* counts per atom: a list of (atom, multiplier) leaves *)
Definition leaves := list (atom * Q).

Definition sem_elems (symtab : string -> option (Z * Z)) (m : Q) (es : list elem) : option leaves :=
  fold_right (fun e acc =>
                match acc, elem_atom symtab e, cval (el_cnt e) with
                | Some l, Some a, Some c => Some ((a, (m * c)%Q) :: l)
                | _, _, _ => None
                end) (Some []) es.

Fixpoint sem_group (symtab : string -> option (Z * Z)) (m : Q) (g : group) : option leaves :=
  match g with
  | GImp c es => match cval c with Some k => sem_elems symtab (m * k)%Q es | None => None end
  | GExp _ inner _ c =>
      match cval c with
      | Some k =>
          (fix go (l : list (sep * group)) : option leaves :=
             match l with
             | [] => Some []
             | (_, g') :: rest =>
                 match sem_group symtab (m * k)%Q g', go rest with
                 | Some a, Some b => Some (a ++ b)%list
                 | _, _ => None
                 end
             end) inner
      | None => None
      end
  end.

Definition sem_comp (symtab : string -> option (Z * Z)) (c : comp) : option leaves :=
  (fix go (l : list (sep * group)) : option leaves :=
     match l with
     | [] => Some []
     | (_, g) :: rest =>
         match sem_group symtab 1%Q g, go rest with
         | Some a, Some b => Some (a ++ b)%list
         | _, _ => None
         end
     end) c.

(* total count of atom b and net charge *)
Definition leaves_cnt (l : leaves) (b : atom) : Q :=
  fold_right (fun p acc => ((if atom_eqb b (fst p) then snd p else 0) + acc)%Q) 0%Q l.
Definition leaves_charge (l : leaves) : Q :=
  fold_right (fun p acc => (inject_Z (aq (fst p)) * snd p + acc)%Q) 0%Q l.
Definition leaves_atoms (l : leaves) : list atom :=
  fold_right (fun p acc => if existsb (atom_eqb (fst p)) acc then acc else fst p :: acc) [] l.
