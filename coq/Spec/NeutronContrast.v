(* Spec/NeutronContrast.v — C16: what D2O contrast matching is documented to compute.
   The solute at D2O fraction f is the compound with a fraction f of its labile hydrogens (H[1])
   replaced by deuterium and the rest by natural hydrogen AT UNCHANGED CELL VOLUME (so its density is
   the original density times the ratio of the molar masses); the solvent is the H2O/D2O mixture by
   volume; the solution mixes the two linearly in the volume fraction of the solute. *)
From Coq Require Import Reals ZArith QArith Qreals List Bool.
From PT Require Import Str Dec Loaders Formula AtomEnv Nsf IExpr Neutron NsfCalc NeutronData.
Import ListNotations.

Definition labile : atom := mkAtom 1 1 0.      (* H[1] *)
Definition hydrogen : atom := mkAtom 1 0 0.
Definition deuterium : atom := mkAtom 1 2 0.

(* total count of an atom and the dict without it / with more of it (order is irrelevant) *)
Definition dict_without (d : dict) (a : atom) : dict := filter (fun p => negb (atom_eqb a (fst p))) d.

(* the substituted compound: counts and density *)
Definition substituted (E : aenv) (d : dict) (rho : Q) (f : Q) : dict * Q :=
  let n := dget0 d labile in
  let d' := ((hydrogen, Qred ((1 - f) * n)) :: (deuterium, Qred (f * n)) :: dict_without d labile)%list in
  let M := rweight (e_mass E) d in
  let M' := rweight (e_mass E) d' in
  (d', Qred (rho * M' / M)).

Open Scope R_scope.
(* mix_values: a with weight f, b with weight 1 - f *)
Definition mix (a b f : R) : R := a * f + b * (1 - f).
(* SLD of the solution: solute (deuterated form sD, hydrogenated form sH) in the solvent
   (D2O wD, H2O wH) at D2O fraction f and solute volume fraction vf *)
Definition solution (sD sH wD wH vf f : R) : R := mix (mix sD sH f) (mix wD wH f) vf.
Definition match_fraction (sD sH wD wH : R) : R := (wH - sH) / (sD - sH + wH - wD).

(* expression reading of the real and imaginary SLD of a cell (dict of counts) *)
Definition spec_sld (D : ndata) (d : dict) (rho : Q) (w : wl) : option (expr * expr * list compE) :=
  match all_some (map (spec_atom D w) d) with
  | Some l => Some (E_rho_re NAq l rho, E_rho_im NAq l rho (spec_wl_expr w), l)
  | None => None
  end.
