(* Spec/Activation.v — what "the exact solution of its reaction chain" means (property C14), written
   from the physics, over the reals.  Rates are per hour.  Each closed form is PROVED to satisfy its
   system of differential equations with the right initial condition.  (Uniqueness of the solution
   of a linear ODE system is not proved here.) *)
From Coq Require Import Reals Lra.
From Coquelicot Require Import Coquelicot.
Open Scope R_scope.

(* -------- chain 1: single capture with burn-up of target (k1) and of the product (k2 = decay + capture)
     N1' = -k1 N1,   N2' = k1 N1 - k2 N2,   N1(0) = N0, N2(0) = 0 *)
Section Chain1.
  Variables N0 k1 k2 : R.
  Definition c1_N1 (t : R) : R := N0 * exp (- k1 * t).
  Definition c1_N2 (t : R) : R := N0 * k1 / (k2 - k1) * (exp (- k1 * t) - exp (- k2 * t)).

  Lemma c1_N1_ode : forall t, is_derive c1_N1 t (- k1 * c1_N1 t).
  Proof. intro t. unfold c1_N1. auto_derive; [trivial|]. ring. Qed.

  Lemma c1_N2_ode : k1 <> k2 -> forall t, is_derive c1_N2 t (k1 * c1_N1 t - k2 * c1_N2 t).
  Proof.
    intros H t. unfold c1_N2, c1_N1. auto_derive; [trivial|]. field. lra.
  Qed.

  Lemma c1_init : c1_N1 0 = N0 /\ c1_N2 0 = 0.
  Proof. unfold c1_N1, c1_N2. rewrite !Rmult_0_r, exp_0. split; ring. Qed.
End Chain1.

(* -------- chain b: a parent produced at constant rate R decays (lp) into the daughter (decay l)
     P' = R - lp P,   D' = lp P - l D,   P(0) = D(0) = 0 *)
Section ChainB.
  Variables R0 lp l : R.
  Definition cb_P (t : R) : R := R0 / lp * (1 - exp (- lp * t)).
  Definition cb_D (t : R) : R := R0 / l * (1 - (lp * exp (- l * t) - l * exp (- lp * t)) / (lp - l)).

  Lemma cb_P_ode : lp <> 0 -> forall t, is_derive cb_P t (R0 - lp * cb_P t).
  Proof. intros H t. unfold cb_P. auto_derive; [trivial|]. field. exact H. Qed.

  Lemma cb_D_ode : lp <> 0 -> l <> 0 -> lp <> l -> forall t, is_derive cb_D t (lp * cb_P t - l * cb_D t).
  Proof.
    intros H1 H2 H3 t. unfold cb_D, cb_P. auto_derive; [trivial|]. field. repeat split; lra.
  Qed.

  Lemma cb_init : lp <> l -> cb_P 0 = 0 /\ cb_D 0 = 0.
  Proof.
    intro H. unfold cb_P, cb_D. rewrite !Rmult_0_r, exp_0. split; [ring|].
    replace ((lp * 1 - l * 1) / (lp - l)) with 1 by (field; lra). ring.
  Qed.
End ChainB.

(* -------- chain 2n: two successive captures
     N1' = -k1 N1,   N2' = k1 N1 - kp N2,   N3' = kc N2 - l N3,   N(0) = (N0, 0, 0)
     (kp = kc + decay of the intermediate; Bateman solution) *)
Section Chain2n.
  Variables N0 k1 kp kc l : R.
  Definition c2_N1 (t : R) : R := N0 * exp (- k1 * t).
  Definition c2_N2 (t : R) : R := N0 * k1 / (kp - k1) * (exp (- k1 * t) - exp (- kp * t)).
  Definition c2_N3 (t : R) : R :=
    N0 * k1 * kc * (exp (- k1 * t) / ((kp - k1) * (l - k1))
                    + exp (- kp * t) / ((k1 - kp) * (l - kp))
                    + exp (- l * t) / ((k1 - l) * (kp - l))).

  Lemma c2_N1_ode : forall t, is_derive c2_N1 t (- k1 * c2_N1 t).
  Proof. intro t. unfold c2_N1. auto_derive; [trivial|]. ring. Qed.

  Lemma c2_N2_ode : k1 <> kp -> forall t, is_derive c2_N2 t (k1 * c2_N1 t - kp * c2_N2 t).
  Proof. intros H t. unfold c2_N2, c2_N1. auto_derive; [trivial|]. field. lra. Qed.

  Lemma c2_N3_ode : k1 <> kp -> k1 <> l -> kp <> l ->
    forall t, is_derive c2_N3 t (kc * c2_N2 t - l * c2_N3 t).
  Proof.
    intros H1 H2 H3 t. unfold c2_N3, c2_N2. auto_derive; [trivial|]. field. repeat split; lra.
  Qed.

  Lemma c2_init : k1 <> kp -> k1 <> l -> kp <> l -> c2_N1 0 = N0 /\ c2_N2 0 = 0 /\ c2_N3 0 = 0.
  Proof.
    intros H1 H2 H3. unfold c2_N1, c2_N2, c2_N3. rewrite !Rmult_0_r, exp_0.
    repeat split; try ring. field. repeat split; lra.
  Qed.
End Chain2n.

(* -------- generic positivity: a quantity fed at a non-negative rate and removed in proportion to
   itself, starting from 0, stays non-negative (integrating factor + mean value theorem) *)
Lemma fed_nonneg : forall (y g : R -> R) (k : R),
  (forall t, is_derive y t (g t - k * y t)) -> y 0 = 0 ->
  (forall t, 0 <= t -> 0 <= g t) -> forall t, 0 <= t -> 0 <= y t.
Proof.
  intros y g k Hd H0 Hg t Ht.
  set (z := fun s => y s * exp (k * s)).
  assert (Hz : forall s, is_derive z s (g s * exp (k * s))).
  { intro s. unfold z. auto_derive.
    - exists (g s - k * y s). apply Hd.
    - replace (Derive (fun x => y x) s) with (g s - k * y s); [ring|].
      symmetry. apply is_derive_unique. apply Hd. }
  destruct (Req_dec t 0) as [->|Hne]; [rewrite H0; lra|].
  assert (Ht' : 0 < t) by lra.
  destruct (MVT_gen z 0 t (fun s => g s * exp (k * s))) as [c [Hc He]].
  - intros s _. apply Hz.
  - intros s _. apply derivable_continuous_pt. apply ex_derive_Reals_0. exists (g s * exp (k * s)). apply Hz.
  - rewrite Rmin_left in Hc by lra. rewrite Rmax_right in Hc by lra.
    assert (z 0 = 0) by (unfold z; rewrite H0; ring).
    assert (0 <= z t).
    { rewrite H in He. replace (z t) with (z t - 0) by ring. rewrite He.
      apply Rmult_le_pos; [|lra]. apply Rmult_le_pos; [apply Hg; lra| left; apply exp_pos]. }
    unfold z in H1. pose proof (exp_pos (k * t)).
    apply (Rmult_le_reg_r (exp (k * t))); [assumption|]. lra.
Qed.

Lemma c1_N1_nonneg : forall N0 k1 t, 0 <= N0 -> 0 <= c1_N1 N0 k1 t.
Proof. intros. unfold c1_N1. apply Rmult_le_pos; [assumption|left; apply exp_pos]. Qed.

Theorem c1_N2_nonneg : forall N0 k1 k2 t, 0 <= N0 -> 0 <= k1 -> k1 <> k2 -> 0 <= t -> 0 <= c1_N2 N0 k1 k2 t.
Proof.
  intros N0 k1 k2 t HN Hk Hne Ht.
  apply (fed_nonneg (c1_N2 N0 k1 k2) (fun s => k1 * c1_N1 N0 k1 s) k2); try assumption.
  - apply c1_N2_ode; assumption.
  - apply (c1_init N0 k1 k2).
  - intros s _. apply Rmult_le_pos; [assumption|apply c1_N1_nonneg; assumption].
Qed.

Lemma cb_P_nonneg : forall R0 lp t, 0 <= R0 -> 0 < lp -> 0 <= t -> 0 <= cb_P R0 lp t.
Proof.
  intros R0 lp t HR Hl Ht. unfold cb_P. apply Rmult_le_pos.
  - apply Rmult_le_pos; [assumption|]. left. apply Rinv_0_lt_compat. assumption.
  - assert (exp (- lp * t) <= 1); [|lra]. rewrite <- exp_0.
    destruct (Req_dec (- lp * t) 0) as [->|]; [lra|]. left. apply exp_increasing. nra.
Qed.

Theorem cb_D_nonneg : forall R0 lp l t, 0 <= R0 -> 0 < lp -> 0 < l -> lp <> l -> 0 <= t -> 0 <= cb_D R0 lp l t.
Proof.
  intros R0 lp l t HR Hlp Hl Hne Ht.
  apply (fed_nonneg (cb_D R0 lp l) (fun s => lp * cb_P R0 lp s) l); try assumption.
  - apply cb_D_ode; lra.
  - apply (cb_init R0 lp l); assumption.
  - intros s Hs. apply Rmult_le_pos; [lra|apply cb_P_nonneg; assumption].
Qed.

Theorem c2_N3_nonneg : forall N0 k1 kp kc l t, 0 <= N0 -> 0 <= k1 -> 0 <= kc ->
  k1 <> kp -> k1 <> l -> kp <> l -> 0 <= t -> 0 <= c2_N3 N0 k1 kp kc l t.
Proof.
  intros N0 k1 kp kc l t HN Hk Hc H1 H2 H3 Ht.
  apply (fed_nonneg (c2_N3 N0 k1 kp kc l) (fun s => kc * c2_N2 N0 k1 kp s) l); try assumption.
  - apply c2_N3_ode; assumption.
  - apply (c2_init N0 k1 kp kc l); assumption.
  - intros s Hs. apply Rmult_le_pos; [assumption|].
    change (c2_N2 N0 k1 kp s) with (c1_N2 N0 k1 kp s). apply c1_N2_nonneg; assumption.
Qed.

(* -------- single capture: the product per remaining target atom never decreases, i.e. activity
   does not fall with exposure by more than the depletion exp(-k1 dt) of the target *)
Theorem c1_monotone_up_to_depletion : forall N0 k1 k2 t1 t2, 0 <= N0 -> 0 <= k1 -> k1 <> k2 ->
  0 <= t1 <= t2 -> c1_N2 N0 k1 k2 t1 * exp (- k1 * (t2 - t1)) <= c1_N2 N0 k1 k2 t2.
Proof.
  intros N0 k1 k2 t1 t2 HN Hk Hne [H1 H2].
  assert (E : c1_N2 N0 k1 k2 t2 - c1_N2 N0 k1 k2 t1 * exp (- k1 * (t2 - t1))
              = exp (- k2 * t1) * c1_N2 N0 k1 k2 (t2 - t1)).
  { unfold c1_N2.
    replace (- k1 * t2) with (- k1 * t1 + - k1 * (t2 - t1)) by ring.
    replace (- k2 * t2) with (- k2 * t1 + - k2 * (t2 - t1)) by ring.
    rewrite !exp_plus. field. lra. }
  assert (0 <= exp (- k2 * t1) * c1_N2 N0 k1 k2 (t2 - t1)); [|lra].
  apply Rmult_le_pos; [left; apply exp_pos|]. apply c1_N2_nonneg; try assumption. lra.
Qed.

(* -------- the activity of one reaction row, in the unit convention of the source:
   K = 1.6278e19 (atoms per mole / 3.7e4 decays per second per microcurie), cross sections in barn
   (1e-24 cm^2), flux per second, rates per hour, activity = lambda N / 3600 (per second, in uCi) *)
Definition K_uCi : R := 16278000000000000000.
Definition rate (phi sigma : R) : R := phi * sigma * 3600 / 1000000000000000000000000.
Definition decay_const (T : R) : R := ln 2 / T.
Definition atoms (mass A : R) : R := K_uCi * mass / A.

Inductive chain := CAct | CB | C2n.

(* phi1: flux seen by the first reaction (fast flux for fast reactions); phi: thermal flux;
   s1: effective cross section of the target; s2: of the product (act) or of the intermediate (2n);
   T: half-life of the product; Tp: of the parent / intermediate; t: exposure (h) *)
Definition activity_end (ch : chain) (mass A phi1 phi s1 s2 T Tp t : R) : R :=
  let l := decay_const T in
  let k1 := rate phi1 s1 in
  match ch with
  | CAct => l / 3600 * c1_N2 (atoms mass A) k1 (rate phi s2 + l) t
  | CB => l / 3600 * cb_D (atoms mass A * k1) (decay_const Tp) l t
  | C2n => l / 3600 * c2_N3 (atoms mass A) k1 (rate phi s2 + decay_const Tp) (rate phi s2) l t
  end.

(* after a rest time r the activity has fallen by exactly 2^(-r/T) *)
Definition activity_rest (a_end T r : R) : R := a_end * Rpower 2 (- r / T).

Theorem activity_end_nonneg : forall ch mass A phi1 phi s1 s2 T Tp t,
  0 <= mass -> 0 < A -> 0 <= phi1 -> 0 <= phi -> 0 <= s1 -> 0 <= s2 -> 0 < T -> 0 <= t ->
  (* distinct removal rates (the closed forms have removable singularities where two coincide) *)
  match ch with
  | CAct => rate phi1 s1 <> rate phi s2 + decay_const T
  | CB => 0 < Tp /\ decay_const Tp <> decay_const T
  | C2n => 0 < Tp /\ rate phi1 s1 <> rate phi s2 + decay_const Tp /\ rate phi1 s1 <> decay_const T
           /\ rate phi s2 + decay_const Tp <> decay_const T
  end ->
  0 <= activity_end ch mass A phi1 phi s1 s2 T Tp t.
Proof.
  intros ch mass A phi1 phi s1 s2 T Tp t Hm HA Hp1 Hp Hs1 Hs2 HT Ht Hd.
  assert (Hln : 0 < ln 2) by (rewrite <- ln_1; apply ln_increasing; lra).
  assert (Hl : 0 < decay_const T) by (unfold decay_const; apply Rdiv_lt_0_compat; assumption).
  assert (Hat : 0 <= atoms mass A).
  { unfold atoms, K_uCi. apply Rmult_le_pos; [apply Rmult_le_pos; lra|]. left. apply Rinv_0_lt_compat. assumption. }
  assert (Hr : forall a b, 0 <= a -> 0 <= b -> 0 <= rate a b).
  { intros a b Ha Hb. unfold rate. apply Rmult_le_pos; [|lra]. apply Rmult_le_pos; [apply Rmult_le_pos; assumption|lra]. }
  unfold activity_end. destruct ch; (apply Rmult_le_pos; [apply Rmult_le_pos; lra|]).
  - apply c1_N2_nonneg; auto.
  - destruct Hd as (HTp & D). 
    assert (Hlp : 0 < decay_const Tp) by (unfold decay_const; apply Rdiv_lt_0_compat; assumption).
    apply cb_D_nonneg; auto. apply Rmult_le_pos; auto.
  - destruct Hd as (HTp & D1 & D2 & D3). apply c2_N3_nonneg; auto.
Qed.

(* single capture: activity does not fall with exposure by more than the depletion of the target *)
Theorem activity_monotone_up_to_depletion : forall mass A phi1 phi s1 s2 T Tp t1 t2,
  0 <= mass -> 0 < A -> 0 <= phi1 -> 0 <= s1 -> 0 < T -> 0 <= t1 <= t2 ->
  rate phi1 s1 <> rate phi s2 + decay_const T ->
  activity_end CAct mass A phi1 phi s1 s2 T Tp t1 * exp (- rate phi1 s1 * (t2 - t1))
  <= activity_end CAct mass A phi1 phi s1 s2 T Tp t2.
Proof.
  intros mass A phi1 phi s1 s2 T Tp t1 t2 Hm HA Hp1 Hs1 HT Ht Hd.
  assert (Hln : 0 < ln 2) by (rewrite <- ln_1; apply ln_increasing; lra).
  assert (Hl : 0 < decay_const T) by (unfold decay_const; apply Rdiv_lt_0_compat; assumption).
  assert (Hat : 0 <= atoms mass A).
  { unfold atoms, K_uCi. apply Rmult_le_pos; [apply Rmult_le_pos; lra|]. left. apply Rinv_0_lt_compat. assumption. }
  assert (Hr : 0 <= rate phi1 s1).
  { unfold rate. apply Rmult_le_pos; [|lra]. apply Rmult_le_pos; [apply Rmult_le_pos; assumption|lra]. }
  unfold activity_end. rewrite Rmult_assoc. apply Rmult_le_compat_l; [apply Rmult_le_pos; lra|].
  apply c1_monotone_up_to_depletion; assumption.
Qed.

Theorem activity_linear_in_mass : forall ch c mass A phi1 phi s1 s2 T Tp t,
  activity_end ch (c * mass) A phi1 phi s1 s2 T Tp t = c * activity_end ch mass A phi1 phi s1 s2 T Tp t.
Proof.
  intros. unfold activity_end, atoms, c1_N2, cb_D, c2_N3. destruct ch; unfold Rdiv; ring.
Qed.

Theorem rest_decay_exact : forall a T r1 r2,
  activity_rest a T (r1 + r2) = activity_rest a T r1 * Rpower 2 (- r2 / T).
Proof.
  intros. unfold activity_rest. rewrite Rmult_assoc, <- Rpower_plus. f_equal. f_equal. unfold Rdiv. ring.
Qed.

Theorem rest_decay_zero : forall a T, activity_rest a T 0 = a.
Proof. intros. unfold activity_rest. replace (- 0 / T) with 0 by (unfold Rdiv; ring). rewrite Rpower_O; lra. Qed.

Theorem rest_halves : forall a T, T <> 0 -> activity_rest a T T = a / 2.
Proof.
  intros a T H. unfold activity_rest. replace (- T / T) with (- (1)) by (field; assumption).
  rewrite Rpower_Ropp, Rpower_1; lra.
Qed.
