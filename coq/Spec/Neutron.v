(* Spec/Neutron.v — the neutron scattering equations as the documentation of
   periodictable.nsf.neutron_scattering states them ("full scattering equations", with every
   unit factor written out), the documented rule for the energy-dependent rare earths
   (linear interpolation in the table, end points outside the tabulated range), and the
   documented energy / wavelength / velocity conversions.

   Written from the docstrings, not from the code.  Two readings of the same text:
     * over R (the reference: what the theorems are about), and
     * as IExpr expressions (so that the very same equations can be *run* as a rigorous
       interval enclosure next to the implementation); Proofs/C03Spec.v proves that the
       expression reading means the R reading.

   One place where the documentation is silent: it writes  sigma_i = sigma_s - sigma_c  and
   b_i = sqrt(100 sigma_i/(4 pi)), which has no meaning when the tabulated total cross section is
   smaller than the coherent one computed from b_c (the tables are not self-consistent, as the
   documentation says).  The spec clips sigma_i at zero there; [sigma_i_unclipped] (Proofs) states
   that the clip is the documented difference whenever that is non-negative. *)
From Coq Require Import Reals ZArith QArith Qreals List.
From PT Require Import IExpr.
Import ListNotations.
Open Scope R_scope.

(* ------------------------------------------------------------------ unit factors *)
Definition A_per_fm : R := / 100000.            (* 10^-5 A/fm *)
Definition micro : R := 1000000.                (* 10^6 mu *)
Definition A2_per_barn : R := / 100000000.      (* 10^-8 A^2/barn *)
Definition A_per_cm : R := 100000000.           (* 10^8 A/cm *)
Definition fm2_per_barn : R := 100.             (* 100 fm^2/barn *)
Definition lambda_0 : R := 1798 / 1000.         (* wavelength of the tabulated absorption, 1.798 A *)

(* ------------------------------------------------------------------ per-atom quantities *)
(* one kind of atom of the compound at the wavelength of the calculation:
   count n_k, molar mass m_k (g/mol), Re b_ck and Im b_ck (fm), total scattering sigma_sk (barn) *)
Record comp := mkC { c_n : R; c_m : R; c_re : R; c_im : R; c_ss : R }.

(* Im(b_ck) = - sigma_ak / (1000 * 2 lambda),  lambda = 1.798 A *)
Definition im_of_absorption (sigma_ak : R) : R := - sigma_ak / (1000 * 2 * lambda_0).

(* energy-dependent isotopes: "the total scattering is estimated from b = Re(b_c) + i Im(b_c)" *)
Definition sigma_s_of_b (re im : R) : R := 4 * PI * (re * re + im * im) / fm2_per_barn.

Definition sum (f : comp -> R) (l : list comp) : R := fold_right (fun c acc => f c + acc) 0 l.

(* ------------------------------------------------------------------ the equations *)
Section Equations.
  Variable N_A : R.            (* Avogadro's number, atoms/mol *)
  Variable l : list comp.      (* the unit cell *)
  Variable rho : R.            (* mass density, g/cm^3 *)
  Variable lambda : R.         (* wavelength, A *)

  (* m = sum n_k m_k *)
  Definition molar_mass : R := sum (fun c => c_n c * c_m c) l.
  (* V = m/rho . 1/N_A . (10^8)^3 *)
  Definition cell_volume : R := molar_mass / rho * (1 / N_A) * (A_per_cm * A_per_cm * A_per_cm).
  (* N = sum n_k / V *)
  Definition n_total : R := sum c_n l.
  Definition number_density : R := n_total / cell_volume.
  (* Re(b_c) = sum n_k Re(b_ck) / sum n_k, same for Im *)
  Definition b_re : R := sum (fun c => c_n c * c_re c) l / n_total.
  Definition b_im : R := sum (fun c => c_n c * c_im c) l / n_total.
  (* sigma_c = 4 pi |Re(b_c) + i Im(b_c)|^2 / 100 *)
  Definition sigma_c : R := 4 * PI * (b_re * b_re + b_im * b_im) / fm2_per_barn.
  (* sigma_a = - 1000 . 4 pi <Im(b_c)> / k   for k = 2 pi / lambda *)
  Definition wavenumber : R := 2 * PI / lambda.
  Definition sigma_a : R := - (1000 * 4 * PI * b_im) / wavenumber.
  (* sigma_s = sum n_k sigma_sk / sum n_k ; sigma_i = sigma_s - sigma_c (clipped, see header) *)
  Definition sigma_s : R := sum (fun c => c_n c * c_ss c) l / n_total.
  Definition sigma_i : R := Rmax (sigma_s - sigma_c) 0.

  (* rho_re (mu/A^2) = (N/A^3) (Re(b_c) fm) (10^-5 A/fm) (10^6 mu) *)
  Definition rho_re : R := number_density * b_re * A_per_fm * micro.
  (* rho_im = (N/A^3) (sigma_a barn) (10^-8 A^2/barn) / (2 lambda A) (10^6 mu) *)
  Definition rho_im : R := number_density * sigma_a * A2_per_barn / (2 * lambda) * micro.
  (*        = (N/A^3) (-Im(b_c) fm) (10^-5 A/fm) (10^6 mu)     (second line of the same equation) *)
  Definition rho_im' : R := number_density * (- b_im) * A_per_fm * micro.
  (* rho_inc = (N/A^3) sqrt((sigma_i barn)/(4 pi) (100 fm^2/barn)) (10^-5 A/fm) (10^6 mu) *)
  Definition rho_inc : R := number_density * sqrt (sigma_i / (4 * PI) * fm2_per_barn) * A_per_fm * micro.
  (* Sigma_x (1/cm) = (N/A^3) (sigma_x barn) (10^-8 A^2/barn) (10^8 A/cm) *)
  Definition Sigma_coh : R := number_density * sigma_c * A2_per_barn * A_per_cm.
  Definition Sigma_inc : R := number_density * sigma_i * A2_per_barn * A_per_cm.
  Definition Sigma_abs : R := number_density * sigma_a * A2_per_barn * A_per_cm.
  Definition Sigma_s : R := number_density * sigma_s * A2_per_barn * A_per_cm.
  (* t_u (cm) = 1/(Sigma_s + Sigma_abs) *)
  Definition t_u : R := 1 / (Sigma_s + Sigma_abs).
End Equations.

(* the seven returned numbers: (real, imaginary, incoherent) SLD, (coherent, absorption,
   incoherent) cross section, penetration depth *)
Definition outputs (N_A : R) (l : list comp) (rho lambda : R) : list R :=
  [rho_re N_A l rho; rho_im N_A l rho lambda; rho_inc N_A l rho;
   Sigma_coh N_A l rho; Sigma_abs N_A l rho lambda; Sigma_inc N_A l rho;
   t_u N_A l rho lambda].

(* ------------------------------------------------------------------ energy-dependent tables *)
(* "b_c is interpolated from the table values, with the end points used for values outside the
   tabulated range": piecewise-linear in the wavelength through the nodes (x_j, y_j), x increasing *)
Fixpoint interp_from (x x0 y0 : R) (rest : list (R * R)) : R :=
  match rest with
  | [] => y0
  | (x1, y1) :: r =>
      if Rlt_dec x x1 then y0 + (y1 - y0) * ((x - x0) / (x1 - x0))
      else interp_from x x1 y1 r
  end.
Definition interp (x : R) (t : list (R * R)) : R :=
  match t with
  | [] => 0
  | (x0, y0) :: r => if Rle_dec x x0 then y0 else interp_from x x0 y0 r
  end.

(* natural Lu has no table of its own: abundance-weighted mix of Lu-175 (constant) and Lu-176 *)
Definition abundance_mix (b175 a175 b176 a176 : R) : R := (b175 * a175 + b176 * a176) / 100.

(* ------------------------------------------------------------------ energy, wavelength, velocity *)
(* E = 1/2 m_n v^2 = h^2/(2 m_n lambda^2),  lambda = h/(m_n v); with h in eV s, the charge e in
   J/eV, m_n in u and u in kg:  E (meV) = (h e)^2/(2 m_n lambda_m^2) / e . 1000, lambda_m = 10^-10 lambda_A *)
Section Conversions.
  Variables h e m_n u : R.
  Definition energy_factor : R := (h * h * e) / (2 * (m_n * u)) * (10 ^ 20) * 1000.
  Definition velocity_factor : R := (h * e) / (m_n * u) * (10 ^ 10).
  Definition wavelength_of_energy (E : R) : R := sqrt (energy_factor / E).
  Definition energy_of_wavelength (lam : R) : R := energy_factor / (lam * lam).
  Definition wavelength_of_velocity (v : R) : R := velocity_factor / v.
  Definition velocity_of_wavelength (lam : R) : R := velocity_factor / lam.
End Conversions.

(* ================================================================== the same, as expressions *)
Record compE := mkCE { ce_n : Q; ce_m : Q; ce_re : expr; ce_im : expr; ce_ss : expr }.

Definition cq (q : Q) : expr := ECst q.
Definition E_A_per_fm : expr := cq (1 # 100000).
Definition E_micro : expr := ez 1000000.
Definition E_A2_per_barn : expr := cq (1 # 100000000).
Definition E_A_per_cm : expr := ez 100000000.
Definition E_fm2_per_barn : expr := ez 100.
Definition E_lambda_0 : expr := cq (1798 # 1000).
Definition emax0 (x : expr) : expr := EDiv (EAdd x (EAbs x)) (ez 2).

Definition sumE (f : compE -> expr) (l : list compE) : expr :=
  fold_right (fun c acc => EAdd (f c) acc) (ez 0) l.

Definition E_im_of_absorption (sigma_ak : expr) : expr :=
  EDiv (ENeg sigma_ak) (EMul (EMul (ez 1000) (ez 2)) E_lambda_0).
Definition E_sigma_s_of_b (re im : expr) : expr :=
  EDiv (EMul (EMul (ez 4) EPi) (EAdd (EMul re re) (EMul im im))) E_fm2_per_barn.

Section EquationsE.
  Variable N_A : Q.
  Variable l : list compE.
  Variable rho : Q.
  Variable lambda : expr.
  Definition E_molar_mass := sumE (fun c => EMul (cq (ce_n c)) (cq (ce_m c))) l.
  Definition E_cell_volume :=
    EMul (EMul (EDiv E_molar_mass (cq rho)) (EDiv (ez 1) (cq N_A))) (EMul (EMul E_A_per_cm E_A_per_cm) E_A_per_cm).
  Definition E_n_total := sumE (fun c => cq (ce_n c)) l.
  Definition E_number_density := EDiv E_n_total E_cell_volume.
  Definition E_b_re := EDiv (sumE (fun c => EMul (cq (ce_n c)) (ce_re c)) l) E_n_total.
  Definition E_b_im := EDiv (sumE (fun c => EMul (cq (ce_n c)) (ce_im c)) l) E_n_total.
  Definition E_sigma_c :=
    EDiv (EMul (EMul (ez 4) EPi) (EAdd (EMul E_b_re E_b_re) (EMul E_b_im E_b_im))) E_fm2_per_barn.
  Definition E_wavenumber := EDiv (EMul (ez 2) EPi) lambda.
  Definition E_sigma_a := EDiv (ENeg (EMul (EMul (EMul (ez 1000) (ez 4)) EPi) E_b_im)) E_wavenumber.
  Definition E_sigma_s := EDiv (sumE (fun c => EMul (cq (ce_n c)) (ce_ss c)) l) E_n_total.
  Definition E_sigma_i := emax0 (ESub E_sigma_s E_sigma_c).
  Definition E_rho_re := EMul (EMul (EMul E_number_density E_b_re) E_A_per_fm) E_micro.
  Definition E_rho_im :=
    EMul (EDiv (EMul (EMul E_number_density E_sigma_a) E_A2_per_barn) (EMul (ez 2) lambda)) E_micro.
  Definition E_rho_inc :=
    EMul (EMul (EMul E_number_density (ESqrt (EMul (EDiv E_sigma_i (EMul (ez 4) EPi)) E_fm2_per_barn))) E_A_per_fm) E_micro.
  Definition E_Sigma (sigma : expr) := EMul (EMul (EMul E_number_density sigma) E_A2_per_barn) E_A_per_cm.
  Definition E_t_u := EDiv (ez 1) (EAdd (E_Sigma E_sigma_s) (E_Sigma E_sigma_a)).
  Definition E_outputs : list expr :=
    [E_rho_re; E_rho_im; E_rho_inc; E_Sigma E_sigma_c; E_Sigma E_sigma_a; E_Sigma E_sigma_i; E_t_u].
  (* the square of rho_inc (compared in the squared domain: sqrt is ill-conditioned at 0) *)
  Definition E_rho_inc_sq :=
    EMul (EMul (EMul E_number_density E_number_density) (EMul (EDiv E_sigma_i (EMul (ez 4) EPi)) E_fm2_per_barn))
         (EMul (EMul E_A_per_fm E_micro) (EMul E_A_per_fm E_micro)).
End EquationsE.

Definition evalC (c : compE) : comp :=
  mkC (Q2R (ce_n c)) (Q2R (ce_m c)) (evalR no_env_R (ce_re c)) (evalR no_env_R (ce_im c)) (evalR no_env_R (ce_ss c)).

(* interpolation, expression reading: the abscissae are square roots (wavelengths of tabulated
   energies), so which segment holds x is decided exactly on rationals by the caller
   ([lt n] decides x < x_n, [le n] decides x <= x_n); a node is (key, x_j : expr, y_j : Q) *)
Definition Qltb (x y : Q) : bool := negb (Qle_bool y x).
Definition enode := (Q * expr * Q)%type.
Fixpoint E_interp_from (lt : enode -> bool) (x : expr) (x0 : expr) (y0 : Q) (rest : list enode) : expr :=
  match rest with
  | [] => cq y0
  | (k1, x1, y1) :: r =>
      if lt (k1, x1, y1) then EAdd (cq y0) (EMul (ESub (cq y1) (cq y0)) (EDiv (ESub x x0) (ESub x1 x0)))
      else E_interp_from lt x x1 y1 r
  end.
Definition E_interp (le lt : enode -> bool) (x : expr) (t : list enode) : expr :=
  match t with
  | [] => ez 0
  | (k0, x0, y0) :: r => if le (k0, x0, y0) then cq y0 else E_interp_from lt x x0 y0 r
  end.
Definition E_abundance_mix (b175 : expr) (a175 : Q) (b176 : expr) (a176 : Q) : expr :=
  EDiv (EAdd (EMul b175 (cq a175)) (EMul b176 (cq a176))) (ez 100).

(* conversions on rationals (all the constants are decimal numbers) *)
Definition energy_factor_Q (h e m_n u : Q) : Q := ((h * h * e) / (2 * (m_n * u)) * inject_Z (10 ^ 20) * 1000)%Q.
Definition velocity_factor_Q (h e m_n u : Q) : Q := ((h * e) / (m_n * u) * inject_Z (10 ^ 10))%Q.
