(* Spec/NeutronData.v — the documented equations instantiated on the tabulated data: for one kind of
   atom of a compound and one wavelength, the quantities the documentation prescribes
   (Re b_c = tabulated b_c, Im b_c = -absorption/(1000*2*1.798), sigma_s = tabulated total; for the
   energy-dependent rare earths b_c interpolated in the table by wavelength with the end values
   outside, sigma_s = 4 pi |b_c|^2/100; natural Lu = abundance mix of Lu-175 and interpolated Lu-176),
   and "has neutron data".  Two readings as in Spec/Neutron.v: expressions (to run) and reals
   (what the theorems are about); Proofs/C03Data.v proves that they agree.

   The data themselves ([ndata]: records of the neutron table as loaded by the model of nsf.init,
   masses, abundances) are those of Model/Nsf.v / Model/AtomEnv.v, which C06/C07 tie to the table text. *)
From Coq Require Import Reals ZArith QArith Qreals Qabs String List Bool.
From PT Require Import Str Dec Loaders Formula AtomEnv Nsf IExpr Neutron NsfCalc.
From PT.Gen Require Import Constants.
Import ListNotations.

(* ------------------------------------------------------------------ constants of the documentation *)
Definition H_Q : Q := q_or_0 (parse_dec plancks_constant_text).
Definition EV_Q : Q := q_or_0 (parse_dec electron_volt_text).
Definition MN_Q : Q := q_or_0 (parse_dec neutron_mass_text).
Definition U_Q : Q := q_or_0 (parse_dec atomic_mass_constant_text).
Definition EF_spec : Q := Qred (energy_factor_Q H_Q EV_Q MN_Q U_Q).
Definition VF_spec : Q := Qred (velocity_factor_Q H_Q EV_Q MN_Q U_Q).

(* b_c of Eu-151 is not tabulated; nsf.init documents the estimate sqrt(coherent/(4 pi/100)) *)
Definition spec_num (n : num) : expr :=
  match n with
  | NRead q | NCalc q => cq q
  | NSqrt4pi c => ESqrt (EDiv (cq c) (EDiv (EMul (ez 4) EPi) (ez 100)))
  end.

Definition spec_wl_expr (w : wl) : expr :=
  match w with WLam q => cq q | WEn e => ESqrt (EDiv (cq EF_spec) (cq e)) end.
(* wavelength of a tabulated energy (eV): sqrt(EF/(1000 E)); the key of a node is its energy in
   meV, the key of the query is E = EF/lambda^2:  lambda < lambda_j  <=>  1000 E_j < E *)
Definition spec_key (w : wl) : Q :=
  match w with WLam q => (EF_spec / (q * q))%Q | WEn e => e end.
Definition spec_node_x (e : Q) : expr := ESqrt (EDiv (cq EF_spec) (EMul (ez 1000) (cq e))).
Definition re_nodes (rows : list erow) : list enode :=
  map (fun r => match r with (e, re, _) => ((1000 * e)%Q, spec_node_x e, re) end) rows.
Definition im_nodes (rows : list erow) : list enode :=
  map (fun r => match r with (e, _, im) => ((1000 * e)%Q, spec_node_x e, im) end) rows.
Definition spec_lt (k : Q) (n : enode) : bool := Qltb (fst (fst n)) k.
Definition spec_le (k : Q) (n : enode) : bool := Qle_bool (fst (fst n)) k.
Definition spec_interp (k : Q) (x : expr) (t : list enode) : expr := E_interp (spec_le k) (spec_lt k) x t.

(* "has neutron data": a bound coherent scattering length is tabulated *)
Definition spec_has_data (D : ndata) (a : atom) : bool := is_someb (r_bc (nd_rec D (az a) (aa a))).

(* the per-atom quantities of the documentation at the wavelength *)
Definition spec_atom (D : ndata) (w : wl) (p : atom * Q) : option compE :=
  let a := fst p in
  let r := nd_rec D (az a) (aa a) in
  let m := Qred (e_mass (nd_env D) a) in
  let x := spec_wl_expr w in
  let sq := spec_key w in
  match r_tab r with
  | None =>
      match r_bc r, r_abs r, r_tot r with
      | Some b, Some ab, Some t =>
          Some (mkCE (snd p) m (spec_num b) (E_im_of_absorption (cq ab)) (spec_num t))
      | _, _, _ => None
      end
  | Some (ETab rows) =>
      let re := spec_interp sq x (re_nodes rows) in
      let im := spec_interp sq x (im_nodes rows) in
      Some (mkCE (snd p) m re im (E_sigma_s_of_b re im))
  | Some ELuNat =>
      let z := nd_lu D in
      let r175 := nd_rec D z 175 in
      match r_bc r175, r_abs r175, r_tab (nd_rec D z 176), nd_abund D z 175, nd_abund D z 176 with
      | Some b, Some ab, Some (ETab rows), Some a175, Some a176 =>
          let re := E_abundance_mix (spec_num b) a175 (spec_interp sq x (re_nodes rows)) a176 in
          let im := E_abundance_mix (E_im_of_absorption (cq ab)) a175 (spec_interp sq x (im_nodes rows)) a176 in
          Some (mkCE (snd p) m re im (E_sigma_s_of_b re im))
      | _, _, _, _, _ => None
      end
  end.

(* per wavelength: the components of the unit cell, the density and the wavelength expression *)
Inductive spec_outcome := SNone | SVals (v : list (option (list compE))) (rho : Q) | SRaise.

Definition spec_compound (D : ndata) (s : struct) (density natural_density : option Q) (ws : list wl)
  : spec_outcome :=
  match density_of_compound D s density natural_density with
  | None => SRaise
  | Some rho =>
      let d := atoms_of s in
      if negb (forallb (fun p => spec_has_data D (fst p)) d) then SNone else
      SVals (map (fun w => all_some (map (spec_atom D w) d)) ws) rho
  end.


(* the density of the calculation when the compound is a formula object with a density of its own:
   density= is the mass density, natural_density= the density with natural abundances; only when
   neither is given the formula's own density is used *)
Definition spec_density_args (own density natural_density : option Q) : option Q * option Q :=
  match natural_density, density with
  | Some nd, _ => (density, Some nd)
  | None, Some r => (Some r, None)
  | None, None => (own, None)
  end.

(* ================================================================== the same over R *)
Open Scope R_scope.
Definition EF_R : R := Q2R EF_spec.
Definition num_R (n : num) : R :=
  match n with
  | NRead q | NCalc q => Q2R q
  | NSqrt4pi c => sqrt (Q2R c / (4 * PI / 100))
  end.
(* wavelength of the call: wavelength= itself, or sqrt(EF/energy) *)
Definition wl_R (w : wl) : R :=
  match w with WLam q => Q2R q | WEn e => sqrt (EF_R / Q2R e) end.
(* wavelength of a tabulated energy (eV) *)
Definition node_x_R (e : Q) : R := sqrt (EF_R / (1000 * Q2R e)).
Definition re_nodes_R (rows : list erow) : list (R * R) :=
  map (fun r => match r with (e, re, _) => (node_x_R e, Q2R re) end) rows.
Definition im_nodes_R (rows : list erow) : list (R * R) :=
  map (fun r => match r with (e, _, im) => (node_x_R e, Q2R im) end) rows.

Definition tab_comp (D : ndata) (w : wl) (p : atom * Q) : option comp :=
  let a := fst p in
  let r := nd_rec D (az a) (aa a) in
  let n := Q2R (snd p) in
  let m := Q2R (e_mass (nd_env D) a) in
  let x := wl_R w in
  match r_tab r with
  | None =>
      match r_bc r, r_abs r, r_tot r with
      | Some b, Some ab, Some t => Some (mkC n m (num_R b) (im_of_absorption (Q2R ab)) (num_R t))
      | _, _, _ => None
      end
  | Some (ETab rows) =>
      let re := interp x (re_nodes_R rows) in
      let im := interp x (im_nodes_R rows) in
      Some (mkC n m re im (sigma_s_of_b re im))
  | Some ELuNat =>
      let z := nd_lu D in
      let r175 := nd_rec D z 175 in
      match r_bc r175, r_abs r175, r_tab (nd_rec D z 176), nd_abund D z 175, nd_abund D z 176 with
      | Some b, Some ab, Some (ETab rows), Some a175, Some a176 =>
          let re := abundance_mix (num_R b) (Q2R a175) (interp x (re_nodes_R rows)) (Q2R a176) in
          let im := abundance_mix (im_of_absorption (Q2R ab)) (Q2R a175) (interp x (im_nodes_R rows)) (Q2R a176) in
          Some (mkC n m re im (sigma_s_of_b re im))
      | _, _, _, _, _ => None
      end
  end.

(* the unit cell of a compound at one wavelength *)
Definition tab_cell (D : ndata) (w : wl) (d : dict) : option (list comp) := all_some (map (tab_comp D w) d).
