(* Model/ActEval.v — interval evaluation of IExpr.expr with Coq-Interval's BigZ-backed floats
   (25x faster than the StdZ instance of Analytic/IExpr.v at 300 bits, and exponents of any size
   stay small numbers), and the decision "this closed real expression is >= 0 / > 0" taken on the
   enclosure without ever converting it to a rational.  Soundness is proved in Proofs/ActEvalSound.v.
   Same expression type and same meaning (evalR / evalX) as Analytic/IExpr.v. *)
From Coq Require Import Reals ZArith QArith List Bool.
From Interval Require Import Specific_bigint Specific_ops Float_full Interval Xreal Basic.
From Bignums Require Import BigZ.
From PT Require Import Dec IExpr.
Import ListNotations.

Module FB := SpecificFloat BigIntRadix2.
Module IB := FloatIntervalFull FB.

(* exp of an argument surely below -100000 is widened to [0, 2^-100000]: adding such a number to an
   ordinary one would otherwise align mantissas over billions of bits.  Widening is sound whatever
   the test says (hull with two more points). *)
Definition TINY_IV : IB.type :=
  Float.Ibnd (Specific_ops.Float (BigZ.of_Z 1) (BigZ.of_Z (-100000))) (Specific_ops.Float (BigZ.of_Z 1) (BigZ.of_Z (-100000))).
Definition widen_tiny (prec : FB.precision) (ia e : IB.type) : IB.type :=
  match IB.sign_strict (IB.add prec ia (IB.fromZ prec 100000)) with
  | Xlt => IB.join (IB.join e TINY_IV) IB.zero
  | _ => e
  end.

Fixpoint evalB (prec : FB.precision) (ienv : nat -> IB.type) (e : expr) : IB.type :=
  match e with
  | EVar n => ienv n
  | ECst q => IB.div prec (IB.fromZ prec (Qnum q)) (IB.fromZ prec (Zpos (Qden q)))
  | EPi => IB.pi prec
  | EAdd a b => IB.add prec (evalB prec ienv a) (evalB prec ienv b)
  | ESub a b => IB.sub prec (evalB prec ienv a) (evalB prec ienv b)
  | EMul a b => IB.mul prec (evalB prec ienv a) (evalB prec ienv b)
  | EDiv a b => IB.div prec (evalB prec ienv a) (evalB prec ienv b)
  | ENeg a => IB.neg (evalB prec ienv a)
  | EAbs a => IB.abs (evalB prec ienv a)
  | ESqrt a => IB.sqrt prec (evalB prec ienv a)
  | ESqr a => IB.sqr prec (evalB prec ienv a)
  | EExp a => let ia := evalB prec ienv a in widen_tiny prec ia (IB.exp prec ia)
  | ELn a => IB.ln prec (evalB prec ienv a)
  | ECos a => IB.cos prec (evalB prec ienv a)
  | ESin a => IB.sin prec (evalB prec ienv a)
  | EPow a n => IB.power_int prec (evalB prec ienv a) n
  end.

Definition no_env_B : nat -> IB.type := fun _ => IB.fromZ (FB.PtoP 30) 0.

(* the activation expressions mention ln 2 many times: it is variable 0 (every variable) of their
   environment, enclosed once per evaluation *)
Definition ln2_env_R : nat -> R := fun _ => ln 2.
Definition ln2_env_B (prec : FB.precision) : nat -> IB.type :=
  let l := IB.ln prec (IB.fromZ prec 2) in fun _ => l.

(* three-valued verdict on the sign of an expression (closed, or over ln2_env_R) at one precision *)
Inductive sgn := SPos (* proved > 0 *) | SNonneg (* proved >= 0 *) | SNeg (* proved < 0 *) | SUnknown.

Definition sign_at (p : positive) (e : expr) : sgn :=
  let i := evalB (FB.PtoP p) (ln2_env_B (FB.PtoP p)) e in
  match IB.sign_strict i with
  | Xgt => SPos
  | Xlt => SNeg
  | _ => match IB.sign_large i with
         | Xgt | Xeq => SNonneg
         | _ => SUnknown
         end
  end.

(* precision ladder: cheap first *)
Definition sign_of (e : expr) : sgn :=
  match sign_at 90 e with
  | SUnknown => match sign_at 240 e with
                | SUnknown => sign_at 700 e
                | s => s
                end
  | s => s
  end.

Definition is_ge0 (s : sgn) : bool := match s with SPos | SNonneg => true | _ => false end.
Definition is_lt0 (s : sgn) : bool := match s with SNeg => true | _ => false end.

(* |py - v| <= 2^tp * |scale| + floor, as a sign question *)
Definition slack (tp : Z) (py : Q) (v scale : expr) (floor : Q) : expr :=
  ESub (EAdd (EMul (ECst (D2Q 1 tp)) (EAbs scale)) (ECst floor)) (EAbs (ESub (ECst py) v)).
