(* Model/TableEnv.v — the parser's view of the periodic table, from the regenerated data. *)
From Coq Require Import ZArith QArith String List Bool.
From PT Require Import Str Dec Py Loaders Formula FormulaMachine C06Check AtomEnv Pyparse.
From PT.Gen Require Import ElementBase.
Import ListNotations.
Open Scope string_scope.

Definition eb_ions (eb : ebase) (z : Z) : list Z :=
  match find (fun r => match r with (z', _, _, _, _) => Z.eqb z z' end) eb with
  | Some (_, _, _, i, u) => (i ++ u)%list
  | None => []
  end.

Definition symtab_of (eb : ebase) (s : string) : option (Z * Z) :=
  if String.eqb s "D" then Some (1, 2)%Z
  else if String.eqb s "T" then Some (1, 3)%Z
  else match eb_number eb s with Some z => Some (z, 0%Z) | None => None end.

Definition ptable_with (ot : option tbl) : ptable :=
  mkPT (symtab_of element_base)
       (fun z a => match ot with
                   | Some t => match tget t z a with Some _ => negb (Z.eqb a 0) | None => false end
                   | None => false
                   end)
       (fun z q => existsb (Z.eqb q) (eb_ions element_base z)).
Definition the_ptable : ptable := ptable_with the_tbl.

Inductive presult := ROk (f : fobj) | RErr (e : err).

(* parse_formula(s) for the compound alternative, then StringEnd *)
Definition parse_compound (E : aenv) (T : ptable) (s : string) : option presult :=
  match p_compound T s with
  | POk (st, d) r =>
      if at_end r then
        Some (ROk (match d with
                   | DNone => new_formula E st KTuple None None None
                   | DIso x => new_formula E st KTuple (Some x) None None
                   | DNat x => new_formula E st KTuple None (Some x) None
                   end))
      else Some (RErr ParseErr)
  | PFail => None              (* the mixture alternatives are tried next *)
  | PAbort e => Some (RErr e)
  end.
