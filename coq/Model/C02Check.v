(* Model/C02Check.v — compares the heap/variable snapshots of the implementation after every
   step of a program with the FormulaMachine model. *)
From Coq Require Import ZArith QArith Qabs String List Bool.
From PT Require Import Str Dec Py Loaders Formula FormulaMachine AtomEnv Printer Pyparse TableEnv Mixture PyparseMix Density.
From PT.Gen Require Import ElementBase.
Import ListNotations.
Open Scope Q_scope.

(* one variable as observed: var, id()-class, structure, is_list, density, name, mass, charge *)
Record vobs := mkV {
  o_var : nat; o_class : nat; o_struct : struct; o_list : bool;
  o_density : pyval; o_name : option string; o_mass : pyval; o_charge : pyval;
  o_fracsum : pyval;
  o_str : string;               (* str(f), read after every step (so any cache is exercised) *)
  o_hill : struct               (* f.hill.structure *)
}.

Definition penv0 : penv := mkPenv (sym_of element_base).

Fixpoint frag_close (x y : frag) : bool :=
  match x, y with
  | FAtom a, FAtom b => atom_eqb a b
  | FGroup l, FGroup m =>
      (fix go (l m : list (Q * frag)) : bool :=
         match l, m with
         | [], [] => true
         | (c, f) :: r, (c', f') :: r' => (Qrel (-40) c c' && frag_close f f' && go r r')%bool
         | _, _ => false
         end) l m
  | _, _ => false
  end.

Definition chk_optQ (v : pyval) (q : option Q) : bool :=
  match q with
  | Some x => match py_Q v with Some p => Qrel (-40) p x | None => false end
  | None => match v with PNone => true | _ => false end
  end.

Definition opt_str_eqb (a b : option string) : bool :=
  match a, b with
  | None, None => true
  | Some x, Some y => String.eqb x y
  | _, _ => false
  end.

(* |v - q| <= 2^-40 * scale *)
Definition chk_scaled (v : pyval) (q scale : Q) : bool :=
  match py_Q v with Some p => Qclose (-40) scale p q || Qeq_bool p q | None => false end.

Definition abs_charge (d : dict) : Q := dweight (fun a => Qabs (inject_Z (aq a))) d.

Definition check_var (E : aenv) (exact : bool) (s : state) (o : vobs) : bool :=
  match var_get s (o_var o) with
  | Some ob =>
      match obj_get s ob with
      | Some f =>
          (if exact then struct_eqb (f_struct f) (o_struct o) else frag_close (FGroup (f_struct f)) (FGroup (o_struct o)))
          && Bool.eqb (match f_kind f with KList => true | KTuple => false end) (o_list o)
          && chk_optQ (o_density o) (f_density f)
          && opt_str_eqb (f_name f) (o_name o)
          && chk_scaled (o_mass o) (f_mass E f) (f_mass E f)
          && chk_scaled (o_charge o) (f_charge f) (abs_charge (f_atoms f))
          && (match o_fracsum o with PNone => Qeq_bool (f_mass E f) 0 | v => chk_scaled v 1 1 end)
          && (if exact then String.eqb (str_formula penv0 f) (o_str o) else true)
          && (if exact then struct_eqb (f_struct (f_hill E f)) (o_hill o)
              else frag_close (FGroup (f_struct (f_hill E f))) (FGroup (o_hill o)))
      | None => false
      end
  | None => false
  end.

(* same aliasing partition *)
Definition alias_ok (s : state) (obs : list vobs) : bool :=
  forallb (fun a => forallb (fun b =>
    Bool.eqb (Nat.eqb (o_class a) (o_class b))
             (match var_get s (o_var a), var_get s (o_var b) with
              | Some x, Some y => Nat.eqb x y | _, _ => false end)) obs) obs.

Definition check_snapshot (E : aenv) (exact : bool) (os : option state) (obs : list vobs) : bool :=
  match os with
  | Some s => (Nat.eqb (length (vars s)) (length obs) && forallb (check_var E exact s) obs && alias_ok s obs)%bool
  | None => false
  end.

(* programs may also build formulas from strings: formula(s, density=, natural_density=, name=) *)
Inductive xop :=
| XO (o : op)
| XParse (v : nat) (s : string) (density natural_density : option Q) (name : option string).

Definition xstep (E : aenv) (T : ptable) (s : state) (x : xop) : option state :=
  match x with
  | XO o => step E s o
  | XParse v str d nd name =>
      match parse_formula E T str with
      | RMOk m =>
          let f := string_keywords E (m_f m) d nd in
          let f' := match name with
                    | Some n => if String.eqb n "" then f else mkF (f_struct f) (f_kind f) (f_density f) (Some n)
                    | None => f
                    end in
          Some (alloc s v f')
      | RMErr _ => None
      end
  end.

Fixpoint xtrace (E : aenv) (T : ptable) (s : state) (ops : list xop) : list (option state) :=
  match ops with
  | [] => []
  | o :: r => match xstep E T s o with
              | Some s' => Some s' :: xtrace E T s' r
              | None => [None]
              end
  end.

Definition c02case := (bool * list xop * list (list vobs))%type.

Fixpoint zip_check (E : aenv) (exact : bool) (tr : list (option state)) (obs : list (list vobs)) : bool :=
  match tr, obs with
  | [], [] => true
  | t :: tr', o :: obs' => (check_snapshot E exact t o && zip_check E exact tr' obs')%bool
  | _, _ => false
  end.

Definition check_case (E : aenv) (T : ptable) (c : c02case) : bool :=
  let '(exact, ops, obs) := c in zip_check E exact (xtrace E T init_state ops) obs.

Definition check_all_with (E : aenv) (T : ptable) (cases : list c02case) : list bool := map (check_case E T) cases.
Definition check_all := check_all_with the_env the_ptable.

(* index of the first step whose snapshot disagrees *)
Fixpoint first_bad (E : aenv) (exact : bool) (tr : list (option state)) (obs : list (list vobs)) (i : N) : string :=
  match tr, obs with
  | [], [] => "none"
  | t :: tr', o :: obs' => if check_snapshot E exact t o then first_bad E exact tr' obs' (i + 1)%N
                           else ("step " ++ N_to_string i)%string
  | _, _ => "length"
  end.
Definition diag_all_with (E : aenv) (T : ptable) (cases : list c02case) : list string :=
  map (fun c => let '(exact, ops, obs) := c in first_bad E exact (xtrace E T init_state ops) obs 0%N) cases.
Definition diag_all := diag_all_with the_env the_ptable.
