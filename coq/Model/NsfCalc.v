(* Model/NsfCalc.v — code-shaped model of the neutron calculators of periodictable.nsf:
   neutron_wavelength / neutron_energy / neutron_wavelength_from_velocity, ENERGY_FACTOR,
   VELOCITY_FACTOR, _4PI_100 (read from the regenerated source expressions),
   Neutron.scattering_by_wavelength (numpy.interp with end clamping on the wavelength-ordered
   table, the natural-Lu mix of energy_dependent_init), Neutron.scattering / .sld (element and
   isotope queried directly, through the element's number density), neutron_scattering /
   neutron_sld (density from density= or natural_density=, the None path, the vacuum branch,
   sums in dict order), _calculate_scattering.

   Numbers: every real quantity is an IExpr expression (meaning: evalR; run: interval enclosure).
   Piecewise decisions (which table segment, clamping, vacuum) are taken on exact rationals
   before the expression is built.  No proofs here. *)
From Coq Require Import ZArith QArith Qabs String Ascii List Bool FMapPositive.
From PT Require Import Str Dec Py Loaders Formula AtomEnv C06Check Nsf C07Check IExpr Neutron.
From PT.Gen Require Import Constants NsfTables NeutronConsts ElementBase.
Import ListNotations.
Open Scope string_scope.

(* ------------------------------------------------------------------ module constants *)

Definition const_of (name : string) : option Q :=
  if String.eqb name "plancks_constant" then parse_dec plancks_constant_text
  else if String.eqb name "electron_volt" then parse_dec electron_volt_text
  else if String.eqb name "neutron_mass" then parse_dec neutron_mass_text
  else if String.eqb name "atomic_mass_constant" then parse_dec atomic_mass_constant_text
  else if String.eqb name "avogadro_number" then parse_dec avogadro_number_text
  else None.

(* prefix-notation arithmetic as emitted by tools/gens/neutron_c03.py *)
Fixpoint prefix_expr (fuel : nat) (toks : list string) : option (expr * list string) :=
  match fuel with
  | O => None
  | S k =>
      match toks with
      | [] => None
      | t :: r =>
          if (String.eqb t "*" || String.eqb t "/")%bool then
            do p1 <- prefix_expr k r;
            do p2 <- prefix_expr k (snd p1);
            Some ((if String.eqb t "*" then EMul (fst p1) (fst p2) else EDiv (fst p1) (fst p2)), snd p2)
          else if String.eqb t "**" then
            do p1 <- prefix_expr k r;
            match snd p1 with
            | n :: r2 => do z <- parse_int n; Some (EPow (fst p1) z, r2)
            | [] => None
            end
          else if String.eqb t "pi" then Some (EPi, r)
          else match parse_dec t with
               | Some q => Some (ECst q, r)
               | None => do q <- const_of t; Some (ECst q, r)
               end
      end
  end.

Definition read_prefix (toks : list string) : option expr :=
  match prefix_expr 64 toks with
  | Some (e, []) => Some e
  | _ => None
  end.

(* value of a pi-free expression *)
Fixpoint expr_Q (e : expr) : option Q :=
  match e with
  | ECst q => Some q
  | EMul a b => do x <- expr_Q a; do y <- expr_Q b; Some (Qred (x * y))
  | EDiv a b => do x <- expr_Q a; do y <- expr_Q b; if Qeq_bool y 0 then None else Some (Qred (x / y))
  | EPow a n => do x <- expr_Q a; Some (Qred (Qpower x n))
  | _ => None
  end.

Definition q_or_0 (o : option Q) : Q := match o with Some q => q | None => 0%Q end.

Definition EF_src : option expr := read_prefix ENERGY_FACTOR_prefix.
Definition VF_src : option expr := read_prefix VELOCITY_FACTOR_prefix.
Definition EF : Q := q_or_0 (bind EF_src expr_Q).          (* ENERGY_FACTOR, meV A^2 *)
Definition VF : Q := q_or_0 (bind VF_src expr_Q).          (* VELOCITY_FACTOR, A m/s *)
Definition FOURPI_100 : expr := match read_prefix FOURPI_100_prefix with Some e => e | None => ECst 0 end.
Definition NAq : Q := q_or_0 (parse_dec avogadro_number_text).
Definition ABS_WL : Q := q_or_0 (parse_dec ABSORPTION_WAVELENGTH_text).

Definition is_someb {A} (o : option A) : bool := match o with Some _ => true | None => false end.
(* the regenerated constants are readable and have the expected signs/shape *)
Definition consts_ok : bool :=
  (is_someb (bind EF_src expr_Q) && is_someb (bind VF_src expr_Q)
   && Qlt_bool 0 EF && Qlt_bool 0 VF && Qlt_bool 0 NAq && Qlt_bool 0 ABS_WL
   && is_someb (read_prefix FOURPI_100_prefix))%bool.

(* ------------------------------------------------------------------ wavelength argument *)
(* wavelength=q (A) or energy=e (meV): neutron_wavelength(energy) = sqrt(ENERGY_FACTOR/energy) *)
Inductive wl := WLam (q : Q) | WEn (e : Q).

Definition neutron_wavelength_E (e : Q) : expr := ESqrt (EDiv (cq EF) (cq e)).
Definition neutron_energy_E (lam : expr) : expr := EDiv (cq EF) (EPow lam 2).
Definition neutron_wavelength_from_velocity_E (v : Q) : expr := EDiv (cq VF) (cq v).

Definition wl_expr (w : wl) : expr :=
  match w with WLam q => cq q | WEn e => neutron_wavelength_E e end.
(* the energy (meV) that corresponds to the wavelength argument, exactly: E = EF/lambda^2
   (all the piecewise decisions use it: for positive quantities
    lambda < lambda_j = sqrt(EF/(1000 e_j))  <=>  1000 e_j < E) *)
Definition wl_en (w : wl) : Q :=
  match w with WLam q => (EF / (q * q))%Q | WEn e => e end.

(* ------------------------------------------------------------------ table data *)
Record ndata := mkND {
  nd_rec : Z -> Z -> nrec;          (* atom.neutron of the element / isotope (Z, A) *)
  nd_numdens : Z -> option Q;       (* element.number_density, atoms/cm^3 *)
  nd_abund : Z -> Z -> option Q;    (* isotope.abundance of the mass table (%), for the Lu mix *)
  nd_lu : Z;                        (* atomic number of Lu *)
  nd_env : aenv                     (* masses and densities *)
}.

Definition numdens_of (t : tbl) (d : dens) (z : Z) : option Q :=
  match density_of t d z 0, mass_of t z 0 with
  | Val r, Val m => if Qeq_bool m 0 then None else Some (Qred (r / m * NAq))
  | _, _ => None
  end.

Definition nd_with (os : option st) (ot : option tbl) (od : option dens) : ndata :=
  match os, ot, od with
  | Some s, Some t, Some d =>
      mkND (neutron_of s) (numdens_of t d)
           (fun z a => match abund_of t z a with Val p => Some p | _ => None end)
           (match eb_number element_base "Lu" with Some z => z | None => 0%Z end)
           (env_with ot od)
  | _, _, _ => mkND (fun _ _ => missing_rec) (fun _ => None) (fun _ _ => None) 0%Z (env_with None None)
  end.
Definition the_nd : ndata := nd_with the_nsf the_tbl the_dens.

(* ------------------------------------------------------------------ scattering_by_wavelength *)

Definition num_expr (n : num) : expr :=
  match n with
  | NRead q => cq q
  | NCalc q => cq q
  | NSqrt4pi c => ESqrt (EDiv (cq c) FOURPI_100)
  end.

(* energy_dependent_init for natural Lu: bc_nat = (bc_175*Lu175.abundance + bc_176*Lu176.abundance)/100,
   node by node on the table of Lu-176 *)
Definition lu_rows (D : ndata) : option (list erow) :=
  let z := nd_lu D in
  match r_bcc (nd_rec D z 175), r_tab (nd_rec D z 176), nd_abund D z 175, nd_abund D z 176 with
  | Some (Some (NRead re175), im175), Some (ETab rows), Some a175, Some a176 =>
      Some (map (fun r => match r with
                          | (e, re, im) => (e, Qred ((re175 * a175 + re * a176) / 100),
                                               Qred ((im175 * a175 + im * a176) / 100))
                          end) rows)
  | _, _, _, _ => None
  end.

(* nsf_table of the atom: outer None = the model cannot build it, inner None = no table *)
Definition rows_of (D : ndata) (z a : Z) : option (option (list erow)) :=
  match r_tab (nd_rec D z a) with
  | None => Some None
  | Some (ETab rows) => Some (Some rows)
  | Some ELuNat => match lu_rows D with Some rows => Some (Some rows) | None => None end
  end.

(* abscissae of the table: neutron_wavelength(asarray(energy)*1000), energy in eV *)
Definition node_expr (e : Q) : expr := ESqrt (EDiv (cq EF) (EMul (cq e) (ez 1000))).
(* x < xp[j] and x <= xp[j], decided exactly on the energies *)
Definition lt_node (en e : Q) : bool := Qlt_bool (e * 1000) en.
Definition le_node (en e : Q) : bool := Qle_bool (e * 1000) en.

(* numpy.interp(x, xp, fp): fp[0] left of the table, fp[-1] right of it, otherwise on the segment
   xp[j] <= x < xp[j+1]:  slope*(x - xp[j]) + fp[j],  slope = (fp[j+1]-fp[j])/(xp[j+1]-xp[j]) *)
Inductive seg := SConst (re im : Q) | SLin (e0 e1 : Q) (re0 im0 re1 im1 : Q).

Fixpoint locate_from (en : Q) (e0 re0 im0 : Q) (rest : list erow) : seg :=
  match rest with
  | [] => SConst re0 im0
  | (e1, re1, im1) :: r =>
      if lt_node en e1 then SLin e0 e1 re0 im0 re1 im1
      else locate_from en e1 re1 im1 r
  end.

Definition locate (en : Q) (rows : list erow) : option seg :=
  match rows with
  | [] => None
  | (e0, re0, im0) :: r =>
      Some (if le_node en e0 then SConst re0 im0 else locate_from en e0 re0 im0 r)
  end.

Definition lin (x x0 x1 : expr) (y0 y1 : Q) : expr :=
  EAdd (EMul (EDiv (ESub (cq y1) (cq y0)) (ESub x1 x0)) (ESub x x0)) (cq y0).

Definition seg_re (x : expr) (s : seg) : expr :=
  match s with
  | SConst re _ => cq re
  | SLin e0 e1 re0 _ re1 _ => lin x (node_expr e0) (node_expr e1) re0 re1
  end.
Definition seg_im (x : expr) (s : seg) : expr :=
  match s with
  | SConst _ im => cq im
  | SLin e0 e1 _ im0 _ im1 => lin x (node_expr e0) (node_expr e1) im0 im1
  end.

(* abs(b_c)**2 for a complex b_c *)
Definition cabs2 (re im : expr) : expr := ESqr (ESqrt (EAdd (ESqr re) (ESqr im))).

(* (Re b_c, Im b_c, sigma_s) of the atom at the wavelength; None = the Python code raises *)
Definition scattering_by_wavelength (D : ndata) (z a : Z) (w : wl) : option (expr * expr * expr) :=
  let r := nd_rec D z a in
  do tab <- rows_of D z a;
  match tab with
  | None =>
      match r_bcc r, r_tot r with
      | Some (Some re, im), Some tot => Some (num_expr re, cq im, num_expr tot)   (* b_c_complex, total *)
      | _, _ => None
      end
  | Some rows =>
      do s <- locate (wl_en w) rows;
      let re := seg_re (wl_expr w) s in
      let im := seg_im (wl_expr w) s in
      Some (re, im, EMul FOURPI_100 (cabs2 re im))          (* _4PI_100*abs(b_c)**2 *)
  end.

(* ------------------------------------------------------------------ _calculate_scattering *)
Record outs := mkO {
  o_re : expr; o_im : expr; o_inc : expr;       (* sld_re, sld_im, sld_inc *)
  o_coh : expr; o_abs : expr; o_ixs : expr;     (* coh_xs, abs_xs, inc_xs *)
  o_pen : expr;                                 (* penetration *)
  (* intermediates and arguments, kept for the comparison rules *)
  o_N : expr; o_sigma_i : expr; o_bre : expr; o_bim : expr; o_ss : expr; o_lam : expr
}.

(* the seven returned numbers, in the order of the result tuple *)
Definition outs_list (o : outs) : list expr := [o_re o; o_im o; o_inc o; o_coh o; o_abs o; o_ixs o; o_pen o].

(* numpy.maximum(x, 0.) *)
Definition maximum0 (x : expr) : expr := EDiv (EAdd x (EAbs x)) (ez 2).

Definition calculate_scattering (N lam bre bim sigma_s : expr) : outs :=
  let sld_re := EMul (EMul (ez 10) N) bre in
  let sld_im := EAbs (EMul (EMul (ez 10) N) bim) in
  let sigma_c := EMul FOURPI_100 (cabs2 bre bim) in
  let sigma_i := maximum0 (ESub sigma_s sigma_c) in
  let b_i := ESqrt (EDiv sigma_i FOURPI_100) in
  let sld_inc := EMul (EMul N b_i) (ez 10) in
  let sigma_a := EMul (EMul (ez 2000) (EAbs bim)) lam in
  let total_xs := EMul N sigma_s in
  let coh_xs := EMul N sigma_c in
  let abs_xs := EMul N sigma_a in
  let inc_xs := EMul N sigma_i in
  let penetration := EDiv (ez 1) (EAdd abs_xs total_xs) in
  mkO sld_re sld_im sld_inc coh_xs abs_xs inc_xs penetration N sigma_i bre bim sigma_s lam.

(* ------------------------------------------------------------------ neutron_scattering *)
Inductive outcome :=
| ONone                      (* (None, None, None) *)
| OVacuum                    (* (0,0,0), (0,0,0), inf *)
| OVals (v : list (outs * list compE))      (* one per wavelength (with the per-atom pieces) *)
| ORaise (e : err).

(* the test of the loop of neutron_scattering: element.neutron.b_c is None -> (None, None, None);
   the number density of the pure element (has_sld) is not asked for: the compound's density is given *)
Definition has_data (D : ndata) (a : atom) : bool := is_someb (r_bc (nd_rec D (az a) (aa a))).

(* x = 0; for ...: x += term *)
Definition acc_sum (f : compE -> expr) (l : list compE) : expr :=
  fold_left (fun acc c => EAdd acc (f c)) l (ez 0).

Definition atom_piece (D : ndata) (w : wl) (p : atom * Q) : option compE :=
  let a := fst p in
  do t <- scattering_by_wavelength D (az a) (aa a) w;
  Some (mkCE (snd p) (Qred (e_mass (nd_env D) a)) (fst (fst t)) (snd (fst t)) (snd t)).

Definition E24 : Q := inject_Z (10 ^ 24).

(* (number_density, wavelength, Re b_c, Im b_c, sigma_s) handed to _calculate_scattering *)
Definition compound_parts (ps : list compE) (rho : Q) (lam : expr) : expr * expr * expr * expr * expr :=
  let molar_mass := acc_sum (fun c => EMul (cq (ce_m c)) (cq (ce_n c))) ps in
  let num_atoms := acc_sum (fun c => cq (ce_n c)) ps in
  let b_re := EDiv (acc_sum (fun c => EMul (cq (ce_n c)) (ce_re c)) ps) num_atoms in
  let b_im := EDiv (acc_sum (fun c => EMul (cq (ce_n c)) (ce_im c)) ps) num_atoms in
  let sigma_s := EDiv (acc_sum (fun c => EMul (cq (ce_n c)) (ce_ss c)) ps) num_atoms in
  let cell_volume := EMul (EDiv (EDiv molar_mass (cq rho)) (cq NAq)) (cq E24) in
  let number_density := EDiv num_atoms cell_volume in
  (number_density, lam, b_re, b_im, sigma_s).

Definition calc5 (t : expr * expr * expr * expr * expr) : outs :=
  match t with (N, lam, bre, bim, ss) => calculate_scattering N lam bre bim ss end.

(* the result at one wavelength, together with the per-atom pieces that entered the sums
   (kept for the comparison rules) *)
Definition compound_at (D : ndata) (d : dict) (rho : Q) (w : wl) : option (outs * list compE) :=
  do ps <- all_some (map (atom_piece D w) d);
  Some (calc5 (compound_parts ps rho (wl_expr w)), ps).

(* compound.atoms and compound.density, as reduced fractions (same numbers, smaller terms) *)
Definition atoms_of (s : struct) : dict := map (fun p => (fst p, Qred (snd p))) (count_atoms s).
(* sum(w(el)*count), reduced at every step *)
Definition rweight (w : atom -> Q) (d : dict) : Q :=
  fold_left (fun acc p => Qred (acc + w (fst p) * snd p)) d 0%Q.
(* Formula.__init__: natural_density wins, then density, then the density of a lone atom
   (the same rule as Formula.init_density, on the reduced dict) *)
Definition density_of_compound (D : ndata) (s : struct) (density natural_density : option Q) : option Q :=
  let E := nd_env D in
  let d := atoms_of s in
  match natural_density with
  | Some nd => Some (Qred (nd / (rweight (e_natmass E) d / rweight (e_mass E) d)))
  | None =>
      match density with
      | Some r => Some r
      | None => match d with [(a, _)] => e_density E a | _ => None end
      end
  end.

Definition neutron_scattering (D : ndata) (s : struct) (density natural_density : option Q)
           (ws : list wl) : outcome :=
  match density_of_compound D s density natural_density with
  | None => ORaise AssertErr                               (* assert compound.density is not None *)
  | Some rho =>
      let d := atoms_of s in
      if negb (forallb (fun p => has_data D (fst p)) d) then ONone else
      if Qeq_bool (rweight (e_mass (nd_env D)) d * rho) 0 then OVacuum else
      match all_some (map (compound_at D d rho) ws) with
      | Some v => OVals v
      | None => ORaise TypeErr
      end
  end.

(* the compound given as a Formula OBJECT that carries its own density [own] (from an '@' tag,
   formula(..., density=), a mixture, or the single-element default):
   formulas.formula(compound, density=, natural_density=) inherits compound.density only when
   neither keyword is given; otherwise Formula.__init__ applies the keywords (natural_density wins) *)
Definition formula_density_args (own density natural_density : option Q) : option Q * option Q :=
  match density, natural_density with
  | None, None => (own, None)
  | _, _ => (density, natural_density)
  end.
Definition neutron_scattering_formula (D : ndata) (s : struct) (own density natural_density : option Q)
           (ws : list wl) : outcome :=
  neutron_scattering D s (fst (formula_density_args own density natural_density))
                     (snd (formula_density_args own density natural_density)) ws.

(* ------------------------------------------------------------------ Neutron.scattering / .sld *)
Definition E24m : Q := 1 # (10 ^ 24).

Definition atom_at (D : ndata) (z a : Z) (nd : Q) (w : wl) : option (outs * list compE) :=
  do t <- scattering_by_wavelength D z a w;
  let number_density := EMul (cq nd) (cq E24m) in         (* self._number_density*1e-24 *)
  Some (calculate_scattering number_density (wl_expr w) (fst (fst t)) (snd (fst t)) (snd t),
        [mkCE 1 1 (fst (fst t)) (snd (fst t)) (snd t)]).

Definition atom_scattering (D : ndata) (z a : Z) (ws : list wl) : outcome :=
  if negb (has_sld (nd_rec D z a)) then ONone else
  match nd_numdens D z with
  | None => ORaise TypeErr
  | Some nd =>
      match all_some (map (atom_at D z a nd) ws) with
      | Some v => OVals v
      | None => ORaise TypeErr
      end
  end.
