(* Model/Pyparse.v — code-shaped model of periodictable.formulas.formula_grammar as pyparsing
   executes it: ordered choice without backtracking into a completed alternative, default
   whitespace skipping before Literal/Regex terminals, no skipping before White()/~White(),
   parse actions that raise non-parse exceptions abort the whole parse.
   This file covers the *compound* grammar; Model/PyparseMix.v adds the mixture grammar.
   No proofs here. *)
From Coq Require Import ZArith QArith String Ascii List Bool.
From PT Require Import Str Dec Py Loaders Formula.
Import ListNotations.
Open Scope string_scope.

Inductive pres (A : Type) :=
| POk (a : A) (rest : string)
| PFail
| PAbort (e : err).
Arguments POk {A}. Arguments PFail {A}. Arguments PAbort {A}.

Definition pbind {A B} (x : pres A) (f : A -> string -> pres B) : pres B :=
  match x with
  | POk a r => f a r
  | PFail => PFail
  | PAbort e => PAbort e
  end.
Notation "'let*' ( x , r ) ':=' e 'in' k" := (pbind e (fun x r => k))
  (at level 200, x name, r name, right associativity).

(* pyparsing DEFAULT_WHITE_CHARS " \n\t\r" *)
Definition is_pws (c : ascii) : bool :=
  let n := N_of_ascii c in (N.eqb n 32 || N.eqb n 9 || N.eqb n 10 || N.eqb n 13)%bool.
Fixpoint skip_ws (s : string) : string :=
  match s with
  | String c r => if is_pws c then skip_ws r else s
  | EmptyString => s
  end.
(* ~White(): the next character is not white space (no skipping) *)
Definition not_white (s : string) : bool :=
  match s with String c _ => negb (is_pws c) | EmptyString => true end.

(* Literal(c): skip white space, then match the character *)
Definition lit (c : ascii) (s : string) : pres unit :=
  match skip_ws s with
  | String d r => if Ascii.eqb c d then POk tt r else PFail
  | EmptyString => PFail
  end.

(* leading digits, at least [min] of them *)
Fixpoint span_digits (s : string) : string * string :=
  match s with
  | String c r => if is_digit c then let '(d, t) := span_digits r in (String c d, t) else ("", s)
  | EmptyString => ("", s)
  end.

(* Regex whole: [1-9] then digits, after skipping white space *)
Definition re_whole (s : string) : pres string :=
  match skip_ws s with
  | String c r =>
      if (is_digit c && negb (Ascii.eqb c "0"%char))%bool then
        let '(d, t) := span_digits r in POk (String c d) t
      else PFail
  | EmptyString => PFail
  end.

(* Regex fract: (0 | [1-9][0-9]... | empty) followed by '.' and digits, after skipping white space *)
Definition re_fract (s : string) : pres string :=
  let s0 := skip_ws s in
  let '(ip, t) :=
    match s0 with
    | String "0"%char r => ("0", r)
    | String c r => if is_digit c then span_digits s0 else ("", s0)
    | EmptyString => ("", s0)
    end in
  match t with
  | String "."%char r => let '(d, t') := span_digits r in POk (ip ++ "." ++ d) t'
  | _ => PFail
  end.

Definition str_to_Q (s : string) : option Q := parse_dec s.

(* ~White() + (fract | whole): a number that must be present *)
Definition p_number (s : string) : pres Q :=
  if not_white s then
    match re_fract s with
    | POk txt r =>
        (* float(t[0]); float(".") raises ValueError *)
        match str_to_Q txt with Some q => POk q r | None => PAbort ValueErr end
    | PAbort e => PAbort e
    | PFail =>
        match re_whole s with
        | POk txt r => match str_to_Q txt with Some q => POk q r | None => PAbort ValueErr end
        | PAbort e => PAbort e
        | PFail => PFail
        end
    end
  else PFail.

(* count = Optional(~White() + (fract | whole), default=1) *)
Definition p_count (s : string) : pres Q :=
  match p_number s with
  | POk q r => POk q r
  | PAbort e => PAbort e
  | PFail => POk 1%Q s
  end.

(* what the parser needs of a periodic table *)
Record ptable := mkPT {
  t_symbol : string -> option (Z * Z);    (* table.symbol: (Z, 0) element, (1, 2|3) for D, T *)
  t_has_iso : Z -> Z -> bool;             (* A in element._isotopes *)
  t_has_ion : Z -> Z -> bool              (* charge in element.ions *)
}.

(* symbol = Regex('[A-Z][a-z]?') with action table.symbol (ValueError aborts) *)
Definition p_symbol (T : ptable) (s : string) : pres (Z * Z) :=
  match skip_ws s with
  | String c r =>
      if is_upper c then
        let '(name, t) := match r with
                          | String d r' => if is_lower d then (String c (String d ""), r') else (String c "", r)
                          | EmptyString => (String c "", r)
                          end in
        match t_symbol T name with
        | Some za => POk za t
        | None => PAbort ValueErr
        end
      else PFail
  | EmptyString => PFail
  end.

(* isotope = Optional(~White() + '[' + whole + ']', default='0') *)
Definition p_isotope (s : string) : pres Z :=
  if not_white s then
    match (let* (_, r1) := lit "["%char s in
           let* (d, r2) := re_whole r1 in
           let* (_, r3) := lit "]"%char r2 in
           POk d r3) with
    | POk d r => match parse_int d with Some z => POk z r | None => PAbort ValueErr end
    | PAbort e => PAbort e
    | PFail => POk 0%Z s
    end
  else POk 0%Z s.

(* Regex ion: optional whole, then + or - *)
Definition re_ion (s : string) : pres (string * bool) :=
  let s0 := skip_ws s in
  let '(d, t) := match s0 with
                 | String c _ => if (is_digit c && negb (Ascii.eqb c "0"%char))%bool then span_digits s0 else ("", s0)
                 | EmptyString => ("", s0)
                 end in
  match t with
  | String "+"%char r => POk (d, false) r
  | String "-"%char r => POk (d, true) r
  | _ => PFail
  end.

(* ion = Optional(~White() + '{' + Regex + '}', default='0+'); int(sign + (digits or '1')) *)
Definition p_ion (s : string) : pres Z :=
  if not_white s then
    match (let* (_, r1) := lit "{"%char s in
           let* (dn, r2) := re_ion r1 in
           let* (_, r3) := lit "}"%char r2 in
           POk dn r3) with
    | POk (d, neg) r =>
        let mag := if String.eqb d "" then Some 1%Z else parse_int d in
        match mag with Some m => POk (if neg then (- m)%Z else m) r | None => PAbort ValueErr end
    | PAbort e => PAbort e
    | PFail => POk 0%Z s
    end
  else POk 0%Z s.

(* element = symbol + isotope + ion + count, then convert_element *)
Definition p_element (T : ptable) (s : string) : pres (Q * frag) :=
  let* (za, r1) := p_symbol T s in
  let* (iso, r2) := p_isotope r1 in
  let* (ion, r3) := p_ion r2 in
  let* (cnt, r4) := p_count r3 in
  let '(z, a0) := za in
  (* symbol[isotope] *)
  match (if Z.eqb iso 0 then Some a0
         else if negb (Z.eqb a0 0) then None (* D[2]: Isotope is not subscriptable *)
         else if t_has_iso T z iso then Some iso else None) with
  | None => PAbort (if negb (Z.eqb a0 0) then TypeErr else KeyErr)
  | Some a =>
      if Z.eqb ion 0 then POk (cnt, FAtom (mkAtom z a 0)) r4
      else if t_has_ion T z ion then POk (cnt, FAtom (mkAtom z a ion)) r4
      else PAbort ValueErr
  end.

(* element + ZeroOrMore(~White() + element), with fuel = remaining length:
   white space ends an implicit group *)
Fixpoint p_more_elements (T : ptable) (fuel : nat) (s : string) : pres (list (Q * frag)) :=
  match fuel with
  | O => POk [] s
  | S f =>
      if not_white s then
        match p_element T s with
        | POk e r =>
            match p_more_elements T f r with
            | POk es r' => POk (e :: es) r'
            | PFail => POk [e] r
            | PAbort x => PAbort x
            end
        | PFail => POk [] s
        | PAbort x => PAbort x
        end
      else POk [] s
  end.
Definition p_elements (T : ptable) (fuel : nat) (s : string) : pres (list (Q * frag)) :=
  let* (e, r) := p_element T s in
  let* (es, r') := p_more_elements T fuel r in
  POk (e :: es) r'.

(* convert_implicit / convert_explicit: fragment if count == 1 else (count, fragment) *)
Definition regroup (c : Q) (fr : list (Q * frag)) : list (Q * frag) :=
  if Qeq_bool c 1 then fr else [(c, FGroup fr)].

Definition p_implicit (T : ptable) (s : string) : pres (list (Q * frag)) :=
  let* (c, r1) := p_count s in
  let* (es, r2) := p_elements T (S (String.length r1)) r1 in
  POk (regroup c es) r2.

(* separator = space + '+' + space ; implicit_separator = separator | space *)
Definition p_sep (s : string) : string :=
  match lit "+"%char s with
  | POk _ r => skip_ws r
  | _ => skip_ws s
  end.

(* composite = group + ZeroOrMore(implicit_separator + group)
   group = implicit_group | explicit_group
   explicit_group = opengrp + composite + closegrp + count
   opengrp = space + '(' + space ; closegrp = space + ')' *)
Fixpoint p_composite (T : ptable) (fuel : nat) (s : string) : pres (list (Q * frag)) :=
  match fuel with
  | O => PFail
  | S f =>
      let p_group (s : string) : pres (list (Q * frag)) :=
        match p_implicit T s with
        | POk g r => POk g r
        | PAbort x => PAbort x
        | PFail =>
            let* (_, r1) := lit "("%char s in
            let* (inner, r2) := p_composite T f (skip_ws r1) in
            let* (_, r3) := lit ")"%char r2 in
            let* (c, r4) := p_count r3 in
            POk (regroup c inner) r4
        end in
      let* (g, r) := p_group s in
      (fix more (k : nat) (acc : list (Q * frag)) (r : string) : pres (list (Q * frag)) :=
         match k with
         | O => POk acc r
         | S k' =>
             match p_group (p_sep r) with
             | POk g' r' => more k' (acc ++ g')%list r'
             | PFail => POk acc r
             | PAbort x => PAbort x
             end
         end) (S (String.length r)) g r
  end.

Inductive dkind := DNone | DIso (d : Q) | DNat (d : Q).

(* density = '@' + ~White() + (fract | whole) + Optional(Regex('[ni]'), default='i');
   Optional(density): a failure after '@' leaves the '@' unconsumed *)
Definition p_density (s : string) : pres dkind :=
  match lit "@"%char s with
  | POk _ r1 =>
      match p_number r1 with
      | POk c r2 =>
          match skip_ws r2 with
          | String "n"%char r3 => POk (DNat c) r3
          | String "i"%char r3 => POk (DIso c) r3
          | _ => POk (DIso c) r2
          end
      | PFail => POk DNone s
      | PAbort e => PAbort e
      end
  | PFail => POk DNone s
  | PAbort e => PAbort e
  end.

(* compound = composite + Optional(density, default=None) *)
Definition p_compound (T : ptable) (s : string) : pres (list (Q * frag) * dkind) :=
  let* (st, r1) := p_composite T (S (String.length s)) s in
  let* (d, r2) := p_density r1 in
  POk (st, d) r2.

(* StringEnd(): skips white space *)
Definition at_end (s : string) : bool := match skip_ws s with EmptyString => true | _ => false end.
