(* Model/Attr.v — small-step semantics of the Python attribute protocol the lazy loaders of
   periodictable rely on, and the machine of first-touch events built on it (C09, C10).  No proofs.

   What is modelled (and only this):
   * three classes (Element, Isotope, Ion), each with a class-level map  name |-> pending delayed-load
     property | computed property | constant | object allocated by a loader;  absent = not in the map;
   * up to three tables (the public one, two private ones); per table a handful of representative atoms
     (below), each with an instance dictionary;
   * attribute GET: a class-level property (pending or computed) is a data descriptor and wins; then the
     instance dictionary; then a plain class attribute; then, for Isotope and Ion, __getattr__ delegates to
     the underlying element/isotope (also when a property getter raised AttributeError);
   * attribute SET: a class-level property wins (pending: its setter; computed: no setter -> AttributeError),
     otherwise the instance dictionary;
   * delayed_load's getter / setter / clearprops exactly as Gen/LoaderScripts.v lists their statements;
   * the init functions as the ordered effect scripts of Gen/LoaderScripts.v.

   Values are abstract: what matters is where a served value comes from (row data written by a loader,
   a class-level default, a user's assignment, a computed property) and WHICH object it is (allocated per
   write, per loader call, or one module-level object shared by all tables), plus in-place mutation marks.

   Representative atoms.  E1 / E0: an element that every data table covers / that none covers (Fe / Rf in the
   harness); I11, I01: an isotope of E1 with / without its own rows (Fe-58 / Fe-45); I00: an isotope of E0;
   En: table[0]; XE1, XE0, XI11, XI01: an ion of each.  Loaders treat all covered atoms alike and all
   uncovered atoms alike (they loop over data rows), so one atom per class of the partition
   {covered, uncovered} x {element, isotope, ion} carries every behaviour the protocol can show; table[0] is
   kept apart because covalent_radius.init addresses it by name.

   The state is kept per property group (the names registered together in one delayed_load call, plus a
   base group for mass/density): every operation of the protocol acts on ONE name, and every script acts on
   the names of one group (checked: scripts_local).  nsf.init's `assert 'mass' in table.properties` is the
   only cross-group read; the base group is passed read-only for it. *)
From Coq Require Import String List Bool NArith Arith.
From PT Require Import Py AttrScript LoaderScripts.
Import ListNotations.
Open Scope N_scope.

(* ------------------------------------------------------------------ finite carriers *)
Inductive table := Pub | P1 | P2.
Inductive atom := En | E1 | E0 | I11 | I01 | I00 | XE1 | XE0 | XI11 | XI01.

Definition tcode (T : table) : N := match T with Pub => 0 | P1 => 1 | P2 => 2 end.
Definition acode (a : atom) : N :=
  match a with En => 0 | E1 => 1 | E0 => 2 | I11 => 3 | I01 => 4 | I00 => 5
             | XE1 => 6 | XE0 => 7 | XI11 => 8 | XI01 => 9 end.
Definition ccode (c : cls) : N := match c with Element => 0 | Isotope => 1 | Ion => 2 end.
Definition table_eqb (a b : table) : bool := N.eqb (tcode a) (tcode b).
Definition atom_eqb (a b : atom) : bool := N.eqb (acode a) (acode b).
Definition cls_eqb (a b : cls) : bool := N.eqb (ccode a) (ccode b).

Definition cls_of (a : atom) : cls :=
  match a with
  | En | E1 | E0 => Element
  | I11 | I01 | I00 => Isotope
  | _ => Ion
  end.
(* self.element of an isotope or ion *)
Definition parent (a : atom) : option atom :=
  match a with
  | I11 | I01 => Some E1 | I00 => Some E0
  | XE1 => Some E1 | XE0 => Some E0 | XI11 => Some I11 | XI01 => Some I01
  | _ => None
  end.
Definition delegates (c : cls) : bool := existsb (cls_eqb c) delegating.
Definition all_atoms : list atom := [En; E1; E0; I11; I01; I00; XE1; XE0; XI11; XI01].
Definition all_tables : list table := [Pub; P1; P2].

(* ------------------------------------------------------------------ names and groups *)
Definition effect_names (e : effect) : list string :=
  match e with
  | EGuard k | EAppend k | ERequire k => [k]
  | EClassSet _ n _ | EInstSet _ n _ | EProbeSet _ n _ | EProbeDel _ n
  | EGetDefaultSet _ n _ | ERead _ n | ETouchPublic n | ESub _ n _ => [n]
  | ECall _ => []
  end.
Definition script_names (effs : list effect) : list string := concat (map effect_names effs).

Fixpoint dedup (l : list string) (seen : list string) : list string :=
  match l with
  | [] => []
  | x :: r => if existsb (String.eqb x) seen then dedup r seen else x :: dedup r (x :: seen)
  end.
(* (definitions marked `Eval vm_compute in` are evaluated once, when this file is compiled against the
   regenerated Gen/LoaderScripts.v; they are plain data afterwards) *)
Definition universe : list string := Eval vm_compute in
  dedup (concat (map r_names registrations)
         ++ concat (map (fun p => script_names (snd p)) init_scripts)
         ++ map snd static_props)%list [].

Fixpoint index_of (s : string) (l : list string) (i : N) : N :=
  match l with
  | [] => 0
  | x :: r => if String.eqb s x then i else index_of s r (i + 1)
  end.
(* 0 = a name no loader knows *)
Definition nid (s : string) : N := index_of s universe 1.

Definition str_in (s : string) (l : list string) : bool := existsb (String.eqb s) l.

(* group 0 = base (mass, density); group i = i-th delayed_load registration *)
Fixpoint reg_group_aux (s : string) (l : list registration) (i : N) : option N :=
  match l with
  | [] => None
  | r :: t => if str_in s (r_names r) then Some i else reg_group_aux s t (i + 1)
  end.
Definition reg_group (s : string) : option N := reg_group_aux s registrations 1.

Fixpoint first_some {A B} (f : A -> option B) (l : list A) : option B :=
  match l with [] => None | x :: r => match f x with Some y => Some y | None => first_some f r end end.

Definition home_group (effs : list effect) : N :=
  match first_some reg_group (script_names effs) with Some g => g | None => 0 end.

Definition find_script (key : string) : option (list effect) :=
  match find (fun p => String.eqb (fst p) key) init_scripts with Some p => Some (snd p) | None => None end.

Definition key_group (key : string) : N :=
  match find_script key with Some effs => home_group effs | None => 0 end.

Definition group_of_name_raw (s : string) : N :=
  match reg_group s with
  | Some g => g
  | None => match find (fun p => str_in s (script_names (snd p))) init_scripts with
            | Some p => home_group (snd p)
            | None => 0
            end
  end.

Definition group_table : list (string * N) := Eval vm_compute in
  map (fun s => (s, group_of_name_raw s))
      (dedup (concat (map r_names registrations) ++ concat (map (fun p => script_names (snd p)) init_scripts)
              ++ map snd static_props)%list []).
Definition group_of_name (s : string) : N :=
  match find (fun p => String.eqb (fst p) s) group_table with Some p => snd p | None => 0 end.

(* every script only mentions names of its own group *)
Definition scripts_local : bool :=
  forallb (fun p => forallb (fun s => N.eqb (group_of_name s) (home_group (snd p))
                                      || (N.eqb (home_group (snd p)) (key_group "nsf.init")
                                          && N.eqb (group_of_name s) 0 && str_in s ["mass"; "density"]))
                            (script_names (snd p))) init_scripts.

Fixpoint nth_reg (l : list registration) (i : N) (g : N) : option registration :=
  match l with [] => None | r :: t => if N.eqb i g then Some r else nth_reg t (i + 1) g end.
Definition reg_of (g : N) : option registration := nth_reg registrations 1 g.

(* ------------------------------------------------------------------ scripts with names resolved *)
Inductive reffect :=
| RGuard (k : N) | RAppend (k : N) | RRequire (k : N)
| RClassSet (c : cls) (n : N) (k : ckind)
| RInstSet (t : target) (n : N) (k : vkind)
| RProbeSet (t : target) (n : N) (k : vkind)
| RProbeDel (t : target) (n : N)
| RGetDefaultSet (t : target) (n : N) (k : vkind)
| RRead (t : target) (n : N)
| RTouchPublic (n : N)
| RSub (t : target) (n : N) (k : vkind)
| RCall (f : string).

Definition resolve (e : effect) : reffect :=
  match e with
  | EGuard k => RGuard (nid k) | EAppend k => RAppend (nid k) | ERequire k => RRequire (nid k)
  | EClassSet c n k => RClassSet c (nid n) k
  | EInstSet t n k => RInstSet t (nid n) k
  | EProbeSet t n k => RProbeSet t (nid n) k
  | EProbeDel t n => RProbeDel t (nid n)
  | EGetDefaultSet t n k => RGetDefaultSet t (nid n) k
  | ERead t n => RRead t (nid n)
  | ETouchPublic n => RTouchPublic (nid n)
  | ESub t n k => RSub t (nid n) k
  | ECall f => RCall f
  end.
Definition rscripts : list (string * list reffect) := Eval vm_compute in
  map (fun p => (fst p, map resolve (snd p))) init_scripts.
Definition rscript (key : string) : list reffect :=
  match find (fun p => String.eqb (fst p) key) rscripts with Some p => snd p | None => [] end.

(* the loops of mass.init / density.init run over every element and isotope; all other loaders run over
   the rows of their data table, which cover E1 / I11 and not E0 / I01 / I00 (checked on the implementation
   by the harness: `name in atom.__dict__`) *)
Definition covers_all (key : string) : bool := str_in key eager_inits.
Definition covers (key : string) (t : target) (a : atom) : bool :=
  match t, a with
  | TgTable0, En => true
  | TgRowsEl, E1 => true
  | TgRowsEl, E0 => covers_all key
  | TgRowsEl, En => covers_all key
  | TgRowsIso, I11 => true
  | TgRowsIso, I01 => covers_all key
  | TgRowsIso, I00 => covers_all key
  | TgAllIso, I11 | TgAllIso, I01 | TgAllIso, I00 => true
  | _, _ => false
  end.
Definition targets (key : string) (t : target) : list atom := filter (covers key t) all_atoms.

(* ------------------------------------------------------------------ state of one group *)
Inductive centry := CPending (g : N) | CComputed | CConst | CAlloc (T : table).
Inductive ival := IRow (k : vkind) | IUser.

Record gstate := mkG {
  cm : list (N * centry);   (* class-level attributes, key = ckey *)
  im : list (N * ival);     (* instance dictionaries, key = ikey *)
  pr : list N;              (* table.properties, element = pkey *)
  mk : list N               (* in-place mutation marks, element = mkey *)
}.

Definition ckey (c : cls) (n : N) : N := ccode c * 1000 + n.
Definition ikey (T : table) (a : atom) (n : N) : N := (tcode T * 16 + acode a) * 1000 + n.
Definition pkey (T : table) (k : N) : N := tcode T * 1000 + k.

(* sorted association lists: one representation per content *)
Fixpoint aget {V} (k : N) (l : list (N * V)) : option V :=
  match l with
  | [] => None
  | (k', v) :: r => match N.compare k k' with Eq => Some v | Lt => None | Gt => aget k r end
  end.
Fixpoint aset {V} (k : N) (v : V) (l : list (N * V)) : list (N * V) :=
  match l with
  | [] => [(k, v)]
  | (k', v') :: r => match N.compare k k' with
                     | Lt => (k, v) :: l
                     | Eq => (k, v) :: r
                     | Gt => (k', v') :: aset k v r
                     end
  end.
Fixpoint adel {V} (k : N) (l : list (N * V)) : list (N * V) :=
  match l with
  | [] => []
  | (k', v') :: r => match N.compare k k' with
                     | Lt => l
                     | Eq => r
                     | Gt => (k', v') :: adel k r
                     end
  end.
Fixpoint smem (k : N) (l : list N) : bool :=
  match l with
  | [] => false
  | k' :: r => match N.compare k k' with Eq => true | Lt => false | Gt => smem k r end
  end.
Fixpoint sadd (k : N) (l : list N) : list N :=
  match l with
  | [] => [k]
  | k' :: r => match N.compare k k' with Lt => k :: l | Eq => l | Gt => k' :: sadd k r end
  end.

Definition cget (x : gstate) (c : cls) (n : N) : option centry := aget (ckey c n) (cm x).
Definition cset (x : gstate) (c : cls) (n : N) (e : centry) : gstate :=
  mkG (aset (ckey c n) e (cm x)) (im x) (pr x) (mk x).
Definition cdel (x : gstate) (c : cls) (n : N) : gstate :=
  mkG (adel (ckey c n) (cm x)) (im x) (pr x) (mk x).
Definition iget (x : gstate) (T : table) (a : atom) (n : N) : option ival := aget (ikey T a n) (im x).
Definition iset (x : gstate) (T : table) (a : atom) (n : N) (v : ival) : gstate :=
  mkG (cm x) (aset (ikey T a n) v (im x)) (pr x) (mk x).
Definition idel (x : gstate) (T : table) (a : atom) (n : N) : gstate :=
  mkG (cm x) (adel (ikey T a n) (im x)) (pr x) (mk x).
Definition has_prop (x : gstate) (T : table) (k : N) : bool := smem (pkey T k) (pr x).
Definition add_prop (x : gstate) (T : table) (k : N) : gstate :=
  mkG (cm x) (im x) (sadd (pkey T k) (pr x)) (mk x).

(* ------------------------------------------------------------------ served values *)
Inductive obj :=
| OInst (T : table) (a : atom) (n : N)   (* allocated by the loader write into T.a.n *)
| OShared (a : atom) (n : N)             (* module-level object, the same for every table *)
| ODefault (T : table) (n : N)           (* class-level default allocated by init(T) *)
| OCache (T : table) (a : atom) (n : N)  (* object a computed property builds for, and keeps in, T.a *)
| OSub (T : table) (a : atom) (n : N)    (* the objects hanging below the object of T.a.n, allocated with it or by
                                            it on first access: magnetic_ff[charge], neutron_activation[i], the
                                            array of xray.sftable *)
| OSubShared (a : atom) (n : N).         (* the same, when they are module-level objects (one per element) *)
Definition ocode (o : obj) : N :=
  match o with
  | OInst T a n => ikey T a n
  | OShared a n => 100000 + acode a * 1000 + n
  | ODefault T n => 200000 + tcode T * 1000 + n
  | OCache T a n => 300000 + ikey T a n
  | OSub T a n => 400000 + ikey T a n
  | OSubShared a n => 500000 + acode a * 1000 + n
  end.
Definition mkey (o : obj) (T : table) : N := ocode o * 4 + tcode T.

Inductive content := CtRow | CtDefault | CtUser (T : table) | CtComputed.
Inductive rres := RVal (c : content) (o : option obj) | RErr (e : err).

Definition val_of (T : table) (a : atom) (n : N) (v : ival) : rres :=
  match v with
  | IRow VKImm => RVal CtRow None
  | IRow VKAlloc => RVal CtRow (Some (OInst T a n))
  | IRow VKShared => RVal CtRow (Some (OShared a n))
  | IUser => RVal (CtUser T) None
  end.

(* the element an isotope / ion is an isotope / ion of *)
Definition root (a : atom) : atom :=
  match a with
  | I11 | I01 | XE1 | XI11 | XI01 => E1
  | I00 | XE0 => E0
  | _ => a
  end.
Definition xray_id : N := nid "xray".
Definition vk_max (a b : vkind) : vkind :=
  match a, b with
  | VKShared, _ | _, VKShared => VKShared
  | VKAlloc, _ | _, VKAlloc => VKAlloc
  | _, _ => VKImm
  end.
(* what hangs below the object stored under name n: nothing mutable (VKImm), objects allocated with / by that
   object (VKAlloc), module-level objects (VKShared); from the ESub effects of the scripts, and for xray from
   Xray._gettable (Gen: xray_sftable) *)
Definition sub_kinds : list (N * vkind) := Eval vm_compute in
  (xray_id, xray_sftable)
  :: concat (map (fun p => concat (map (fun e => match e with RSub _ n k => [(n, k)] | _ => [] end) (snd p))) rscripts).
Definition sub_kind (n : N) : vkind :=
  fold_left (fun acc p => if N.eqb (fst p) n then vk_max acc (snd p) else acc) sub_kinds VKImm.
Definition subs (o : obj) : list obj :=
  match o with
  | OInst T a n | OCache T a n =>
      match sub_kind n with
      | VKImm => []
      | VKAlloc => [OSub T a n]
      | VKShared => [OSubShared (root a) n]
      end
  | _ => []
  end.

Definition marked_one (x : gstate) (o : obj) (T : table) : bool := smem (mkey o T) (mk x).
(* the tables whose in-place mutation shows in the object or in what hangs below it *)
Definition marked_by (x : gstate) (o : obj) : list table :=
  filter (fun T => marked_one x o T || existsb (fun q => marked_one x q T) (subs o)) all_tables.
Definition add_mark1 (x : gstate) (o : obj) (T : table) : gstate :=
  mkG (cm x) (im x) (pr x) (sadd (mkey o T) (mk x)).
(* an in-place mutation reaches the object and everything below it *)
Definition add_mark (x : gstate) (o : obj) (T : table) : gstate :=
  fold_left (fun x0 q => add_mark1 x0 q T) (subs o) (add_mark1 x o T).

(* ------------------------------------------------------------------ computed properties *)
(* what a computed property reads: (through self.element?, name).  Hand-written from mass.mass,
   density.density/number_density/interatomic_distance, Ion.mass; tied by the correspondence run. *)
Definition computed_deps (n : string) (c : cls) : list (bool * string) :=
  if String.eqb n "mass" then
    match c with Ion => [(true, "mass")] | _ => [(false, "_mass")] end
  else if String.eqb n "abundance" then [(false, "_abundance")]
  else if String.eqb n "density" then
    match c with
    | Element => [(false, "_density")]
    | _ => [(true, "_density"); (false, "mass"); (true, "mass")]
    end
  else if String.eqb n "number_density" then [(false, "density"); (false, "mass")]
  else if String.eqb n "interatomic_distance" then [(false, "density"); (false, "mass")]
  else [].
Definition rdeps : list (N * (cls -> list (bool * N))) :=
  map (fun s => (nid s, fun c => map (fun p => (fst p, nid (snd p))) (computed_deps s c)))
      ["mass"; "abundance"; "density"; "number_density"; "interatomic_distance"].
Definition deps_of (n : N) (c : cls) : list (bool * N) :=
  match find (fun p => N.eqb (fst p) n) rdeps with Some p => snd p c | None => [] end.
(* ------------------------------------------------------------------ the protocol *)
Definition FUEL : nat := 12.

Definition reg_flag (r : registration) (c : cls) : bool :=
  match c with Element => r_el r | Isotope => r_iso r | Ion => r_ion r end.

(* clearprops(): delattr(C, p) for every flagged class, every name; delattr of a missing name raises *)
Fixpoint clear_names (x : gstate) (c : cls) (ns : list string) : gstate * option err :=
  match ns with
  | [] => (x, None)
  | p :: r => match cget x c (nid p) with
              | None => (x, Some AttrErr)
              | Some _ => clear_names (cdel x c (nid p)) c r
              end
  end.
Fixpoint clear_classes (x : gstate) (r : registration) (cs : list cls) : gstate * option err :=
  match cs with
  | [] => (x, None)
  | c :: t => if reg_flag r c then
                match clear_names x c (r_names r) with
                | (x1, None) => clear_classes x1 r t
                | bad => bad
                end
              else clear_classes x r t
  end.
Definition clearprops (g : N) (x : gstate) : gstate * option err :=
  match reg_of g with Some r => clear_classes x r clear_order | None => (x, Some OtherErr) end.

Section Interp.
  (* the base group, read-only (table.properties of mass/density for nsf.init's assert) *)
  Variable base : option gstate.

  Section Effects.
    (* one level of the recursion: the three callbacks have less fuel *)
    Variable GET : table -> atom -> N -> gstate -> gstate * rres.
    Variable SET : table -> atom -> N -> ival -> gstate -> gstate * option err.
    Variable INIT : string -> table -> gstate -> gstate * option err.

    Fixpoint each (f : atom -> gstate -> gstate * option err) (l : list atom) (x : gstate)
      : gstate * option err :=
      match l with
      | [] => (x, None)
      | a :: r => match f a x with (x1, None) => each f r x1 | bad => bad end
      end.

    Definition required (x : gstate) (T : table) (k : N) : bool :=
      has_prop x T k || match base with Some b => has_prop b T k | None => false end.

    Fixpoint run_effs (key : string) (T : table) (effs : list reffect) (x : gstate)
      : gstate * option err :=
      match effs with
      | [] => (x, None)
      | e :: rest =>
          let continue (p : gstate * option err) :=
            match p with (x1, None) => run_effs key T rest x1 | bad => bad end in
          match e with
          | RGuard k => if has_prop x T k then (x, None) else run_effs key T rest x
          | RAppend k => run_effs key T rest (add_prop x T k)
          | RRequire k => if required x T k then run_effs key T rest x else (x, Some AssertErr)
          | RClassSet c n k =>
              run_effs key T rest
                (cset x c n (match k with CKComputed => CComputed | CKConst => CConst | CKAlloc => CAlloc T end))
          | RInstSet t n k => continue (each (fun a => SET T a n (IRow k)) (targets key t) x)
          | RProbeSet t n k =>
              continue (each (fun a x0 =>
                                match GET T a n x0 with
                                | (x1, RErr AttrErr) => SET T a n (IRow k) x1
                                | (x1, RErr e) => (x1, Some e)
                                | (x1, RVal _ _) => (x1, None)
                                end) (targets key t) x)
          | RProbeDel t n =>
              continue (each (fun a x0 =>
                                match GET T a n x0 with
                                | (x1, RErr AttrErr) => (x1, None)
                                | (x1, RErr e) => (x1, Some e)
                                | (x1, RVal _ _) =>
                                    match cget x1 (cls_of a) n with
                                    | Some (CPending _) | Some CComputed => (x1, Some AttrErr)
                                    | _ => match iget x1 T a n with
                                           | Some _ => (idel x1 T a n, None)
                                           | None => (x1, Some AttrErr)
                                           end
                                    end
                                end) (targets key t) x)
          | RGetDefaultSet t n k =>
              continue (each (fun a x0 =>
                                match GET T a n x0 with
                                | (x1, RErr AttrErr) => SET T a n (IRow k) x1
                                | (x1, RErr e) => (x1, Some e)
                                | (x1, RVal _ _) =>
                                    (* the object found is stored back: the atom keeps / gets that object *)
                                    match iget x1 T a n with
                                    | Some v => SET T a n v x1
                                    | None => SET T a n (IRow k) x1
                                    end
                                end) (targets key t) x)
          | RRead t n =>
              continue (each (fun a x0 =>
                                match GET T a n x0 with
                                | (x1, RErr e) => (x1, Some e)
                                | (x1, RVal _ _) => (x1, None)
                                end) (targets key t) x)
          | RTouchPublic n =>
              (* getattr(default_table()[0], n, None) when the table is not the public one: only its effect on
                 the loader state matters; AttributeError is swallowed by the default *)
              if table_eqb T Pub then run_effs key T rest x
              else match GET Pub En n x with
                   | (x1, RErr AttrErr) | (x1, RVal _ _) => run_effs key T rest x1
                   | (x1, RErr e) => (x1, Some e)
                   end
          | RSub _ _ _ => run_effs key T rest x      (* which objects hang below atom.n: static, see sub_kind *)
          | RCall f => continue (INIT f T x)
          end
      end.
  End Effects.

  (* getattr(T.a, n), setattr(T.a, n, v), key(T) *)
  Fixpoint getattr (fuel : nat) (T : table) (a : atom) (n : N) (x : gstate) {struct fuel} : gstate * rres :=
    match fuel with
    | O => (x, RErr RecursionErr)
    | S f =>
        let fallback (p : gstate * rres) : gstate * rres :=
          match p with
          | (x1, RErr AttrErr) =>
              if delegates (cls_of a) then
                match parent a with Some q => getattr f T q n x1 | None => p end
              else p
          | _ => p
          end in
        match cget x (cls_of a) n with
        | Some (CPending g) =>
            (* property(getter(p), setter(p)).__get__ : the statements of getfn *)
            let fix go (steps : list gstep) (x0 : gstate) (res : rres) : gstate * rres :=
              match steps with
              | [] => (x0, res)
              | GClear :: r => match clearprops g x0 with
                               | (x1, None) => go r x1 res
                               | (x1, Some e) => (x1, RErr e)
                               end
              | GLoad :: r => match reg_of g with
                              | Some rg => match run_init f (r_key rg) Pub x0 with
                                           | (x1, None) => go r x1 res
                                           | (x1, Some e) => (x1, RErr e)
                                           end
                              | None => (x0, RErr OtherErr)
                              end
              | GGetattr :: r => match getattr f T a n x0 with
                                 | (x1, RErr e) => (x1, RErr e)
                                 | (x1, v) => go r x1 v
                                 end
              end in
            fallback (go getter_script x (RVal CtDefault None))
        | Some CComputed =>
            if N.eqb n xray_id then (x, RVal CtComputed (Some (OCache T a n)))
            else
              let fix deps (l : list (bool * N)) (x0 : gstate) (acc : content) : gstate * rres :=
                match l with
                | [] => (x0, RVal acc None)
                | (up, d) :: r =>
                    let q := if up then parent a else Some a in
                    match q with
                    | None => (x0, RErr AttrErr)
                    | Some q' => match getattr f T q' d x0 with
                                 | (x1, RErr e) => (x1, RErr e)
                                 | (x1, RVal (CtUser U) _) => deps r x1 (CtUser U)
                                 | (x1, RVal _ _) => deps r x1 acc
                                 end
                    end
                end in
              fallback (deps (deps_of n (cls_of a)) x CtRow)
        | c =>
            match iget x T a n with
            | Some v => (x, val_of T a n v)
            | None => match c with
                      | Some CConst => (x, RVal CtDefault None)
                      | Some (CAlloc T') => (x, RVal CtDefault (Some (ODefault T' n)))
                      | _ => fallback (x, RErr AttrErr)
                      end
            end
        end
    end
  with setattr (fuel : nat) (T : table) (a : atom) (n : N) (v : ival) (x : gstate) {struct fuel}
    : gstate * option err :=
    match fuel with
    | O => (x, Some RecursionErr)
    | S f =>
        match cget x (cls_of a) n with
        | Some (CPending g) =>
            let fix go (steps : list sstep) (x0 : gstate) : gstate * option err :=
              match steps with
              | [] => (x0, None)
              | SClear :: r => match clearprops g x0 with
                               | (x1, None) => go r x1
                               | bad => bad
                               end
              | SLoad :: r => match reg_of g with
                              | Some rg => match run_init f (r_key rg) Pub x0 with
                                           | (x1, None) => go r x1
                                           | bad => bad
                                           end
                              | None => (x0, Some OtherErr)
                              end
              | SSetattr :: r => match setattr f T a n v x0 with
                                 | (x1, None) => go r x1
                                 | bad => bad
                                 end
              end in
            go setter_script x
        | Some CComputed => (x, Some AttrErr)        (* property without a setter *)
        | _ => (iset x T a n v, None)
        end
    end
  with run_init (fuel : nat) (key : string) (T : table) (x : gstate) {struct fuel} : gstate * option err :=
    match fuel with
    | O => (x, Some RecursionErr)
    | S f => run_effs (getattr f) (setattr f) (run_init f) key T (rscript key) x
    end.
End Interp.

(* ------------------------------------------------------------------ the machine *)
Inductive calc := CNeutronSld | CNeutronSldIso | CXraySld | CXraySldIon | CMagneticJ0 | CActivation | CWater.

Inductive event :=
| Read (T : table) (a : atom) (n : string)
| Has (T : table) (a : atom) (n : string)
| SetA (T : table) (a : atom) (n : string)
| Mut (T : table) (a : atom) (n : string)
| Import (m : string)
| Calc (c : calc) (T : table)
| Init (key : string) (T : table)
| New (T : table)
| Parse (T : table)
| Pickle (T : table) (a : atom).

Inductive outcome :=
| OSame            (* what the canonical order serves: the same value, or the same exception *)
| ODiff            (* a value, but not the canonical one: placeholder, data carrying another table's mark *)
| OUser            (* the table's own assignment or mutation shows *)
| OErr (e : err)   (* raises e where the canonical order does not *)
| OBool (b : bool)
| OOk
| OImm.            (* nothing to mutate: the value is immutable *)

Record state := mkS { tabs : list table; comp : N -> gstate }.

Definition upd (s : state) (g : N) (x : gstate) : state :=
  mkS (tabs s) (fun g' => if N.eqb g g' then x else comp s g').
Definition exists_tab (s : state) (T : table) : bool :=
  match T with Pub => true | _ => existsb (table_eqb T) (tabs s) end.
Definition base_of (s : state) (g : N) : option gstate := if N.eqb g 0 then None else Some (comp s 0).

(* what `import periodictable` leaves behind *)
Definition empty_g : gstate := mkG [] [] [] [].
Definition install (g : N) (r : registration) : gstate :=
  fold_left (fun x c => if reg_flag r c
                        then fold_left (fun x0 p => cset x0 c (nid p) (CPending g)) (r_names r) x
                        else x) install_order empty_g.
Definition base_init : gstate := Eval vm_compute in
  let x0 := fold_left (fun x p => cset x (fst p) (nid (snd p)) CComputed) static_props empty_g in
  fold_left (fun x key => fst (run_init None FUEL key Pub x)) eager_inits x0.
Definition init_comps : list (N * gstate) := Eval vm_compute in
  map (fun i => let g := N.of_nat i in
                (g, if N.eqb g 0 then base_init else match reg_of g with Some r => install g r | None => empty_g end))
      (seq 0 (S (length registrations))).
Definition init_comp (g : N) : gstate :=
  match find (fun p => N.eqb (fst p) g) init_comps with Some p => snd p | None => empty_g end.
Definition init_state : state := mkS [] init_comp.

(* the canonical order: a plain read on the public table of a fresh interpreter *)
Definition canon_raw (a : atom) (n : string) : rres :=
  let g := group_of_name n in
  snd (getattr (if N.eqb g 0 then None else Some base_init) FUEL Pub a (nid n) (init_comp g)).
Definition canon_table : list (string * list (N * rres)) := Eval vm_compute in
  map (fun n => (n, map (fun a => (acode a, canon_raw a n)) all_atoms)) universe.
Definition canon (a : atom) (n : string) : rres :=
  match find (fun p => String.eqb (fst p) n) canon_table with
  | Some p => match aget (acode a) (snd p) with Some r => r | None => canon_raw a n end
  | None => canon_raw a n
  end.

Definition content_eqb (c d : content) : bool :=
  match c, d with
  | CtRow, CtRow | CtDefault, CtDefault | CtComputed, CtComputed => true
  | CtUser T, CtUser U => table_eqb T U
  | _, _ => false
  end.

Definition classify (T : table) (x : gstate) (cn r : rres) : outcome :=
  match r with
  | RErr e => match cn with
              | RErr e' => if err_eqb e e' then OSame else OErr e
              | _ => OErr e
              end
  | RVal (CtUser U) _ => if table_eqb T U then OUser else ODiff
  | RVal c o =>
      match cn with
      | RVal c' _ =>
          if content_eqb c c' then
            match o with
            | None => OSame
            | Some ob => match marked_by x ob with
                         | [] => OSame
                         | ms => if forallb (table_eqb T) ms then OUser else ODiff
                         end
            end
          else ODiff
      | RErr _ => ODiff
      end
  end.

(* ---- operations that act on ONE group: every event is one of them, or a sequence of them *)
Inductive lop :=
| LGet (T : table) (a : atom) (n : string)
| LHas (T : table) (a : atom) (n : string)
| LSetA (T : table) (a : atom) (n : string)
| LMut (T : table) (a : atom) (n : string)
| LInit (key : string) (T : table).

Definition lgroup (o : lop) : N :=
  match o with
  | LGet _ _ n | LHas _ _ n | LSetA _ _ n | LMut _ _ n => group_of_name n
  | LInit key _ => key_group key
  end.
Definition ltable (o : lop) : table :=
  match o with LGet T _ _ | LHas T _ _ | LSetA T _ _ | LMut T _ _ | LInit _ T => T end.

Definition lrun (o : lop) (base : option gstate) (x : gstate) : gstate * outcome :=
  match o with
  | LGet T a n =>
      let '(x1, r) := getattr base FUEL T a (nid n) x in (x1, classify T x1 (canon a n) r)
  | LHas T a n =>
      match getattr base FUEL T a (nid n) x with
      | (x1, RVal _ _) => (x1, OBool true)
      | (x1, RErr AttrErr) => (x1, OBool false)
      | (x1, RErr e) => (x1, OErr e)
      end
  | LSetA T a n =>
      match setattr base FUEL T a (nid n) IUser x with
      | (x1, None) => (x1, OOk)
      | (x1, Some er) => (x1, OErr er)
      end
  | LMut T a n =>
      match getattr base FUEL T a (nid n) x with
      | (x1, RErr er) => (x1, OErr er)
      | (x1, RVal _ None) => (x1, OImm)
      | (x1, RVal _ (Some ob)) => (add_mark x1 ob T, OOk)
      end
  | LInit key T =>
      match run_init base FUEL key T x with
      | (x1, None) => (x1, OOk)
      | (x1, Some er) => (x1, OErr er)
      end
  end.

Definition apply (s : state) (o : lop) : state * outcome :=
  if exists_tab s (ltable o) then
    let g := lgroup o in
    let '(x, oc) := lrun o (base_of s g) (comp s g) in (upd s g x, oc)
  else (s, OErr OtherErr).

(* calculators: the reads they perform, in order (hand-written; tied by the correspondence run).
   probe = the calculator tests hasattr and goes on without the data *)
Definition calc_reads (c : calc) : list (atom * string * bool) :=
  match c with
  | CNeutronSld => [(E1, "density", false); (E1, "mass", false); (E1, "neutron", false)]
  | CNeutronSldIso => [(I11, "density", false); (I11, "mass", false); (I11, "neutron", false)]
  | CXraySld => [(E1, "density", false); (E1, "mass", false); (E1, "xray", false)]
  | CXraySldIon => [(XE1, "density", false); (XE1, "mass", false); (XE1, "xray", false)]
  | CMagneticJ0 => [(E1, "magnetic_ff", false)]
  | CActivation => [(E1, "density", false); (E1, "mass", false); (I11, "neutron_activation", true)]
  | CWater => [(E1, "neutron", false); (E1, "xray", false); (I11, "neutron", false)]
  end.

(* combine: the first exception wins; then any non-canonical ingredient makes the result non-canonical *)
Fixpoint do_reads (s : state) (T : table) (l : list (atom * string * bool)) (acc : outcome) : state * outcome :=
  match l with
  | [] => (s, acc)
  | (a, n, probe) :: r =>
      let '(s1, o) := apply s (LGet T a n) in
      match o with
      | OErr e => if probe then do_reads s1 T r ODiff else (s1, OErr e)
      | OSame => do_reads s1 T r acc
      | OUser => do_reads s1 T r acc      (* marks do not enter computed results *)
      | _ => do_reads s1 T r ODiff
      end
  end.

Definition import_reads (m : string) : list (atom * string * bool) :=
  match find (fun p => String.eqb (fst p) m) import_calls with
  | Some p => concat (map (fun c => if String.eqb c "neutron_sld" then [(E1, "neutron", false); (I11, "neutron", false)]
                                    else if String.eqb c "xray_sld" then [(E1, "xray", false)]
                                    else [(E1, "neutron", false); (E1, "xray", false)]) (snd p))
  | None => []
  end.

Definition step (s : state) (e : event) : state * outcome :=
  match e with
  | Read T a n => apply s (LGet T a n)
  | Has T a n => apply s (LHas T a n)
  | SetA T a n => apply s (LSetA T a n)
  | Mut T a n => apply s (LMut T a n)
  | Init key T => apply s (LInit key T)
  | Import m =>
      match do_reads s Pub (import_reads m) OSame with
      | (s1, OErr er) => (s1, OErr er)
      | (s1, OSame) => (s1, OOk)
      | (s1, _) => (s1, OErr TypeErr)      (* fasta: neutron_sld(...)[0] on the placeholder's None *)
      end
  | Calc c T =>
      if exists_tab s T then do_reads s T (calc_reads c) OSame else (s, OErr OtherErr)
  | New T =>
      (* T = PeriodicTable(name); mass.init(T): the isotopes of a table exist only after mass.init *)
      if exists_tab s T then (s, OErr ValueErr)
      else apply (mkS (T :: tabs s) (comp s)) (LInit "mass.init" T)
  | Parse T => if exists_tab s T then (s, OBool true) else (s, OErr OtherErr)
  | Pickle T a => if exists_tab s T then (s, OBool true) else (s, OErr OtherErr)
  end.

Fixpoint run (s : state) (h : list event) : list outcome :=
  match h with
  | [] => []
  | e :: r => let '(s1, o) := step s e in o :: run s1 r
  end.
Fixpoint exec (s : state) (h : list event) : state :=
  match h with
  | [] => s
  | e :: r => exec (fst (step s e)) r
  end.
