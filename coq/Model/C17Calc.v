(* Model/C17Calc.v — code-shaped model of nsf._sum_piece and of the closure _compute returned by
   nsf.neutron_composite_sld (the SLD part of _calculate_scattering is DUPLICATED there, and is
   transcribed here from _compute, not shared with Model/NsfCalc.calculate_scattering).
   Numbers as in NsfCalc: IExpr expressions; the zero test is decided on exact rationals. *)
From Coq Require Import ZArith QArith Qabs String List Bool.
From PT Require Import Str Dec Py Loaders Formula AtomEnv Nsf IExpr Neutron NsfCalc.
Import ListNotations.

(* _sum_piece(wavelength, compound): num_atoms, molar_mass, b_c (re, im), sigma_s — plain sums over
   compound.atoms, no test for missing data *)
Record piece := mkPiece { pc_n : expr; pc_m : expr; pc_re : expr; pc_im : expr; pc_ss : expr;
                          pc_atoms : list compE }.

Definition sum_piece (D : ndata) (w : wl) (d : dict) : option piece :=
  do ps <- all_some (map (atom_piece D w) d);
  Some (mkPiece (acc_sum (fun c => cq (ce_n c)) ps)
                (acc_sum (fun c => EMul (cq (ce_m c)) (cq (ce_n c))) ps)
                (acc_sum (fun c => EMul (cq (ce_n c)) (ce_re c)) ps)
                (acc_sum (fun c => EMul (cq (ce_n c)) (ce_im c)) ps)
                (acc_sum (fun c => EMul (cq (ce_n c)) (ce_ss c)) ps)
                ps).

(* np.sum(weights*parts) *)
Definition wsum (weights : list Q) (f : piece -> expr) (parts : list piece) : expr :=
  fold_left (fun acc p => EAdd acc (EMul (cq (fst p)) (f (snd p)))) (combine weights parts) (ez 0).

Record sld3 := mkS3 { s_re : expr; s_im : expr; s_inc : expr;
                      s_N : expr; s_sigma_i : expr; s_bre : expr; s_bim : expr; s_ss : expr }.

(* the body of _compute after the zero test *)
Definition compute (parts : list piece) (weights : list Q) (density : Q) : sld3 :=
  let molar_mass := wsum weights pc_m parts in
  let num_atoms := wsum weights pc_n parts in
  let b_re0 := wsum weights pc_re parts in
  let b_im0 := wsum weights pc_im parts in
  let sigma_s0 := wsum weights pc_ss parts in
  let cell_volume := EMul (EDiv (EDiv molar_mass (cq density)) (cq NAq)) (cq E24) in
  let number_density := EDiv num_atoms cell_volume in
  let b_re := EDiv b_re0 num_atoms in
  let b_im := EDiv b_im0 num_atoms in
  let sigma_s := EDiv sigma_s0 num_atoms in
  let sld_re := EMul (EMul (ez 10) number_density) b_re in
  let sld_im := EAbs (EMul (EMul (ez 10) number_density) b_im) in
  let sigma_c := EMul FOURPI_100 (cabs2 b_re b_im) in
  let sigma_i := maximum0 (ESub sigma_s sigma_c) in
  let b_i := ESqrt (EDiv sigma_i FOURPI_100) in
  let sld_inc := EMul (EMul number_density b_i) (ez 10) in
  mkS3 sld_re sld_im sld_inc number_density sigma_i b_re b_im sigma_s.

Inductive c17outcome :=
| CZero                         (* 0, 0, 0 *)
| CVals (v : list (sld3 * list piece))     (* one per wavelength *)
| CRaise (e : err).

(* molar_mass*density == 0, on exact rationals *)
Definition total_mass (D : ndata) (materials : list dict) (weights : list Q) : Q :=
  fold_left (fun acc p => Qred (acc + fst p * rweight (e_mass (nd_env D)) (snd p)))
            (combine weights materials) 0%Q.

Definition composite_sld (D : ndata) (materials : list struct) (ws : list wl)
           (weights : list Q) (density : Q) : c17outcome :=
  let ds := map atoms_of materials in
  (* the calculator: parts = [_sum_piece(wavelength, m) for m in materials] (raises for atoms without data) *)
  match all_some (map (fun w => all_some (map (sum_piece D w) ds)) ws) with
  | None => CRaise TypeErr
  | Some per_w =>
      if negb (Nat.eqb (length weights) (length materials)) then CRaise ValueErr else
      if Qeq_bool (total_mass D ds weights * density) 0 then CZero else
      CVals (map (fun parts => (compute parts weights density, parts)) per_w)
  end.
