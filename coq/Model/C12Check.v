(* Model/C12Check.v — density / natural density / replace / volume: the implementation's
   observables against Model/Density.v.  One case = build a formula (string with tags, nested
   structure, dict or atom; density / natural_density keywords), a list of attribute
   assignments, what was then read (density, natural_density, natural_mass_ratio(), mass) and
   one operation (replace, volume by packing factor, volume by lattice parameters).
   Rationals are compared at 2^-40 relative, volumes against the interval enclosure at 2^-30. *)
From Coq Require Import ZArith QArith Qabs String Ascii List Bool.
From PT Require Import Str Dec Py Loaders Formula FormulaMachine C06Check AtomEnv Pyparse TableEnv Mixture PyparseMix
                       Ancillary IExpr ICheck C02Check Density.
From PT.Gen Require Import ElementBase Cordero.
Import ListNotations.

Inductive c12src :=
| SrcString (s : string)
| SrcNested (st : struct)
| SrcDict (d : dict)
| SrcAtom (a : atom).

Inductive c12set :=
| SetD (d : option Q)        (* f.density = d *)
| SetND (nd : Q).            (* f.natural_density = nd *)

Inductive c12op :=
| OpNone
| OpReplace (src tgt : atom) (portion : Q)
| OpVolPack (pf : pfarg)
| OpVolCell (a b c alpha beta gamma : option Q).

Inductive c12res :=
| RNone
| RF (s : struct) (density : pyval)
| RV (v : pyval)
| RErr (e : err).

Record c12case := mkC {
  c_src : c12src; c_density : option Q; c_natdens : option Q; c_sets : list c12set; c_op : c12op;
  c_odens : pyval; c_onat : pyval; c_oratio : pyval; c_omass : pyval; c_res : c12res
}.

Definition c12_cov : option cov := cordero_init element_base (cst cordero_neutron_radius_text) Cordero.
Definition the_radius : atom -> option Q := radius_with c12_cov element_base.

Inductive built := BOk (f : fobj) | BErr (e : err).

Definition build (E : aenv) (T : ptable) (c : c12case) : built :=
  let d := c_density c in
  let nd := c_natdens c in
  match c_src c with
  | SrcString s =>
      match parse_formula E T s with
      | RMOk m => BOk (string_keywords E (m_f m) d nd)
      | RMErr e => BErr e
      end
  | SrcNested st => BOk (new_formula E st KTuple d nd None)
  | SrcDict dd => BOk (new_formula E (hill_struct E dd) KTuple d nd None)
  | SrcAtom a => BOk (new_formula E [(1, FAtom a)] KTuple d nd None)
  end.

Definition apply_set (E : aenv) (f : fobj) (s : c12set) : fobj :=
  match s with
  | SetD d => set_density d f
  | SetND nd => set_natural_density E nd f
  end.

Definition prepared (E : aenv) (T : ptable) (c : c12case) : built :=
  match build E T c with
  | BOk f => BOk (fold_left (apply_set E) (c_sets c) f)
  | BErr e => BErr e
  end.

(* natural_density of a formula of unknown density: None * float is a TypeError *)
Definition chk_nat (v : pyval) (q : option Q) : bool :=
  match q with
  | Some x => match py_Q v with Some p => Qrel (-40) p x | None => false end
  | None => match v with PE TypeErr => true | _ => false end
  end.

Definition chk_q (v : pyval) (x : Q) : bool :=
  match py_Q v with Some p => Qrel (-40) p x | None => false end.

Definition chk_read (E : aenv) (f : fobj) (c : c12case) : list (string * bool) :=
  [("density"%string, chk_optQ (c_odens c) (f_density f));
   ("natural_density"%string, chk_nat (c_onat c) (f_natural_density E f));
   ("natural_mass_ratio"%string, chk_q (c_oratio c) (natural_mass_ratio E f));
   ("mass"%string, chk_q (c_omass c) (f_mass E f))].

Definition chk_vres (m : vres) (r : c12res) : list (string * bool) :=
  match m, r with
  | VOk e, RV v => [("volume"%string, chk_expr_rel (-30) v e)]
  | VErr e, RErr e' => [("volume-error-kind"%string, err_eqb e e')]
  | VOk _, _ => [("volume: model gives a value"%string, false)]
  | VErr _, _ => [("volume: model raises"%string, false)]
  end.

Definition chk_op (E : aenv) (radius : atom -> option Q) (f : fobj) (c : c12case) : list (string * bool) :=
  match c_op c, c_res c with
  | OpNone, RNone => []
  | OpReplace src tgt p, RF s d =>
      let f' := f_replace E f src tgt p in
      [("replace-structure"%string, frag_close (FGroup (f_struct f')) (FGroup s));
       ("replace-density"%string, chk_optQ d (f_density f'))]
  | OpReplace _ _ _, RErr _ => [("replace: implementation raises"%string, false)]
  | OpVolPack pf, r => chk_vres (f_volume_packing radius f pf) r
  | OpVolCell a b cc al be ga, r => chk_vres (f_volume_cell a b cc al be ga) r
  | _, _ => [("shape"%string, false)]
  end.

Definition checks (E : aenv) (T : ptable) (radius : atom -> option Q) (c : c12case) : list (string * bool) :=
  match prepared E T c with
  | BOk f => (chk_read E f c ++ chk_op E radius f c)%list
  | BErr e => match c_res c with
              | RErr e' => [("build-error-kind"%string, err_eqb e e')]
              | _ => [("build: model raises"%string, false)]
              end
  end.

Definition check_case (E : aenv) (T : ptable) (radius : atom -> option Q) (c : c12case) : bool :=
  forallb snd (checks E T radius c).

Definition check_all_with (E : aenv) (T : ptable) (radius : atom -> option Q) (cases : list c12case) : list bool :=
  map (check_case E T radius) cases.
Definition check_all := check_all_with the_env the_ptable the_radius.

Definition diag_case (E : aenv) (T : ptable) (radius : atom -> option Q) (c : c12case) : string :=
  String.concat " "%string (map fst (filter (fun p => negb (snd p)) (checks E T radius c))).
Definition diag_all := map (diag_case the_env the_ptable the_radius).
