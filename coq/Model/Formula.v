(* Model/Formula.v — code-shaped model of periodictable.formulas: structures, _count_atoms,
   Formula objects and their arithmetic (+, n*, +=, formula() dispatch), mass, charge,
   mass_fraction, natural_mass_ratio, isotope substitution, Hill order.
   Counts are exact rationals.  No proofs here. *)
From Coq Require Import ZArith QArith Qabs String Ascii List Bool.
From PT Require Import Str Dec Loaders.
Import ListNotations.
Open Scope Q_scope.

(* ------------------------------------------------------------------ atoms *)
(* an atom of one table: element (A = 0), isotope, ion (charge <> 0), isotope ion *)
Record atom := mkAtom { az : Z; aa : Z; aq : Z }.

Definition atom_eqb (a b : atom) : bool :=
  (Z.eqb (az a) (az b) && Z.eqb (aa a) (aa b) && Z.eqb (aq a) (aq b))%bool.

(* ------------------------------------------------------------------ structures *)
Inductive frag :=
| FAtom (a : atom)
| FGroup (l : list (Q * frag)).
Definition struct := list (Q * frag).

(* insertion-ordered dict atom -> count, as _count_atoms builds it *)
Definition dict := list (atom * Q).

Fixpoint dict_add (d : dict) (a : atom) (v : Q) : dict :=
  match d with
  | [] => [(a, 0 + v)]
  | (b, w) :: r => if atom_eqb a b then (b, w + v) :: r else (b, w) :: dict_add r a v
  end.

Fixpoint dget (d : dict) (a : atom) : option Q :=
  match d with
  | [] => None
  | (b, w) :: r => if atom_eqb a b then Some w else dget r a
  end.
Definition dget0 (d : dict) (a : atom) : Q := match dget d a with Some w => w | None => 0 end.

(* _count_atoms(seq): partial = _count_atoms(fragment) or {fragment: 1};
   total[el] += elcount*count in the order of partial *)
Fixpoint count_frag (f : frag) : dict :=
  match f with
  | FAtom a => [(a, 1)]
  | FGroup l =>
      (fix go (l : list (Q * frag)) (total : dict) : dict :=
         match l with
         | [] => total
         | (c, f') :: r =>
             go r (fold_left (fun t p => dict_add t (fst p) (snd p * c)) (count_frag f') total)
         end) l []
  end.
Definition count_atoms (s : struct) : dict := count_frag (FGroup s).

(* Spec-level count of one atom: a count multiplies everything in its group, repeats add *)
Fixpoint cnt (a : atom) (f : frag) : Q :=
  match f with
  | FAtom b => if atom_eqb a b then 1 else 0
  | FGroup l =>
      (fix go (l : list (Q * frag)) : Q :=
         match l with
         | [] => 0
         | (c, f') :: r => c * cnt a f' + go r
         end) l
  end.
Definition cnt_s (a : atom) (s : struct) : Q := cnt a (FGroup s).

(* structural weight of a fragment for any per-atom weight w (mass, charge, ...) *)
Fixpoint fweight (w : atom -> Q) (f : frag) : Q :=
  match f with
  | FAtom b => w b
  | FGroup l =>
      (fix go (l : list (Q * frag)) : Q :=
         match l with
         | [] => 0
         | (c, f') :: r => c * fweight w f' + go r
         end) l
  end.

(* sum over the dict, in dict order: mass += el.mass*count *)
Definition dweight (w : atom -> Q) (d : dict) : Q :=
  fold_left (fun acc p => acc + w (fst p) * snd p) d 0.

(* ------------------------------------------------------------------ Formula objects *)
Inductive seqkind := KTuple | KList.
Definition seqkind_eqb (a b : seqkind) : bool :=
  match a, b with KTuple, KTuple | KList, KList => true | _, _ => false end.

Record fobj := mkF {
  f_struct : struct;
  f_kind : seqkind;            (* Python type of the top-level sequence *)
  f_density : option Q;        (* None = unknown *)
  f_name : option string
}.

(* structure equality as Python's == on nested tuples: counts numerically, atoms by identity *)
Fixpoint frag_eqb (x y : frag) : bool :=
  match x, y with
  | FAtom a, FAtom b => atom_eqb a b
  | FGroup l, FGroup m =>
      (fix go (l m : list (Q * frag)) : bool :=
         match l, m with
         | [], [] => true
         | (c, f) :: r, (c', f') :: r' => (Qeq_bool c c' && frag_eqb f f' && go r r')%bool
         | _, _ => false
         end) l m
  | _, _ => false
  end.
Definition struct_eqb (s t : struct) : bool := frag_eqb (FGroup s) (FGroup t).

(* Formula.__eq__ *)
Definition formula_eqb (f g : fobj) : bool :=
  (seqkind_eqb (f_kind f) (f_kind g) && struct_eqb (f_struct f) (f_struct g))%bool.

(* __add__: a fresh Formula() (density None, no name) with the concatenated structure *)
Definition f_add (f g : fobj) : fobj :=
  mkF (f_struct f ++ f_struct g)%list KTuple None None.

(* __iadd__: mutates self.structure only *)
Definition f_iadd (f g : fobj) : fobj :=
  mkF (f_struct f ++ f_struct g)%list KTuple (f_density f) (f_name f).

(* __rmul__: copy(self), then rescale *)
Definition f_rmul (n : Q) (f : fobj) : fobj :=
  if (negb (Qeq_bool n 1) && negb (match f_struct f with [] => true | _ => false end))%bool then
    match f_struct f with
    | [(q, fr)] => mkF [(n * q, fr)] KTuple (f_density f) (f_name f)
    | s => mkF [(n, FGroup s)] KTuple (f_density f) (f_name f)
    end
  else f.

(* ------------------------------------------------------------------ atom data *)
Record aenv := mkEnv {
  e_mass : atom -> Q;            (* atom.mass, ions already corrected for electrons *)
  e_natmass : atom -> Q;         (* what natural_mass_ratio uses for this atom *)
  e_density : atom -> option Q;  (* atom.density, None = unknown *)
  e_sym : atom -> string         (* atom.symbol (D, T for the named hydrogen isotopes) *)
}.

Definition f_atoms (f : fobj) : dict := count_atoms (f_struct f).
Definition f_mass (E : aenv) (f : fobj) : Q := dweight (e_mass E) (f_atoms f).
Definition f_charge (f : fobj) : Q := dweight (fun a => inject_Z (aq a)) (f_atoms f).
Definition f_mass_fraction (E : aenv) (f : fobj) : list (atom * Q) :=
  let m := f_mass E f in map (fun p => (fst p, snd p * e_mass E (fst p) / m)) (f_atoms f).

(* Formula.__init__ density defaulting *)
Definition init_density (E : aenv) (s : struct) (density natural_density : option Q) : option Q :=
  match natural_density with
  | Some nd =>
      let d := count_atoms s in
      Some (nd / (dweight (e_natmass E) d / dweight (e_mass E) d))
  | None =>
      match density with
      | Some r => Some r
      | None =>
          match count_atoms s with
          | [(a, _)] => e_density E a
          | _ => None
          end
      end
  end.

Definition natural_mass_ratio (E : aenv) (f : fobj) : Q :=
  dweight (e_natmass E) (f_atoms f) / dweight (e_mass E) (f_atoms f).

(* ------------------------------------------------------------------ Hill order *)
(* stable insertion sort by a string key, as sorted(keys, key=_hill_key) *)
Fixpoint str_ltb (a b : string) : bool :=
  match a, b with
  | EmptyString, EmptyString => false
  | EmptyString, String _ _ => true
  | String _ _, EmptyString => false
  | String x a', String y b' =>
      if N.ltb (N_of_ascii x) (N_of_ascii y) then true
      else if N.ltb (N_of_ascii y) (N_of_ascii x) then false
      else str_ltb a' b'
  end.

Fixpoint insert_lt {A} (ltb : A -> A -> bool) (x : A) (l : list A) : list A :=
  match l with
  | [] => [x]
  | y :: r => if ltb y x then y :: insert_lt ltb x r else x :: l
  end.
(* inserting from the right, before the first element that is not smaller, keeps equal
   keys in input order (stable, like Python's sorted) *)
Definition sort_lt {A} (ltb : A -> A -> bool) (l : list A) : list A :=
  fold_right (insert_lt ltb) [] l.

(* _hill_key(a) = (0 if symbol in (C,H) else 1, symbol, isotope number or 0, charge),
   compared as Python compares tuples *)
Definition hill_flag (s : string) : Z := if (String.eqb s "C" || String.eqb s "H")%bool then 0%Z else 1%Z.
(* lexicographic comparison of pairs, as Python compares tuples *)
Definition lex_ltb {A B} (ltA : A -> A -> bool) (ltB : B -> B -> bool) (x y : A * B) : bool :=
  if ltA (fst x) (fst y) then true else if ltA (fst y) (fst x) then false else ltB (snd x) (snd y).

Definition hill_K := (Z * (string * (Z * (Z * Z))))%type.
(* the last component (atomic number) never decides for atoms of a table, whose symbol
   determines the element (Proofs/C19Proofs.v: symbols_unique); it makes the order total on
   all triples *)
Definition hill_tuple (sym : atom -> string) (a : atom) : hill_K :=
  (hill_flag (sym a), (sym a, (aa a, (aq a, az a)))).
Definition hill_ltK : hill_K -> hill_K -> bool :=
  lex_ltb Z.ltb (lex_ltb str_ltb (lex_ltb Z.ltb (lex_ltb Z.ltb Z.ltb))).
Definition hill_ltb (sym : atom -> string) (a b : atom) : bool :=
  hill_ltK (hill_tuple sym a) (hill_tuple sym b).

(* _convert_to_hill_notation(atoms): [(atoms[el], el) for el in sorted(keys, key=_hill_key)] *)
(* counts are stored reduced (Qred) so that equal values are identical terms, as equal floats are *)
Definition hill_struct (E : aenv) (d : dict) : struct :=
  map (fun p => (Qred (snd p), FAtom (fst p))) (sort_lt (fun p q => hill_ltb (e_sym E) (fst p) (fst q)) d).

(* Formula.hill = formula(self.atoms) *)
Definition f_hill (E : aenv) (f : fobj) : fobj :=
  let s := hill_struct E (f_atoms f) in mkF s KTuple (init_density E s None None) None.
