(* Model/C15Check.v — one case = one call Sample.decay_time(target).
   (S) the property's postcondition, decided inside Coq on the implementation's own numbers:
       returned 0  <->  sum_i A_i(0) <= target              (exact rational comparison)
       returned t  ->   t >= 0 and |sum_i A_i(0) 2^(-t/T_i) - target| <= 0.1% target
                        (sign decision on a rigorous enclosure, Model/ActEval.v)
       only RuntimeError may be raised.
   (M) the interval instance of the model of decay_time/find_root (Model/DecayTime.v) is run on the
       numbers the implementation used and must produce the same kind of outcome and the same time. *)
From Coq Require Import ZArith QArith Qabs String List Bool.
From Interval Require Import Specific_bigint Specific_ops Float_full Interval Xreal Basic.
From PT Require Import Str Dec Py IExpr ActEval Act DecayTime.
From PT.Gen Require Import ActivationDat.
Import ListNotations.
Open Scope string_scope.

(* removal [(T, A_i(0))], used [(T, [A_i at each rest time])], rest_times, target, outcome *)
Definition c15case := (list (pyval * pyval) * list (pyval * list pyval) * list pyval * pyval * pyval)%type.

Definition PRECI : FB.precision := FB.PtoP 120.

Fixpoint allQ (l : list pyval) : option (list Q) :=
  match l with
  | [] => Some []
  | v :: r => match py_Q v, allQ r with Some x, Some y => Some (x :: y) | _, _ => None end
  end.
Fixpoint pairsQ (l : list (pyval * pyval)) : option (list (Q * Q)) :=
  match l with
  | [] => Some []
  | (a, b) :: r => match py_Q a, py_Q b, pairsQ r with Some x, Some y, Some z => Some ((x, y) :: z) | _, _, _ => None end
  end.
Fixpoint usedQ (l : list (pyval * list pyval)) : option (list (Q * list Q)) :=
  match l with
  | [] => Some []
  | (a, b) :: r => match py_Q a, allQ b, usedQ r with Some x, Some y, Some z => Some ((x, y) :: z) | _, _, _ => None end
  end.

Definition Qsum (l : list Q) : Q := fold_left Qplus l 0%Q.

(* sum_i A_i(0) 2^(-t/T_i) as an expression over ln2_env_R *)
Definition true_activity (rem : list (Q * Q)) (t : Q) : expr :=
  esum (map (fun p => EMul (ECst (snd p)) (EExp (ENeg (EMul (ECst (t / fst p)%Q) LN2)))) rem).

Definition ACC : Q := (1 # 1000) * (1 + D2Q 1 (-20)).
(* 0.1% target (1+2^-20) - |A(t) - target| *)
Definition accuracy_slack (rem : list (Q * Q)) (t target : Q) : expr :=
  ESub (ECst (ACC * target)%Q) (EAbs (ESub (true_activity rem t) (ECst target))).

Inductive sverdict := SOk | SRuntime | SEarlyExit | SLateExit | SNegative | SInaccurate | SAccUnknown | SException | SShape.
Definition spec_check (rem : list (Q * Q)) (target : Q) (out : pyval) : sverdict :=
  let a0 := Qsum (map snd rem) in
  match out with
  | PI 0 => if Qle_bool a0 target then SOk else SEarlyExit
  | PF _ _ | PI _ =>
      match py_Q out with
      | Some t =>
          if Qle_bool a0 target then SLateExit else
          if Qlt_bool t 0 then SNegative else
          match sign_of (accuracy_slack rem t target) with
          | SPos | SNonneg => SOk
          | SNeg => SInaccurate
          | SUnknown => SAccUnknown
          end
      | None => SShape
      end
  | PE RuntimeErr => SRuntime
  | PE _ => SException
  | _ => SShape
  end.

Inductive mverdict := MOk | MUnknown | MKind (what : string) | MTime.
Definition model_check (used : list (Q * list Q)) (rest : list Q) (target : Q) (out : pyval) : mverdict :=
  match decay_time IB.type (numI PRECI) dt_early_exit_vs_target dt_df_rest_factor used rest target, out with
  | Unk, _ => MUnknown
  | Ok RetZero, PI 0 => MOk
  | Ok RetZero, _ => MKind "model returns 0"
  | Ok (Ret ti), PF _ _ =>
      match py_Q out with
      | Some t =>
          let tol := (D2Q 1 (-20) * (1 + Qabs t))%Q in
          let d := IB.abs (IB.sub PRECI ti (nQ _ (numI PRECI) t)) in
          match ilt PRECI d (nQ _ (numI PRECI) tol) with
          | Some true => MOk
          | Some false => MTime
          | None => MUnknown
          end
      | None => MKind "shape"
      end
  | Ok (Ret _), _ => MKind "model returns a time"
  | Err e, PE e' => if err_eqb e e' then MOk else MKind "model raises another exception"
  | Err RuntimeErr, _ => MKind "model raises RuntimeError"
  | Err ZeroDivErr, _ => MKind "model raises ZeroDivisionError"
  | Err _, _ => MKind "model raises"
  end.

Definition s_str (s : sverdict) : string :=
  match s with
  | SOk => "ok" | SRuntime => "runtime" | SEarlyExit => "early-exit" | SLateExit => "late-exit" | SNegative => "negative-time"
  | SInaccurate => "inaccurate" | SAccUnknown => "accuracy-unknown" | SException => "exception" | SShape => "shape"
  end.
Definition m_str (m : mverdict) : string :=
  match m with MOk => "ok" | MUnknown => "unknown" | MKind w => "kind: " ++ w | MTime => "time differs" end.

Definition judge (cs : c15case) : sverdict * mverdict :=
  let '(rem, used, rest, target, out) := cs in
  match pairsQ rem, usedQ used, allQ rest, py_Q target with
  | Some r, Some u, Some rs, Some tg => (spec_check r tg out, model_check u rs tg out)
  | _, _, _, _ => (SShape, MKind "shape")
  end.

Definition is_ok (v : sverdict * mverdict) : bool :=
  match v with
  | (SOk, MOk) | (SOk, MUnknown) | (SRuntime, MOk) | (SRuntime, MUnknown) => true
  | _ => false
  end.
Definition check_all (cases : list c15case) : list bool := map (fun cs => is_ok (judge cs)) cases.
Definition diag_all (cases : list c15case) : list string :=
  map (fun cs => let v := judge cs in "spec " ++ s_str (fst v) ++ "; model " ++ m_str (snd v)) cases.
