(* Model/DecayTime.v — code-shaped model of Sample.decay_time and find_root (activation.py lines
   171-204, 276-291), written once over an abstract number structure and instantiated twice:
   over the reals (the meaning; theorems in Proofs/C15Proofs.v) and over Coq-Interval's BigZ-backed
   intervals (run by vm_compute beside the implementation; a comparison that an enclosure cannot
   settle yields Unk, never a guess).  Python's exceptions are outcomes: ZeroDivisionError (x/0),
   ValueError (log of a non-positive number), OverflowError (exp above 709.78; OtherErr here),
   RuntimeError (the final 0.1% guard).  No proofs here. *)
From Coq Require Import Reals ZArith QArith List Bool.
From Interval Require Import Specific_bigint Specific_ops Float_full Interval Xreal Basic.
From PT Require Import Dec Py IExpr ActEval.
Import ListNotations.

Inductive res (A : Type) := Ok (x : A) | Err (e : err) | Unk.
Arguments Ok {A} x. Arguments Err {A} e. Arguments Unk {A}.
Definition rbind {A B} (r : res A) (k : A -> res B) : res B :=
  match r with Ok x => k x | Err e => Err e | Unk => Unk end.
Notation "'do' x <- e ;; k" := (rbind e (fun x => k)) (at level 200, x pattern, right associativity).
Definition dec {A} (o : option bool) (k : bool -> res A) : res A :=
  match o with Some b => k b | None => Unk end.

Record num (X : Type) := mkNum {
  nQ : Q -> X; nadd : X -> X -> X; nsub : X -> X -> X; nmul : X -> X -> X; ndiv : X -> X -> X;
  nneg : X -> X; nabs : X -> X; nexp : X -> X; nln : X -> X; nln2 : X;
  nlt : X -> X -> option bool          (* a < b, when it can be told *)
}.

Inductive dt (X : Type) := RetZero | Ret (t : X).
Arguments RetZero {X}. Arguments Ret {X} t.

Definition EXPMAX : Q := 709782712893384 # 1000000000000.   (* log(DBL_MAX) *)
Definition ROOT_TOL : Q := 1 # 10000000000.                 (* find_root tol=1e-10 *)
Definition ROOT_MAX : nat := 20.                            (* find_root max=20 *)

Section Gen.
  Variable X : Type.
  Variable N : num X.
  (* the two lines of decay_time whose form is read from the source (Gen/ActivationDat.v):
     early exit "f(0) < target" (true) or "f(0) <= 0" (false);
     derivative "sum(La*Ia*(To-1)*exp(..))" (true) or "-sum(La*Ia*exp(..))" (false) *)
  Variables (early_vs_target df_rest_factor : bool).
  Notation "a +: b" := (nadd X N a b) (at level 50, left associativity).
  Notation "a -: b" := (nsub X N a b) (at level 50, left associativity).
  Notation "a *: b" := (nmul X N a b) (at level 40, left associativity).
  Notation "a /: b" := (ndiv X N a b) (at level 40, left associativity).
  Definition q (x : Q) : X := nQ X N x.
  Definition lt (a b : X) : option bool := nlt X N a b.

  (* x == 0 ? *)
  Definition is_zero (x : X) : option bool :=
    match lt (q 0) (nabs X N x) with Some b => Some (negb b) | None => None end.
  Definition sexp (x : X) : res X :=
    dec (lt (q EXPMAX) x) (fun big => if big then Err OtherErr else Ok (nexp X N x)).
  Definition sdiv (a b : X) : res X :=
    dec (is_zero b) (fun z => if z then Err ZeroDivErr else Ok (a /: b)).
  Definition slog (x : X) : res X :=
    dec (lt (q 0) x) (fun pos => if pos then Ok (nln X N x) else Err ValueErr).

  (* data: (Ia, La) per product *)
  (* sum(Ia*exp(-La*(t-To)) for Ia, La in data) *)
  Fixpoint fsum (data : list (X * X)) (To t acc : X) : res X :=
    match data with
    | [] => Ok acc
    | (Ia, La) :: r => do e <- sexp (nneg X N (La *: (t -: To))) ;; fsum r To t (acc +: Ia *: e)
    end.
  Definition f (data : list (X * X)) (To target t : X) : res X :=
    do s <- fsum data To t (q 0) ;; Ok (s -: target).
  (* sum(La*Ia*(To-1)*exp(-La*(t-To)) for Ia, La in data) *)
  Fixpoint dfsum (data : list (X * X)) (To t acc : X) : res X :=
    match data with
    | [] => Ok acc
    | (Ia, La) :: r => do e <- sexp (nneg X N (La *: (t -: To))) ;; dfsum r To t (acc +: La *: Ia *: (To -: q 1) *: e)
    end.
  (* -sum(La*Ia*exp(-La*(t-To)) for Ia, La in data) *)
  Fixpoint dfsum' (data : list (X * X)) (To t acc : X) : res X :=
    match data with
    | [] => Ok acc
    | (Ia, La) :: r => do e <- sexp (nneg X N (La *: (t -: To))) ;; dfsum' r To t (acc +: La *: Ia *: e)
    end.
  Definition df (data : list (X * X)) (To t : X) : res X :=
    if df_rest_factor then dfsum data To t (q 0)
    else do s <- dfsum' data To t (q 0) ;; Ok (nneg X N s).

  (* find_root: fx = f(x); for _ in range(max): if abs(f(x)) < tol: break; x -= fx/df(x); fx = f(x) *)
  Fixpoint find_root_loop (data : list (X * X)) (To target : X) (fuel : nat) (x fx : X) : res (X * X) :=
    match fuel with
    | O => Ok (x, fx)
    | S k =>
        do fx' <- f data To target x ;;
        dec (lt (nabs X N fx') (q ROOT_TOL)) (fun small =>
          if small then Ok (x, fx) else
          do d <- df data To x ;;
          do s <- sdiv fx d ;;
          let x' := x -: s in
          do fx2 <- f data To target x' ;;
          find_root_loop data To target k x' fx2)
    end.
  Definition find_root (data : list (X * X)) (To target x : X) : res (X * X) :=
    do fx <- f data To target x ;; find_root_loop data To target ROOT_MAX x fx.

  (* initial = max(-log(target/Ia)/La + To for Ia, La in data) *)
  Definition guess_of (To target : X) (p : X * X) : res X :=
    let '(Ia, La) := p in
    do r <- sdiv target Ia ;; do l <- slog r ;; do z <- sdiv (nneg X N l) La ;; Ok (z +: To).
  Fixpoint guess_max (To target : X) (data : list (X * X)) (cur : X) : res X :=
    match data with
    | [] => Ok cur
    | p :: r => do v <- guess_of To target p ;;
                dec (lt cur v) (fun b => guess_max To target r (if b then v else cur))
    end.
  Definition initial_guess (To target : X) (data : list (X * X)) : res X :=
    match data with
    | [] => Err ValueErr                       (* max() of an empty sequence *)
    | p :: r => do v <- guess_of To target p ;; guess_max To target r v
    end.

  (* decay_time after "data" and "To" have been extracted *)
  Definition decay_time_core (data : list (X * X)) (To target : X) : res (dt X) :=
    do f0 <- f data To target (q 0) ;;
    dec (if early_vs_target then lt f0 target
         else match lt (q 0) f0 with Some b => Some (negb b) | None => None end) (fun below =>
      if below then Ok RetZero else
      do x0 <- initial_guess To target data ;;
      do tf <- find_root data To target x0 ;;
      let '(t, ft) := tf in
      do pe <- sdiv (q 100 *: nabs X N ft) target ;;
      dec (lt (q (1 # 10)) pe) (fun bad => if bad then Err RuntimeErr else Ok (Ret t))).
End Gen.

(* min(enumerate(rest_times), key=lambda x: x[1]): first index of the smallest rest time *)
Fixpoint argmin (l : list Q) (i : nat) (best : nat * Q) : nat * Q :=
  match l with
  | [] => best
  | x :: r => argmin r (S i) (if Qlt_le_dec x (snd best) then (i, x) else best)
  end.
Definition min_rest (rest : list Q) : option (nat * Q) :=
  match rest with [] => None | x :: r => Some (argmin r 1 (0%nat, x)) end.

(* Sample.decay_time: products = (half-life, activities per rest time) *)
Definition decay_time (X : Type) (N : num X) (ev df : bool) (products : list (Q * list Q)) (rest : list Q) (target : Q) : res (dt X) :=
  match min_rest rest, products with
  | None, _ | _, [] => Ok RetZero
  | Some (i, To), _ =>
      let data := map (fun p => (nQ X N (nth i (snd p) 0%Q), ndiv X N (nln2 X N) (nQ X N (fst p)))) products in
      decay_time_core X N ev df data (nQ X N To) (nQ X N target)
  end.

(* ------------------------------------------------------------------ the reals *)
Definition numR : num R :=
  mkNum R Q2R Rplus Rminus Rmult Rdiv Ropp Rabs exp ln (ln 2)
        (fun a b => Some (if Rlt_dec a b then true else false)).

(* ------------------------------------------------------------------ intervals (precision p) *)
Definition ilt (p : FB.precision) (a b : IB.type) : option bool :=
  let d := IB.sub p b a in
  match IB.sign_strict d with
  | Xgt => Some true
  | _ => match IB.sign_large d with
         | Xlt | Xeq => Some false
         | _ => None
         end
  end.
Definition numI (p : FB.precision) : num IB.type :=
  mkNum IB.type
        (fun x => IB.div p (IB.fromZ p (Qnum x)) (IB.fromZ p (Zpos (Qden x))))
        (IB.add p) (IB.sub p) (IB.mul p) (IB.div p) IB.neg IB.abs
        (fun x => widen_tiny p x (IB.exp p x)) (IB.ln p) (IB.ln p (IB.fromZ p 2)) (ilt p).
