(* Model/PyparseMix.v — the mixture part of formula_grammar (wt%, vol%, mass/volume units,
   layer thicknesses, '//' separators, grouped and nested mixtures) on top of Model/Pyparse.v,
   and the top-level parse_formula / formula(string, ...) entry points.  No proofs. *)
From Coq Require Import ZArith QArith String Ascii List Bool.
From PT Require Import Str Dec Py Loaders Formula FormulaMachine Pyparse TableEnv Mixture.
Import ListNotations.
Open Scope string_scope.

(* a parsed mixture: the formula and the attributes total_mass / thickness the actions attach *)
Record mval := mkM { m_f : fobj; m_total_mass : option Q; m_thickness : option Q }.
Definition plain (f : fobj) : mval := mkM f None None.

Definition fobj_of_compound (E : aenv) (st : list (Q * frag)) (d : dkind) : fobj :=
  match d with
  | DNone => new_formula E st KTuple None None None
  | DIso x => new_formula E st KTuple (Some x) None None
  | DNat x => new_formula E st KTuple None (Some x) None
  end.

Definition p_compound_m (E : aenv) (T : ptable) (s : string) : pres mval :=
  let* (sd, r) := p_compound T s in POk (plain (fobj_of_compound E (fst sd) (snd sd))) r.

(* partsep = space + '//' + space *)
Definition p_partsep (s : string) : pres unit :=
  match skip_ws s with
  | String "/" (String "/" r) => POk tt (skip_ws r)
  | _ => PFail
  end.

(* after skipping white space, the first of the alternatives that is a prefix *)
Fixpoint first_prefix (alts : list string) (s : string) : pres string :=
  match alts with
  | [] => PFail
  | a :: r => if startswith a s then POk a (drop (String.length a) s) else first_prefix r s
  end.
Definition re_alts (alts : list string) (s : string) : pres string := first_prefix alts (skip_ws s).

(* Regex weight: w, wt, weight | m, mass ;  Regex volume: v, vol, volume *)
Definition re_weight := re_alts ["weight"; "wt"; "w"; "mass"; "m"].
Definition re_volume := re_alts ["volume"; "vol"; "v"].

(* weight_percent = ((percent + weight) | (weight + percent)) + space      (as repaired in /repo d014aa0: before it the
   trailing blanks were consumed after the second spelling only, so "30%v 2Fe // Ni" did not parse) *)
Definition p_kind_percent (re_kind : string -> pres string) (s : string) : pres unit :=
  match (let* (_, r1) := lit "%"%char s in let* (_, r2) := re_kind r1 in POk tt (skip_ws r2)) with
  | POk _ r => POk tt r
  | PAbort e => PAbort e
  | PFail =>
      let* (_, r1) := re_kind s in
      let* (_, r2) := lit "%"%char r1 in
      POk tt (skip_ws r2)
  end.
(* (weight_percent | percent + space) *)
Definition p_kind_percent_or_bare (re_kind : string -> pres string) (s : string) : pres unit :=
  match p_kind_percent re_kind s with
  | POk _ r => POk tt r
  | PAbort e => PAbort e
  | PFail => let* (_, r1) := lit "%"%char s in POk tt (skip_ws r1)
  end.

Definition LENGTH_UNITS : list (string * Q) :=
  [("nm", 1 # 1000000000); ("um", 1 # 1000000); ("mm", 1 # 1000); ("cm", 1 # 100)]%Q.
Definition MASS_UNITS : list (string * Q) :=
  [("ng", 1 # 1000000000); ("ug", 1 # 1000000); ("mg", 1 # 1000); ("g", 1); ("kg", 1000)]%Q.
Definition VOLUME_UNITS : list (string * Q) :=
  [("nL", 1 # 1000000000); ("uL", 1 # 1000000); ("mL", 1 # 1000); ("L", 1)]%Q.
Definition unit_val (tbl : list (string * Q)) (u : string) : option Q :=
  match find (fun p => String.eqb (fst p) u) tbl with Some p => Some (snd p) | None => None end.

Definition lift_mres (m : mres) (r : string) (k : fobj -> mval) : pres mval :=
  match m with MOk f => POk (k f) r | MErr e => PAbort e end.

Definition Qsum_list (l : list Q) : Q := fold_left Qplus l 0%Q.
(* Python's sum() over the doubles float(v): every partial sum is rounded to binary64 *)
Definition Fsum_list (l : list Q) : Q := fold_left (fun a x => round64 (a + round64 x)%Q) l 0%Q.

Definition apply_dkind (E : aenv) (m : mval) (d : dkind) : mval :=
  match d with
  | DNone => m
  | DIso x => mkM (with_density (m_f m) (Some x)) (m_total_mass m) (m_thickness m)
  | DNat x => mkM (with_density (m_f m) (Some (x / natural_mass_ratio E (m_f m))%Q)) (m_total_mass m) (m_thickness m)
  end.

Inductive nt := NMixture | NUngrouped | NGrouped | NByPercent (vol : bool) | NByLayer | NByAbs.

(* one recursive function over all mixture non-terminals; every call spends one unit of fuel *)
Fixpoint p_nt (E : aenv) (T : ptable) (fuel : nat) (k : nt) (s : string) : pres mval :=
  match fuel with
  | O => PFail
  | S f =>
      let rec := p_nt E T f in
      (* (opengrp + X + closegrp) with opengrp = space '(' space, closegrp = space ')' *)
      let in_parens (k' : nt) (s : string) : pres mval :=
        let* (_, r1) := lit "("%char s in
        let* (m, r2) := rec k' (skip_ws r1) in
        let* (_, r3) := lit ")"%char r2 in
        POk m r3 in
      match k with
      | NMixture =>
          (* mixture = grouped_mixture | compound *)
          match rec NGrouped s with
          | POk m r => POk m r
          | PAbort e => PAbort e
          | PFail => p_compound_m E T s
          end
      | NGrouped =>
          (* opengrp + ungrouped_mixture + closegrp + Optional(density) *)
          let* (m, r1) := in_parens NUngrouped s in
          let* (d, r2) := p_density r1 in
          POk (apply_dkind E m d) r2
      | NUngrouped =>
          match rec (NByPercent false) s with
          | POk m r => POk m r | PAbort e => PAbort e
          | PFail =>
              match rec (NByPercent true) s with
              | POk m r => POk m r | PAbort e => PAbort e
              | PFail =>
                  match rec NByLayer s with
                  | POk m r => POk m r | PAbort e => PAbort e
                  | PFail => rec NByAbs s
                  end
              end
          end
      | NByPercent vol =>
          let re_kind := if vol then re_volume else re_weight in
          let* (c1, r1) := p_count s in
          let* (_, r2) := p_kind_percent re_kind r1 in
          let* (m1, r3) := rec NMixture r2 in
          (* ZeroOrMore(partsep + count + (kind_percent | percent) + mixture) *)
          let loop :=
            (fix loop (n : nat) (acc : list (mval * Q)) (r : string) : pres (list (mval * Q)) :=
               match n with
               | O => POk acc r
               | S n' =>
                   match (let* (_, a1) := p_partsep r in
                          let* (c, a2) := p_count a1 in
                          let* (_, a3) := p_kind_percent_or_bare re_kind a2 in
                          let* (m, a4) := rec NMixture a3 in
                          POk (m, c) a4) with
                   | POk item r' => loop n' (acc ++ [item])%list r'
                   | PFail => POk acc r
                   | PAbort e => PAbort e
                   end
               end) in
          let* (items, r4) := loop (S (String.length r3)) [(m1, c1)] r3 in
          let* (_, r5) := p_partsep r4 in
          let* (mlast, r6) := rec NMixture r5 in
          (* 100 - sum(fract) in doubles: for a remainder far below the stated percentages the representation
             error of the stated numbers is what the last component receives, exactly as in the code *)
          let last := round64 (100 - Fsum_list (map snd items))%Q in
          if Qle_bool 0 last then
            let pairs := map (fun p => (m_f (fst p), snd p)) (items ++ [(mlast, last)])%list in
            lift_mres ((if vol then mix_by_volume_pairs else mix_by_weight_pairs) E pairs) r6 plain
          else PAbort ValueErr
      | NByLayer | NByAbs =>
          let layer := match k with NByLayer => true | _ => false end in
          (* part = quantity + mixture | opengrp + <same> + closegrp + count ; gives (piece, amount) *)
          let part (s : string) : pres (mval * Q) :=
            match (let* (c, r1) := p_count s in
                   let* (u, r2) := re_alts (map fst (if layer then LENGTH_UNITS else (MASS_UNITS ++ VOLUME_UNITS)%list)) r1 in
                   let* (m, r3) := rec NMixture (skip_ws r2) in
                   if layer then
                     match unit_val LENGTH_UNITS u with Some x => POk (m, (c * x)%Q) r3 | None => PFail end
                   else
                     match unit_val VOLUME_UNITS u with
                     | Some x =>
                         match f_density (m_f m) with
                         | Some rho => POk (m, (c * x * 1000 * rho)%Q) r3
                         | None => PAbort ValueErr
                         end
                     | None =>
                         match unit_val MASS_UNITS u with Some x => POk (m, (c * x)%Q) r3 | None => PFail end
                     end) with
            | POk x r => POk x r
            | PAbort e => PAbort e
            | PFail =>
                let* (m, r1) := in_parens k s in
                let* (c, r2) := p_count r1 in
                match (if layer then m_thickness m else m_total_mass m) with
                | Some a => POk (m, (a * c)%Q) r2
                | None => PAbort AttrErr
                end
            end in
          let* (p1, r1) := part s in
          let loop :=
            (fix loop (n : nat) (acc : list (mval * Q)) (r : string) : pres (list (mval * Q)) :=
               match n with
               | O => POk acc r
               | S n' =>
                   match (let* (_, a1) := p_partsep r in part a1) with
                   | POk item r' => loop n' (acc ++ [item])%list r'
                   | PFail => POk acc r
                   | PAbort e => PAbort e
                   end
               end) in
          let* (items, r2) := loop (S (String.length r1)) [p1] r1 in
          let total := Qsum_list (map snd items) in
          if Qeq_bool total 0 then PAbort ZeroDivErr else
          let pairs := map (fun p => (m_f (fst p), (snd p / total * 100)%Q)) items in
          if layer then lift_mres (mix_by_volume_pairs E pairs) r2 (fun f => mkM f None (Some total))
          else lift_mres (mix_by_weight_pairs E pairs) r2 (fun f => mkM f (Some total) None)
      end
  end.

Inductive presult_m := RMOk (m : mval) | RMErr (e : err).

(* grammar = Optional(formula, default=Formula()) + StringEnd();
   formula = ungrouped_mixture | compound | grouped_mixture *)
Definition parse_formula (E : aenv) (T : ptable) (s : string) : presult_m :=
  let fuel := (8 * String.length s + 16)%nat in
  let finish (x : pres mval) : option presult_m :=
    match x with
    | POk m r => Some (if at_end r then RMOk m else RMErr ParseErr)
    | PAbort e => Some (RMErr e)
    | PFail => None
    end in
  match finish (p_nt E T fuel NUngrouped s) with
  | Some x => x
  | None =>
      match finish (p_compound_m E T s) with
      | Some x => x
      | None =>
          match finish (p_nt E T fuel NGrouped s) with
          | Some x => x
          | None => if at_end s then RMOk (plain (new_formula E [] KTuple None None None)) else RMErr ParseErr
          end
      end
  end.
