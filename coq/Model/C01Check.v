(* Model/C01Check.v — a formula string denotes what the grammar says: compares the
   implementation's parse with (a) the parser model and (b) the Spec denotation of the
   derivation tree the string was rendered from. *)
From Coq Require Import ZArith QArith Qabs String Ascii List Bool.
From PT Require Import Str Dec Py Loaders Formula FormulaMachine AtomEnv Pyparse TableEnv Mixture PyparseMix Grammar.
Import ListNotations.

Inductive c01obs :=
| OForm (s : struct) (atoms : list (atom * Q)) (dens : pyval) (charge : pyval) (in_table : bool)
| OErr (e : err).

Record c01case := mkC01 {
  k_tree : option cstring;     (* Some: a string of the documented grammar; None: a malformed string *)
  k_str : string;
  k_obs : c01obs
}.

(* model count (exact decimal) vs Python number: the correctly rounded double *)
Fixpoint frag_r0 (m p : frag) : bool :=
  match m, p with
  | FAtom a, FAtom b => atom_eqb a b
  | FGroup l, FGroup l' =>
      (fix go (l l' : list (Q * frag)) : bool :=
         match l, l' with
         | [], [] => true
         | (c, f) :: r, (c', f') :: r' => ((Qeq_bool (round64 c) c' || Qeq_bool c c') && frag_r0 f f' && go r r')%bool
         | _, _ => false
         end) l l'
  | _, _ => false
  end.

Definition optQ_close (v : pyval) (q : option Q) : bool :=
  match q with
  | Some x => match py_Q v with Some p => Qrel (-40) p x | None => false end
  | None => match v with PNone => true | _ => false end
  end.

(* (a) model vs implementation *)
Definition model_agrees (E : aenv) (T : ptable) (c : c01case) : bool :=
  match parse_formula E T (k_str c), k_obs c with
  | RMOk m, OForm s _ d _ _ =>
      (frag_r0 (FGroup (f_struct (m_f m))) (FGroup s) && optQ_close d (f_density (m_f m)))%bool
  | RMErr _, OErr _ => true
  | _, _ => false
  end.

Definition model_errkind_agrees (E : aenv) (T : ptable) (c : c01case) : bool :=
  match parse_formula E T (k_str c), k_obs c with
  | RMErr e, OErr e' => err_eqb e e'
  | _, _ => true
  end.

(* (b) the property itself: implementation vs the Spec reading of the tree *)
Definition dens_spec_ok (E : aenv) (t : cstring) (lv : leaves) (atoms : list (atom * Q)) (d : pyval) : bool :=
  match c_density t with
  | Some (_, txt, m) =>
      match parse_dec txt with
      | None => false
      | Some x =>
          match m with
          | Some "n"%char =>
              (* natural density x: density * (natural mass / mass) = x *)
              let nat := dweight (e_natmass E) atoms in
              let ms := dweight (e_mass E) atoms in
              match py_Q d with Some p => Qrel (-40) (p * nat / ms) x | None => false end
          | _ => match py_Q d with Some p => Qeq_bool p (round64 x) | None => false end
          end
      end
  | None =>
      match leaves_atoms lv with
      | [a] => optQ_close d (e_density E a)
      | _ => match d with PNone => true | _ => false end
      end
  end.

Definition spec_agrees (E : aenv) (T : ptable) (c : c01case) : bool :=
  match k_tree c, k_obs c with
  | Some t, OForm _ atoms d q intab =>
      match sem_comp (t_symbol T) (c_comp t) with
      | Some lv =>
          let la := leaves_atoms lv in
          (String.eqb (render t) (k_str c)
           && intab
           && Nat.eqb (length la) (length atoms)
           && forallb (fun a => existsb (fun p => atom_eqb a (fst p)) atoms) la
           && forallb (fun p => Qrel (-40) (snd p) (leaves_cnt lv (fst p))) atoms
           && (match py_Q q with
               | Some pq => (Qclose (-40) (fold_right (fun p acc => (Qabs (inject_Z (aq (fst p)) * snd p) + acc)%Q) 0%Q lv)
                                    pq (leaves_charge lv) || Qeq_bool pq (leaves_charge lv))%bool
               | None => false
               end)
           && dens_spec_ok E t lv atoms d)%bool
      | None => false
      end
  | Some _, OErr _ => false          (* a grammar string was rejected *)
  | None, OErr _ => true             (* a malformed string was rejected *)
  | None, OForm _ _ _ _ _ => false   (* a malformed string yielded a formula *)
  end.

Definition check_case (E : aenv) (T : ptable) (c : c01case) : bool :=
  (model_agrees E T c && spec_agrees E T c)%bool.

Definition check_all_with (E : aenv) (T : ptable) (cases : list c01case) : list bool :=
  map (check_case E T) cases.
Definition check_all := check_all_with the_env the_ptable.

Definition diag_all_with (E : aenv) (T : ptable) (cases : list c01case) : list string :=
  map (fun c => ((if model_agrees E T c then "" else "model ") ++ (if spec_agrees E T c then "" else "spec ")
                 ++ (if model_errkind_agrees E T c then "" else "errkind "))%string) cases.
Definition diag_all := diag_all_with the_env the_ptable.

(* advisory: error kinds *)
Definition errkind_all := map (model_errkind_agrees the_env the_ptable).
