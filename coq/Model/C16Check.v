(* Model/C16Check.v — correspondence check for C16: nsf.D2O_sld / nsf.D2O_match (and the fasta
   Molecule numbers) against the model (Model/C16Calc.v) and against the documented meaning
   (Spec/NeutronContrast.v): solute = directly substituted compound at unchanged cell volume,
   solvent = H2O/D2O mixture, linear in the volume fraction; the match point by its defining
   property (solute and solvent have the same real SLD there). *)
From Coq Require Import ZArith QArith Qabs String List Bool.
From PT Require Import Str Dec Py Loaders Formula AtomEnv Nsf IExpr ICheck Neutron NsfCalc NeutronData NeutronContrast
                       NeutronEval C03Check C16Calc.
Import ListNotations.
Open Scope string_scope.

(* CD2O : D2O_sld(compound, volume_fraction, D2O_fraction, ...) -> (re, im, inc) and
          D2O_match(compound, ...) -> (fraction, sld)
   CMol : a fasta Molecule with labile formula s and density rho: [sld; Dsld; D2Omatch; D2Osld(vf, f)] *)
Inductive c16case :=
| CD2O (s : struct) (density natural_density : option Q) (wkind : Z) (wval : Q)
       (vf f : Q) (obs_sld obs_match : pyval)
| CMol (s : struct) (density : Q) (vf f : Q) (obs : list pyval).

Definition wl_of (wkind : Z) (wval : Q) : wl :=
  if Z.eqb wkind 0 then WLam ABS_WL else if Z.eqb wkind 1 then WLam wval else WEn wval.

Definition absq (q : Q) : expr := cq (Qabs q).

(* |terms| of a mixture of the four SLDs: component j of scale_exprs (0 re, 1 im) *)
Definition mix_scale (x : slds) (j : nat) (vf f : Q) : expr :=
  let sc (y : outs * list compE) := nth j (scale_exprs (o_N (fst y)) (o_lam (fst y)) (snd y)) (ez 0) in
  esum [EMul (absq (vf * f)) (sc (x_D x)); EMul (absq (vf * (1 - f))) (sc (x_H x));
        EMul (absq ((1 - vf) * f)) (sc (x_D2O x)); EMul (absq ((1 - vf) * (1 - f))) (sc (x_H2O x))].
Definition inc_scale (x : slds) (vf f : Q) : expr :=
  let sc (y : outs * list compE) := ESqrt (nth 2 (scale_exprs (o_N (fst y)) (o_lam (fst y)) (snd y)) (ez 0)) in
  esum [EMul (absq (vf * f)) (sc (x_D x)); EMul (absq (vf * (1 - f))) (sc (x_H x));
        EMul (absq ((1 - vf) * f)) (sc (x_D2O x)); EMul (absq ((1 - vf) * (1 - f))) (sc (x_H2O x))].

Definition all_pieces (x : slds) : list expr :=
  flat_map (fun y : outs * list compE =>
              (piece_exprs (snd y) ++ [o_lam (fst y); o_N (fst y); o_bre (fst y); o_bim (fst y); o_ss (fst y);
                                       o_sigma_i (fst y); o_re (fst y); o_im (fst y); o_inc (fst y)])%list)
           [x_H2O x; x_D2O x; x_H x; x_D x].

(* the documented solution: vf * SLD(substituted compound at f) + (1 - vf) * (f D2O + (1 - f) H2O) *)
Definition spec_solution (D : ndata) (s : struct) (density natural_density : option Q) (w : wl) (vf f : Q)
  : option (expr * expr * (expr * expr) * (expr * expr) * (expr * expr)) :=
  do rho <- density_of_compound D s density natural_density;
  let '(d', rho') := substituted (nd_env D) (atoms_of s) rho f in
  do sol <- spec_sld D d' rho' w;
  do rh2o <- density_of_compound D (water aH) None (Some WATER_DENSITY);
  do rd2o <- density_of_compound D (water aD) None (Some WATER_DENSITY);
  do h2o <- spec_sld D (atoms_of (water aH)) rh2o w;
  do d2o <- spec_sld D (atoms_of (water aD)) rd2o w;
  let m (a b : expr) := EAdd (EMul (cq vf) a) (EMul (cq (1 - vf)) (EAdd (EMul (cq f) b) (EMul (cq (1 - f)) (fst (fst h2o))))) in
  let re := EAdd (EMul (cq vf) (fst (fst sol)))
                 (EMul (cq (1 - vf)) (EAdd (EMul (cq f) (fst (fst d2o))) (EMul (cq (1 - f)) (fst (fst h2o))))) in
  let im := EAdd (EMul (cq vf) (snd (fst sol)))
                 (EMul (cq (1 - vf)) (EAdd (EMul (cq f) (snd (fst d2o))) (EMul (cq (1 - f)) (snd (fst h2o))))) in
  Some (re, im, (fst (fst sol), snd (fst sol)), (fst (fst h2o), snd (fst h2o)), (fst (fst d2o), snd (fst d2o))).

Definition float_of (v : pyval) : option Q := match v with PF _ _ => py_Q v | _ => None end.
Definition TPI : Z := (-20)%Z.

Definition d2o_verdicts (D : ndata) (s : struct) (density natural_density : option Q) (w : wl) (vf f : Q)
           (obs_sld obs_match : pyval) : list (string * bool) :=
  match D2O_slds D s density natural_density w with
  | None => [("model: the four SLDs", false)]
  | Some x =>
      let c := memo_all [] (all_pieces x) in
      let '(mre, mim, minc) := D2O_sld x vf f in
      let sre := enc_c c (mix_scale x 0 vf f) in
      let sim := enc_c c (mix_scale x 1 vf f) in
      let sinc := enc_c c (inc_scale x vf f) in
      let sp := spec_solution D s density natural_density w vf f in
      let sld_part :=
        match obs_sld with
        | PL [a; b; i] =>
            match float_of a, float_of b, float_of i with
            | Some pa, Some pb, Some pi_ =>
                [("model:sld_re", within TP pa (enc_c c mre) sre);
                 ("model:sld_im", within TP pb (enc_c c mim) sim);
                 ("model:sld_inc", within TPI pi_ (enc_c c minc) sinc);
                 ("spec:sld_re (substituted compound at unchanged cell volume, solvent mixture)",
                  match sp with Some (re, _, _, _, _) => within TP pa (enc_c [] re) sre | None => false end);
                 ("spec:sld_im",
                  match sp with Some (_, im, _, _, _) => within TP pb (enc_c [] im) sim | None => false end)]
            | _, _, _ => [("D2O_sld result is not three floats", false)]
            end
        | _ => [("shape of the D2O_sld result", false)]
        end in
      (* the match point, by its defining property: at the reported fraction the solute and the
         solvent have the same real SLD, and the reported SLD is that value *)
      let match_part :=
        match obs_match with
        | PL [fr; ms] =>
            match float_of fr, float_of ms with
            | Some pf, Some pm =>
                let solute := mixE (re3 (x_D x)) (re3 (x_H x)) (cq pf) in
                let solvent := mixE (re3 (x_D2O x)) (re3 (x_H2O x)) (cq pf) in
                let sc := enc_c c (EAdd (mix_scale x 0 1 pf) (mix_scale x 0 0 pf)) in
                [("match point: solute and solvent real SLD agree at the reported fraction",
                  within TP 0 (enc_c c (ESub solute solvent)) sc);
                 ("match point: reported SLD", within TP pm (enc_c c solute) sc)]
            | _, _ => [("D2O_match result is not two floats", false)]
            end
        | PNone => []
        | _ => [("shape of the D2O_match result", false)]
        end in
      (sld_part ++ match_part)%list
  end.

(* fasta.Molecule numbers from the same four SLDs (default wavelength) *)
Definition mol_verdicts (D : ndata) (s : struct) (density : Q) (vf f : Q) (obs : list pyval) : list (string * bool) :=
  match D2O_slds D s (Some density) None (WLam ABS_WL) with
  | None => [("model: the four SLDs", false)]
  | Some x =>
      let c := memo_all [] (all_pieces x) in
      let g (i : nat) := float_of (nth i obs PNone) in
      match g 0%nat, g 1%nat, g 2%nat, g 3%nat with
      | Some sld, Some dsld, Some pm, Some ds =>
          let f100 := (pm / 100)%Q in
          let solute := mixE (re3 (x_D x)) (re3 (x_H x)) (cq f100) in
          let solvent := mixE (re3 (x_D2O x)) (re3 (x_H2O x)) (cq f100) in
          let sc := enc_c c (EAdd (mix_scale x 0 1 f100) (mix_scale x 0 0 f100)) in
          [("Molecule.sld", within TP sld (enc_c c (re3 (x_H x))) (enc_c c (mix_scale x 0 1 0)));
           ("Molecule.Dsld", within TP dsld (enc_c c (re3 (x_D x))) (enc_c c (mix_scale x 0 1 1)));
           ("Molecule.D2Omatch/100 is the match fraction", within TP 0 (enc_c c (ESub solute solvent)) sc);
           ("Molecule.D2Osld", within TP ds (enc_c c (molecule_D2Osld x vf f)) (enc_c c (mix_scale x 0 vf f)))]
      | _, _, _, _ => [("Molecule numbers are not floats", false)]
      end
  end.

Definition verdicts16 (D : ndata) (c : c16case) : list (string * bool) :=
  match c with
  | CD2O s de nd wk wv vf f o1 o2 => d2o_verdicts D s de nd (wl_of wk wv) vf f o1 o2
  | CMol s rho vf f obs => mol_verdicts D s rho vf f obs
  end.
Definition check_case16 (D : ndata) (c : c16case) : bool := forallb snd (verdicts16 D c).
Definition check_all16 := map (check_case16 the_nd).
Definition diag_case16 (D : ndata) (c : c16case) : string :=
  String.concat "; " (map fst (filter (fun p => negb (snd p)) (verdicts16 D c))).
Definition diag_all16 := map (diag_case16 the_nd).
