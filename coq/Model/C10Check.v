(* Model/C10Check.v — the comparison of implementation histories with the machine of Model/Attr.v is the one of
   C09 (Model/C09Check.v); C10's histories add private tables, assignments and in-place mutations. *)
From Coq Require Import String List.
From PT Require Import Py AttrScript LoaderScripts Attr C09Check.
Definition check_all10 : list hcase -> list bool := check_all.
Definition diag_all10 : list hcase -> list string := diag_all.
