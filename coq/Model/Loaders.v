(* Model/Loaders.v — code-shaped model of util.parse_uncertainty, mass.init, density.init
   and the density/number_density/interatomic_distance accessors, run on the raw table
   text regenerated from /repo (Gen/MassTables.v, Gen/DensityTable.v).  No proofs here. *)
From Coq Require Import ZArith QArith Qabs String Ascii List Bool FMapPositive.
From PT Require Import Str Dec.
Import ListNotations.
Open Scope string_scope.

(* an uncertainty: a rational, or w/sqrt(12) for the [low,high] notation *)
Inductive unc := UQ (q : Q) | URect (w : Q).

Definition unc_scale (k : Q) (u : unc) : unc :=
  match u with UQ q => UQ (Qred (k * q)) | URect w => URect (Qred (k * w)) end.

(* util.parse_uncertainty.  None = the call raises; Some None = (None, None). *)
Definition parse_uncertainty (s : string) : option (option (Q * unc)) :=
  if String.eqb s "" then Some None else
  if startswith "[" s then
    match split_char ","%char (strip_ends s) with
    | [a] => match parse_dec a with Some v => Some (Some (v, UQ 0)) | None => None end
    | a :: b :: _ =>
        match parse_dec a, parse_dec b with
        | Some lo, Some hi => Some (Some (Qred ((hi + lo) / 2), URect (Qred (hi - lo))))
        | _, _ => None
        end
    | [] => None
    end
  else
    match split_char "("%char s with
    | value :: p1 :: _ =>
        let u := hd "" (split_char ")"%char p1) in
        let u' :=
          if (negb (contains_char "."%char u) && contains_char "."%char value)%bool then
            let fr := nth 1 (split_char "."%char value) "" in
            let zeros := (Z.of_nat (String.length fr) - Z.of_nat (String.length u))%Z in
            "0." ++ repeat_char "0"%char (Z.to_nat zeros) ++ u
          else u in
        match parse_dec value, parse_dec u' with
        | Some v, Some uu => Some (Some (v, UQ uu))
        | _, _ => None
        end
    | _ => match parse_dec s with Some v => Some (Some (v, UQ 0)) | None => None end
    end.

(* one nuclide record: (_mass,_mass_unc) and (_abundance,_abundance_unc); the outer
   option of [n_mass] is "attribute present", the inner one Python's None *)
Record nuc := mkNuc { n_mass : option (Q * unc); n_abund : option (Q * unc) }.

Definition key (z a : Z) : positive := Z.to_pos (z * 1000 + a + 1).
Definition tbl := PositiveMap.t nuc.
Definition tget (t : tbl) (z a : Z) : option nuc := PositiveMap.find (key z a) t.
Definition tset (t : tbl) (z a : Z) (n : nuc) : tbl := PositiveMap.add (key z a) n t.

Definition ebase := list (Z * string * string * list Z * list Z).
Definition eb_symbol (eb : ebase) (z : Z) : option string :=
  match find (fun r => match r with (z', _, _, _, _) => Z.eqb z z' end) eb with
  | Some (_, _, s, _, _) => Some s
  | None => None
  end.
Definition eb_number (eb : ebase) (sym : string) : option Z :=
  match find (fun r => match r with (_, _, s, _, _) => String.eqb s sym end) eb with
  | Some (z, _, _, _, _) => Some z
  | None => None
  end.

Definition bind {A B} (x : option A) (f : A -> option B) : option B :=
  match x with Some a => f a | None => None end.
Notation "'do' x <- e ; k" := (bind e (fun x => k)) (at level 200, x pattern, right associativity).

(* table creation: every element of element_base exists with no mass data yet; D and T *)
Definition empty_nuc := mkNuc None None.
Definition table_init (eb : ebase) : tbl :=
  let t := fold_left (fun t r => match r with (z, _, _, _, _) => tset t z 0 empty_nuc end) eb
                     (PositiveMap.empty nuc) in
  tset (tset t 1 2 empty_nuc) 1 3 empty_nuc.

(* add_isotope: keeps an existing isotope object *)
Definition add_isotope (t : tbl) (z a : Z) : tbl :=
  match tget t z a with Some _ => t | None => tset t z a empty_nuc end.

(* pass 1: "z-El-A,mass(unc)#?,abundance(unc),element mass(unc)" *)
Definition mass_row (eb : ebase) (t : tbl) (line : string) : option tbl :=
  match split_char ","%char line with
  | [isotope; m; p; avg] =>
      match split_char "-"%char isotope with
      | [zs; sym; isos] =>
          do z <- parse_int zs;
          do s <- eb_symbol eb z;
          if negb (String.eqb s sym) then None else
          do a <- parse_int isos;
          let t1 := add_isotope t z a in
          do em <- parse_uncertainty avg;
          do im <- parse_uncertainty m;
          do el <- tget t1 z 0;
          let t2 := tset t1 z 0 (mkNuc em (n_abund el)) in
          Some (tset t2 z a (mkNuc im (Some (0%Q, UQ 0))))
      | _ => None
      end
  | _ => None
  end.

Fixpoint fold_opt {A S} (f : S -> A -> option S) (l : list A) (s : S) : option S :=
  match l with
  | [] => Some s
  | x :: r => match f s x with Some s' => fold_opt f r s' | None => None end
  end.

(* the neutron: element 0 and its isotope 1 *)
Definition neutron_rows (nm nmu : Q) (t : tbl) : tbl :=
  let t1 := tset t 0 0 (mkNuc (Some (nm, UQ nmu)) None) in
  tset (add_isotope t1 0 1) 0 1 (mkNuc (Some (nm, UQ nmu)) (Some (100%Q, UQ 0))).

(* pass 2: "z  El  name  weight(unc)|[low,high]|-  notes" *)
Definition weight_row (t : tbl) (line : string) : option tbl :=
  match split_ws line with
  | zs :: _ :: _ :: value :: _ =>
      do z <- parse_int zs;
      do el <- tget t z 0;
      if String.eqb value "-" then Some t else
      do v <- parse_uncertainty value;
      Some (tset t z 0 (mkNuc v (n_abund el)))
  | _ => None
  end.

(* pass 3: composition table; state = (table, current Z, pending block) *)
Definition block := list (Z * option (Q * unc)).
Fixpoint block_set (b : block) (a : Z) (v : option (Q * unc)) : block :=
  match b with
  | [] => [(a, v)]
  | (a', v') :: r => if Z.eqb a a' then (a, v) :: r else (a', v') :: block_set r a v
  end.

Definition block_total (b : block) : option Q :=
  fold_opt (fun acc x => match snd x with Some (p, _) => Some (acc + p)%Q | None => None end) b 0%Q.

Definition flush (t : tbl) (z : Z) (b : block) : option tbl :=
  if Z.eqb z 0 then Some t else
  do _ <- tget t z 0;
  do total <- block_total b;
  fold_opt (fun t x =>
              match x with
              | (a, Some (p, u)) =>
                  do iso <- tget t z a;
                  if Qeq_bool total 0 then None else
                  Some (tset t z a (mkNuc (n_mass iso)
                                          (Some (Qred (100 * p / total), unc_scale (100 / total) u))))
              | (_, None) => None
              end) b t.

Definition is_header (line : string) : option bool :=
  match line with
  | EmptyString => None (* line[0] raises IndexError *)
  | String c _ => Some (negb (Ascii.eqb c " " || Ascii.eqb c (ascii_of_nat 9)))%bool
  end.

Definition abundance_row (st : tbl * Z * block) (line : string) : option (tbl * Z * block) :=
  let '(t, z, b) := st in
  do h <- is_header line;
  if h then
    do t' <- flush t z b;
    do z' <- bind (hd_error (split_ws (strip line))) parse_int;
    Some (t', z', [])
  else
    match split_ws (strip line) with
    | a :: v :: _ =>
        do a' <- parse_int a;
        do v' <- parse_uncertainty v;
        Some (t, z, block_set b a' v')
    | _ => None
    end.

(* mass.init, with the flush of the last block after the loop *)
Definition mass_init (eb : ebase) (nm nmu : Q) (im em ia : list string) : option tbl :=
  do t1 <- fold_opt (mass_row eb) im (table_init eb);
  let t2 := neutron_rows nm nmu t1 in
  do t3 <- fold_opt weight_row em t2;
  do st <- fold_opt abundance_row ia (t3, 0%Z, []);
  let '(t4, z, b) := st in
  flush t4 z b.

(* ------------------------------------------------------------------ density *)
Definition dens := list (Z * option Q).   (* Z -> _density (None = Python None) *)

Definition density_init (eb : ebase) (rows : list (string * option string)) : option dens :=
  fold_opt (fun acc r =>
              do z <- eb_number eb (fst r);
              match snd r with
              | None => Some (acc ++ [(z, None)])%list
              | Some txt => do q <- parse_dec txt; Some (acc ++ [(z, Some q)])%list
              end) rows [].

Definition dens_get (d : dens) (z : Z) : option (option Q) :=
  match find (fun r => Z.eqb (fst r) z) d with Some r => Some (snd r) | None => None end.

Inductive res (A : Type) := Val (a : A) | NoneVal | Raise.
Arguments Val {A}. Arguments NoneVal {A}. Arguments Raise {A}.

Definition mass_of (t : tbl) (z a : Z) : res Q :=
  match tget t z a with
  | Some n => match n_mass n with Some (m, _) => Val m | None => NoneVal end
  | None => Raise
  end.

(* density(iso_el): element -> _density; isotope -> el._density * (iso.mass/el.mass),
   unknown (None) when the element density is unknown *)
Definition density_of (t : tbl) (d : dens) (z a : Z) : res Q :=
  match dens_get d z with
  | None => Raise
  | Some rho =>
      if Z.eqb a 0 then match rho with Some r => Val r | None => NoneVal end
      else
        match rho with
        | None => NoneVal
        | Some r =>
            match mass_of t z a, mass_of t z 0 with
            | Val mi, Val me => if Qeq_bool me 0 then Raise else Val (Qred (r * (mi / me)))
            | _, _ => Raise
            end
        end
  end.

(* number_density = (density/mass) * N_A  (of the element, also for isotopes) *)
Definition number_density_of (na : Q) (t : tbl) (d : dens) (z : Z) : res Q :=
  match density_of t d z 0, mass_of t z 0 with
  | Val r, Val m => if Qeq_bool m 0 then Raise else Val (Qred (r / m * na))
  | Raise, _ | _, Raise => Raise
  | _, _ => NoneVal
  end.

(* interatomic_distance ** 3 = mass / (density * N_A * 1e-24) *)
Definition interatomic_cubed_of (na : Q) (t : tbl) (d : dens) (z : Z) : res Q :=
  match density_of t d z 0, mass_of t z 0 with
  | Val r, Val m => if Qeq_bool r 0 then Raise else Val (Qred (m / (r * na * (1 # 10 ^ 24))))
  | Raise, _ | _, Raise => Raise
  | _, _ => NoneVal
  end.
