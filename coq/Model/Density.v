(* Model/Density.v — code-shaped model of the density side of periodictable.formulas:
   natural_density getter / setter, the density attribute, formula()'s density keywords for
   strings, Formula.replace (_isotope_substitution, transcribed on the atoms dict), and
   Formula.volume (covalent-sphere estimate with PACKING_FACTORS, or util.cell_volume).
   Rational parts over Q; the two volume formulas are IExpr expressions (pi, sqrt, cos).
   No proofs here.

   _isotope_substitution is modelled as REPAIRED (the property's reading):
     * an unknown density stays unknown: the result is built with density=None, so the
       defaulting of Formula.__init__ applies (the code multiplies None by a float);
     * substituting an atom for itself is the identity (the code first doubles the count and
       then deletes or rescales it).  *)
From Coq Require Import ZArith QArith Qabs String Ascii List Bool.
From PT Require Import Str Dec Py Loaders Formula FormulaMachine Mixture Ancillary IExpr.
Import ListNotations.
Open Scope Q_scope.

(* ------------------------------------------------------------------ density attributes *)
(* natural_density getter: self.density * self.natural_mass_ratio(); None stands for the
   TypeError of None * float when the density is unknown *)
Definition f_natural_density (E : aenv) (f : fobj) : option Q :=
  match f_density f with
  | Some d => Some (d * natural_mass_ratio E f)
  | None => None
  end.

(* f.density = d *)
Definition set_density (d : option Q) (f : fobj) : fobj := with_density f d.

(* natural_density setter: self.density = natural_density / self.natural_mass_ratio() *)
Definition set_natural_density (E : aenv) (nd : Q) (f : fobj) : fobj :=
  with_density f (Some (nd / natural_mass_ratio E f)).

(* formula(string, density=, natural_density=): after parsing,
     if density is not None: chem.density = density
     elif natural_density is not None: chem.natural_density = natural_density
   (the keyword overrides an '@' tag of the string) *)
Definition string_keywords (E : aenv) (f : fobj) (density natural_density : option Q) : fobj :=
  match density with
  | Some d => set_density (Some d) f
  | None =>
      match natural_density with
      | Some nd => set_natural_density E nd f
      | None => f
      end
  end.

(* ------------------------------------------------------------------ dict operations *)
(* d[a] = v : in place when the key exists, appended otherwise *)
Fixpoint dict_set (d : dict) (a : atom) (v : Q) : dict :=
  match d with
  | [] => [(a, v)]
  | (b, w) :: r => if atom_eqb a b then (b, v) :: r else (b, w) :: dict_set r a v
  end.

(* del d[a] *)
Definition dict_del (d : dict) (a : atom) : dict :=
  filter (fun p => negb (atom_eqb a (fst p))) d.

(* formula(atoms, density=density): Hill structure + Formula.__init__ *)
Definition formula_of_dict (E : aenv) (d : dict) (density : option Q) : fobj :=
  new_formula E (hill_struct E d) KTuple density None None.

(* the atoms dict after the substitution *)
Definition substituted (atoms : dict) (src tgt : atom) (ns portion : Q) : dict :=
  let atoms1 := dict_set atoms tgt (dget0 atoms tgt + ns * portion) in
  if Qeq_bool portion 1 then dict_del atoms1 src
  else dict_set atoms1 src (dget0 atoms1 src * (1 - portion)).

(* _isotope_substitution(compound, source, target, portion), repaired (see the header) *)
Definition f_replace (E : aenv) (f : fobj) (src tgt : atom) (portion : Q) : fobj :=
  let atoms := f_atoms f in
  match dget atoms src with
  | Some ns =>
      if atom_eqb src tgt then formula_of_dict E atoms (f_density f) else
      let mass := f_mass E f in
      let mass_reduction := ns * portion * (e_mass E src - e_mass E tgt) in
      let density := match f_density f with
                     | Some d => Some (d * (mass - mass_reduction) / mass)
                     | None => None
                     end in
      formula_of_dict E (substituted atoms src tgt ns portion) density
  | None => formula_of_dict E atoms (f_density f)
  end.

(* the code as it stands (periodictable/formulas.py, _isotope_substitution, after repairs 7a61cac and b97d1be), branch
   by branch: "if source in atoms and source is not target" - general substitution, the density scaled only when it
   is known; otherwise the formula is rebuilt unchanged *)
Definition f_replace_code (E : aenv) (f : fobj) (src tgt : atom) (portion : Q) : fobj :=
  let atoms := f_atoms f in
  match dget atoms src with
  | Some ns =>
      if negb (atom_eqb src tgt) then
        let mass := f_mass E f in
        let mass_reduction := ns * portion * (e_mass E src - e_mass E tgt) in
        let density := match f_density f with
                       | Some d => Some (d * (mass - mass_reduction) / mass)
                       | None => None
                       end in
        formula_of_dict E (substituted atoms src tgt ns portion) density
      else formula_of_dict E atoms (f_density f)
  | None => formula_of_dict E atoms (f_density f)
  end.

(* ------------------------------------------------------------------ volumes *)
Definition TEN24 : Q := 1 # 1000000000000000000000000.   (* 1e-24: A^3 -> cm^3 *)

(* PACKING_FACTORS, as documented in Formula.volume:
   cubic pi/6, bcc pi*sqrt(3)/8, hcp = fcc = pi/sqrt(18), diamond pi*sqrt(3)/16 *)
Definition pf_cubic : expr := EDiv EPi (ez 6).
Definition pf_bcc : expr := EDiv (EMul EPi (ESqrt (ez 3))) (ez 8).
Definition pf_hcp : expr := EDiv EPi (ESqrt (ez 18)).
Definition pf_fcc : expr := EDiv EPi (ESqrt (ez 18)).
Definition pf_diamond : expr := EDiv (EMul EPi (ESqrt (ez 3))) (ez 16).

Definition PACKING_FACTORS : list (string * expr) :=
  [("cubic"%string, pf_cubic); ("bcc"%string, pf_bcc); ("hcp"%string, pf_hcp);
   ("fcc"%string, pf_fcc); ("diamond"%string, pf_diamond)].

(* PACKING_FACTORS[name.lower()] *)
Definition packing_factor_named (name : string) : option expr :=
  let key := map_string lower_char name in
  match find (fun p => String.eqb (fst p) key) PACKING_FACTORS with
  | Some p => Some (snd p)
  | None => None
  end.

(* V = sum(el.covalent_radius**3 * count); V *= 4.*pi/3; V/packing_factor*1e-24
   rs: (covalent radius, count) of every atom, in dict order *)
Definition sphere_sum (rs : list (Q * Q)) : expr :=
  esum (map (fun rc => EMul (EPow (ECst (fst rc)) 3) (ECst (snd rc))) rs).

Definition volume_packing (rs : list (Q * Q)) (pf : expr) : expr :=
  EMul (EDiv (EMul (sphere_sum rs) (EDiv (EMul (ez 4) EPi) (ez 3))) pf) (ECst TEN24).

(* util.cell_volume(a, b, c, alpha, beta, gamma) * 1e-24:
   b, c default to a; alpha defaults to 90 degrees (cosine 0), beta and gamma to alpha;
   angles are given in degrees *)
Definition cos_deg (x : Q) : expr := ECos (EMul (ECst x) (EDiv EPi (ez 180))).
Definition dflt (o : option Q) (x : Q) : Q := match o with Some y => y | None => x end.

Definition cell_radicand (ca cb cg : expr) : expr :=
  EAdd (ESub (ESub (ESub (ez 1) (ESqr ca)) (ESqr cb)) (ESqr cg))
       (EMul (EMul (EMul (ez 2) ca) cb) cg).

Definition cell_volume (a : Q) (b c alpha beta gamma : option Q) : expr :=
  let ca := match alpha with Some x => cos_deg x | None => ECst 0 end in
  let cb := match beta with Some x => cos_deg x | None => ca end in
  let cg := match gamma with Some x => cos_deg x | None => ca end in
  EMul (EMul (EMul (EMul (ECst a) (ECst (dflt b a))) (ECst (dflt c a)))
             (ESqrt (cell_radicand ca cb cg)))
       (ECst TEN24).

(* ------------------------------------------------------------------ Formula.volume dispatch *)
Inductive pfarg := PfDefault | PfName (s : string) | PfNum (q : Q).
Inductive vres := VOk (e : expr) | VErr (er : err).

(* covalent radius of an atom: that of its element (isotopes and ions delegate) *)
Definition radius_with (oc : option cov) (eb : ebase) (a : atom) : option Q :=
  match oc with
  | Some t => match cov_radius eb t (az a) with Val r => Some (round64 r) | _ => None end
  | None => None
  end.

Fixpoint radii (radius : atom -> option Q) (d : dict) : option (list (Q * Q)) :=
  match d with
  | [] => Some []
  | (a, c) :: r =>
      match radius a, radii radius r with
      | Some x, Some l => Some ((x, c) :: l)
      | _, _ => None
      end
  end.

(* f.volume(), f.volume(pf), f.volume(packing_factor=pf): the sum over the atoms comes first
   (None**3 is a TypeError), then the name is looked up (KeyError) *)
Definition f_volume_packing (radius : atom -> option Q) (f : fobj) (pf : pfarg) : vres :=
  match radii radius (f_atoms f) with
  | None => VErr TypeErr
  | Some rs =>
      match pf with
      | PfDefault => VOk (volume_packing rs pf_hcp)
      | PfName s => match packing_factor_named s with
                    | Some e => VOk (volume_packing rs e)
                    | None => VErr KeyErr
                    end
      | PfNum q => if Qeq_bool q 0 then VErr ZeroDivErr else VOk (volume_packing rs (ECst q))
      end
  end.

(* f.volume(a=.., b=.., ...): cell_volume sorts out its parameters; a is required *)
Definition f_volume_cell (a b c alpha beta gamma : option Q) : vres :=
  match a with
  | Some x => VOk (cell_volume x b c alpha beta gamma)
  | None => VErr TypeErr
  end.
