(* Model/Xsf.v — code-shaped, total, executable model of the rational part of periodictable.xsf:
   the reader of the *.nff tables (numpy.loadtxt(filename, skiprows=1).T, the -9999 -> NaN
   mapping of column 1, eV -> keV), numpy.interp(..., left=nan, right=nan), Xray.scattering_factors,
   xray_energy / xray_wavelength, Xray.sld and xray_sld.  Runs on the table text regenerated from
   /repo (Gen/Nff_*.v, Gen/NffIndex.v).  NaN is [None].  No proofs here, no reals. *)
From Coq Require Import ZArith QArith Qabs String Ascii List Bool.
From PT Require Import Str Dec Loaders Formula Ancillary.
Import ListNotations.
Open Scope Q_scope.

(* ------------------------------------------------------------------ floats *)
(* a binary64 operation is the correctly rounded exact operation (IEEE 754) *)
Definition fl (q : Q) : Q := round64 q.
Definition pyfloat (s : string) : option Q :=            (* float(text) *)
  match parse_dec s with Some q => Some (fl q) | None => None end.

(* ------------------------------------------------------------------ numpy.loadtxt *)
Fixpoint strip_comment (s : string) : string :=
  match s with
  | EmptyString => EmptyString
  | String c r => if ascii_eqb c "#" then EmptyString else String c (strip_comment r)
  end.

(* rows of floats; blank lines are skipped; every row has the same number of columns
   (ValueError, here None, otherwise) *)
Definition loadtxt (skiprows : nat) (lines : list string) : option (list (list Q)) :=
  let fields := filter (fun r => match r with [] => false | _ => true end)
                       (map (fun l => split_ws (strip_comment l)) (skipn skiprows lines)) in
  do rows <- map_opt (map_opt pyfloat) fields;
  match rows with
  | [] => Some []
  | r0 :: _ =>
      if forallb (fun r => Nat.eqb (List.length r) (List.length r0)) rows then Some rows else None
  end.

(* ------------------------------------------------------------------ Xray._gettable *)
(* what the documentation of the tables says: one header line; E in eV, converted to keV;
   f1 = -9999 marks "no value" *)
Definition SKIPROWS : nat := 1.
Definition SENTINEL : Q := fl (- (9999 # 1)).
Definition EV_TO_KEV : Q := fl (1 # 1000).

(* a row of the loaded array: E (keV), then f1 (None = NaN) and f2 *)
Definition xrow := (Q * (option Q * Q))%type.
Definition xtable := list xrow.

Definition xsf_row (r : list Q) : option xrow :=
  match r with
  | e :: r1 =>
      match r1 with
      | f1 :: r2 =>
          match r2 with
          | f2 :: _ => Some (fl (e * EV_TO_KEV), ((if Qeq_bool f1 SENTINEL then None else Some f1), f2))
          | [] => None
          end
      | [] => None
      end
  | [] => None
  end.

Definition nff_table (lines : list string) : option xtable :=
  do rows <- loadtxt SKIPROWS lines;
  map_opt xsf_row rows.

Definition col1 (t : xtable) : list (Q * option Q) := map (fun r => (fst r, fst (snd r))) t.
Definition col2 (t : xtable) : list (Q * option Q) := map (fun r => (fst r, Some (snd (snd r)))) t.

(* ------------------------------------------------------------------ numpy.interp *)
(* where x falls in the abscissae: the last j with xp[j] <= x (numpy's search result on a
   non-decreasing array) *)
Inductive loc (A : Type) :=
| LOut                                            (* x < xp[0] or x > xp[-1]: left / right *)
| LNode (y : A)                                   (* x == xp[j]: fp[j] *)
| LSeg (xj : Q) (yj : A) (xk : Q) (yk : A).       (* xp[j] < x < xp[j+1] *)
Arguments LOut {A}. Arguments LNode {A}. Arguments LSeg {A}.

Fixpoint locate_from {A} (xj : Q) (yj : A) (rest : list (Q * A)) (x : Q) : loc A :=
  match rest with
  | [] => if Qeq_bool x xj then LNode yj else LOut
  | (xk, yk) :: r =>
      if Qlt_le_dec x xk then (if Qeq_bool x xj then LNode yj else LSeg xj yj xk yk)
      else locate_from xk yk r x
  end.

Definition locate {A} (xs : list (Q * A)) (x : Q) : loc A :=
  match xs with
  | [] => LOut
  | (x0, y0) :: r => if Qlt_le_dec x x0 then LOut else locate_from x0 y0 r x
  end.

(* slope*(x - xp[j]) + fp[j]; NaN when either end is NaN *)
Definition lin (xj : Q) (yj : option Q) (xk : Q) (yk : option Q) (x : Q) : option Q :=
  match yj, yk with
  | Some a, Some b => Some ((b - a) / (xk - xj) * (x - xj) + a)
  | _, _ => None
  end.

(* numpy.interp(x, xp, fp, left=nan, right=nan) *)
Definition interp_nan (xs : list (Q * option Q)) (x : Q) : option Q :=
  match locate xs x with
  | LOut => None
  | LNode y => y
  | LSeg xj yj xk yk => lin xj yj xk yk x
  end.

(* the same search by bisection, for running the model on long tables: the bracket found is
   verified, anything else falls back to [locate]; equal to [locate] on increasing abscissae
   (Proofs/C05Interp.v: locate_fast_correct) *)
Fixpoint bisect {A} (fuel : nat) (xs : list (Q * A)) (x : Q) (lo hi : nat) : nat :=
  match fuel with
  | O => lo
  | S f =>
      if Nat.leb hi (S lo) then lo else
      let mid := Nat.div2 (lo + hi) in
      match nth_error xs mid with
      | Some (xm, _) => if Qlt_le_dec x xm then bisect f xs x lo mid else bisect f xs x mid hi
      | None => lo
      end
  end.

Definition locate_fast {A} (xs : list (Q * A)) (x : Q) : loc A :=
  let n := List.length xs in
  match skipn (bisect n xs x 0 (n - 1)) xs with
  | (xj, yj) :: (xk, yk) :: _ =>
      if (Qle_bool xj x && negb (Qle_bool xk x))%bool
      then (if Qeq_bool x xj then LNode yj else LSeg xj yj xk yk)
      else locate xs x
  | _ => locate xs x
  end.

(* magnitude of the terms entering an interpolated value (for the rounding allowance) *)
Definition oabs (y : option Q) : Q := match y with Some v => Qabs v | None => 0 end.

(* both columns from one search: ((f1, f2), (scale1, scale2)); L is [locate] or [locate_fast] *)
Definition locator := xtable -> Q -> loc (option Q * Q).
Definition sfs_loc (l : loc (option Q * Q)) (x : Q) : (option Q * option Q) * (Q * Q) :=
  match l with
  | LOut => ((None, None), (0, 0))
  | LNode (y1, y2) => ((y1, Some y2), (oabs y1, Qabs y2))
  | LSeg xj (a1, a2) xk (b1, b2) =>
      ((lin xj a1 xk b1 x, lin xj (Some a2) xk (Some b2) x), (oabs a1 + oabs b1, Qabs a2 + Qabs b2))
  end.
Definition sfs (L : locator) (t : xtable) (x : Q) : (option Q * option Q) * (Q * Q) := sfs_loc (L t x) x.
Definition at_node (L : locator) (t : xtable) (x : Q) : bool :=
  match L t x with LNode _ => true | _ => false end.

(* ------------------------------------------------------------------ energy <-> wavelength *)
(* plancks_constant*speed_of_light/x*1e7 : the documented relation, over Q, and the same
   expression with every binary64 operation rounded *)
Definition hc_over (h c x : Q) : Q := h * c / x * (10000000 # 1).
Definition hc_over_fl (h c x : Q) : Q := fl (fl (fl (h * c) / x) * (10000000 # 1)).

(* ------------------------------------------------------------------ which table an atom uses *)
(* Xray._gettable walks .element down to the Element (ion -> isotope -> element) and names the
   file after its symbol: every atom of an element uses the element's table *)
Definition xray_symbol (eb : ebase) (a : atom) : string :=
  match eb_symbol eb (az a) with Some s => s | None => "?"%string end.

(* Xray.f0 passes self.element.symbol: an isotope delegates .xray to its element, an ion asks its
   base, and the ions of the named hydrogen isotopes carry the symbol D or T *)
Definition eb_sym_of (eb : ebase) (a : atom) : string :=
  if (Z.eqb (az a) 1 && Z.eqb (aa a) 2)%bool then "D"%string
  else if (Z.eqb (az a) 1 && Z.eqb (aa a) 3)%bool then "T"%string
  else match eb_symbol eb (az a) with Some s => s | None => "?"%string end.
Definition f0_symbol (eb : ebase) (a : atom) : string :=
  if Z.eqb (aq a) 0 then match eb_symbol eb (az a) with Some s => s | None => "?"%string end
  else eb_sym_of eb a.

Definition nff_name (sym : string) : string := (map_string lower_char sym ++ ".nff")%string.

Definition files := list (string * list string).
Definition file_lookup (fs : files) (name : string) : option (list string) :=
  match find (fun p => String.eqb (fst p) name) fs with Some p => Some (snd p) | None => None end.

(* sftable: Val t, NoneVal (no table: the neutron, or no file), Raise (loadtxt fails) *)
Definition sftable (eb : ebase) (fs : files) (a : atom) : res xtable :=
  let sym := xray_symbol eb a in
  if String.eqb sym "n" then NoneVal else
  match file_lookup fs (nff_name sym) with
  | None => NoneVal
  | Some lines => match nff_table lines with Some t => Val t | None => Raise end
  end.

(* scattering_factors(energy=x) on a loaded table: numpy.interp on column 1 and on column 2 *)
Definition sf (t : xtable) (x : Q) : option Q * option Q :=
  (interp_nan (col1 t) x, interp_nan (col2 t) x).
(* a vector argument is treated element by element *)
Definition sf_vec (t : xtable) (xs : list Q) : list (option Q * option Q) := map (sf t) xs.

(* ------------------------------------------------------------------ SLD *)
(* NaN-propagating arithmetic *)
Definition oadd (a b : option Q) : option Q :=
  match a, b with Some x, Some y => Some (x + y) | _, _ => None end.
Definition oscale (k : Q) (a : option Q) : option Q :=
  match a with Some x => Some (k * x) | None => None end.

(* sum_f += f*quantity over compound.atoms, in dict order *)
Definition fsum (F : atom -> option Q) (d : dict) : option Q :=
  fold_left (fun acc p => oadd acc (oscale (snd p) (F (fst p)))) d (Some 0).

(* N = density/mass*avogadro_number*1e-8 ; rho = N*sum_f*electron_radius *)
Definition sld_of (re na : Q) (density mass : Q) (s : option Q) : option Q :=
  oscale (density / mass * na * (1 # 100000000)) (oscale re s).

Definition has_table (T : atom -> res xtable) (d : dict) : bool :=
  forallb (fun p => match T (fst p) with Val _ => true | _ => false end) d.

(* xray_sld(compound, density=, natural_density=, energy=x) for a compound given by its
   structure.  Raise: assertion (no density) or ValueError (an atom without a table). *)
Definition xray_sld_model (E : aenv) (re na : Q) (T : atom -> res xtable)
           (s : struct) (density natural_density : option Q) (x : Q) : res (option Q * option Q) :=
  match init_density E s density natural_density with
  | None => Raise
  | Some rho =>
      let d := count_atoms s in
      if negb (has_table T d) then Raise else
      let m := dweight (e_mass E) d in
      if Qeq_bool m 0 then Val (Some 0, Some 0) else
      let F1 a := match T a with Val t => fst (sf t x) | _ => None end in
      let F2 a := match T a with Val t => snd (sf t x) | _ => None end in
      Val (sld_of re na rho m (fsum F1 d), sld_of re na rho m (fsum F2 d))
  end.

(* the same computation with one table search per atom, returning also the magnitude of the
   terms: ((rho, irho), (scale_rho, scale_irho)).  With L = locate it is xray_sld_model. *)
Definition sum4 (L : locator) (T : atom -> res xtable) (x : Q) (d : dict)
  : (option Q * option Q) * (Q * Q) :=
  fold_left (fun acc p =>
               let '((v1, v2), (s1, s2)) := acc in
               let '((f1, f2), (a1, a2)) :=
                 match T (fst p) with Val t => sfs L t x | _ => ((None, None), (0, 0)) end in
               ((oadd v1 (oscale (snd p) f1), oadd v2 (oscale (snd p) f2)),
                (s1 + Qabs (snd p) * a1, s2 + Qabs (snd p) * a2)))
            d ((Some 0, Some 0), (0, 0)).

Definition ored (a : option Q) : option Q := match a with Some x => Some (Qred x) | None => None end.

Definition xray_sld_run (L : locator) (E : aenv) (re na : Q) (T : atom -> res xtable)
           (s : struct) (density natural_density : option Q) (x : Q)
  : res ((option Q * option Q) * (Q * Q)) :=
  match init_density E s density natural_density with
  | None => Raise
  | Some rho0 =>
      let rho := Qred rho0 in
      let d := count_atoms s in
      if negb (has_table T d) then Raise else
      let m := Qred (dweight (e_mass E) d) in
      if Qeq_bool m 0 then Val ((Some 0, Some 0), (0, 0)) else
      let '((v1, v2), (s1, s2)) := sum4 L T x d in
      let k := Qred (Qabs (rho / m * na * (1 # 100000000) * re)) in
      Val ((ored (sld_of re na rho m (ored v1)), ored (sld_of re na rho m (ored v2))),
           (Qred (k * Qred s1), Qred (k * Qred s2)))
  end.

(* Xray.sld of a bare atom: f*electron_radius*number_density*1e-8, (None, None) when there is
   no table or no number density *)
Definition el_sld_model (re : Q) (t : res xtable) (nd : res Q) (x : Q) : res (option (option Q * option Q)) :=
  match t with
  | Raise => Raise
  | NoneVal => Val None
  | Val tb =>
      match nd with
      | Raise => Raise
      | NoneVal => Val None
      | Val n =>
          let k := re * n * (1 # 100000000) in
          Val (Some (oscale k (fst (sf tb x)), oscale k (snd (sf tb x))))
      end
  end.
