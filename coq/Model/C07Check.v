(* Model/C07Check.v — runs the nsf loader model on the regenerated tables and compares with
   what the implementation served (comparison rules of DESIGN §3). *)
From Coq Require Import ZArith QArith Qabs String List Bool FMapPositive.
From PT Require Import Str Dec Py Loaders Nsf.
From PT.Gen Require Import NsfTables DensityTable ElementBase.
Import ListNotations.

Definition the_dens07 : option dens := density_init element_base element_densities.

Definition nsf_init_with (od : option dens) : option st :=
  match od with
  | Some d => nsf_init element_base d nsftable nsftableI energy_dependent_tables
  | None => None
  end.
Definition the_nsf : option st := nsf_init_with the_dens07.

(* ------------------------------------------------------------------ comparison rules *)

(* R0: the float is the correctly rounded double of the rational; None <-> Python None *)
Definition chk_r0 (v : pyval) (o : option Q) : bool :=
  match o with
  | Some q => match v with
              | PF _ _ | PI _ => match py_Q v with Some p => Qeq_bool p (round64 q) | None => false end
              | _ => false
              end
  | None => match v with PNone => true | _ => false end
  end.

(* R2: within 2^-40 relative *)
Definition chk_r2 (v : pyval) (q : Q) : bool :=
  match v with
  | PF _ _ | PI _ => match py_Q v with Some p => Qrel (-40) p q | None => false end
  | _ => false
  end.

(* rational enclosure of pi, used only for the one value the loader obtains with sqrt *)
Definition pi_lo : Q := 3141592653589793238462643 # 1000000000000000000000000.
Definition pi_hi : Q := 3141592653589793238462644 # 1000000000000000000000000.
Definition eps40 : Q := D2Q 1 (-40).

(* v = sqrt(c / (4 pi / 100)) up to 2^-40 relative on v^2 *)
Definition chk_sqrt4pi (v : pyval) (c : Q) : bool :=
  match v with
  | PF _ _ =>
      match py_Q v with
      | Some p =>
          (Qle_bool 0 p
           && Qle_bool (c * (1 - eps40)) (p * p * 4 * pi_hi / 100)
           && Qle_bool (p * p * 4 * pi_lo / 100) (c * (1 + eps40)))%bool
      | None => false
      end
  | _ => false
  end.

Definition chk_num (v : pyval) (o : option num) : bool :=
  match o with
  | Some (NRead q) => chk_r0 v (Some q)
  | Some (NCalc q) => chk_r2 v q
  | Some (NSqrt4pi c) => chk_sqrt4pi v c
  | None => match v with PNone => true | _ => false end
  end.

(* b_c_complex: real part is b_c itself (nan when b_c is missing), imaginary part computed *)
Definition chk_bcc (v : pyval) (o : option (option num * Q)) : bool :=
  match o, v with
  | None, PNone => true
  | Some (re, im), PL [vr; vi] =>
      (match re with
       | Some n => chk_num vr (Some n)
       | None => match vr with PNaN => true | _ => false end
       end && chk_r2 vi im)%bool
  | _, _ => false
  end.

Definition chk_bool (v : pyval) (b : bool) : bool :=
  match v with PB b' => Bool.eqb b b' | _ => false end.

Definition chk_spin (v : pyval) (o : option string) : bool :=
  match o, v with
  | Some s, PS s' => String.eqb s s'
  | None, PE AttrErr => true
  | _, _ => false
  end.

Definition is_some {A} (o : option A) : bool := match o with Some _ => true | None => false end.

(* ------------------------------------------------------------------ cases *)

(* CAtom z a obs   : obs = [b_c; bp; bm; b_c_i; bp_i; bm_i; coherent; incoherent; total;
                            absorption; abundance; nuclear_spin; is_energy_dependent;
                            b_c_complex; has_sld(); nsf_table is not None]
   CNode z a j e re im : node j (source order) of the energy table of the atom, energy e (eV),
                         observed scattering_by_wavelength(neutron_wavelength(1000 e))[0]
   CCount n        : number of atoms of one table whose neutron record is not the class default *)
Inductive c07case :=
| CAtom (z a : Z) (obs : list pyval)
| CNode (z a : Z) (j : Z) (e re im : pyval)
| CCount (n : Z).

Definition atom_verdicts (s : st) (z a : Z) (obs : list pyval) : list (string * bool) :=
  let g (i : nat) := nth i obs (PE OtherErr) in
  let r := neutron_of s z a in
  if negb (Nat.eqb (length obs) 16) then [("shape"%string, false)] else
  [("b_c"%string, chk_num (g 0%nat) (r_bc r));
   ("bp"%string, chk_r0 (g 1%nat) (r_bp r));
   ("bm"%string, chk_r0 (g 2%nat) (r_bm r));
   ("b_c_i"%string, chk_r0 (g 3%nat) (r_bci r));
   ("bp_i"%string, chk_r0 (g 4%nat) (r_bpi r));
   ("bm_i"%string, chk_r0 (g 5%nat) (r_bmi r));
   ("coherent"%string, chk_r0 (g 6%nat) (r_coh r));
   ("incoherent"%string, chk_r0 (g 7%nat) (r_inc r));
   ("total"%string, chk_num (g 8%nat) (r_tot r));
   ("absorption"%string, chk_r0 (g 9%nat) (r_abs r));
   ("abundance"%string, chk_r0 (g 10%nat) (r_abund r));
   ("nuclear_spin"%string, chk_spin (g 11%nat) (spin_of s z a));
   ("is_energy_dependent"%string, chk_bool (g 12%nat) (r_energy r));
   ("b_c_complex"%string, chk_bcc (g 13%nat) (r_bcc r));
   ("has_sld"%string, chk_bool (g 14%nat) (has_sld r));
   ("nsf_table"%string, chk_bool (g 15%nat) (is_some (r_tab r)))].

Definition node_verdicts (s : st) (z a j : Z) (e re im : pyval) : list (string * bool) :=
  let r := neutron_of s z a in
  match r_tab r with
  | Some (ETab rows) =>
      match nth_error (rev rows) (Z.to_nat j) with     (* source order *)
      | Some (eq, _, _) =>
          if (j <? 0)%Z then [("node index"%string, false)] else
          match b_c_at_energy r eq with
          | Some (mre, mim) =>
              [("node energy"%string, chk_r0 e (Some eq));
               ("Re b_c(E)"%string, chk_r0 re (Some mre));
               ("Im b_c(E)"%string, chk_r0 im (Some mim))]
          | None => [("model lookup"%string, false)]
          end
      | None => [("node index"%string, false)]
      end
  | _ => [("no energy table in the model"%string, false)]
  end.

Definition n_records (s : st) : Z := Z.of_nat (PositiveMap.cardinal (s_atoms s)).

Definition verdicts (s : st) (c : c07case) : list (string * bool) :=
  match c with
  | CAtom z a obs => atom_verdicts s z a obs
  | CNode z a j e re im => node_verdicts s z a j e re im
  | CCount n => [("number of atoms holding a record"%string, Z.eqb n (n_records s))]
  end.

Definition check_case (s : st) (c : c07case) : bool := forallb snd (verdicts s c).

Definition check_all_with (os : option st) (cases : list c07case) : list bool :=
  match os with
  | Some s => map (check_case s) cases
  | None => [false]
  end.
Definition check_all := check_all_with the_nsf.

Definition diag_case (s : st) (c : c07case) : string :=
  String.concat " " (map fst (filter (fun p => negb (snd p)) (verdicts s c))).
Definition diag_all_with (os : option st) (cases : list c07case) : list string :=
  match os with
  | Some s => map (diag_case s) cases
  | None => ["model loader failed"%string]
  end.
Definition diag_all := diag_all_with the_nsf.

(* exhaustiveness cross-checks: atoms holding a record, nodes of all energy tables *)
Definition count_nodes (os : option st) : N :=
  match os with
  | Some s =>
      fold_left (fun acc kv => match r_tab (snd kv) with
                               | Some (ETab rows) => (acc + N.of_nat (length rows))%N
                               | _ => acc
                               end) (PositiveMap.elements (s_recs s)) 0%N
  | None => 0%N
  end.
Definition model_nodes : N := count_nodes the_nsf.
Definition count_records (os : option st) : N := match os with Some s => Z.to_N (n_records s) | None => 0%N end.
Definition model_records : N := count_records the_nsf.
