(* Model/Fasta.v — code-shaped model of periodictable.fasta (C18): Molecule.__init__ for a table row,
   _code_average, the three code tables built from the regenerated rows (Gen/FastaTables.v) through the
   parser model, Sequence.__init__, the 'aa:'/'dna:'/'rna:' branch of formulas.formula(), read_fasta,
   _guess_type_from_filename, Sequence.load / loadall.
   Counts, volumes, charges, masses are exact rationals.  No proofs here.

   Not modelled (the model answers FUnmodelled, so a case that needs it is flagged, never passed):
   the deprecated tritium path of Molecule.__init__ (T rewritten to H[1] with a warning), Molecule
   built from a density instead of a cell volume, sld/Dsld/D2Omatch (C03/C16), the mixture grammar.
   Text files are modelled as '\n'-separated text (universal-newline translation is not modelled). *)
From Coq Require Import ZArith QArith Qabs String Ascii List Bool.
From PT Require Import Str Dec Py Loaders Formula FormulaMachine C06Check AtomEnv Pyparse TableEnv.
From PT.Gen Require Import FastaTables.
Import ListNotations.
Open Scope Q_scope.

(* ------------------------------------------------------------------ results *)
Inductive fres (A : Type) := FOk (a : A) | FErr (e : err) | FUnmodelled.
Arguments FOk {A}. Arguments FErr {A}. Arguments FUnmodelled {A}.

Definition fbind {A B} (x : fres A) (f : A -> fres B) : fres B :=
  match x with FOk a => f a | FErr e => FErr e | FUnmodelled => FUnmodelled end.
Notation "'do*' x '<-' e ';' k" := (fbind e (fun x => k)) (at level 200, x name, right associativity).

(* ------------------------------------------------------------------ the hydrogens *)
Definition aH : atom := mkAtom 1 0 0.
Definition aH1 : atom := mkAtom 1 1 0.     (* H[1]: labile hydrogen *)
Definition aD : atom := mkAtom 1 2 0.
Definition aT : atom := mkAtom 1 3 0.

(* ------------------------------------------------------------------ Python dict operations on .atoms *)
(* d[a] = v : keeps the position of an existing key, appends a new one *)
Fixpoint dict_set (d : dict) (a : atom) (v : Q) : dict :=
  match d with
  | [] => [(a, v)]
  | (b, w) :: r => if atom_eqb a b then (b, v) :: r else (b, w) :: dict_set r a v
  end.
(* del d[a] *)
Fixpoint dict_del (d : dict) (a : atom) : dict :=
  match d with
  | [] => []
  | (b, w) :: r => if atom_eqb a b then r else (b, w) :: dict_del r a
  end.
Definition dict_mem (d : dict) (a : atom) : bool := match dget d a with Some _ => true | None => false end.

(* ------------------------------------------------------------------ Formula.replace(source, target), portion = 1 *)
(* _isotope_substitution: atoms = compound.atoms; if source in atoms: density rescaled by the mass
   change, atoms[target] = atoms.get(target, 0) + atoms[source]*portion, del atoms[source];
   return formula(atoms, density=density) *)
Definition f_replace1 (E : aenv) (f : fobj) (src tgt : atom) : fres fobj :=
  let atoms := f_atoms f in
  match dget atoms src with
  | Some c =>
      match f_density f with
      | None => FErr TypeErr                      (* None * float *)
      | Some rho =>
          let mass := dweight (e_mass E) atoms in
          if Qeq_bool mass 0 then FErr ZeroDivErr else
          let reduction := c * 1 * (e_mass E src - e_mass E tgt) in
          let density := rho * (mass - reduction) / mass in
          let atoms1 := dict_set atoms tgt (dget0 atoms tgt + c * 1) in
          let atoms2 := dict_del atoms1 src in
          FOk (new_formula E (hill_struct E atoms2) KTuple (Some density) None None)
      end
  | None => FOk (new_formula E (hill_struct E atoms) KTuple (f_density f) None None)
  end.

(* ------------------------------------------------------------------ Molecule *)
Record molecule := mkMol {
  m_name : option string;
  m_vol : Q;                 (* cell_volume *)
  m_charge : Q;
  m_labile : fobj;           (* labile_formula (= .formula), density set from the cell volume *)
  m_natural : fobj;          (* natural_formula: H[1] -> H *)
  m_deuterated : fobj;       (* H[1] -> D *)
  m_mass : Q;                (* natural_formula.mass *)
  m_Dmass : Q;
  m_density : option Q       (* self.density = H.density: the natural formula's density (None = Python None) *)
}.

Definition TEN24 : Q := inject_Z (10 ^ 24).

(* M.density = 1e24*M.molecular_mass/cell_volume if cell_volume > 0 else 0 *)
Definition volume_density (E : aenv) (M : fobj) (vol : Q) : Q :=
  if Qle_bool vol 0 then 0 else TEN24 * (f_mass E M / NA) / vol.

(* Molecule.__init__(name, formula, cell_volume=vol, charge=charge) once parse_formula(formula) = M0 *)
Definition molecule_of (E : aenv) (name : option string) (M0 : fobj) (vol charge : Q) : fres molecule :=
  if dict_mem (f_atoms M0) aT then FUnmodelled else
  let M := mkF (f_struct M0) (f_kind M0) (Some (volume_density E M0 vol)) (f_name M0) in
  do* H <- f_replace1 E M aH1 aH;
  do* D <- f_replace1 E M aH1 aD;
  FOk (mkMol name vol charge M H D (f_mass E H) (f_mass E D) (f_density H)).

(* formula(compound) for a Formula argument with no density, natural_density or name given *)
Definition formula_of_formula (E : aenv) (f : fobj) : fobj :=
  new_formula E (f_struct f) (f_kind f) (f_density f) None (f_name f).

(* formula(compound) for a string without ':' : the compound grammar *)
Definition formula_of_plain_string (E : aenv) (T : ptable) (s : string) : fres fobj :=
  if String.eqb s "" then FOk (new_formula E [] KTuple None None None) else
  match parse_compound E T s with
  | Some (ROk f) => FOk f
  | Some (RErr e) => FErr e
  | None => FUnmodelled          (* the mixture alternatives are tried next: not modelled here *)
  end.

Definition molecule_of_string (E : aenv) (T : ptable) (name : option string) (ftxt : string)
           (vol charge : Q) : fres molecule :=
  if contains_char ":"%char ftxt then FUnmodelled else
  do* M0 <- formula_of_plain_string E T ftxt;
  molecule_of E name M0 vol charge.

Definition molecule_of_formula (E : aenv) (name : option string) (f : fobj) (vol charge : Q) : fres molecule :=
  molecule_of E name (formula_of_formula E f) vol charge.

(* ------------------------------------------------------------------ code tables *)
(* a Python dict code -> Molecule, in insertion order *)
Definition table := list (string * molecule).

Fixpoint tab_set (t : table) (k : string) (m : molecule) : table :=
  match t with
  | [] => [(k, m)]
  | (k', m') :: r => if String.eqb k k' then (k', m) :: r else (k', m') :: tab_set r k m
  end.
Fixpoint tab_get (t : table) (k : string) : option molecule :=
  match t with
  | [] => None
  | (k', m) :: r => if String.eqb k k' then Some m else tab_get r k
  end.
(* dict(pairs) *)
Definition tab_of_pairs (l : list (string * molecule)) : table :=
  fold_left (fun t p => tab_set t (fst p) (snd p)) l [].

Definition num (s : string) : fres Q := match parse_dec s with Some q => FOk q | None => FUnmodelled end.

Fixpoint last_char (s : string) : option ascii :=
  match s with
  | EmptyString => None
  | String c EmptyString => Some c
  | String _ r => last_char r
  end.
Fixpoint drop_last (s : string) : string :=
  match s with
  | EmptyString => EmptyString
  | String _ EmptyString => EmptyString
  | String c r => String c (drop_last r)
  end.

Fixpoint fmap_list {A B} (f : A -> fres B) (l : list A) : fres (list B) :=
  match l with
  | [] => FOk []
  | x :: r => do* y <- f x; do* ys <- fmap_list f r; FOk (y :: ys)
  end.

(* def _(code, V, formula, name) of AMINO_ACID_CODES: a trailing '-' / '+' of the formula text is the charge *)
Definition aa_row (E : aenv) (T : ptable) (row : string * string * string * string) : fres (string * molecule) :=
  let '(code, vtxt, ftxt, name) := row in
  match last_char ftxt with
  | None => FErr IndexErr
  | Some c =>
      let charge := if Ascii.eqb c "-" then -(1) else if Ascii.eqb c "+" then 1 else 0 in
      let ftxt' := if (Ascii.eqb c "-" || Ascii.eqb c "+")%bool then drop_last ftxt else ftxt in
      do* V <- num vtxt;
      do* m <- molecule_of_string E T (Some name) ftxt' V charge;
      FOk (code, m)
  end.

(* def _(code, formula, V, name) of RNA_BASES / DNA_BASES: no charge *)
Definition base_row (E : aenv) (T : ptable) (row : string * string * string * string) : fres (string * molecule) :=
  let '(code, ftxt, vtxt, name) := row in
  do* V <- num vtxt;
  do* m <- molecule_of_string E T (Some name) ftxt V 0;
  FOk (code, m).

(* def _(formula, V, name) of NUCLEIC_ACID_COMPONENTS, CARBOHYDRATE_RESIDUES, LIPIDS (keyed by name) *)
Definition other_row (E : aenv) (T : ptable) (row : string * string * string * string) : fres (string * string * molecule) :=
  let '(tname, ftxt, vtxt, name) := row in
  do* V <- num vtxt;
  do* m <- molecule_of_string E T (Some name) ftxt V 0;
  FOk (tname, name, m).

Definition empty_formula (E : aenv) : fobj := new_formula E [] KTuple None None None.

Fixpoint chars (s : string) : list ascii :=
  match s with EmptyString => [] | String c r => c :: chars r end.
Definition code_key (c : ascii) : string := String c EmptyString.

(* _code_average(bases, code_table): formula += base.labile_formula; cell_volume += ...; charge += ...;
   if n > 0: (1/n)*formula, cell_volume/n, charge/n *)
Fixpoint average_loop (tab : table) (bases : list ascii) (acc : fobj * Q * Q) : fres (fobj * Q * Q) :=
  match bases with
  | [] => FOk acc
  | c :: r =>
      match tab_get tab (code_key c) with
      | None => FErr KeyErr
      | Some base =>
          let '(f, v, q) := acc in
          average_loop tab r (f_iadd f (m_labile base), v + m_vol base, q + m_charge base)
      end
  end.
Definition code_average (E : aenv) (tab : table) (bases : string) : fres (fobj * Q * Q) :=
  let n := inject_Z (Z.of_nat (String.length bases)) in
  do* acc <- average_loop tab (chars bases) (empty_formula E, 0, 0);
  let '(f, v, q) := acc in
  if Qle_bool n 0 then FOk (f, v, q) else FOk (f_rmul (1 / n) f, v / n, q / n).

(* _set_amino_acid_average(target, codes, name=None) *)
Definition set_aa_average (E : aenv) (tab : table) (row : string * string * option string) : fres table :=
  let '(target, codes, oname) := row in
  do* avg <- code_average E tab codes;
  let '(f, v, q) := avg in
  do* name <- match oname with
              | Some n => FOk n
              | None =>
                  do* names <- fmap_list (fun c => match tab_get tab (code_key c) with
                                                    | Some m => FOk (match m_name m with Some n => n | None => ""%string end)
                                                    | None => FErr KeyErr
                                                    end) (chars codes);
                  FOk (join "/" names)
              end;
  do* m <- molecule_of_formula E (Some name) f v q;
  FOk (tab_set tab target m).

Fixpoint fold_fres {A S} (f : S -> A -> fres S) (l : list A) (s : S) : fres S :=
  match l with
  | [] => FOk s
  | x :: r => do* s' <- f s x; fold_fres f r s'
  end.

Definition build_aa (E : aenv) (T : ptable) (rows : list (string * string * string * string))
           (avgs : list (string * string * option string)) : fres table :=
  do* pairs <- fmap_list (aa_row E T) rows;
  fold_fres (set_aa_average E) avgs (tab_of_pairs pairs).

Definition build_bases (E : aenv) (T : ptable) (rows : list (string * string * string * string)) : fres table :=
  do* pairs <- fmap_list (base_row E T) rows;
  FOk (tab_of_pairs pairs).

(* def _(code, bases, name): Molecule(name, D.hill, cell_volume=V) over RNA_BASES and over DNA_BASES;
   the averaged charge is dropped (charge=0 default) *)
Definition nucleic_row (E : aenv) (bases_tab : table) (row : string * string * string) : fres (string * molecule) :=
  let '(code, bases, name) := row in
  do* avg <- code_average E bases_tab bases;
  let '(D, V, _) := avg in
  do* m <- molecule_of_formula E (Some name) (f_hill E D) V 0;
  FOk (code, m).

Definition build_codes (E : aenv) (bases_tab : table) (rows : list (string * string * string)) : fres table :=
  do* pairs <- fmap_list (nucleic_row E bases_tab) rows;
  FOk (tab_of_pairs pairs).

(* CODE_TABLES *)
Definition tables := list (string * table).

Definition build_tables (E : aenv) (T : ptable) : fres tables :=
  do* aa <- build_aa E T aa_rows aa_averages;
  do* rb <- build_bases E T rna_bases;
  do* db <- build_bases E T dna_bases;
  do* rc <- build_codes E rb nucleic_codes;
  do* dc <- build_codes E db nucleic_codes;
  fmap_list (fun p : string * string =>
               let '(k, nm) := p in
               if String.eqb nm "AMINO_ACID_CODES" then FOk (k, aa)
               else if String.eqb nm "DNA_CODES" then FOk (k, dc)
               else if String.eqb nm "RNA_CODES" then FOk (k, rc)
               else FUnmodelled) code_tables.

Definition build_others (E : aenv) (T : ptable) : fres (list (string * string * molecule)) :=
  fmap_list (other_row E T) other_molecules.

Fixpoint tables_get (ts : tables) (k : string) : option table :=
  match ts with
  | [] => None
  | (k', t) :: r => if String.eqb k k' then Some t else tables_get r k
  end.

(* ------------------------------------------------------------------ Sequence *)
(* sequence.split('*', 1)[0] *)
Fixpoint cut_star (s : string) : string :=
  match s with
  | EmptyString => EmptyString
  | String c r => if Ascii.eqb c "*" then EmptyString else String c (cut_star r)
  end.
(* sequence.replace(' ', '') *)
Fixpoint remove_spaces (s : string) : string :=
  match s with
  | EmptyString => EmptyString
  | String c r => if Ascii.eqb c " " then remove_spaces r else String c (remove_spaces r)
  end.
Definition clean (s : string) : string := remove_spaces (cut_star s).

(* tuple(codes[c] for c in sequence): KeyError on the first unknown code *)
Fixpoint parts_of (tab : table) (cs : list ascii) : option (list molecule) :=
  match cs with
  | [] => Some []
  | c :: r =>
      match tab_get tab (code_key c) with
      | None => None
      | Some m => match parts_of tab r with Some ms => Some (m :: ms) | None => None end
      end
  end.

(* sum(p.cell_volume for p in parts), sum(p.charge for p in parts) *)
(* (sums are kept reduced so that the model stays small under vm_compute) *)
Definition sum_red (f : molecule -> Q) (parts : list molecule) : Q :=
  fold_left (fun acc p => Qred (acc + f p)) parts 0.
Definition sum_vol (parts : list molecule) : Q := sum_red m_vol parts.
Definition sum_charge (parts : list molecule) : Q := sum_red m_charge parts.
(* structure = []; for p in parts: structure.extend(list(p.labile_formula.structure)) *)
Definition parts_structure (parts : list molecule) : struct := flat_map (fun p => f_struct (m_labile p)) parts.

(* Molecule.__init__(self, name, parse_formula(structure).hill, cell_volume=..., charge=...) *)
Definition sequence_of_parts (E : aenv) (name : option string) (parts : list molecule) : fres molecule :=
  let F := f_hill E (new_formula E (parts_structure parts) KTuple None None None) in
  molecule_of_formula E name F (sum_vol parts) (sum_charge parts).

Record seqmol := mkSeq { s_mol : molecule; s_sequence : string }.

(* Sequence(name, sequence, type) with codes = CODE_TABLES[type] already looked up *)
Definition sequence_of (E : aenv) (tab : table) (name : option string) (s0 : string) : fres seqmol :=
  let s := clean s0 in
  match parts_of tab (chars s) with
  | None => FErr KeyErr
  | Some parts => do* m <- sequence_of_parts E name parts; FOk (mkSeq m s)
  end.

Definition sequence_typed (E : aenv) (ts : tables) (name : option string) (s0 type : string) : fres seqmol :=
  match tables_get ts type with
  | None => FErr KeyErr
  | Some tab => sequence_of E tab name s0
  end.

(* ------------------------------------------------------------------ formula("aa:...") *)
(* compound.split(':', 1) when ':' in compound *)
Fixpoint split_colon (s : string) : option (string * string) :=
  match s with
  | EmptyString => None
  | String c r =>
      if Ascii.eqb c ":" then Some (EmptyString, r)
      else match split_colon r with
           | Some (a, b) => Some (String c a, b)
           | None => None
           end
  end.

(* formulas.formula(compound) for a string (no density / name / table arguments) *)
Definition formula_of_string (E : aenv) (T : ptable) (ts : tables) (s : string) : fres fobj :=
  match split_colon s with
  | Some (seq_type, seq) =>
      match tables_get ts seq_type with
      | Some tab => do* m <- sequence_of E tab None seq; FOk (m_labile (s_mol m))
      | None => formula_of_plain_string E T s
      end
  | None => formula_of_plain_string E T s
  end.

(* ------------------------------------------------------------------ FASTA text *)
(* characters str.rstrip() removes (ASCII) *)
Definition is_pyspace (c : ascii) : bool :=
  let n := N_of_ascii c in ((N.leb 9 n && N.leb n 13) || (N.leb 28 n && N.leb n 32))%bool.

Fixpoint py_rstrip (s : string) : string :=
  match s with
  | EmptyString => EmptyString
  | String a r =>
      match py_rstrip r with
      | EmptyString => if is_pyspace a then EmptyString else String a EmptyString
      | t => String a t
      end
  end.

(* ''.join(seq) *)
Definition join_all (l : list string) : string := String.concat "" l.

(* the pending record, yielded `if name:` *)
Definition flush_record (name : option string) (seq : list string) : list (string * string) :=
  match name with
  | Some n => if String.eqb n "" then [] else [(n, join_all seq)]
  | None => []
  end.

(* read_fasta(fp): name, seq = None, []; for line in fp: line = line.rstrip(); ... *)
Fixpoint read_fasta_go (lines : list string) (name : option string) (seq : list string) : list (string * string) :=
  match lines with
  | [] => flush_record name seq
  | l :: r =>
      let line := py_rstrip l in
      if startswith ">" line then (flush_record name seq ++ read_fasta_go r (Some line) [])%list
      else read_fasta_go r name (seq ++ [line])%list
  end.
Definition read_fasta (lines : list string) : list (string * string) := read_fasta_go lines None [].

(* iterating over a text file: lines end at '\n'; a last line without '\n' is a line *)
Fixpoint lines_of (s : string) : list string :=
  match s with
  | EmptyString => []
  | String c r =>
      if Ascii.eqb c "010" then EmptyString :: lines_of r
      else match lines_of r with
           | [] => [String c EmptyString]
           | l :: ls => String c l :: ls
           end
  end.
Definition read_fasta_text (text : string) : list (string * string) := read_fasta (lines_of text).

(* filename.endswith(suffix) *)
Fixpoint endswith (suf s : string) : bool :=
  (String.eqb s suf || match s with String _ r => endswith suf r | EmptyString => false end)%bool.

(* _guess_type_from_filename: the if/elif chain as regenerated from the source *)
Fixpoint guess_from (rules : list (string * string)) (default filename : string) : string :=
  match rules with
  | [] => default
  | (ext, t) :: r => if endswith ext filename then t else guess_from r default filename
  end.
Definition guess_type_with (rules : list (string * string)) (default filename : string) (type : option string) : string :=
  match type with Some t => t | None => guess_from rules default filename end.
Definition guess_type := guess_type_with guess_rules guess_default.

(* Sequence.loadall(filename, type): one Sequence per record (a generator: errors surface per record) *)
Definition loadall (E : aenv) (ts : tables) (filename : string) (type : option string) (text : string)
  : list (fres seqmol) :=
  let ty := guess_type filename type in
  map (fun r : string * string => sequence_typed E ts (Some (fst r)) (snd r) ty) (read_fasta_text text).

(* Sequence.load(filename, type): next(read_fasta(fh)) — StopIteration when there is no record *)
Definition load (E : aenv) (ts : tables) (filename : string) (type : option string) (text : string) : fres seqmol :=
  let ty := guess_type filename type in
  match read_fasta_text text with
  | [] => FErr OtherErr
  | r :: _ => sequence_typed E ts (Some (fst r)) (snd r) ty
  end.

(* ------------------------------------------------------------------ the tables of this source tree *)
Definition the_tables : fres tables := build_tables the_env the_ptable.
Definition the_others : fres (list (string * string * molecule)) := build_others the_env the_ptable.
