(* Model/AtomEnv.v — per-atom data (mass, density, symbol, Hill key) from the loader model
   run on the regenerated tables. *)
From Coq Require Import ZArith QArith String Ascii List Bool.
From PT Require Import Str Dec Loaders Formula C06Check.
From PT.Gen Require Import Constants ElementBase.
Import ListNotations.
Open Scope Q_scope.

Definition ME : Q := round64 (cst electron_mass_text).

Definition sym_of (eb : ebase) (a : atom) : string :=
  if (Z.eqb (az a) 1 && Z.eqb (aa a) 2)%bool then "D"%string
  else if (Z.eqb (az a) 1 && Z.eqb (aa a) 3)%bool then "T"%string
  else match eb_symbol eb (az a) with Some s => s | None => "?"%string end.

Definition q_of (r : res Q) : Q := match r with Val q => q | _ => 0 end.

Definition env_with (ot : option tbl) (od : option dens) : aenv :=
  match ot, od with
  | Some t, Some d =>
      mkEnv (fun a => q_of (mass_of t (az a) (aa a)) - inject_Z (aq a) * ME)
            (fun a => q_of (mass_of t (az a) 0) - inject_Z (aq a) * ME)
            (fun a => match density_of t d (az a) (aa a) with Val q => Some q | _ => None end)
            (sym_of element_base)
  | _, _ => mkEnv (fun _ => 0) (fun _ => 0) (fun _ => None) (fun _ => ""%string)
  end.
Definition the_env : aenv := env_with the_tbl the_dens.
