(* Model/C20FF.v — the form-factor evaluators run inside Coq as rigorous enclosures
   (Coq-Interval, FloatIntervalFull over Z mantissas, 50 bits, vm_compute), on the
   coefficients that the loader models of Model/Ancillary.v serve for the requested key:
     magnetic  <j0>, J :      A exp(-a s2) + B exp(-b s2) + C exp(-c s2) + D
               <j2>,<j4>,<j6>: s2 * (the same)                         s2 = (Q/4pi)^2
     Cromer-Mann f0:           c + sum_i a_i exp(-b_i s2)
   and the comparison with the double the implementation returned: the whole enclosure minus
   that double must lie in [-2^-30 M, 2^-30 M], M the sum of the magnitudes of the terms.
   Soundness of the enclosures is proved in Proofs/C20FFSound.v. *)
From Coq Require Import ZArith QArith Qabs String List Bool.
From Interval Require Import Specific_stdz Specific_ops Float_full Interval Xreal.
From PT Require Import Str Dec Py Loaders Ancillary C20Check.
Import ListNotations.

Module F := SpecificFloat StdZRadix2.
Module I := FloatIntervalFull F.

Definition prec : F.precision := F.PtoP 50.

Definition IQ (q : Q) : I.type := I.div prec (I.fromZ prec (Qnum q)) (I.fromZ prec (Zpos (Qden q))).
(* s2 = (Q / (4 pi))^2 *)
Definition s2I (q : Q) : I.type :=
  I.sqr prec (I.div prec (IQ q) (I.mul prec (I.fromZ prec 4) (I.pi prec))).
(* A exp(-a s2) *)
Definition termI (s2 : I.type) (A a : Q) : I.type :=
  I.mul prec (IQ A) (I.exp prec (I.neg (I.mul prec (IQ a) s2))).
Definition ff_coreI (v : list Q) (s2 : I.type) : I.type :=
  I.add prec (I.add prec (I.add prec (termI s2 (coef v 0) (coef v 1)) (termI s2 (coef v 2) (coef v 3)))
                     (termI s2 (coef v 4) (coef v 5)))
        (IQ (coef v 6)).
Definition ff0I (v : list Q) (q : Q) : I.type := ff_coreI v (s2I q).
Definition ffnI (v : list Q) (q : Q) : I.type := I.mul prec (s2I q) (ff_coreI v (s2I q)).
Fixpoint cm_sumI (s2 : I.type) (ab : list (Q * Q)) : I.type :=
  match ab with
  | [] => I.fromZ prec 0
  | (a, b) :: r => I.add prec (termI s2 a b) (cm_sumI s2 r)
  end.
Definition cmI (f : cmf) (q : Q) : I.type :=
  I.add prec (cm_sumI (s2I q) (combine (cm_a f) (cm_b f))) (IQ (cm_c f)).

(* the double m * 2^e as a point *)
Definition ptI (m e : Z) : I.type := I.bnd (Specific_ops.Float m e) (Specific_ops.Float m e).
Definition epsI : I.type := I.bnd (Specific_ops.Float (-1)%Z (-30)%Z) (Specific_ops.Float 1%Z (-30)%Z).

(* enclosure - value within +- 2^-30 * scale *)
Definition near (v : pyval) (x scale : I.type) : bool :=
  match v with
  | PF m e => I.subset (I.sub prec x (ptI m e)) (I.mul prec epsI scale)
  | _ => false
  end.

Definition set_name (k : Z) : string :=
  if Z.eqb k 0 then "j0" else if Z.eqb k 1 then "j2" else if Z.eqb k 2 then "j4"
  else if Z.eqb k 3 then "j6" else "J".

(* ("ffq", [z; charge; set; qnum; qden], [table[z].magnetic_ff[charge].<set>_Q(qnum/qden)])
   ("f0q", [z; charge; qnum; qden], [xray.f0(qnum/qden) of the element or ion])           *)
Definition check_ff_case (t : tables) (c : c20case) : bool :=
  let '(kind, args, obs) := c in
  let a (i : nat) := nth i args (-1)%Z in
  let g := nth 0%nat obs (PE OtherErr) in
  if String.eqb kind "ffq" then
    if negb (Nat.eqb (List.length args) 5 && Nat.eqb (List.length obs) 1 && Z.ltb 0 (a 4%nat)) then false else
    let q := Qmake (a 3%nat) (Z.to_pos (a 4%nat)) in
    match mff_get (t_mff t) (a 0%nat) (a 1%nat) (set_name (a 2%nat)) with
    | None => is_attr_err g
    | Some v =>
        if negb (Nat.eqb (List.length v) 7) then match g with PE _ => true | _ => false end else
        let m := IQ (abs_terms v) in
        if (Z.eqb (a 2%nat) 0 || Z.eqb (a 2%nat) 4)%bool then near g (ff0I v q) m
        else near g (ffnI v q) (I.mul prec m (I.add prec (s2I q) (ptI 1 (-60))))
    end
  else if String.eqb kind "f0q" then
    if negb (Nat.eqb (List.length args) 4 && Nat.eqb (List.length obs) 1 && Z.ltb 0 (a 3%nat)) then false else
    let q := Qmake (a 2%nat) (Z.to_pos (a 3%nat)) in
    match cm_of EB (t_cm t) (a 0%nat) (a 1%nat) with
    | None => is_key_err g
    | Some f => near g (cmI f q) (IQ (cm_abs f))
    end
  else false.

Definition check_ff_all_with (ot : option tables) (cases : list c20case) : list bool :=
  match ot with Some t => map (check_ff_case t) cases | None => [false] end.
Definition check_ff_all := check_ff_all_with the_tables.
