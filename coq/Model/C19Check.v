(* Model/C19Check.v — compares what the implementation's Formula.hill returns (structure, sequence
   type, printed form, density, ==) with the model f_hill, on formulas built from the same atoms
   in many orders and groupings.  No proofs here. *)
From Coq Require Import ZArith QArith Qabs String Ascii List Bool.
From PT Require Import Str Dec Py Loaders Formula AtomEnv.
Import ListNotations.
Open Scope Q_scope.

(* ------------------------------------------------------------------ printed form of a flat structure *)
Fixpoint zeros (n : nat) : string := match n with O => ""%string | S k => String "0"%char (zeros k) end.

(* "%g" % c for a count that is 0 or a positive dyadic rational with at most 6 significant decimal
   digits and 1e-4 <= c < 1e6 (then %g prints it exactly); None otherwise: not compared *)
Definition fmt_g (q : Q) : option string :=
  let r := Qred q in
  let n := Qnum r in
  let d := Zpos (Qden r) in
  if Z.leb n 0 then (if Z.eqb n 0 then Some "0"%string else None) else
  let k := Z.log2 d in
  if negb (Z.eqb (2 ^ k) d) then None else
  let m := (n * 5 ^ k)%Z in
  let ip := (m / 10 ^ k)%Z in
  let fp := (m mod 10 ^ k)%Z in
  if Z.eqb k 0 then (if Z.ltb ip 1000000 then Some (Z_to_string ip) else None) else
  let fs := Z_to_string fp in
  let lz := (k - Z.of_nat (String.length fs))%Z in
  let pad := zeros (Z.to_nat lz) in
  if Z.ltb 0 ip then
    if Z.leb (Z.of_nat (String.length (Z_to_string ip)) + k) 6
    then Some (Z_to_string ip ++ "." ++ pad ++ fs)%string else None
  else
    if (Z.leb (Z.of_nat (String.length fs)) 6 && Z.leb lz 3)%bool
    then Some ("0." ++ pad ++ fs)%string else None.

(* _str_atoms on one atom: Sym, Sym[A] for isotopes (D and T by name, also as ions), then {n+} / {n-} *)
Definition atom_str (sym : atom -> string) (a : atom) : string :=
  let named := (Z.eqb (az a) 1 && (Z.eqb (aa a) 2 || Z.eqb (aa a) 3))%bool in
  let base := if (Z.eqb (aa a) 0 || named)%bool then sym a
              else (sym a ++ "[" ++ Z_to_string (aa a) ++ "]")%string in
  let q := aq a in
  let ch := if Z.eqb q 0 then ""%string
            else ("{" ++ (if Z.ltb 1 (Z.abs q) then Z_to_string (Z.abs q) else "") ++
                  (if Z.ltb 0 q then "+" else "-") ++ "}")%string in
  (base ++ ch)%string.

Fixpoint flat_str (sym : atom -> string) (s : struct) : option string :=
  match s with
  | [] => Some ""%string
  | (c, FAtom a) :: r =>
      match flat_str sym r with
      | Some t =>
          if Qeq_bool c 1 then Some (atom_str sym a ++ t)%string
          else match fmt_g c with
               | Some g => Some (atom_str sym a ++ g ++ t)%string
               | None => None
               end
      | None => None
      end
  | _ => None
  end.

(* ------------------------------------------------------------------ observations *)
(* one formula f: the structure it was built from; f.hill.structure and whether that is a list;
   str(f.hill); f.hill.hill == f.hill; f.hill.density *)
Record fobs := mkO {
  o_in : struct; o_hill : struct; o_hill_list : bool; o_str : string; o_idem : bool; o_hdens : pyval
}.

(* formulas of one atom multiset; (i, j, f_i.hill == f_j.hill); formulas parsed from a string
   written in Hill order: (p.structure, is it a list, p == p.hill) *)
Definition c19case := (list fobs * list (Z * Z * bool) * list (struct * bool * bool))%type.

Definition chk_optQ (v : pyval) (q : option Q) : bool :=
  match q with
  | Some x => match py_Q v with Some p => Qrel (-40) p x | None => false end
  | None => match v with PNone => true | _ => false end
  end.

Definition in_formula (s : struct) : fobj := mkF s KTuple None None.
Definition model_hill (E : aenv) (o : fobs) : fobj := f_hill E (in_formula (o_in o)).

Definition chk_struct (E : aenv) (o : fobs) : bool := struct_eqb (f_struct (model_hill E o)) (o_hill o).
Definition chk_kind (E : aenv) (o : fobs) : bool :=
  Bool.eqb (match f_kind (model_hill E o) with KList => true | KTuple => false end) (o_hill_list o).
Definition chk_str (E : aenv) (o : fobs) : bool :=
  match flat_str (e_sym E) (f_struct (model_hill E o)) with
  | Some s => String.eqb s (o_str o)
  | None => true
  end.
Definition chk_idem (E : aenv) (o : fobs) : bool :=
  let h := model_hill E o in Bool.eqb (formula_eqb (f_hill E h) h) (o_idem o).
Definition chk_dens (E : aenv) (o : fobs) : bool := chk_optQ (o_hdens o) (f_density (model_hill E o)).

Definition chk_pair (hs : list fobj) (p : Z * Z * bool) : bool :=
  let '(i, j, b) := p in
  let d := in_formula [] in
  Bool.eqb (formula_eqb (nth (Z.to_nat i) hs d) (nth (Z.to_nat j) hs d)) b.

Definition chk_ordered (E : aenv) (p : struct * bool * bool) : bool :=
  let '(st, is_list, b) := p in
  let f := mkF st (if is_list then KList else KTuple) None None in
  Bool.eqb (formula_eqb f (f_hill E f)) b.

Definition check_case (E : aenv) (c : c19case) : bool :=
  let '(obs, pairs, ordered) := c in
  let hs := map (model_hill E) obs in
  (forallb (chk_struct E) obs && forallb (chk_kind E) obs && forallb (chk_str E) obs &&
   forallb (chk_idem E) obs && forallb (chk_dens E) obs &&
   forallb (chk_pair hs) pairs && forallb (chk_ordered E) ordered)%bool.

Definition check_all_with (E : aenv) (cases : list c19case) : list bool := map (check_case E) cases.
Definition check_all := check_all_with the_env.

(* which kinds of observation disagree (all of them, space separated) *)
Definition diag_case (E : aenv) (c : c19case) : string :=
  let '(obs, pairs, ordered) := c in
  let hs := map (model_hill E) obs in
  let tag (ok : bool) (name : string) : string := if ok then ""%string else (name ++ " ")%string in
  (tag (forallb (chk_struct E) obs) "hill-structure" ++
   tag (forallb (chk_pair hs) pairs) "hill-equality" ++
   tag (forallb (chk_str E) obs) "hill-str" ++
   tag (forallb (chk_kind E) obs) "hill-kind" ++
   tag (forallb (chk_idem E) obs) "hill-idempotent" ++
   tag (forallb (chk_ordered E) ordered) "ordered-own-hill" ++
   tag (forallb (chk_dens E) obs) "hill-density")%string.
Definition diag_all_with (E : aenv) (cases : list c19case) : list string := map (diag_case E) cases.
Definition diag_all := diag_all_with the_env.

(* number of formulas whose printed form the model could produce (coverage of chk_str) *)
Definition str_covered_with (E : aenv) (cases : list c19case) : N :=
  fold_left (fun n c => let '(obs, _, _) := c in
    (n + N.of_nat (length (filter (fun o => match flat_str (e_sym E) (f_struct (model_hill E o)) with
                                           | Some _ => true | None => false end) obs)))%N) cases 0%N.
Definition str_covered := str_covered_with the_env.
