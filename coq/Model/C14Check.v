(* Model/C14Check.v — one case = one call activity(isotope, mass, env, exposure, rest_times) of the
   implementation restricted to one reaction row.  The model (Model/Act.v) is run on the same
   inputs and each returned activity is compared
     (i)  with the code-shaped model expression, allowance 2^-30 * M + 2^-1074, M = magnitude of the
          terms the code adds/subtracts (validates the model), and
     (ii) with the closed-form solution of the reaction chain, allowance 2^-30 * |solution| + 2^-1074 (1 + |solution at removal|)
          ("to within double-precision rounding of that solution": cancellation inside the code
          is not excused).
   Both comparisons are sign decisions on rigorous enclosures (Model/ActEval.v); a failed (ii) is
   only called a finding when the enclosure PROVES the violation. *)
From Coq Require Import ZArith QArith Qabs String List Bool.
From PT Require Import Str Dec Py IExpr ActEval Act.
From PT.Gen Require Import ActivationDat.
Import ListNotations.
Open Scope string_scope.

Definition TOL : Z := (-30)%Z.
(* absolute floor of the comparison.  Where a factor of activity() (an exp(-k t) of order 1e-320) falls into the
   subnormal range it keeps only a few bits, and the product with a prefactor of order 1e12 is a result of order
   1e-308 whose relative error is 1e-4 although every normal-range result is good to 2^-30.  2^-997 (7.5e-301 uCi) is
   above the largest such error for prefactors up to 1e23 and three hundred orders of magnitude below anything
   measurable (seed 8 of the multi-seed sweep: 115-In burnt up at fluence 8e15 for 8751 h). *)
Definition FLOOR : Q := D2Q 1 (-997).

(* Z, A, index of the row in isotope.neutron_activation, [mass; fluence; Cd_ratio; fast_ratio; exposure],
   rest_times, outcome (PNone: no entry; PE: raised; PL: activities) *)
Definition c14case := (Z * Z * nat * list pyval * list pyval * pyval)%type.

Inductive verdict :=
| VOk
| VFinding (br : branch) (neg : bool)     (* implementation = model, and PROVED outside the allowance of the solution *)
| VSpecUnknown (br : branch)              (* = model, but the enclosure could not settle (ii) *)
| VBoth (br : branch) (neg : bool)        (* differs from the model AND proved outside the allowance of the solution *)
| VModelOnly (br : branch)                (* differs from the model, not shown to differ from the solution *)
| VModel (what : string)                  (* entry / exception disagreement *)
| VUndecided                              (* model declined: branch test too close to its threshold *)
| VShape.

Definition br_name (b : branch) : string :=
  match b with BMain => "main" | BSmall => "small" | BB => "b" | B2n => "2n" end.

Definition verdict_str (v : verdict) : string :=
  match v with
  | VOk => "ok"
  | VFinding b n => "finding " ++ br_name b ++ (if n then " negative" else "")
  | VSpecUnknown b => "spec-unknown " ++ br_name b
  | VBoth b n => "model-and-spec " ++ br_name b ++ (if n then " negative" else "")
  | VModelOnly b => "model-only " ++ br_name b
  | VModel w => "model " ++ w
  | VUndecided => "undecided"
  | VShape => "shape"
  end.

Definition all_Q (l : list pyval) : option (list Q) :=
  fold_right (fun v acc => match py_Q v, acc with Some q, Some r => Some (q :: r) | _, _ => None end) (Some []) l.

(* one value.  Allowance: 2^-30 |scale| + 2^-1074 (1 + |activity at removal|): when the decay factor
   exp(-lam t) is itself a subnormal double its half-ulp error is multiplied by the activity. *)
Definition slack_e (py : Q) (v scale a_end : expr) : expr :=
  ESub (EAdd (EMul (ECst (D2Q 1 TOL)) (EAbs scale)) (EMul (ECst FLOOR) (EAdd (ECst 1) (EAbs a_end))))
       (EAbs (ESub (ECst py) v)).
Definition cmp_model (py : Q) (a m lam : expr) (ti : Q) : bool :=
  is_ge0 (sign_of (slack_e py (rest_model a lam ti) (rest_model m lam ti) a)).
Definition cmp_spec (py : Q) (spec : expr) (thalf ti : Q) : sgn :=
  let s := rest_spec spec thalf ti in sign_of (slack_e py s s spec).

Fixpoint zipQ (a b : list Q) : list (Q * Q) :=
  match a, b with x :: r, y :: s => (x, y) :: zipQ r s | _, _ => [] end.

Definition judge_values (r : arow) (br : branch) (a m lam spec : expr) (rest vals : list Q) : verdict :=
  let pairs := zipQ rest vals in
  let m_ok := forallb (fun p => cmp_model (snd p) a m lam (fst p)) pairs in
  let ss := map (fun p => cmp_spec (snd p) spec (r_thalf r) (fst p)) pairs in
  let neg := existsb (fun v => Qlt_bool v 0) vals in
  if forallb is_ge0 ss then (if m_ok then VOk else VModelOnly br) else
  if existsb is_lt0 ss then (if m_ok then VFinding br neg else VBoth br neg)
  else (if m_ok then VSpecUnknown br else VModelOnly br).

Definition judge (rows : list arow) (cs : c14case) : verdict :=
  let '(z, a, j, inp, rest, out) := cs in
  match all_Q inp, all_Q rest, nth_error (rows_of rows z a) j with
  | Some [mass; flu; cd; fast; expo], Some restq, Some r =>
      match activity_row r a mass (mkEnv flu cd fast) expo, out with
      | OSkip, PNone => VOk
      | OSkip, _ => VModel "expected no entry"
      | ORaise e, PE e' => if err_eqb e e' then VOk else VModel "other exception"
      | ORaise _, _ => VModel "expected an exception"
      | OUndecided, _ => VUndecided
      | OAct br ea em lam spec, PL vs =>
          match all_Q vs with
          | Some vals => if Nat.eqb (length vals) (length restq) then judge_values r br ea em lam spec restq vals
                         else VShape
          | None => VModel ("non-finite value " ++ br_name br)
          end
      | OAct br _ _ _ _, PE _ => VModel ("raised " ++ br_name br)
      | OAct _ _ _ _ _, _ => VShape
      end
  | _, _, _ => VShape
  end.

Definition is_ok (v : verdict) : bool := match v with VOk => true | _ => false end.

Definition check_all_with (orows : option (list arow)) (cases : list c14case) : list bool :=
  match orows with
  | Some rows => map (fun cs => is_ok (judge rows cs)) cases
  | None => [false]
  end.
Definition check_all := check_all_with the_rows.

Definition diag_all_with (orows : option (list arow)) (cases : list c14case) : list string :=
  match orows with
  | Some rows => map (fun cs => verdict_str (judge rows cs)) cases
  | None => ["reader model failed"]
  end.
Definition diag_all := diag_all_with the_rows.

(* exhaustiveness cross-check: number of rows the model reads *)
Definition nrows_of (orows : option (list arow)) : N :=
  match orows with Some rows => N.of_nat (length rows) | None => 0%N end.
Definition model_rows : N := nrows_of the_rows.

(* the rows as (Z, A, daughter, reaction, fast) for the harness to cross-check identification *)
Definition row_keys_of (orows : option (list arow)) : list string :=
  match orows with
  | Some rows => map (fun r => Z_to_string (r_Z r) ++ "|" ++ Z_to_string (r_A r) ++ "|" ++ r_daughter r ++ "|" ++ r_reaction r
                               ++ "|" ++ (if r_fast r then "y" else "n")) rows
  | None => []
  end.
Definition model_row_keys := row_keys_of the_rows.
