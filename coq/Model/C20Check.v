(* Model/C20Check.v — runs the ancillary loader models on the regenerated tables and compares
   with what the implementation served.  Values obtained by float(text) alone are compared
   bit-exactly (round64); float sums at Q = 0 within 2^-40 of the sum of magnitudes. *)
From Coq Require Import ZArith QArith Qabs String Ascii List Bool.
From PT Require Import Str Dec Py Loaders Ancillary.
From PT.Gen Require Import ElementBase Cordero Crystal Spectral Cfml WaasKirf.
Import ListNotations.
Open Scope string_scope.

Definition cst (s : string) : Q := match parse_dec s with Some q => q | None => 0%Q end.
Definition EB : ebase := element_base.
Definition unc_scale : Q := cst cordero_unc_scale_text.

Definition the_cov : option cov := cordero_init EB (cst cordero_neutron_radius_text) Cordero.
Definition the_crystal : option (amap (option cdict)) := crystal_init EB crystal_structures.
Definition the_spectral : option (amap (Q * Q)) := spectral_init EB spectral_lines_data.
Definition the_mff : option mff := mff_init EB CFML_DATA.
Definition the_cm : option cmdict := cm_init f0_WaasKirf.

Record tables := mkTables { t_cov : cov; t_cry : amap (option cdict); t_spec : amap (Q * Q);
                            t_mff : mff; t_cm : cmdict }.
Definition tables_of (a : option cov) (b : option (amap (option cdict))) (c : option (amap (Q * Q)))
           (d : option mff) (e : option cmdict) : option tables :=
  match a, b, c, d, e with
  | Some a, Some b, Some c, Some d, Some e => Some (mkTables a b c d e)
  | _, _, _, _, _ => None
  end.
Definition the_tables : option tables := tables_of the_cov the_crystal the_spectral the_mff the_cm.

(* ------------------------------------------------------------------ comparison rules *)
Definition is_attr_err (v : pyval) := match v with PE AttrErr => true | _ => false end.
Definition is_key_err (v : pyval) := match v with PE KeyErr => true | _ => false end.
Definition is_none (v : pyval) := match v with PNone => true | _ => false end.
Definition is_float (v : pyval) := match v with PF _ _ => true | _ => false end.

(* R0: the float is the correctly rounded double of the table's decimal *)
Definition eq_r0 (v : pyval) (q : Q) : bool :=
  match v with PF m e => Qeq_bool (D2Q m e) (round64 q) | _ => false end.
(* the float is exactly this (dyadic) rational *)
Definition eq_exact (v : pyval) (q : Q) : bool :=
  match v with PF m e => Qeq_bool (D2Q m e) q | _ => false end.
(* a float sum: within 2^-40 of the magnitudes that entered it *)
Definition eq_sum (v : pyval) (scale q : Q) : bool :=
  match v with PF m e => Qclose (-40) scale (D2Q m e) q | _ => false end.

(* attribute with class default None: value, None, or (not an element) an error *)
Definition chk_attr_none (f : pyval -> Q -> bool) (v : pyval) (r : res Q) : bool :=
  match r with
  | Val q => f v q
  | NoneVal => is_none v
  | Raise => match v with PE _ => true | _ => false end
  end.
(* attribute without class default: value or AttributeError *)
Definition chk_attr_missing (v : pyval) (r : res Q) : bool :=
  match r with
  | Val q => eq_r0 v q
  | NoneVal => is_none v
  | Raise => is_attr_err v
  end.

Definition chk_floats (v : pyval) (l : list Q) : bool :=
  match v with
  | PL vs => (Nat.eqb (List.length vs) (List.length l)
              && forallb (fun p => eq_r0 (fst p) (snd p)) (combine vs l))%bool
  | _ => false
  end.

Definition chk_dict_item (v : pyval) (kv : string * (string + string)) : bool :=
  match v with
  | PL [PS k; x] =>
      (String.eqb k (fst kv)
       && match snd kv, x with
          | inl s, PS s' => String.eqb s s'
          | inr t, PF _ _ => match parse_dec t with Some q => eq_r0 x q | None => false end
          | _, _ => false
          end)%bool
  | _ => false
  end.
Definition chk_crystal (v : pyval) (r : res (option cdict)) : bool :=
  match r with
  | Val None => is_none v
  | Val (Some d) =>
      match v with
      | PL items => (Nat.eqb (List.length items) (List.length d)
                     && forallb (fun p => chk_dict_item (fst p) (snd p)) (combine items d))%bool
      | _ => false
      end
  | NoneVal => false
  | Raise => is_attr_err v
  end.

(* one charge state as sent by the harness:
   [PI charge; j0; j2; j4; j6; J; M; j0_Q(0); j2_Q(0); j4_Q(0); j6_Q(0); J_Q(0); M_Q(0)] *)
Definition chk_set (v : pyval) (o : option (list Q)) : bool :=
  match o with Some l => chk_floats v l | None => is_attr_err v end.
Definition abs_terms (l : list Q) : Q := Qabs (coef l 0) + Qabs (coef l 2) + Qabs (coef l 4) + Qabs (coef l 6).
Definition chk_ff0_zero (v : pyval) (o : option (list Q)) : bool :=
  match o with
  | Some l => match formfactor_0 (fun _ => 1%Q) l 0 with
              | Some _ => eq_sum v (abs_terms l) (ff0_at_zero l)
              | None => match v with PE _ => true | _ => false end
              end
  | None => is_attr_err v
  end.
Definition chk_ffn_zero (v : pyval) (o : option (list Q)) : bool :=
  match o with
  | Some l => match formfactor_n (fun _ => 1%Q) l 0 with
              | Some x => eq_exact v x
              | None => match v with PE _ => true | _ => false end
              end
  | None => is_attr_err v
  end.

Definition charge_verdicts (v : pyval) (cs : Z * ffsets) : list (string * bool) :=
  let '(c, s) := cs in
  match v with
  | PL obs =>
      let g (i : nat) := nth i obs (PE OtherErr) in
      let tag (n : string) := ("magnetic_ff[" ++ Z_to_string c ++ "]." ++ n)%string in
      if negb (Nat.eqb (List.length obs) 13) then [(tag "shape", false)] else
      [(tag "charge", match g 0%nat with PI c' => Z.eqb c c' | _ => false end);
       (tag "j0", chk_set (g 1%nat) (sets_get s "j0"));
       (tag "j2", chk_set (g 2%nat) (sets_get s "j2"));
       (tag "j4", chk_set (g 3%nat) (sets_get s "j4"));
       (tag "j6", chk_set (g 4%nat) (sets_get s "j6"));
       (tag "J", chk_set (g 5%nat) (sets_get s "J"));
       (tag "M", chk_set (g 6%nat) (sets_get s "j0"));
       (tag "j0_Q(0)", chk_ff0_zero (g 7%nat) (sets_get s "j0"));
       (tag "j2_Q(0)", chk_ffn_zero (g 8%nat) (sets_get s "j2"));
       (tag "j4_Q(0)", chk_ffn_zero (g 9%nat) (sets_get s "j4"));
       (tag "j6_Q(0)", chk_ffn_zero (g 10%nat) (sets_get s "j6"));
       (tag "J_Q(0)", chk_ff0_zero (g 11%nat) (sets_get s "J"));
       (tag "M_Q(0)", chk_ff0_zero (g 12%nat) (sets_get s "j0"))]
  | _ => [("magnetic_ff charge state shape", false)]
  end.

Definition mff_verdicts (v : pyval) (o : option (list (Z * ffsets))) : list (string * bool) :=
  match o with
  | None => [("magnetic_ff", is_attr_err v)]
  | Some cs =>
      match v with
      | PL items =>
          if Nat.eqb (List.length items) (List.length cs)
          then flat_map (fun p => charge_verdicts (fst p) (snd p)) (combine items cs)
          else [("magnetic_ff charge states", false)]
      | _ => [("magnetic_ff", false)]
      end
  end.

Definition cm_abs (f : cmf) : Q := Qsum (map Qabs (cm_a f)) + Qabs (cm_c f).

(* ------------------------------------------------------------------ cases *)
(* ("el", [z], [covalent_radius; covalent_radius_uncertainty; crystal_structure; K_alpha; K_beta1; magnetic_ff])
   ("cm", [], [PS symbol; getCMformula(symbol) as PL [PS symbol; PL a; PL b; c] or KeyError])
   ("f0", [z; charge], [table[z].ion[charge].xray.f0(0)  (charge 0: the element)])
   ("fx", [], [PS symbol; fxrayatq(symbol, 0)])                                                   *)
Definition c20case := (string * list Z * list pyval)%type.

Definition verdicts (t : tables) (c : c20case) : list (string * bool) :=
  let '(kind, args, obs) := c in
  let g (i : nat) := nth i obs (PE OtherErr) in
  let a (i : nat) := nth i args (-1)%Z in
  if String.eqb kind "el" then
    if negb (Nat.eqb (List.length obs) 6 && Nat.eqb (List.length args) 1) then [("shape", false)] else
    let z := a 0%nat in
    [("covalent_radius", chk_attr_none eq_r0 (g 0%nat) (cov_radius EB (t_cov t) z));
     ("covalent_radius_uncertainty",
      chk_attr_none (fun v u => eq_exact v (cov_unc_float unc_scale u)) (g 1%nat) (cov_unc_raw EB (t_cov t) z));
     ("crystal_structure", chk_crystal (g 2%nat) (crystal_of EB (t_cry t) z));
     ("K_alpha", chk_attr_missing (g 3%nat) (k_alpha_of EB (t_spec t) z));
     ("K_beta1", chk_attr_missing (g 4%nat) (k_beta1_of EB (t_spec t) z))]
    ++ mff_verdicts (g 5%nat) (mff_el (t_mff t) z)
  else if String.eqb kind "cm" then
    match obs with
    | [PS symbol; r] =>
        match cm_lookup (t_cm t) symbol with
        | None => [("getCMformula absent", is_key_err r)]
        | Some f =>
            match r with
            | PL [PS s; va; vb; vc] =>
                [("getCMformula.symbol", String.eqb s (cm_sym f)); ("getCMformula.a", chk_floats va (cm_a f));
                 ("getCMformula.b", chk_floats vb (cm_b f)); ("getCMformula.c", eq_r0 vc (cm_c f))]
            | _ => [("getCMformula", false)]
            end
        end
    | _ => [("shape", false)]
    end
  else if String.eqb kind "f0" then
    if negb (Nat.eqb (List.length obs) 1 && Nat.eqb (List.length args) 2) then [("shape", false)] else
    match cm_of EB (t_cm t) (a 0%nat) (a 1%nat) with
    | Some f => [("xray.f0(0)", eq_sum (g 0%nat) (cm_abs f) (cm_at_zero f))]
    | None => [("xray.f0(0) absent", is_key_err (g 0%nat))]
    end
  else if String.eqb kind "fx" then
    match obs with
    | [PS symbol; r] =>
        match cm_lookup (t_cm t) (cm_symbol symbol None) with
        | Some f => [("fxrayatq(symbol,0)", eq_sum r (cm_abs f) (cm_at_zero f))]
        | None => [("fxrayatq(symbol,0) absent", is_key_err r)]
        end
    | _ => [("shape", false)]
    end
  else [("unknown case kind", false)].

Definition check_case (t : tables) (c : c20case) : bool := forallb snd (verdicts t c).

Definition check_all_with (ot : option tables) (cases : list c20case) : list bool :=
  match ot with Some t => map (check_case t) cases | None => [false] end.
Definition check_all := check_all_with the_tables.

Definition diag_case (t : tables) (c : c20case) : string :=
  String.concat " " (map fst (filter (fun p => negb (snd p)) (verdicts t c))).
Definition diag_all_with (ot : option tables) (cases : list c20case) : list string :=
  match ot with Some t => map (diag_case t) cases | None => ["model loader failed"] end.
Definition diag_all := diag_all_with the_tables.

(* sizes of what the model loads, for the exhaustiveness cross-check:
   radii, structure slots, emission rows, magnetic elements, magnetic charge states, Cromer-Mann entries *)
Definition sizes_of (ot : option tables) : list N :=
  match ot with
  | Some t => [N.of_nat (List.length (cov_r (t_cov t))); N.of_nat (List.length (t_cry t));
               N.of_nat (List.length (t_spec t)); N.of_nat (List.length (t_mff t));
               N.of_nat (List.length (flat_map snd (t_mff t))); N.of_nat (List.length (t_cm t))]
  | None => []
  end.
Definition model_sizes : list N := sizes_of the_tables.
