(* Model/XsfReal.v — the real-valued part of periodictable.xsf / cromermann as IExpr expressions:
   index of refraction, thick-mirror reflectivity (complex square root written out in real and
   imaginary parts) and the Cromer-Mann form factor f0.  evalR gives the meaning (theorems in
   Proofs/C05Real.v), evalI the enclosure that is compared with the implementation. *)
From Coq Require Import ZArith QArith Qabs String List Bool.
From PT Require Import Str Dec Loaders Formula Ancillary Xsf IExpr.
Import ListNotations.

(* ------------------------------------------------------------------ index of refraction *)
(* n = 1 - lambda^2/(2 pi) * (rho + i*irho) * 1e-6 ; [s] is rho or irho in 1e-6/Ang^2 *)
Definition delta_expr (lam s : expr) : expr :=
  EMul (EMul (EDiv (ESqr lam) (EMul (ez 2) EPi)) s) (ECst (1 # 1000000)).
Definition n_re_expr (lam rho : expr) : expr := ESub (ez 1) (delta_expr lam rho).
Definition n_im_expr (lam irho : expr) : expr := ENeg (delta_expr lam irho).

(* ------------------------------------------------------------------ mirror reflectivity *)
(* ki = 2 pi/lambda sin(theta); kf = 2 pi/lambda sqrt(n^2 - cos(theta)^2) (principal root
   p + i q, p >= 0); r = (ki-kf)/(ki+kf) exp(-2 ki kf sigma^2); R = |r|^2
   = ((ki-kp)^2 + kq^2)/((ki+kp)^2 + kq^2) * exp(-4 ki kp sigma^2), kp = k p, kq = k q *)
Definition k_expr (lam : expr) : expr := EDiv (EMul (ez 2) EPi) lam.
Definition ki_expr (lam th : expr) : expr := EMul (k_expr lam) (ESin th).
(* n^2 - cos^2 = za + i zb *)
Definition za_expr (nr ni th : expr) : expr := ESub (ESub (ESqr nr) (ESqr ni)) (ESqr (ECos th)).
Definition zb_expr (nr ni : expr) : expr := EMul (ez 2) (EMul nr ni).
Definition zmod_expr (nr ni th : expr) : expr :=
  ESqrt (EAdd (ESqr (za_expr nr ni th)) (ESqr (zb_expr nr ni))).
(* real part of the principal square root, and the square of its imaginary part *)
Definition p_expr (nr ni th : expr) : expr :=
  ESqrt (EDiv (EAdd (zmod_expr nr ni th) (za_expr nr ni th)) (ez 2)).
Definition q2_expr (nr ni th : expr) : expr :=
  EDiv (ESub (zmod_expr nr ni th) (za_expr nr ni th)) (ez 2).
Definition kp_expr (lam nr ni th : expr) : expr := EMul (k_expr lam) (p_expr nr ni th).
Definition kq2_expr (lam nr ni th : expr) : expr := EMul (ESqr (k_expr lam)) (q2_expr nr ni th).

Definition refl_expr (lam nr ni th sg : expr) : expr :=
  let ki := ki_expr lam th in
  let kp := kp_expr lam nr ni th in
  let kq2 := kq2_expr lam nr ni th in
  EMul (EDiv (EAdd (ESqr (ESub ki kp)) kq2) (EAdd (ESqr (EAdd ki kp)) kq2))
       (EExp (ENeg (EMul (ez 4) (EMul (EMul ki kp) (ESqr sg))))).

(* radians(angle) *)
Definition radians_expr (deg : expr) : expr := EDiv (EMul deg EPi) (ez 180).

(* ------------------------------------------------------------------ Cromer-Mann f0 *)
(* f0(Q) = sum a_i exp(-b_i (Q/(4 pi))^2) + c *)
Definition stol2_expr (qv : expr) : expr := ESqr (EDiv qv (EMul (ez 4) EPi)).
Definition f0_terms (f : cmf) (qv : expr) : list expr :=
  map (fun ab => EMul (ECst (fst ab)) (EExp (ENeg (EMul (ECst (snd ab)) (stol2_expr qv)))))
      (combine (cm_a f) (cm_b f)).
Definition f0_expr (f : cmf) (qv : expr) : expr := EAdd (esum (f0_terms f qv)) (ECst (cm_c f)).
(* sum of the magnitudes of the terms *)
Definition f0_scale_expr (f : cmf) (qv : expr) : expr :=
  EAdd (esum (map EAbs (f0_terms f qv))) (ECst (Qabs (cm_c f))).

(* the range test of CromerMannFormula.atstol as the code performs it, in binary64:
   stol = Q/(4*pi); NaN where stol > stollimit = 6 *)
Definition PI64 : Q := D2Q 884279719003555 (-48).           (* the double nearest pi *)
Definition stol64 (q : Q) : Q := fl (q / fl (4 * PI64)).
Definition STOL_LIMIT : Q := 6.
Definition f0_beyond (q : Q) : bool := if Qlt_le_dec STOL_LIMIT (stol64 q) then true else false.

(* Xray.f0(Q) of an atom with coefficients: None is NaN *)
Definition f0_model (f : cmf) (q : Q) : option expr :=
  if f0_beyond q then None else Some (f0_expr f (ECst q)).
