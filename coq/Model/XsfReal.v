(* Model/XsfReal.v — the real-valued part of periodictable.xsf / cromermann as IExpr expressions:
   index of refraction, thick-mirror reflectivity (complex square root written out in real and
   imaginary parts) and the Cromer-Mann form factor f0.  evalR gives the meaning (theorems in
   Proofs/C05Real.v), evalI the enclosure that is compared with the implementation. *)
From Coq Require Import ZArith QArith Qabs String List Bool.
From PT Require Import Str Dec Loaders Formula Ancillary Xsf IExpr.
Import ListNotations.

(* ------------------------------------------------------------------ index of refraction *)
(* n = 1 - lambda^2/(2 pi) * (rho + i*irho) * 1e-6 ; [s] is rho or irho in 1e-6/Ang^2 *)
Definition delta_expr (lam s : expr) : expr :=
  EMul (EMul (EDiv (ESqr lam) (EMul (ez 2) EPi)) s) (ECst (1 # 1000000)).
Definition n_re_expr (lam rho : expr) : expr := ESub (ez 1) (delta_expr lam rho).
Definition n_im_expr (lam irho : expr) : expr := ENeg (delta_expr lam irho).

(* ------------------------------------------------------------------ mirror reflectivity *)
(* ki = 2 pi/lambda sin(theta); kf = 2 pi/lambda sqrt(n^2 - cos(theta)^2) (principal root
   p + i q, p >= 0); r = (ki-kf)/(ki+kf) exp(-2 ki kf sigma^2); R = |r|^2
   = ((ki-kp)^2 + kq^2)/((ki+kp)^2 + kq^2) * exp(-4 ki kp sigma^2), kp = k p, kq = k q *)
Definition k_expr (lam : expr) : expr := EDiv (EMul (ez 2) EPi) lam.
(* in terms of st = sin(theta), ct = cos(theta):  n^2 - cos^2 = za + i zb *)
Definition za_expr (nr ni ct : expr) : expr := ESub (ESub (ESqr nr) (ESqr ni)) (ESqr ct).
Definition zb_expr (nr ni : expr) : expr := EMul (ez 2) (EMul nr ni).
Definition zmod_expr (nr ni ct : expr) : expr :=
  ESqrt (EAdd (ESqr (za_expr nr ni ct)) (ESqr (zb_expr nr ni))).
(* real part of the principal square root, and the square of its imaginary part *)
Definition p_expr (nr ni ct : expr) : expr :=
  ESqrt (EDiv (EAdd (zmod_expr nr ni ct) (za_expr nr ni ct)) (ez 2)).
Definition q2_expr (nr ni ct : expr) : expr :=
  EDiv (ESub (zmod_expr nr ni ct) (za_expr nr ni ct)) (ez 2).
Definition ki_expr (lam st : expr) : expr := EMul (k_expr lam) st.
Definition kp_expr (lam nr ni ct : expr) : expr := EMul (k_expr lam) (p_expr nr ni ct).
Definition kq2_expr (lam nr ni ct : expr) : expr := EMul (ESqr (k_expr lam)) (q2_expr nr ni ct).

(* R from ki, kp = Re kf, kq2 = (Im kf)^2 and the roughness *)
Definition refl_core (ki kp kq2 sg : expr) : expr :=
  EMul (EDiv (EAdd (ESqr (ESub ki kp)) kq2) (EAdd (ESqr (EAdd ki kp)) kq2))
       (EExp (ENeg (EMul (ez 4) (EMul (EMul ki kp) (ESqr sg))))).

Definition refl_sc (lam nr ni st ct sg : expr) : expr :=
  refl_core (ki_expr lam st) (kp_expr lam nr ni ct) (kq2_expr lam nr ni ct) sg.

Definition refl_expr (lam nr ni th sg : expr) : expr :=
  refl_sc lam nr ni (ESin th) (ECos th) sg.

(* radians(angle) *)
Definition radians_expr (deg : expr) : expr := EDiv (EMul deg EPi) (ez 180).

(* ------------------------------------------------------------------ Cromer-Mann f0 *)
(* f0(Q) = sum a_i exp(-b_i (Q/(4 pi))^2) + c *)
Definition stol2_expr (qv : expr) : expr := ESqr (EDiv qv (EMul (ez 4) EPi)).
Definition f0_terms (f : cmf) (qv : expr) : list expr :=
  map (fun ab => EMul (ECst (fst ab)) (EExp (ENeg (EMul (ECst (snd ab)) (stol2_expr qv)))))
      (combine (cm_a f) (cm_b f)).
Definition f0_expr (f : cmf) (qv : expr) : expr := EAdd (esum (f0_terms f qv)) (ECst (cm_c f)).
(* sum of the magnitudes of the terms *)
Definition f0_scale_expr (f : cmf) (qv : expr) : expr :=
  EAdd (esum (map EAbs (f0_terms f qv))) (ECst (Qabs (cm_c f))).

(* the range test of CromerMannFormula.atstol as the code performs it, in binary64:
   stol = Q/(4*pi); NaN where stol > stollimit = 6 *)
Definition PI64 : Q := D2Q 884279719003555 (-48).           (* the double nearest pi *)
Definition stol64 (q : Q) : Q := fl (q / fl (4 * PI64)).
Definition STOL_LIMIT : Q := 6.
Definition f0_beyond (q : Q) : bool := if Qlt_le_dec STOL_LIMIT (stol64 q) then true else false.

(* Xray.f0(Q) of an atom with coefficients: None is NaN *)
Definition f0_model (f : cmf) (q : Q) : option expr :=
  if f0_beyond q then None else Some (f0_expr f (ECst q)).

(* ------------------------------------------------------------------ running the reflectivity *)
(* the same expression evaluated in stages, so that sin, cos and the wave vectors are enclosed
   once: each stage is evalI of a sub-expression of refl_expr over the enclosures of the previous
   stage (sound by evalI_sound stage by stage) *)
Definition ienv_of (p : F.precision) (l : list I.type) : nat -> I.type := fun n => nth n l (I.fromZ p 0).

Definition refl_staged (p : F.precision) (lam nr ni th sg : expr) : I.type :=
  let a := map (evalI p no_env_I) [lam; nr; ni; th; sg] in
  let ea := ienv_of p a in
  let st := evalI p ea (ESin (EVar 3)) in
  let ct := evalI p ea (ECos (EVar 3)) in
  let eb := ienv_of p [ea 0%nat; ea 1%nat; ea 2%nat; st; ct] in
  let ki := evalI p eb (ki_expr (EVar 0) (EVar 3)) in
  let kp := evalI p eb (kp_expr (EVar 0) (EVar 1) (EVar 2) (EVar 4)) in
  let kq2 := evalI p eb (kq2_expr (EVar 0) (EVar 1) (EVar 2) (EVar 4)) in
  evalI p (ienv_of p [ki; kp; kq2; ea 4%nat]) (refl_core (EVar 0) (EVar 1) (EVar 2) (EVar 3)).
