(* Model/Ancillary.v — code-shaped, total, executable transcriptions of the five ancillary
   loaders, run on the raw table text regenerated from /repo:
     covalent_radius.init   (Gen/Cordero.v)      crystal_structure.init (Gen/Crystal.v)
     xsf.init_spectral_lines (Gen/Spectral.v)    magnetic_ff.init       (Gen/Cfml.v)
     cromermann._update_cmformulas / fxrayatstol (Gen/WaasKirf.v)
   A loader returns None where the Python code would raise.  No proofs here. *)
From Coq Require Import ZArith QArith Qabs String Ascii List Bool.
From PT Require Import Str Dec Loaders.
Import ListNotations.
Open Scope string_scope.

(* ------------------------------------------------------------------ small string helpers *)
Fixpoint map_opt {A B} (f : A -> option B) (l : list A) : option (list B) :=
  match l with
  | [] => Some []
  | x :: r => match f x, map_opt f r with Some y, Some r' => Some (y :: r') | _, _ => None end
  end.

Definition last_char (s : string) : option ascii :=
  match srev s with String c _ => Some c | EmptyString => None end.
Definition drop_last (s : string) : string :=
  match srev s with String _ r => srev r | EmptyString => EmptyString end.

Fixpoint remove_char (c : ascii) (s : string) : string :=
  match s with
  | EmptyString => EmptyString
  | String a r => if ascii_eqb a c then remove_char c r else String a (remove_char c r)
  end.

Definition upper_char (c : ascii) : ascii :=
  if is_lower c then ascii_of_N (N_of_ascii c - 32) else c.
Definition lower_char (c : ascii) : ascii :=
  if is_upper c then ascii_of_N (N_of_ascii c + 32) else c.
Fixpoint map_string (f : ascii -> ascii) (s : string) : string :=
  match s with EmptyString => EmptyString | String a r => String (f a) (map_string f r) end.
(* str.capitalize() *)
Definition capitalize (s : string) : string :=
  match s with EmptyString => EmptyString | String a r => String (upper_char a) (map_string lower_char r) end.

(* s.rstrip(chars) *)
Fixpoint lstrip_chars (cs s : string) : string :=
  match s with
  | String a r => if contains_char a cs then lstrip_chars cs r else s
  | EmptyString => EmptyString
  end.
Definition rstrip_chars (cs s : string) : string := srev (lstrip_chars cs (srev s)).

(* prefix p, then the rest *)
Definition expect (p s : string) : option string :=
  if startswith p s then Some (drop (String.length p) s) else None.
(* text before the first c, and the text after it *)
Fixpoint until_char (c : ascii) (s : string) : option (string * string) :=
  match s with
  | EmptyString => None
  | String a r =>
      if ascii_eqb a c then Some (EmptyString, r)
      else match until_char c r with Some (x, y) => Some (String a x, y) | None => None end
  end.

Definition is_element (eb : ebase) (z : Z) : bool :=
  match eb_symbol eb z with Some _ => true | None => false end.

(* assignments to an instance attribute, latest first *)
Definition amap (A : Type) := list (Z * A).
Definition aget {A} (m : amap A) (z : Z) : option A :=
  match find (fun r => Z.eqb (fst r) z) m with Some r => Some (snd r) | None => None end.

(* ------------------------------------------------------------------ covalent_radius.init *)
(* radius and the raw uncertainty digits (the loader multiplies the latter by 0.01 in floats) *)
Record cov := mkCov { cov_r : amap Q; cov_u : amap Q }.

Definition cordero_row (eb : ebase) (st : cov) (line : string) : option cov :=
  let fields0 := split_ws line in
  let fields := if Nat.eqb (List.length fields0) 3 then (fields0 ++ ["0"; "0"])%list else fields0 in
  do f0 <- nth_error fields 0;
  if String.eqb f0 "-" then Some st else          (* skip alternate spin states *)
  do z <- parse_int f0;
  do f2 <- nth_error fields 2;
  do r <- parse_dec f2;
  do f3 <- nth_error fields 3;
  do dr <- parse_dec f3;
  if is_element eb z then Some (mkCov ((z, r) :: cov_r st) ((z, dr) :: cov_u st)) else None.

(* table[0].covalent_radius = 0.20 precedes the loop; the class defaults are None *)
Definition cordero_init (eb : ebase) (neutron_r : Q) (lines : list string) : option cov :=
  if is_element eb 0 then fold_opt (cordero_row eb) lines (mkCov [(0%Z, neutron_r)] []) else None.

Definition cov_radius (eb : ebase) (t : cov) (z : Z) : res Q :=
  if is_element eb z then match aget (cov_r t) z with Some r => Val r | None => NoneVal end else Raise.
Definition cov_unc_raw (eb : ebase) (t : cov) (z : Z) : res Q :=
  if is_element eb z then match aget (cov_u t) z with Some u => Val u | None => NoneVal end else Raise.
(* the float the loader stores: float(fields[3]) * 0.01 *)
Definition cov_unc_float (scale : Q) (u : Q) : Q := round64 (round64 u * round64 scale).

(* ------------------------------------------------------------------ crystal_structure.init *)
Definition cdict := list (string * (string + string)).    (* inl: a str value, inr: number text *)

(* for Z, struct in enumerate(crystal_structures): table[Z].crystal_structure = struct *)
Fixpoint crystal_loop (eb : ebase) (l : list (option cdict)) (z : Z) (st : amap (option cdict))
  : option (amap (option cdict)) :=
  match l with
  | [] => Some st
  | s :: r => if is_element eb z then crystal_loop eb r (z + 1) ((z, s) :: st) else None
  end.
Definition crystal_init (eb : ebase) (l : list (option cdict)) : option (amap (option cdict)) :=
  crystal_loop eb l 0 [].

(* Val None is Python's None; Raise is AttributeError (no class default exists) *)
Definition crystal_of (eb : ebase) (t : amap (option cdict)) (z : Z) : res (option cdict) :=
  if is_element eb z then match aget t z with Some s => Val s | None => Raise end else Raise.

(* ------------------------------------------------------------------ xsf.init_spectral_lines *)
Definition spectral_row (eb : ebase) (st : amap (Q * Q)) (row : string) : option (amap (Q * Q)) :=
  match split_ws row with
  | [el; ka; kb] =>
      do z <- eb_number eb el;
      do a <- parse_dec ka;
      do b <- parse_dec kb;
      Some ((z, (a, b)) :: st)
  | _ => None
  end.
Definition spectral_init (eb : ebase) (rows : list string) : option (amap (Q * Q)) :=
  fold_opt (spectral_row eb) rows [].
Definition k_alpha_of (eb : ebase) (t : amap (Q * Q)) (z : Z) : res Q :=
  if is_element eb z then match aget t z with Some p => Val (fst p) | None => Raise end else Raise.
Definition k_beta1_of (eb : ebase) (t : amap (Q * Q)) (z : Z) : res Q :=
  if is_element eb z then match aget t z with Some p => Val (snd p) | None => Raise end else Raise.

(* ------------------------------------------------------------------ magnetic_ff.init *)
(* CFML_DATA.replace('&\n', '') on the list of lines *)
Fixpoint join_cont (l : list string) : list string :=
  match l with
  | [] => []
  | x :: r =>
      match r with
      | [] => [x]
      | _ :: _ =>
          match last_char x with
          | Some "&"%char =>
              match join_cont r with
              | y :: r' => (drop_last x ++ y) :: r'
              | [] => [drop_last x]
              end
          | _ => x :: join_cont r
          end
      end
  end.

(* eval of  Magnetic_Form_Type("STATE", (v, v, ..., v))  after the slashes were removed *)
Definition parse_call (b : string) : option (string * list Q) :=
  do s1 <- expect "Magnetic_Form_Type" (lstrip b);
  do s2 <- expect "(" (lstrip s1);
  do s3 <- expect """" (lstrip s2);
  do p4 <- until_char """"%char s3;
  do s5 <- expect "," (lstrip (snd p4));
  do s6 <- expect "(" (lstrip s5);
  do p7 <- until_char ")"%char s6;
  do s8 <- expect ")" (lstrip (snd p7));
  if String.eqb (strip s8) "" then
    do vals <- map_opt parse_dec (split_char ","%char (fst p7));
    Some (fst p4, vals)
  else None.

Definition char_at (s : string) (n : nat) : option ascii := String.get n s.
Definition digit_of (c : ascii) : option Z := if is_digit c then Some (digit_val c) else None.

(* <EL><ION>: "V2  " -> ("V", 2), "FE3 " -> ("Fe", 3) *)
Definition split_state (state : string) : option (string * Z) :=
  do c1 <- char_at state 1;
  if is_digit c1 then
    do c0 <- char_at state 0;
    Some (String c0 EmptyString, digit_val c1)
  else
    do c2 <- char_at state 2;
    do ch <- digit_of c2;
    Some (capitalize (take 2 state), ch).

(* element -> charge -> coefficient-set name -> values; dict insertion order kept *)
Definition ffsets := list (string * list Q).
Definition mff := list (Z * list (Z * ffsets)).

Fixpoint sets_put (s : ffsets) (jn : string) (v : list Q) : ffsets :=
  match s with
  | [] => [(jn, v)]
  | (k, w) :: r => if String.eqb k jn then (k, v) :: r else (k, w) :: sets_put r jn v
  end.
Fixpoint charges_put (cs : list (Z * ffsets)) (c : Z) (jn : string) (v : list Q) : list (Z * ffsets) :=
  match cs with
  | [] => [(c, [(jn, v)])]
  | (k, s) :: r => if Z.eqb k c then (k, sets_put s jn v) :: r else (k, s) :: charges_put r c jn v
  end.
Fixpoint mff_put (m : mff) (z c : Z) (jn : string) (v : list Q) : mff :=
  match m with
  | [] => [(z, [(c, [(jn, v)])])]
  | (k, cs) :: r => if Z.eqb k z then (k, charges_put cs c jn v) :: r else (k, cs) :: mff_put r z c jn v
  end.

Definition cfml_line (eb : ebase) (st : mff) (line0 : string) : option mff :=
  let line := strip line0 in
  if negb (contains_char "="%char line) then Some st else
  match split_char "="%char line with
  | [a; b] =>
      do call <- parse_call (remove_char "/"%char b);
      let state0 := fst call in
      do js <-
        (if startswith "Magnetic_Form" a then
           match state0 with
           | String c r => Some ((if ascii_eqb c "M" then "j0" else "J"), r)
           | EmptyString => None
           end
         else if startswith "Magnetic_j2" a then Some ("j2", state0)
         else if startswith "Magnetic_j4" a then Some ("j4", state0)
         else if startswith "Magnetic_j6" a then Some ("j6", state0)
         else None);
      do sc <- split_state (snd js);
      do z <- eb_number eb (fst sc);
      Some (mff_put st z (snd sc) (fst js) (snd call))
  | _ => None
  end.

Definition mff_init (eb : ebase) (lines : list string) : option mff :=
  fold_opt (cfml_line eb) (join_cont lines) [].

(* el.magnetic_ff: AttributeError (None here) when the element has no entry *)
Definition mff_el (m : mff) (z : Z) : option (list (Z * ffsets)) :=
  match find (fun r => Z.eqb (fst r) z) m with Some r => Some (snd r) | None => None end.
Definition mff_charge (m : mff) (z c : Z) : option ffsets :=
  do cs <- mff_el m z;
  match find (fun r => Z.eqb (fst r) c) cs with Some r => Some (snd r) | None => None end.
Definition sets_get (s : ffsets) (jn : string) : option (list Q) :=
  match find (fun r => String.eqb (fst r) jn) s with Some r => Some (snd r) | None => None end.
Definition mff_get (m : mff) (z c : Z) (jn : string) : option (list Q) :=
  do s <- mff_charge m z c; sets_get s jn.

(* the form factors as functions of s^2 = (Q/4pi)^2, over any exponential [ex]:
   A, a, B, b, C, c, D = coefficients (ValueError unless exactly seven) *)
Definition coef (v : list Q) (i : nat) : Q := nth i v 0%Q.
Definition ff_core (ex : Q -> Q) (v : list Q) (s2 : Q) : Q :=
  (coef v 0 * ex (- coef v 1 * s2) + coef v 2 * ex (- coef v 3 * s2) + coef v 4 * ex (- coef v 5 * s2) + coef v 6)%Q.
Definition formfactor_0 (ex : Q -> Q) (v : list Q) (s2 : Q) : option Q :=
  if Nat.eqb (List.length v) 7 then Some (ff_core ex v s2) else None.
Definition formfactor_n (ex : Q -> Q) (v : list Q) (s2 : Q) : option Q :=
  if Nat.eqb (List.length v) 7 then Some (s2 * ff_core ex v s2)%Q else None.
(* value of <j0>/J at Q = 0, where every exponential is 1 *)
Definition ff0_at_zero (v : list Q) : Q := (coef v 0 + coef v 2 + coef v 4 + coef v 6)%Q.

(* ------------------------------------------------------------------ cromermann *)
Record cmf := mkCmf { cm_sym : string; cm_a : list Q; cm_b : list Q; cm_c : Q }.
Definition cmdict := list (string * cmf).

Fixpoint cmdict_put (d : cmdict) (k : string) (v : cmf) : cmdict :=
  match d with
  | [] => [(k, v)]
  | (k', v') :: r => if String.eqb k' k then (k', v) :: r else (k', v') :: cmdict_put r k v
  end.

(* _update_cmformulas: "#S n symbol" remembers the symbol, "#L ..." consumes the next line as
   a1..a5 c b1..b5; anything else is skipped; an empty line raises IndexError *)
Fixpoint cm_loop (lines : list string) (smbl : option string) (d : cmdict) : option cmdict :=
  match lines with
  | [] => Some d
  | line :: rest =>
      match split_ws line with
      | [] => None
      | w0 :: wr =>
          if String.eqb w0 "#S" then
            match wr with
            | _ :: s :: _ => cm_loop rest (Some s) d
            | _ => None
            end
          else if String.eqb w0 "#L" then
            match smbl with
            | None => None
            | Some s =>
                match rest with
                | [] => None
                | line1 :: rest' =>
                    let w1 := split_ws line1 in
                    if Nat.eqb (List.length w1) 11 then
                      match map_opt parse_dec (firstn 5 w1),
                            map_opt parse_dec (firstn 5 (skipn 6 w1)),
                            parse_dec (nth 5 w1 "") with
                      | Some a, Some b, Some c => cm_loop rest' None (cmdict_put d s (mkCmf s a b c))
                      | _, _, _ => None
                      end
                    else None
                end
            end
          else cm_loop rest smbl d
      end
  end.
Definition cm_init (lines : list string) : option cmdict := cm_loop lines None [].

(* getCMformula: KeyError (None) for an unlisted symbol *)
Definition cm_lookup (d : cmdict) (symbol : string) : option cmf :=
  match find (fun r => String.eqb (fst r) symbol) d with Some r => Some (snd r) | None => None end.

(* ("%+i" % charge)[::-1] *)
Definition fmt_charge_rev (charge : Z) : string :=
  srev ((if Z.ltb charge 0 then "-" else "+") ++ Z_to_string (Z.abs charge)).

(* the lookup symbol that fxrayatstol builds *)
Definition cm_symbol (symbol : string) (charge : option Z) : string :=
  match charge with
  | Some ch =>
      let s := rstrip_chars "012345678+-" symbol in
      if Z.eqb ch 0 then s else s ++ fmt_charge_rev ch
  | None =>
      match last_char symbol with
      | None => "1"    (* '' in '+-' holds for the empty string *)
      | Some c =>
          if (ascii_eqb c "+" || ascii_eqb c "-")%bool then
            match last_char (drop_last symbol) with
            | Some d => if is_digit d then symbol else drop_last symbol ++ "1" ++ String c EmptyString
            | None => drop_last symbol ++ "1" ++ String c EmptyString
            end
          else symbol
      end
  end.

(* Xray.f0 of element z with the given charge: which entry is used *)
Definition cm_of (eb : ebase) (d : cmdict) (z charge : Z) : option cmf :=
  do sym <- eb_symbol eb z;
  cm_lookup d (cm_symbol sym (Some charge)).

Definition Qsum (l : list Q) : Q := fold_right Qplus 0%Q l.
(* c + sum a_i exp(-b_i stol^2) *)
Definition cm_eval (ex : Q -> Q) (f : cmf) (stol2 : Q) : Q :=
  (Qsum (map (fun ab => fst ab * ex (- snd ab * stol2)) (combine (cm_a f) (cm_b f))) + cm_c f)%Q.
Definition cm_at_zero (f : cmf) : Q := (Qsum (cm_a f) + cm_c f)%Q.
