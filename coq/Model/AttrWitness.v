(* Model/AttrWitness.v — witness histories for the transition coverage of the machine (thorough tier):
   for every reachable abstract state of a group (shortest path from the initial state) and every admitted
   action of the group's alphabet, the history path ++ [action], printed in the harness's event syntax.
   Executable code only, no proofs. *)
From Coq Require Import String List Bool NArith FMapPositive.
From PT Require Import Str Py AttrScript LoaderScripts Attr AttrReach C09Proofs.
Import ListNotations.
Open Scope string_scope.

(* table[0] stands for itself only in the covalent_radius group (Model/Attr.v): the witnesses use it there only *)
Definition en_ok (a : pact) : bool :=
  match a with
  | PLop (LGet _ En n) | PLop (LHas _ En n) | PLop (LSetA _ En n) | PLop (LMut _ En n) =>
      N.eqb (group_of_name n) (group_of_name "covalent_radius")
  | _ => true
  end.

Section W.
  Variable safe : pstate -> lop -> bool.
  Variable alpha0 : N -> list pact.
  Definition alpha (g : N) : list pact := filter en_ok (alpha0 g).

  Definition wst := (pstate * list pact)%type.      (* state, reversed path *)

  Fixpoint explore_w (g : N) (fuel : nat) (frontier : list wst) (m : tbl pstate) (acc : list wst) : list wst :=
    match fuel with
    | O => acc
    | S f =>
        match frontier with
        | [] => acc
        | _ =>
            let '(nw, m') :=
              fold_left (fun (p : list wst * tbl pstate) (w : wst) =>
                           fold_left (fun (q : list wst * tbl pstate) a =>
                                        if allowed safe g (fst w) a then
                                          let t' := pnext g (fst w) a in
                                          if tmem pstate pstate_eqb hash_p t' (snd q) then q
                                          else ((t', a :: snd w) :: fst q, tadd pstate hash_p t' (snd q))
                                        else q) (alpha g) p) frontier ([], m) in
            explore_w g f nw m' (nw ++ acc)%list
        end
    end.

  Definition states_w (g : N) : list wst :=
    let t0 := proj g init_state in
    explore_w g 400 [(t0, [])] (tadd pstate hash_p t0 (PositiveMap.empty _)) [(t0, [])].

  (* own-group actions (all actions for the base group), table creation *)
  Definition own (g : N) (a : pact) : bool :=
    match a with PNew _ => true | PLop o => N.eqb g 0 || N.eqb (lgroup o) g end.

  Definition witnesses (g : N) : list (list pact) :=
    concat (map (fun w : wst =>
                   map (fun a => rev (a :: snd w))
                       (filter (fun a => own g a && allowed safe g (fst w) a) (alpha g)))
                (states_w g)).
End W.

Definition tname (T : table) : string := match T with Pub => "pub" | P1 => "p1" | P2 => "p2" end.
Definition aname (a : atom) : string :=
  match a with En => "En" | E1 => "E1" | E0 => "E0" | I11 => "I11" | I01 => "I01" | I00 => "I00"
             | XE1 => "XE1" | XE0 => "XE0" | XI11 => "XI11" | XI01 => "XI01" end.
Definition act_str (a : pact) : string :=
  match a with
  | PNew T => "new," ++ tname T
  | PLop (LGet T a n) => "read," ++ tname T ++ "," ++ aname a ++ "," ++ n
  | PLop (LHas T a n) => "has," ++ tname T ++ "," ++ aname a ++ "," ++ n
  | PLop (LSetA T a n) => "set," ++ tname T ++ "," ++ aname a ++ "," ++ n
  | PLop (LMut T a n) => "mut," ++ tname T ++ "," ++ aname a ++ "," ++ n
  | PLop (LInit k T) => "init," ++ k ++ "," ++ tname T
  end.
Definition hist_str (h : list pact) : string := String.concat ";" (map act_str h).

Definition witness_strings09 (g : N) : list string := map hist_str (witnesses safe09 acts09 g).
Definition witness_counts09 : list (N * nat * nat) :=
  map (fun g => (g, length (states_w safe09 acts09 g), length (witnesses safe09 acts09 g))) all_groups.
