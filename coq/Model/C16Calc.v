(* Model/C16Calc.v — code-shaped model of nsf.D2O_match, nsf.D2O_sld, nsf._D2O_slds, nsf.mix_values and
   formulas._isotope_substitution (portion = 1, as Formula.replace is used there), and of the part
   of fasta.Molecule that reports sld, Dsld, D2Omatch and D2Osld.  Numbers as in NsfCalc. *)
From Coq Require Import ZArith QArith Qabs String List Bool.
From PT Require Import Str Dec Py Loaders Formula AtomEnv Nsf IExpr Neutron NsfCalc.
Import ListNotations.

Definition aH1 : atom := mkAtom 1 1 0.     (* table.H[1]: labile hydrogen *)
Definition aH : atom := mkAtom 1 0 0.      (* table.H *)
Definition aD : atom := mkAtom 1 2 0.      (* table.D *)
Definition aO : atom := mkAtom 8 0 0.

(* atoms[target] = atoms.get(target, 0) + n : update in place or append *)
Fixpoint dict_set_add (d : dict) (a : atom) (v : Q) : dict :=
  match d with
  | [] => [(a, Qred (0 + v))]
  | (b, w) :: r => if atom_eqb a b then (b, Qred (w + v)) :: r else (b, w) :: dict_set_add r a v
  end.
Fixpoint dict_del (d : dict) (a : atom) : dict :=
  match d with
  | [] => []
  | (b, w) :: r => if atom_eqb a b then r else (b, w) :: dict_del r a
  end.

(* _isotope_substitution(compound, source, target, portion=1): the atoms and the density that keeps
   the cell volume *)
Definition substitute (E : aenv) (d : dict) (rho : Q) (source target : atom) : dict * Q :=
  match dget d source with
  | Some n =>
      let mass := rweight (e_mass E) d in
      let mass_reduction := (n * 1 * (e_mass E source - e_mass E target))%Q in
      let density := Qred (rho * (mass - mass_reduction) / mass) in
      (dict_del (dict_set_add d target (n * 1)) source, density)
  | None => (d, rho)
  end.

(* formula(atoms, density=...): a flat structure with these counts (the Hill order does not matter
   for the numbers) *)
Definition struct_of (d : dict) : struct := map (fun p => (snd p, FAtom (fst p))) d.

(* neutron_sld(...) at one wavelength (the outs record carries re, im, inc; the per-atom pieces are
   kept for the comparison rules) *)
Definition sld_at (D : ndata) (s : struct) (density natural_density : option Q) (w : wl)
  : option (outs * list compE) :=
  match neutron_scattering D s density natural_density [w] with
  | OVals [x] => Some x
  | _ => None
  end.
Definition triple (x : outs * list compE) : expr * expr * expr := (o_re (fst x), o_im (fst x), o_inc (fst x)).

Definition water (h : atom) : struct := [(2%Q, FAtom h); (1%Q, FAtom aO)].
Definition WATER_DENSITY : Q := 9982 # 10000.      (* "H2O@0.9982n", "D2O@0.9982n" *)

Record slds := mkSlds { x_H2O : outs * list compE; x_D2O : outs * list compE;
                        x_H : outs * list compE; x_D : outs * list compE }.

Definition D2O_slds (D : ndata) (s : struct) (density natural_density : option Q) (w : wl) : option slds :=
  do h2o <- sld_at D (water aH) None (Some WATER_DENSITY) w;
  do d2o <- sld_at D (water aD) None (Some WATER_DENSITY) w;
  do rho <- density_of_compound D s density natural_density;         (* mol = formulas.formula(compound, **kw) *)
  let d := atoms_of s in
  let '(dh, rh) := substitute (nd_env D) d rho aH1 aH in
  let '(dd, rd) := substitute (nd_env D) d rho aH1 aD in
  do hs <- sld_at D (struct_of dh) (Some rh) None w;
  do ds <- sld_at D (struct_of dd) (Some rd) None w;
  Some (mkSlds h2o d2o hs ds).

(* mix_values(a, b, fraction): aj*fraction + bj*(1-fraction) *)
Definition mixE (a b f : expr) : expr := EAdd (EMul a f) (EMul b (ESub (ez 1) f)).
Definition mix3 (a b : expr * expr * expr) (f : expr) : expr * expr * expr :=
  match a, b with (a1, a2, a3), (b1, b2, b3) => (mixE a1 b1 f, mixE a2 b2 f, mixE a3 b3 f) end.

Definition D2O_sld (x : slds) (volume_fraction D2O_fraction : Q) : expr * expr * expr :=
  let solvent := mix3 (triple (x_D2O x)) (triple (x_H2O x)) (cq D2O_fraction) in
  let solute := mix3 (triple (x_D x)) (triple (x_H x)) (cq D2O_fraction) in
  mix3 solute solvent (cq volume_fraction).

Definition re3 (x : outs * list compE) : expr := o_re (fst x).

(* D2O_match: (D2O_fraction, SLD at the match point) *)
Definition D2O_match (x : slds) : expr * expr :=
  let f := EDiv (ESub (re3 (x_H2O x)) (re3 (x_H x)))
                (ESub (EAdd (ESub (re3 (x_D x)) (re3 (x_H x))) (re3 (x_H2O x))) (re3 (x_D2O x))) in
  (f, mixE (re3 (x_D x)) (re3 (x_H x)) f).

(* fasta.Molecule: sld, Dsld, D2Omatch (a percentage), D2Osld(volume_fraction, D2O_fraction) *)
Definition molecule_D2Omatch (x : slds) : expr :=
  EDiv (EMul (ez 100) (ESub (re3 (x_H2O x)) (re3 (x_H x))))
       (ESub (EAdd (ESub (re3 (x_D x)) (re3 (x_H x))) (re3 (x_H2O x))) (re3 (x_D2O x))).
Definition molecule_D2Osld (x : slds) (volume_fraction D2O_fraction : Q) : expr :=
  let f := cq D2O_fraction in
  let vf := cq volume_fraction in
  let solvent := EAdd (EMul f (re3 (x_D2O x))) (EMul (ESub (ez 1) f) (re3 (x_H2O x))) in
  let solute := EAdd (EMul f (re3 (x_D x))) (EMul (ESub (ez 1) f) (re3 (x_H x))) in
  EAdd (EMul vf solute) (EMul (ESub (ez 1) vf) solvent).
