(* Model/C06Check.v — runs the loader model on the regenerated tables and compares with
   what the implementation served (comparison rules of DESIGN §3). *)
From Coq Require Import ZArith QArith Qabs String List Bool FMapPositive.
From PT Require Import Str Dec Py Loaders.
From PT.Gen Require Import MassTables DensityTable Constants ElementBase.
Import ListNotations.

Definition cst (s : string) : Q := match parse_dec s with Some q => q | None => 0 end.
Definition NA : Q := round64 (cst avogadro_number_text).
Definition NM : Q := cst neutron_mass_text.
Definition NMU : Q := cst neutron_mass_unc_text.

Definition the_tbl : option tbl := mass_init element_base NM NMU isotope_mass element_mass isotope_abundance.
Definition the_dens : option dens := density_init element_base element_densities.

(* R0: the float is the correctly rounded double of the rational *)
Definition is_err (v : pyval) := match v with PE _ => true | _ => false end.
Definition chk_r0 (v : pyval) (r : res Q) : bool :=
  match r with
  | Val q => match py_Q v with Some p => Qeq_bool p (round64 q) | None => false end
  | NoneVal => match v with PNone => true | _ => false end
  | Raise => is_err v
  end.
(* R2: within 2^-40 relative *)
Definition chk_r2 (v : pyval) (r : res Q) : bool :=
  match r with
  | Val q => match py_Q v with Some p => Qrel (-40) p q | None => false end
  | NoneVal => match v with PNone => true | _ => false end
  | Raise => is_err v
  end.
(* v^3 close to q *)
Definition chk_cube (v : pyval) (r : res Q) : bool :=
  match r with
  | Val q => match py_Q v with Some p => (Qle_bool 0 p && Qrel (-40) (p * p * p) q)%bool | None => false end
  | NoneVal => match v with PNone => true | _ => false end
  | Raise => is_err v
  end.
Definition chk_unc (exact : bool) (v : pyval) (r : res unc) : bool :=
  match r with
  | Val (UQ q) => if exact then chk_r0 v (Val q) else chk_r2 v (Val q)
  | Val (URect w) =>
      match py_Q v with
      | Some p => (Qle_bool 0 p && Qrel (-40) (p * p * 12) (w * w))%bool
      | None => false
      end
  | NoneVal => match v with PNone => true | _ => false end
  | Raise => is_err v
  end.

Definition mass_unc_of (t : tbl) (z a : Z) : res unc :=
  match tget t z a with
  | Some n => match n_mass n with Some (_, u) => Val u | None => NoneVal end
  | None => Raise
  end.
Definition abund_of (t : tbl) (z a : Z) : res Q :=
  match tget t z a with
  | Some n => match n_abund n with Some (p, _) => Val p | None => Raise end
  | None => Raise
  end.
Definition abund_unc_of (t : tbl) (z a : Z) : res unc :=
  match tget t z a with
  | Some n => match n_abund n with Some (_, u) => Val u | None => Raise end
  | None => Raise
  end.

(* a case: Z, A (0 = element), observables
   element: [mass; _mass_unc; density; number_density; interatomic_distance]
   isotope: [mass; _mass_unc; abundance; _abundance_unc; density; number_density; interatomic_distance] *)
Definition c06case := (Z * Z * list pyval)%type.

Definition was_normalised (t : tbl) (z a : Z) : bool :=
  (* abundances touched by the composition table are computed (R2); untouched ones are literal *)
  match abund_of t z a with Val p => negb (Qeq_bool p 0) | _ => false end.

(* per-observable verdicts of one case, with the observable's name *)
Definition verdicts (t : tbl) (d : dens) (c : c06case) : list (string * bool) :=
  let '(z, a, obs) := c in
  let g (i : nat) := nth i obs (PE OtherErr) in
  if Z.eqb a 0 then
    if negb (Nat.eqb (length obs) 5) then [("shape"%string, false)] else
    [("mass"%string, chk_r0 (g 0%nat) (mass_of t z 0));
     ("_mass_unc"%string, chk_unc true (g 1%nat) (mass_unc_of t z 0));
     ("density"%string, chk_r0 (g 2%nat) (density_of t d z 0));
     ("number_density"%string, chk_r2 (g 3%nat) (number_density_of NA t d z));
     ("interatomic_distance"%string, chk_cube (g 4%nat) (interatomic_cubed_of NA t d z))]
  else
    if negb (Nat.eqb (length obs) 7) then [("shape"%string, false)] else
    [("mass"%string, chk_r0 (g 0%nat) (mass_of t z a));
     ("_mass_unc"%string, chk_unc true (g 1%nat) (mass_unc_of t z a));
     ("abundance"%string, if was_normalised t z a then chk_r2 (g 2%nat) (abund_of t z a)
                          else chk_r0 (g 2%nat) (abund_of t z a));
     ("_abundance_unc"%string, chk_unc false (g 3%nat) (abund_unc_of t z a));
     ("density"%string, chk_r2 (g 4%nat) (density_of t d z a));
     ("number_density"%string, chk_r2 (g 5%nat) (number_density_of NA t d z));
     ("interatomic_distance"%string, chk_cube (g 6%nat) (interatomic_cubed_of NA t d z))].

Definition check_case (t : tbl) (d : dens) (c : c06case) : bool :=
  forallb snd (verdicts t d c).

Definition check_all_with (ot : option tbl) (od : option dens) (cases : list c06case) : list bool :=
  match ot, od with
  | Some t, Some d => map (check_case t d) cases
  | _, _ => [false]
  end.
Definition check_all := check_all_with the_tbl the_dens.

(* number of nuclides the model loads, for the exhaustiveness cross-check *)
Definition keys_of (ot : option tbl) : N :=
  match ot with Some t => N.of_nat (PositiveMap.cardinal t) | None => 0%N end.
Definition model_keys : N := keys_of the_tbl.

Definition diag_case (t : tbl) (d : dens) (c : c06case) : string :=
  String.concat " " (map fst (filter (fun p => negb (snd p)) (verdicts t d c))).
Definition diag_all_with (ot : option tbl) (od : option dens) (cases : list c06case) : list string :=
  match ot, od with
  | Some t, Some d => map (diag_case t d) cases
  | _, _ => ["model loader failed"%string]
  end.
Definition diag_all := diag_all_with the_tbl the_dens.
