(* Model/C18Check.v — compares what the implementation's fasta.Sequence / Molecule tables /
   formula("aa:...") / read_fasta / Sequence.load(all) return with the model (Model/Fasta.v run on the
   regenerated tables) and with the property's own right-hand side (the sum over residue entries).
   Counts and charges are compared exactly when every residue involved has dyadic counts (then all of
   Python's float arithmetic is exact), otherwise within 2^-40; volumes, masses, densities within 2^-40.
   No proofs here. *)
From Coq Require Import ZArith QArith Qabs String Ascii List Bool.
From PT Require Import Str Dec Py Loaders Formula FormulaMachine C06Check AtomEnv Pyparse TableEnv Fasta.
Import ListNotations.
Open Scope Q_scope.

(* ------------------------------------------------------------------ observations *)
(* a Molecule / Sequence: name, sequence text ("" for a plain Molecule), cell_volume, charge, mass, Dmass,
   labile_formula.density, natural_formula.density, the object's own .density (PE AttrErr when the
   attribute is missing), labile_formula.structure, natural_formula.structure *)
Inductive molobs :=
| MO (name : pyval) (sequence : string) (vol charge mass dmass ldens ndens dens : pyval) (labile natural : struct)
| ME (e : err).

Inductive formobs := FO (st : struct) (dens : pyval) | FE (e : err).

Inductive c18case :=
| CSeq (ty name s : string) (o : molobs)                  (* fasta.Sequence(name, s, type=ty) *)
| CPrefix (s : string) (o : formobs)                      (* formulas.formula(s) *)
| CTable (ty code : string) (o : molobs)                  (* fasta.CODE_TABLES[ty][code] *)
| COther (tname name : string) (o : molobs)               (* fasta.LIPIDS[name] ... *)
| CFasta (filename : string) (ty : option string) (text : string)
         (recs : list (string * string))                  (* list(read_fasta(open(file))) *)
         (all : list molobs)                              (* Sequence.loadall(file, ty), up to the first error *)
         (first : molobs)                                 (* Sequence.load(file, ty) *)
| CGuess (filename : string) (ty : option string) (r : string).   (* _guess_type_from_filename *)

(* ------------------------------------------------------------------ comparisons *)
Definition relq (v : pyval) (q : Q) : bool :=
  match py_Q v with Some p => Qrel (-40) p q | None => false end.
Definition absq (scale : Q) (v : pyval) (q : Q) : bool :=
  match py_Q v with Some p => (Qeq_bool p q || Qclose (-40) scale p q)%bool | None => false end.
Definition exactq (v : pyval) (q : Q) : bool :=
  match py_Q v with Some p => Qeq_bool p q | None => false end.

Definition is_dyadic (q : Q) : bool :=
  let d := Zpos (Qden (Qred q)) in Z.eqb (2 ^ Z.log2 d) d.

Fixpoint frag_close (exact : bool) (m p : frag) : bool :=
  match m, p with
  | FAtom a, FAtom b => atom_eqb a b
  | FGroup l, FGroup l' =>
      (fix go (l l' : list (Q * frag)) : bool :=
         match l, l' with
         | [], [] => true
         | (c, f) :: r, (c', f') :: r' =>
             ((if exact then Qeq_bool c c' else Qrel (-40) c c') && frag_close exact f f' && go r r')%bool
         | _, _ => false
         end) l l'
  | _, _ => false
  end.
Definition struct_close (exact : bool) (m p : struct) : bool := frag_close exact (FGroup m) (FGroup p).

Definition name_ok (v : pyval) (n : option string) : bool :=
  match v, n with
  | PNone, None => true
  | PS s, Some t => String.eqb s t
  | _, _ => false
  end.

(* all counts and the charge of a residue are dyadic: Python's floats for it are exact *)
Definition mol_dyadic (m : molecule) : bool :=
  (forallb (fun p : atom * Q => is_dyadic (snd p)) (f_atoms (m_labile m)) && is_dyadic (m_charge m))%bool.

Definition tag (ok : bool) (name : string) : string := if ok then ""%string else (name ++ " ")%string.

(* model molecule vs observed molecule; [exact]: counts/charge must agree exactly; [qscale]: sum of the
   magnitudes of the charges that were added *)
Definition mol_verdicts (exact : bool) (qscale : Q) (seq : string) (m : molecule) (o : molobs) : list (string * bool) :=
  match o with
  | ME _ => [("raised", false)]
  | MO name sq vol charge mass dmass ldens ndens dens labile natural =>
      [("name", name_ok name (m_name m));
       ("sequence", String.eqb sq seq);
       ("cell_volume", relq vol (m_vol m));
       ("charge", if exact then exactq charge (m_charge m) else absq qscale charge (m_charge m));
       ("mass", relq mass (m_mass m));
       ("Dmass", relq dmass (m_Dmass m));
       ("labile_density", match f_density (m_labile m) with Some d => relq ldens d | None => false end);
       ("natural_density", match f_density (m_natural m) with Some d => relq ndens d | None => false end);
       ("density", match m_density m with
                   | Some d => relq dens d
                   | None => match dens with PNone => true | _ => false end
                   end);
       ("labile_formula", struct_close exact (f_struct (m_labile m)) labile);
       ("natural_formula", struct_close exact (f_struct (m_natural m)) natural)]
  end.

Definition all_ok (l : list (string * bool)) : bool := forallb snd l.
Definition failing (l : list (string * bool)) : string :=
  String.concat "" (map (fun p : string * bool => tag (snd p) (fst p)) l).

(* ------------------------------------------------------------------ the property's own right-hand side *)
(* The sum over the residues of a code list, evaluated as  sum over table entries of
   (occurrences of the code) x (entry's value): each entry's atoms are computed once. *)
Record tentry := mkT { t_count : Q; t_mol : molecule; t_atoms : dict }.

Definition count_code (k : string) (cs : list ascii) : Z :=
  fold_left (fun n x => if String.eqb (code_key x) k then (n + 1)%Z else n) cs 0%Z.

Definition tally (tab : table) (cs : list ascii) : list tentry :=
  filter (fun t => negb (Qeq_bool (t_count t) 0))
         (map (fun km : string * molecule =>
                 mkT (inject_Z (count_code (fst km) cs)) (snd km) (f_atoms (m_labile (snd km)))) tab).

Definition tsum (f : tentry -> Q) (l : list tentry) : Q :=
  fold_left (fun acc t => Qred (acc + t_count t * f t)) l 0.

Definition tally_exact (l : list tentry) : bool := forallb (fun t => mol_dyadic (t_mol t)) l.
Definition tally_qscale (l : list tentry) : Q := tsum (fun t => Qabs (m_charge (t_mol t))) l.

(* implementation's Sequence vs the sums over the table entries of its codes *)
Definition spec_verdicts (exact : bool) (l : list tentry) (o : molobs) : list (string * bool) :=
  match o with
  | ME _ => [("spec-raised", false)]
  | MO _ _ vol charge mass dmass ldens ndens dens labile natural =>
      let qscale := tally_qscale l in
      let total (a : atom) := tsum (fun t => dget0 (t_atoms t) a) l in
      let present := flat_map (fun t => map fst (filter (fun kv : atom * Q => negb (Qeq_bool (snd kv) 0))
                                                       (t_atoms t))) l in
      let sumvol := tsum (fun t => m_vol (t_mol t)) l in
      let summass := tsum (fun t => m_mass (t_mol t)) l in
      let sumq := tsum (fun t => m_charge (t_mol t)) l in
      [("sum-cell_volume", relq vol sumvol);
       ("sum-charge", if exact then exactq charge sumq else absq qscale charge sumq);
       ("sum-mass", relq mass summass);
       ("sum-Dmass", relq dmass (tsum (fun t => m_Dmass (t_mol t)) l));
       ("sum-atoms",
        (forallb (fun it : Q * frag =>
                    match snd it with
                    | FAtom a => if exact then Qeq_bool (fst it) (total a) else Qrel (-40) (fst it) (total a)
                    | FGroup _ => false
                    end) labile &&
         forallb (fun a => existsb (fun it : Q * frag => match snd it with FAtom b => atom_eqb a b | _ => false end)
                                   labile) present)%bool);
       ("density-is-mass-over-volume",
        if Qle_bool sumvol 0 then (exactq ndens 0 && exactq dens 0)%bool
        else (relq ndens (TEN24 * (summass / NA) / sumvol) && relq dens (TEN24 * (summass / NA) / sumvol))%bool)]
  end.

(* ------------------------------------------------------------------ cases *)
Definition seq_verdicts (E : aenv) (ts : tables) (ty name s : string) (o : molobs) : list (string * bool) :=
  match tables_get ts ty with
  | None => [("unknown-type", match o with ME KeyErr => true | _ => false end)]
  | Some tab =>
      match sequence_of E tab (Some name) s, o with
      | FOk sm, MO _ _ _ _ _ _ _ _ _ _ _ =>
          let l := tally tab (chars (clean s)) in
          let exact := tally_exact l in
          (mol_verdicts exact (tally_qscale l) (s_sequence sm) (s_mol sm) o ++ spec_verdicts exact l o)%list
      | FErr e, ME e' => [("error-kind", err_eqb e e')]
      | FOk _, ME _ => [("raised", false)]
      | FErr _, MO _ _ _ _ _ _ _ _ _ _ _ => [("should-raise", false)]
      | FUnmodelled, _ => [("unmodelled", false)]
      end
  end.

Definition form_verdicts (E : aenv) (T : ptable) (ts : tables) (s : string) (o : formobs) : list (string * bool) :=
  match formula_of_string E T ts s, o with
  | FOk f, FO st d =>
      [("formula-structure", struct_close false (f_struct f) st);
       ("formula-density", match f_density f with
                           | Some x => relq d x
                           | None => match d with PNone => true | _ => false end
                           end)]
  | FErr e, FE e' => [("error-kind", err_eqb e e')]
  | FUnmodelled, FE ParseErr => []
  | FOk _, FE _ => [("raised", false)]
  | FErr _, FO _ _ => [("should-raise", false)]
  | FUnmodelled, _ => [("unmodelled", false)]
  end.

Definition table_verdicts (ts : tables) (ty code : string) (o : molobs) : list (string * bool) :=
  match tables_get ts ty with
  | None => [("unknown-type", false)]
  | Some tab =>
      match tab_get tab code with
      | Some m => mol_verdicts (mol_dyadic m) (Qabs (m_charge m)) "" m o
      | None => [("unknown-code", false)]
      end
  end.

Definition other_verdicts (os : list (string * string * molecule)) (tname name : string) (o : molobs)
  : list (string * bool) :=
  match find (fun r : string * string * molecule =>
                (String.eqb (fst (fst r)) tname && String.eqb (snd (fst r)) name)%bool) os with
  | Some r => mol_verdicts (mol_dyadic (snd r)) (Qabs (m_charge (snd r))) "" (snd r) o
  | None => [("unknown-molecule", false)]
  end.

(* results of a generator up to and including the first exception *)
Fixpoint until_err (l : list (fres seqmol)) : list (fres seqmol) :=
  match l with
  | [] => []
  | FOk a :: r => FOk a :: until_err r
  | x :: _ => [x]
  end.

Definition loaded_verdicts (ts : tables) (ty : string) (raw : string) (x : fres seqmol) (o : molobs) : list (string * bool) :=
  match x, o with
  | FOk sm, MO _ _ _ _ _ _ _ _ _ _ _ =>
      match tables_get ts ty with
      | Some tab =>
          let l := tally tab (chars (clean raw)) in
          mol_verdicts (tally_exact l) (tally_qscale l) (s_sequence sm) (s_mol sm) o
      | None => [("unknown-type", false)]
      end
  | FErr e, ME e' => [("error-kind", err_eqb e e')]
  | _, _ => [("load-outcome", false)]
  end.

Fixpoint zip3_verdicts (ts : tables) (ty : string) (recs : list (string * string)) (xs : list (fres seqmol))
         (os : list molobs) : list (string * bool) :=
  match recs, xs, os with
  | _, [], [] => []
  | r :: recs', x :: xs', o :: os' => (loaded_verdicts ts ty (snd r) x o ++ zip3_verdicts ts ty recs' xs' os')%list
  | _, _, _ => [("loadall-length", false)]
  end.

Fixpoint recs_eqb (a b : list (string * string)) : bool :=
  match a, b with
  | [], [] => true
  | (n, s) :: r, (n', s') :: r' => (String.eqb n n' && String.eqb s s' && recs_eqb r r')%bool
  | _, _ => false
  end.

Definition fasta_verdicts (E : aenv) (ts : tables) (filename : string) (ty : option string) (text : string)
           (recs : list (string * string)) (all : list molobs) (first : molobs) : list (string * bool) :=
  let mrecs := read_fasta_text text in
  let t := guess_type filename ty in
  (("read_fasta-records", recs_eqb mrecs recs)
   :: zip3_verdicts ts t mrecs (until_err (loadall E ts filename ty text)) all
   ++ match mrecs with
      | [] => [("load-empty", match first with ME OtherErr => true | _ => false end)]
      | r :: _ => map (fun p : string * bool => (("load-" ++ fst p)%string, snd p))
                      (loaded_verdicts ts t (snd r) (load E ts filename ty text) first)
      end)%list.

Definition verdicts (E : aenv) (T : ptable) (ts : tables) (os : list (string * string * molecule)) (c : c18case)
  : list (string * bool) :=
  match c with
  | CSeq ty name s o => seq_verdicts E ts ty name s o
  | CPrefix s o => form_verdicts E T ts s o
  | CTable ty code o => table_verdicts ts ty code o
  | COther tname name o => other_verdicts os tname name o
  | CFasta filename ty text recs all first => fasta_verdicts E ts filename ty text recs all first
  | CGuess filename ty r => [("guess-type", String.eqb (guess_type filename ty) r)]
  end.

Definition check_all_with (E : aenv) (T : ptable) (xts : fres tables) (xos : fres (list (string * string * molecule)))
           (cases : list c18case) : list bool :=
  match xts, xos with
  | FOk ts, FOk os => map (fun c => all_ok (verdicts E T ts os c)) cases
  | _, _ => map (fun _ => false) cases
  end.
Definition check_all := check_all_with the_env the_ptable the_tables the_others.

Definition diag_all_with (E : aenv) (T : ptable) (xts : fres tables) (xos : fres (list (string * string * molecule)))
           (cases : list c18case) : list string :=
  match xts, xos with
  | FOk ts, FOk os => map (fun c => failing (verdicts E T ts os c)) cases
  | _, _ => map (fun _ => "model tables could not be built"%string) cases
  end.
Definition diag_all := diag_all_with the_env the_ptable the_tables the_others.

(* the model's code tables exist and have these many entries (aa, dna, rna, other molecules) *)
Definition table_sizes_with (xts : fres tables) (xos : fres (list (string * string * molecule))) : list N :=
  match xts, xos with
  | FOk ts, FOk os => (map (fun kt : string * table => N.of_nat (length (snd kt))) ts ++ [N.of_nat (length os)])%list
  | _, _ => []
  end.
Definition table_sizes := table_sizes_with the_tables the_others.
