(* Model/C17Check.v — correspondence check for C17: the composite calculator's result against
   (a) the model of _compute, (b) the documented equations on the weighted-sum formula, and the
   direct neutron_sld of the sum formula against model and spec as in C03; plus the exact check that
   the sum formula built by the implementation has the weighted per-atom totals. *)
From Coq Require Import ZArith QArith Qabs String List Bool.
From PT Require Import Str Dec Py Loaders Formula AtomEnv Nsf IExpr ICheck Neutron NsfCalc NeutronData NeutronEval C03Check C17Calc.
Import ListNotations.
Open Scope string_scope.

Inductive c17case :=
| C17 (materials : list struct) (weights : list Q) (density : Q) (wkind : Z) (vector : bool) (wvals : list Q)
      (SF : struct) (obs_comp obs_direct : pyval).

(* sum_i w_i * total of a in material i *)
Definition weighted_total (materials : list struct) (weights : list Q) (a : atom) : Q :=
  fold_left (fun acc p => Qred (acc + fst p * dget0 (atoms_of (snd p)) a)) (combine weights materials) 0%Q.

Definition totals_ok (materials : list struct) (weights : list Q) (SF : struct) : bool :=
  let dS := atoms_of SF in
  let keys := (map fst dS ++ flat_map (fun m => map fst (atoms_of m)) materials)%list in
  (* n*formula multiplies floats when the formula has one fragment: 2^-40 relative *)
  forallb (fun a => Qrel (-40) (dget0 dS a) (weighted_total materials weights a)) keys.

Definition comp_inc_sq (o : sld3) : expr :=
  EMul (ESqr (EMul (ez 10) (s_N o))) (EDiv (s_sigma_i o) FOURPI_100).

Definition comp_bounds (o : sld3) (parts : list piece) : list bounds * bounds :=
  let c := memo_all [] (flat_map (fun p => piece_exprs (pc_atoms p)) parts
                        ++ flat_map (fun p => [pc_n p; pc_m p; pc_re p; pc_im p; pc_ss p]) parts
                        ++ [s_N o; s_bre o; s_bim o; s_ss o; s_sigma_i o])%list in
  ([enc_c c (s_re o); enc_c c (s_im o); None], enc_c c (comp_inc_sq o)).

Definition is_zero3 (v : pyval) : bool :=
  match v with PL [PI 0; PI 0; PI 0] => true | _ => false end.

Definition verdicts17 (D : ndata) (c : c17case) : list (string * bool) :=
  match c with
  | C17 materials weights density wkind vector wvals SF obs_comp obs_direct =>
      let ws := wls_of wkind wvals in
      let n := length ws in
      let direct := call_verdicts D 1 SF (Some density) None wkind vector wvals obs_direct in
      let tot := ("sum formula has the weighted totals", totals_ok materials weights SF) in
      let mdir := neutron_scattering D SF (Some density) None ws in
      let sp := spec_compound D SF (Some density) None ws in
      match composite_sld D materials ws weights density with
      | CRaise e => [("model raises", match obs_comp with PE e' => err_eqb e e' | _ => false end)]
      | CZero =>
          tot :: ("composite: zeros", is_zero3 obs_comp)
              :: ("direct: zeros", match mdir with OVacuum => is_zero3 obs_direct | _ => false end) :: []
      | CVals v =>
          match obs_outputs true obs_comp with
          | None => [("shape of the composite result", false)]
          | Some outs_obs =>
              match all_some (map (leaf vector n) outs_obs) with
              | None => [("composite outputs are not shaped like the wavelength argument", false)]
              | Some leaves =>
                  if negb (Nat.eqb (length v) n) then [("model arity", false)] else
                  (tot :: flat_map (fun i =>
                     let w := nth i ws (WLam 1) in
                     let '(o, parts) := nth i v (mkS3 (ez 0) (ez 0) (ez 0) (ez 0) (ez 0) (ez 0) (ez 0) (ez 0), []) in
                     (* scales from the direct model's pieces of the sum formula *)
                     let scales := match mdir with
                                   | OVals l => let '(od, ps) := nth i l (outs0, []) in
                                                map (enc_c []) (scale_exprs (o_N od) (o_lam od) ps)
                                   | _ => []
                                   end in
                     let '(mvals, msq) := comp_bounds o parts in
                     let spi := match sp with
                                | SVals l rho => match nth i l None with
                                                 | Some cl => Some (spec_bounds cl rho (spec_wl_expr w))
                                                 | None => None
                                                 end
                                | _ => None
                                end in
                     flat_map (fun j =>
                       let p := nth i (nth j leaves []) 0%Q in
                       let name := nth j out_names "?" in
                       [(("composite model:" ++ name)%string, cmp_out j p (nth j mvals None) msq scales);
                        (("composite vs documented equations on the sum formula:" ++ name)%string,
                         match spi with
                         | Some (so, sq) => cmp_out j p (nth j so None) sq scales
                         | None => false
                         end)]) (seq 0 3)) (seq 0 n) ++ map (fun p => (("direct " ++ fst p)%string, snd p)) direct)%list
              end
          end
      end
  end.

Definition check_case17 (D : ndata) (c : c17case) : bool := forallb snd (verdicts17 D c).
Definition check_all_with17 (D : ndata) (cases : list c17case) : list bool := map (check_case17 D) cases.
Definition check_all17 := check_all_with17 the_nd.
Definition diag_case17 (D : ndata) (c : c17case) : string :=
  String.concat "; " (map fst (filter (fun p => negb (snd p)) (verdicts17 D c))).
Definition diag_all17 := map (diag_case17 the_nd).
