(* Model/AttrScript.v — vocabulary of the loader scripts emitted by tools/gens/loaders.py into
   Gen/LoaderScripts.v.  Types only. *)
From Coq Require Import String List.
Import ListNotations.

(* the three classes whose class-level attributes the loaders swap *)
Inductive cls := Element | Isotope | Ion.

(* statements of delayed_load's getfn / setfn *)
Inductive gstep := GClear | GLoad | GGetattr.
Inductive sstep := SClear | SLoad | SSetattr.   (* SLoad: `loader()` inside setfn (not in today's source) *)

(* what a loader puts at class level: property(...), a constant (None, 'angstrom'), or an object it
   allocated in this call (Neutron()) *)
Inductive ckind := CKComputed | CKConst | CKAlloc.

(* what a loader stores in an atom: an immutable value, an object allocated for this write, or a
   reference to a module-level (shared) object *)
Inductive vkind := VKImm | VKAlloc | VKShared.

(* which atoms of the table a statement acts on *)
Inductive target :=
| TgTable0      (* table[0] *)
| TgRowsEl      (* the element of a data row *)
| TgRowsIso     (* the isotope of a data row *)
| TgAllIso.     (* every isotope of every element *)

Inductive effect :=
| EGuard (key : string)                            (* if key in table.properties and not reload: return *)
| EAppend (key : string)                           (* table.properties.append(key) *)
| ERequire (key : string)                          (* assert key in table.properties *)
| EClassSet (c : cls) (n : string) (k : ckind)     (* C.n = ... *)
| EInstSet (t : target) (n : string) (k : vkind)   (* atom.n = ... *)
| EProbeSet (t : target) (n : string) (k : vkind)  (* if not hasattr(atom, n): atom.n = ... *)
| EProbeDel (t : target) (n : string)              (* if hasattr(atom, n): del atom.n *)
| EGetDefaultSet (t : target) (n : string) (k : vkind) (* x = getattr(atom, n, []); ...; atom.n = x *)
| ERead (t : target) (n : string)                  (* a read of the lazily loaded attribute n *)
| ETouchPublic (n : string)                        (* if table is not default_table(): getattr(default_table()[0], n, None)
                                                      (not in today's source) *)
| ESub (t : target) (n : string) (k : vkind)       (* atom.n[key] = ... / atom.n.field = ... / x.append(...) on the object
                                                      held by atom.n: the kind of object that becomes reachable from it *)
| ECall (f : string).                              (* helper(table) *)

Record registration := mkReg {
  r_names : list string;    (* all_props *)
  r_loader : string;        (* name of the loader function in __init__.py *)
  r_key : string;           (* "module.function" it calls on `elements` *)
  r_el : bool; r_iso : bool; r_ion : bool
}.
