(* Model/C09Check.v — compares, event by event, what the implementation did on a history (one fresh
   interpreter per history, tools/harness/c09.py / c10.py) with the run of the machine of Model/Attr.v. *)
From Coq Require Import String List Bool NArith.
From PT Require Import Str Py AttrScript LoaderScripts Attr.
Import ListNotations.
Open Scope string_scope.

Definition outcome_eqb (a b : outcome) : bool :=
  match a, b with
  | OSame, OSame | ODiff, ODiff | OUser, OUser | OOk, OOk | OImm, OImm => true
  | OErr e, OErr f => err_eqb e f
  | OBool x, OBool y => Bool.eqb x y
  | _, _ => false
  end.

Fixpoint outcomes_eqb (l m : list outcome) : bool :=
  match l, m with
  | [], [] => true
  | a :: r, b :: s => (outcome_eqb a b && outcomes_eqb r s)%bool
  | _, _ => false
  end.

Definition hcase := (list event * list outcome)%type.

Definition check_case (c : hcase) : bool := outcomes_eqb (run init_state (fst c)) (snd c).
Definition check_all (cases : list hcase) : list bool := map check_case cases.

Definition err_name (e : err) : string :=
  match e with
  | ParseErr => "ParseErr" | ValueErr => "ValueErr" | KeyErr => "KeyErr" | TypeErr => "TypeErr"
  | AttrErr => "AttrErr" | RuntimeErr => "RuntimeErr" | ZeroDivErr => "ZeroDivErr" | AssertErr => "AssertErr"
  | IndexErr => "IndexErr" | RecursionErr => "RecursionErr" | OtherErr => "OtherErr"
  end.
Definition outcome_name (o : outcome) : string :=
  match o with
  | OSame => "OSame" | ODiff => "ODiff" | OUser => "OUser" | OOk => "OOk" | OImm => "OImm"
  | OErr e => "OErr " ++ err_name e
  | OBool true => "OBool true" | OBool false => "OBool false"
  end.

(* index of the first event on which model and implementation disagree, and what the model says there *)
Fixpoint first_bad (l m : list outcome) (i : N) : string :=
  match l, m with
  | [], [] => "none"
  | a :: r, b :: s => if outcome_eqb a b then first_bad r s (i + 1)%N
                      else "event " ++ N_to_string i ++ ": model " ++ outcome_name a ++ ", implementation " ++ outcome_name b
  | _, _ => "length"
  end.
Definition diag_all (cases : list hcase) : list string :=
  map (fun c => first_bad (run init_state (fst c)) (snd c) 0%N) cases.
