(* Model/Printer.v — C's %g on a double (6 significant digits, round-half-even on the exact
   value, fixed notation for exponents in [-4, 6), trailing zeros stripped) and
   formulas._str_atoms / Formula.__str__ / __repr__.  No proofs. *)
From Coq Require Import ZArith QArith Qround String Ascii List Bool.
From PT Require Import Str Dec Loaders Formula.
Import ListNotations.
Open Scope string_scope.

(* decimal exponent X with 10^X <= x < 10^(X+1), for x > 0; searched from an estimate *)
Definition pow10Q (e : Z) : Q := if (0 <=? e)%Z then inject_Z (10 ^ e) else Qmake 1 (Z.to_pos (10 ^ (- e))).

Fixpoint find_exp (fuel : nat) (x : Q) (e : Z) : Z :=
  match fuel with
  | O => e
  | S f =>
      if Qle_bool (pow10Q (e + 1)) x then find_exp f x (e + 1)
      else if Qle_bool (pow10Q e) x then e
      else find_exp f x (e - 1)
  end.

Definition dec_exp (x : Q) : Z :=
  (* estimate from bit lengths: log10 x ~ (log2 num - log2 den) * 0.30103 *)
  let est := ((Z.log2 (Qnum x) - Z.log2 (Zpos (Qden x))) * 30103 / 100000)%Z in
  find_exp 40 x est.

(* round-half-even of a non-negative rational to an integer *)
Definition round_half_even (x : Q) : Z :=
  let n := Qnum x in let d := Zpos (Qden x) in
  let q := (n / d)%Z in let r := (n mod d)%Z in
  match Z.compare (2 * r) d with
  | Gt => (q + 1)%Z
  | Eq => if Z.even q then q else (q + 1)%Z
  | Lt => q
  end.

Fixpoint strip_zeros_rev (s : string) : string :=   (* on a reversed digit string *)
  match s with
  | String "0" r => strip_zeros_rev r
  | _ => s
  end.
Definition strip_trailing_zeros (s : string) : string := srev (strip_zeros_rev (srev s)).

(* digits of n padded on the left to width w *)
Definition pad_left0 (w : nat) (s : string) : string := repeat_char "0"%char (w - String.length s) ++ s.

(* '%g' % x for x >= 0 given as the exact value of the double *)
Definition fmt_g (x : Q) : string :=
  if Qeq_bool x 0 then "0" else
  let X0 := dec_exp x in
  let n0 := round_half_even (x / pow10Q (X0 - 5)) in
  let '(X, n) := if (1000000 <=? n0)%Z then ((X0 + 1)%Z, 100000%Z) else (X0, n0) in
  let digits := Z_to_string n in        (* six digits *)
  if ((-4 <=? X) && (X <? 6))%bool%Z then
    if (0 <=? X)%Z then
      (* X+1 integer digits, 5-X fraction digits *)
      let ip := take (Z.to_nat (X + 1)) digits in
      let fp := strip_trailing_zeros (drop (Z.to_nat (X + 1)) digits) in
      if String.eqb fp "" then ip else ip ++ "." ++ fp
    else
      let fp := strip_trailing_zeros (repeat_char "0"%char (Z.to_nat (- X - 1)) ++ digits) in
      "0." ++ fp
  else
    let m1 := take 1 digits in
    let mf := strip_trailing_zeros (drop 1 digits) in
    let ex := Z_to_string (Z.abs X) in
    m1 ++ (if String.eqb mf "" then "" else "." ++ mf) ++ "e" ++ (if (X <? 0)%Z then "-" else "+")
       ++ pad_left0 2 ex.

(* the formula printer writes counts without exponent notation: the digits of %g, positionally *)
Definition fmt_count (x : Q) : string :=
  if Qeq_bool x 0 then "0" else
  let X0 := dec_exp x in
  let n0 := round_half_even (x / pow10Q (X0 - 5)) in
  let '(X, n) := if (1000000 <=? n0)%Z then ((X0 + 1)%Z, 100000%Z) else (X0, n0) in
  let digits := Z_to_string n in
  if (0 <=? X)%Z then
    if (X <? 6)%Z then
      let ip := take (Z.to_nat (X + 1)) digits in
      let fp := strip_trailing_zeros (drop (Z.to_nat (X + 1)) digits) in
      if String.eqb fp "" then ip else ip ++ "." ++ fp
    else digits ++ repeat_char "0"%char (Z.to_nat (X - 5))
  else
    "0." ++ strip_trailing_zeros (repeat_char "0"%char (Z.to_nat (- X - 1)) ++ digits).

(* atom names as _str_atoms writes them *)
Record penv := mkPenv {
  p_sym : atom -> string       (* fragment.symbol: element symbol, or D / T *)
}.

Definition is_named_isotope (a : atom) : bool :=
  (Z.eqb (az a) 1 && (Z.eqb (aa a) 2 || Z.eqb (aa a) 3))%bool.

Definition str_atom (P : penv) (a : atom) : string :=
  (if (negb (Z.eqb (aa a) 0) && negb (is_named_isotope a))%bool
   then p_sym P a ++ "[" ++ Z_to_string (aa a) ++ "]"
   else p_sym P a)
  ++ (if Z.eqb (aq a) 0 then ""
      else "{" ++ (if (1 <? Z.abs (aq a))%Z then Z_to_string (Z.abs (aq a)) else "")
               ++ (if (0 <? aq a)%Z then "+" else "-") ++ "}").

(* counts are printed from the double the implementation holds *)
Fixpoint str_frag (P : penv) (f : frag) : string :=
  match f with
  | FAtom a => str_atom P a
  | FGroup l =>
      (fix go (l : list (Q * frag)) : string :=
         match l with
         | [] => ""
         | (c, FAtom a) :: r =>
             str_atom P a ++ (if Qeq_bool c 1 then "" else fmt_count (round64 c)) ++ go r
         | (c, g) :: r =>
             (if Qeq_bool c 1 then str_frag P g else "(" ++ str_frag P g ++ ")" ++ fmt_count (round64 c)) ++ go r
         end) l
  end.
Definition str_atoms (P : penv) (s : struct) : string := str_frag P (FGroup s).

Definition str_formula (P : penv) (f : fobj) : string :=
  match f_name f with
  | Some n => if String.eqb n "" then str_atoms P (f_struct f) else n
  | None => str_atoms P (f_struct f)
  end.
Definition repr_formula (P : penv) (f : fobj) : string := "formula('" ++ str_formula P f ++ "')".

(* what parsing the printed form must give back: count-1 groups dissolve into their parent,
   every count is the printed six-digit value *)
Definition round6 (c : Q) : Q :=
  match parse_dec (fmt_count (round64 c)) with Some q => q | None => c end.
