(* Model/Mixture.v — formulas._mix_by_weight_pairs / _mix_by_volume_pairs and the public
   mix_by_weight / mix_by_volume wrappers, over exact rationals.  No proofs. *)
From Coq Require Import ZArith QArith String List Bool.
From PT Require Import Str Dec Py Loaders Formula.
Import ListNotations.
Open Scope Q_scope.

Inductive mres := MOk (f : fobj) | MErr (e : err).

Definition empty_formula : fobj := mkF [] KTuple None None.

Definition Qmin (a b : Q) : Q := if Qle_bool a b then a else b.
Definition list_min (l : list Q) : option Q :=
  match l with [] => None | x :: r => Some (fold_left Qmin r x) end.

Definition has_density (f : fobj) : bool :=
  match f_density f with Some d => negb (Qeq_bool d 0) | None => false end.
Definition dens0 (f : fobj) : Q := match f_density f with Some d => d | None => 0 end.

(* result += n * f *)
Definition accumulate (acc : fobj) (n : Q) (f : fobj) : fobj := f_iadd acc (f_rmul n f).

Definition with_density (f : fobj) (d : option Q) : fobj := mkF (f_struct f) (f_kind f) d (f_name f).

Definition mix_by_weight_pairs (E : aenv) (pairs0 : list (fobj * Q)) : mres :=
  let pairs := filter (fun p => negb (Qle_bool (snd p) 0)) pairs0 in
  match pairs with
  | [] => MOk empty_formula
  | _ =>
      if existsb (fun p => Qeq_bool (f_mass E (fst p)) 0) pairs then MErr ZeroDivErr else
      match list_min (map (fun p => snd p / f_mass E (fst p)) pairs) with
      | None => MOk empty_formula
      | Some scale =>
          let result := fold_left (fun acc p => accumulate acc (snd p / f_mass E (fst p) / scale) (fst p))
                                  pairs empty_formula in
          if forallb (fun p => has_density (fst p)) pairs then
            let volume := fold_left (fun acc p => acc + snd p / dens0 (fst p)) pairs 0 / scale in
            MOk (with_density result (Some (f_mass E result / volume)))
          else MOk result
      end
  end.

Definition mix_by_volume_pairs (E : aenv) (pairs0 : list (fobj * Q)) : mres :=
  let pairs := filter (fun p => negb (Qle_bool (snd p) 0)) pairs0 in
  if negb (forallb (fun p => has_density (fst p)) pairs) then MErr ValueErr else
  match pairs with
  | [] => MOk empty_formula
  | _ =>
      if existsb (fun p => Qeq_bool (f_mass E (fst p)) 0) pairs then MErr ZeroDivErr else
      match list_min (map (fun p => snd p * dens0 (fst p) / f_mass E (fst p)) pairs) with
      | None => MOk empty_formula
      | Some scale =>
          let result := fold_left (fun acc p => accumulate acc (snd p * dens0 (fst p) / f_mass E (fst p) / scale) (fst p))
                                  pairs empty_formula in
          let volume := fold_left (fun acc p => acc + snd p) pairs 0 / scale in
          MOk (with_density result (Some (f_mass E result / volume)))
      end
  end.

(* the optional keywords of mix_by_weight / mix_by_volume: applied when truthy *)
Definition apply_keywords (E : aenv) (f : fobj) (density natural_density : option Q) (name : option string) : fobj :=
  let truthy (o : option Q) := match o with Some x => negb (Qeq_bool x 0) | None => false end in
  let f1 := if truthy natural_density
            then with_density f (match natural_density with Some nd => Some (nd / natural_mass_ratio E f) | None => None end)
            else f in
  let f2 := if truthy density then with_density f1 density else f1 in
  match name with
  | Some n => if String.eqb n "" then f2 else mkF (f_struct f2) (f_kind f2) (f_density f2) (Some n)
  | None => f2
  end.

(* component masses and volumes of a mixture, for the statements of C11 *)
Definition comp_mass (E : aenv) (n : Q) (f : fobj) : Q := n * f_mass E f.
