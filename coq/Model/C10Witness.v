(* Model/C10Witness.v — transition-coverage witnesses over the C10 alphabet (see Model/AttrWitness.v). *)
From Coq Require Import String List NArith.
From PT Require Import Attr AttrReach C09Proofs C10Proofs AttrWitness.
Definition witness_strings10 (g : N) : list string := map hist_str (witnesses safe10 acts10 g).
