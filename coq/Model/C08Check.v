(* Model/C08Check.v — runs the object-identity machine (Model/Core.v) beside the implementation:
   a case is a list of operations whose object arguments are register numbers (every object an
   operation returned goes into the next register, the items of an iteration one by one) and the
   implementation's outcome of each operation: the id()-class of the returned object with its
   kind, table, number, isotope number and charge, the id()-classes of an iteration, or the
   exception kind.  The model must produce the same outcomes and the two identity relations
   (id() classes / model object ids) must be the same partition. *)
From Coq Require Import ZArith NArith String List Bool FMapPositive.
From PT Require Import Str Py Loaders C06Check Core.
From PT.Gen Require Import ElementBase.
Import ListNotations.
Open Scope string_scope.

(* the (Z, A) rows mass.init adds: every isotope the loader model holds *)
Definition iso_rows (ot : option tbl) : list (Z * Z) :=
  match ot with
  | Some t => flat_map (fun kv => let k := (Zpos (fst kv) - 1)%Z in
                                  if Z.eqb (k mod 1000) 0 then [] else [((k / 1000)%Z, (k mod 1000)%Z)])
                       (PositiveMap.elements t)
  | None => []
  end.
Definition the_rows : list (Z * Z) := iso_rows the_tbl.
Definition init_with (rows : list (Z * Z)) : state := init_state element_base rows.
Definition the_init : state := init_with the_rows.

Inductive obs :=
| VObj (cls : positive) (kind : N) (T : tabid) (z : Z) (a : option Z) (q : Z)
| VList (l : list (positive * Z))   (* id() class and number (elements) / isotope number (isotopes) *)
| VErr (e : err).

Definition c08case := (list (gop N) * list obs)%type.

Record cst := mkC {
  c_st : state;
  c_regs : PositiveMap.t oid;     (* register number + 1 -> object *)
  c_nreg : N;
  c_c2o : PositiveMap.t oid;      (* id() class -> model object *)
  c_o2c : PositiveMap.t positive  (* model object -> id() class *)
}.

Definition reg (c : cst) (i : N) : option oid := PositiveMap.find (N.succ_pos i) (c_regs c).
Definition push_reg (c : cst) (o : oid) : cst :=
  mkC (c_st c) (PositiveMap.add (N.succ_pos (c_nreg c)) o (c_regs c)) (N.succ (c_nreg c)) (c_c2o c) (c_o2c c).

(* the two identity relations stay one bijection *)
Definition bind_cls (c : cst) (cls : positive) (o : oid) : option cst :=
  match PositiveMap.find cls (c_c2o c), PositiveMap.find o (c_o2c c) with
  | Some o', Some cls' => if (Pos.eqb o o' && Pos.eqb cls cls')%bool then Some c else None
  | None, None => Some (mkC (c_st c) (c_regs c) (c_nreg c) (PositiveMap.add cls o (c_c2o c))
                            (PositiveMap.add o cls (c_o2c c)))
  | _, _ => None
  end.

Definition resolve (c : cst) (o : gop N) : option op :=
  match o with
  | ByZ T z => Some (ByZ T z)
  | BySymbol T s => Some (BySymbol T s)
  | ByName T s => Some (ByName T s)
  | ByIsoString T s => Some (ByIsoString T s)
  | ModuleAttr s => Some (ModuleAttr s)
  | GetIso x a => match reg c x with Some r => Some (GetIso r a) | None => None end
  | GetIon x q => match reg c x with Some r => Some (GetIon r q) | None => None end
  | AddIso x a => match reg c x with Some r => Some (AddIso r a) | None => None end
  | Pickle x => match reg c x with Some r => Some (Pickle r) | None => None end
  | ChangeTable x T => match reg c x with Some r => Some (ChangeTable r T) | None => None end
  | IterElements T => Some (IterElements T)
  | IterIsotopes x => match reg c x with Some r => Some (IterIsotopes r) | None => None end
  end.

Definition kind_of (s : state) (o : oid) : option N :=
  match hget s o with
  | Some (OElement _ _ _ _ _) => Some 0%N
  | Some (OIsotope _ _) => Some 1%N
  | Some (OIon _ _) => Some 2%N
  | None => None
  end.

Definition optZ_eqb (a b : option Z) : bool :=
  match a, b with Some x, Some y => Z.eqb x y | None, None => true | _, _ => false end.

(* the implementation's description of the object equals the model object's attributes *)
Definition attrs_match (s : state) (o : oid) (kind : N) (T : tabid) (z : Z) (a : option Z) (q : Z) : bool :=
  match kind_of s o, attr_table s o, attr_number s o, attr_charge s o with
  | Some k, Some T', Some z', Some q' =>
      (N.eqb k kind && tab_eqb T T' && Z.eqb z z' && optZ_eqb a (attr_isotope s o) && Z.eqb q q')%bool
  | _, _, _, _ => false
  end.

(* the sort key an iteration item reports: isotope number of an isotope, number of an element *)
Definition item_key (s : state) (o : oid) : option Z :=
  match attr_isotope s o with Some a => Some a | None => attr_number s o end.

Fixpoint bind_list (c : cst) (cl : list (positive * Z)) (ol : list oid) : option cst :=
  match cl, ol with
  | [], [] => Some c
  | (cls, k) :: cr, o :: orr =>
      if optZ_eqb (Some k) (item_key (c_st c) o) then
        match bind_cls c cls o with
        | Some c1 => bind_list (push_reg c1 o) cr orr
        | None => None
        end
      else None
  | _, _ => None
  end.

Definition with_st (c : cst) (s : state) : cst := mkC s (c_regs c) (c_nreg c) (c_c2o c) (c_o2c c).

(* one operation: None = disagreement *)
Definition check_step (c : cst) (o : gop N) (v : obs) : option cst :=
  match resolve c o with
  | None => None
  | Some o' =>
      let (s1, r) := step (c_st c) o' in
      let c1 := with_st c s1 in
      match r, v with
      | ROk x, VObj cls kind T z a q =>
          if attrs_match s1 x kind T z a q then
            match bind_cls c1 cls x with Some c2 => Some (push_reg c2 x) | None => None end
          else None
      | RList l, VList cl => bind_list c1 cl l
      | RErr e, VErr e' => if err_eqb e e' then Some c1 else None
      | _, _ => None
      end
  end.

Fixpoint check_steps (c : cst) (ops : list (gop N)) (vs : list obs) (i : N) : option N :=
  match ops, vs with
  | [], [] => None                     (* no disagreement *)
  | o :: orr, v :: vr =>
      match check_step c o v with
      | Some c1 => check_steps c1 orr vr (i + 1)%N
      | None => Some i
      end
  | _, _ => Some i
  end.

Definition init_cst (s0 : state) : cst :=
  mkC s0 (PositiveMap.empty oid) 0%N (PositiveMap.empty oid) (PositiveMap.empty positive).

Definition check_case (s0 : state) (c : c08case) : bool :=
  match check_steps (init_cst s0) (fst c) (snd c) 0%N with None => true | Some _ => false end.

Definition check_all_with (rows : list (Z * Z)) (cases : list c08case) : list bool :=
  let s0 := init_with rows in map (check_case s0) cases.
Definition check_all := check_all_with the_rows.

(* diagnosis: first disagreeing step and what the model returned there *)
Definition res_text (s : state) (r : res) : string :=
  match r with
  | ROk x => "object " ++ N_to_string (Npos x) ++ " kind " ++
             match kind_of s x with Some k => N_to_string k | None => "?" end ++
             " Z " ++ match attr_number s x with Some z => Z_to_string z | None => "?" end ++
             " A " ++ match attr_isotope s x with Some a => Z_to_string a | None => "-" end ++
             " q " ++ match attr_charge s x with Some q => Z_to_string q | None => "?" end ++
             match attr_table s x with Some TPub => " public" | Some TPriv => " private" | None => " ?" end
  | RList l => "list of " ++ N_to_string (N.of_nat (length l))
  | RErr ParseErr => "ParseErr" | RErr ValueErr => "ValueErr" | RErr KeyErr => "KeyErr"
  | RErr TypeErr => "TypeErr" | RErr AttrErr => "AttrErr" | RErr _ => "other error"
  end.

Fixpoint diag_steps (c : cst) (ops : list (gop N)) (vs : list obs) (i : N) : string :=
  match ops, vs with
  | [], [] => "none"
  | o :: orr, v :: vr =>
      match check_step c o v with
      | Some c1 => diag_steps c1 orr vr (i + 1)%N
      | None =>
          "step " ++ N_to_string i ++ ": model " ++
          match resolve c o with
          | Some o' => let (s1, r) := step (c_st c) o' in res_text s1 r
          | None => "unknown register"
          end
      end
  | _, _ => "length"
  end.

Definition diag_all_with (rows : list (Z * Z)) (cases : list c08case) : list string :=
  let s0 := init_with rows in map (fun c => diag_steps (init_cst s0) (fst c) (snd c) 0%N) cases.
Definition diag_all := diag_all_with the_rows.

(* number of objects of the initial state, for the exhaustiveness cross-check *)
Definition model_objects : N := Npos (next the_init) - 1.
