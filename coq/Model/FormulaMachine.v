(* Model/FormulaMachine.v — Formula *objects*: a heap of objects and variables naming them,
   transcribing formula()'s dispatch, __add__, __rmul__ (copy), __iadd__ (mutation).  No proofs. *)
From Coq Require Import ZArith QArith String List Bool.
From PT Require Import Str Dec Loaders Formula.
Import ListNotations.
Open Scope Q_scope.

Inductive src :=
| SEmpty                      (* formula() / formula("") *)
| SAtom (a : atom)            (* formula(atom) *)
| SDict (d : dict)            (* formula({atom: count}) *)
| SNested (s : struct)        (* formula([(count, fragment), ...]) *)
| SFormula (x : nat).         (* formula(other_formula) *)

Inductive op :=
| OFormula (v : nat) (s : src) (density natural_density : option Q) (name : option string)
| OAdd (v x y : nat)          (* v = x + y *)
| ORmul (v : nat) (n : Q) (x : nat)   (* v = n * x *)
| OIadd (x y : nat)           (* x += y *)
| OAlias (v x : nat).         (* v = x *)

Record state := mkState { heap : list fobj; vars : list (nat * nat) }.
Definition init_state : state := mkState [] [].

Definition var_get (s : state) (v : nat) : option nat :=
  match find (fun p => Nat.eqb (fst p) v) (vars s) with Some p => Some (snd p) | None => None end.
Fixpoint var_set (l : list (nat * nat)) (v o : nat) : list (nat * nat) :=
  match l with
  | [] => [(v, o)]
  | (v', o') :: r => if Nat.eqb v v' then (v, o) :: r else (v', o') :: var_set r v o
  end.
Definition obj_get (s : state) (o : nat) : option fobj := nth_error (heap s) o.
Fixpoint list_set {A} (l : list A) (i : nat) (x : A) : list A :=
  match l, i with
  | [], _ => []
  | _ :: r, O => x :: r
  | y :: r, S k => y :: list_set r k x
  end.

Definition alloc (s : state) (v : nat) (f : fobj) : state :=
  mkState (heap s ++ [f])%list (var_set (vars s) v (length (heap s))).

Definition is_empty_name (n : option string) : bool :=
  match n with None => true | Some EmptyString => true | _ => false end.

(* Formula(structure, density, natural_density, name) *)
Definition new_formula (E : aenv) (s : struct) (k : seqkind) (density natural_density : option Q)
           (name : option string) : fobj :=
  mkF s k (init_density E s density natural_density) name.

Definition step (E : aenv) (s : state) (o : op) : option state :=
  match o with
  | OFormula v sc density natural_density name =>
      match sc with
      | SEmpty => Some (alloc s v (new_formula E [] KTuple density natural_density name))
      | SAtom a => Some (alloc s v (new_formula E [(1, FAtom a)] KTuple density natural_density name))
      | SDict d => Some (alloc s v (new_formula E (hill_struct E d) KTuple density natural_density name))
      | SNested st => Some (alloc s v (new_formula E st KTuple density natural_density name))
      | SFormula x =>
          match var_get s x with
          | Some ox =>
              match obj_get s ox with
              | Some f =>
                  let density' := match density, natural_density with
                                  | None, None => f_density f | _, _ => density end in
                  let name' := if is_empty_name name then f_name f else name in
                  Some (alloc s v (new_formula E (f_struct f) (f_kind f) density' natural_density name'))
              | None => None
              end
          | None => None
          end
      end
  | OAdd v x y =>
      match var_get s x, var_get s y with
      | Some ox, Some oy =>
          match obj_get s ox, obj_get s oy with
          | Some f, Some g => Some (alloc s v (f_add f g))
          | _, _ => None
          end
      | _, _ => None
      end
  | ORmul v n x =>
      match var_get s x with
      | Some ox => match obj_get s ox with Some f => Some (alloc s v (f_rmul n f)) | None => None end
      | None => None
      end
  | OIadd x y =>
      match var_get s x, var_get s y with
      | Some ox, Some oy =>
          match obj_get s ox, obj_get s oy with
          | Some f, Some g => Some (mkState (list_set (heap s) ox (f_iadd f g)) (vars s))
          | _, _ => None
          end
      | _, _ => None
      end
  | OAlias v x =>
      match var_get s x with
      | Some ox => Some (mkState (heap s) (var_set (vars s) v ox))
      | None => None
      end
  end.

Fixpoint run (E : aenv) (s : state) (ops : list op) : option state :=
  match ops with
  | [] => Some s
  | o :: r => match step E s o with Some s' => run E s' r | None => None end
  end.

(* the states after each step *)
Fixpoint trace (E : aenv) (s : state) (ops : list op) : list (option state) :=
  match ops with
  | [] => []
  | o :: r => match step E s o with
              | Some s' => Some s' :: trace E s' r
              | None => [None]
              end
  end.
