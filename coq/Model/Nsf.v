(* Model/Nsf.v — code-shaped model of nsf.fix_number, nsf.init (row loop, gap fills,
   imaginary pass) and nsf.energy_dependent_init, run on the raw table text regenerated
   from /repo (Gen/NsfTables.v).  No proofs here.

   Conventions: [None] of the outer option = the Python code raises (or writes into the
   shared "missing" default record, which the model treats as a failed load as well);
   inner options are Python's None. *)
From Coq Require Import ZArith QArith Qabs String Ascii List Bool FMapPositive.
From PT Require Import Str Dec Loaders.
Import ListNotations.
Open Scope string_scope.

(* ------------------------------------------------------------------ fix_number *)

(* str.replace(c, '') *)
Fixpoint remove_char (c : ascii) (s : string) : string :=
  match s with
  | EmptyString => EmptyString
  | String a r => if Ascii.eqb a c then remove_char c r else String a (remove_char c r)
  end.

Definition strip_marks (s : string) : string := remove_char "*"%char (remove_char "<"%char s).

(* parse_uncertainty(str.replace('<','').replace('*',''))[0] *)
Definition fix_number (s : string) : option (option Q) :=
  match parse_uncertainty (strip_marks s) with
  | None => None
  | Some None => Some None
  | Some (Some (v, _)) => Some (Some v)
  end.

(* ------------------------------------------------------------------ records *)

(* a number held by a record: read from a cell, computed from other cells (gap fill of
   Xe.total), or sqrt(c/(4 pi/100)) (gap fill of Eu-151 b_c) *)
Inductive num := NRead (q : Q) | NCalc (q : Q) | NSqrt4pi (c : Q).

(* one row of an energy-dependent table as stored: (energy eV, Re, Im) *)
Definition erow := (Q * Q * Q)%type.
Inductive etab := ETab (rows : list erow)   (* stored reversed: increasing wavelength *)
                | ELuNat.                   (* the Lu-175/Lu-176 mixture attached to natural Lu *)

Record nrec := mkN {
  r_bc : option num; r_bp : option Q; r_bm : option Q;
  r_bci : option Q; r_bpi : option Q; r_bmi : option Q;
  r_coh : option Q; r_inc : option Q; r_tot : option num; r_abs : option Q;
  r_abund : option Q;
  r_energy : bool;
  r_bcc : option (option num * Q); (* b_c_complex; real part None = nan *)
  r_tab : option etab;            (* nsf_table *)
  r_nd : bool                     (* _number_density is not None *)
}.

(* class defaults of Neutron: what every atom without a record serves *)
Definition missing_rec : nrec :=
  mkN None None None None None None None None None None (Some 0%Q) false None None false.

(* objects: every row allocates one Neutron(); atoms point to records, so that an element
   sharing the record of its isotope sees later writes through either name *)
Record st := mkSt {
  s_atoms : PositiveMap.t positive;   (* key z a -> record id *)
  s_recs : PositiveMap.t nrec;
  s_spin : PositiveMap.t string;      (* isotope.nuclear_spin *)
  s_next : positive
}.

Definition st0 : st := mkSt (PositiveMap.empty _) (PositiveMap.empty _) (PositiveMap.empty _) 1%positive.

Definition rid_of (s : st) (z a : Z) : option positive := PositiveMap.find (key z a) (s_atoms s).
Definition rec_of (s : st) (z a : Z) : option nrec :=
  match rid_of s z a with Some i => PositiveMap.find i (s_recs s) | None => None end.
(* atom.neutron as served *)
Definition neutron_of (s : st) (z a : Z) : nrec :=
  match rec_of s z a with Some r => r | None => missing_rec end.
Definition spin_of (s : st) (z a : Z) : option string := PositiveMap.find (key z a) (s_spin s).

Definition set_atom (s : st) (z a : Z) (i : positive) : st :=
  mkSt (PositiveMap.add (key z a) i (s_atoms s)) (s_recs s) (s_spin s) (s_next s).
Definition set_rec (s : st) (i : positive) (r : nrec) : st :=
  mkSt (s_atoms s) (PositiveMap.add i r (s_recs s)) (s_spin s) (s_next s).
Definition set_spin (s : st) (z a : Z) (sp : string) : st :=
  mkSt (s_atoms s) (s_recs s) (PositiveMap.add (key z a) sp (s_spin s)) (s_next s).
Definition alloc (s : st) (r : nrec) : st * positive :=
  (mkSt (s_atoms s) (PositiveMap.add (s_next s) r (s_recs s)) (s_spin s) (Pos.succ (s_next s)), s_next s).

(* ------------------------------------------------------------------ helpers *)

(* l[a:b] *)
Definition slice (a b : nat) {A} (l : list A) : list A := firstn (b - a) (skipn a l).

Fixpoint all_some {A} (l : list (option A)) : option (list A) :=
  match l with
  | [] => Some []
  | Some x :: r => match all_some r with Some r' => Some (x :: r') | None => None end
  | None :: _ => None
  end.

(* x1, ..., xn = [f(a) for a in l]: every call returns and the count matches *)
Definition unpack {A} (n : nat) (l : list (option A)) : option (list A) :=
  match all_some l with
  | Some v => if Nat.eqb (length v) n then Some v else None
  | None => None
  end.

Definition nthq (i : nat) (l : list (option Q)) : option Q := nth i l None.

(* the property's constant: 2000 * 1.798 *)
Definition two_thousand_lambda : Q := 3596.

(* isotope numbers the key scheme can hold *)
Definition iso_ok (a : Z) : bool := ((0 <=? a) && (a <? 1000))%Z.

(* "Z-El" or "Z-El-A": (Z, symbol, isotope number) *)
Definition parse_atom (cell : string) : option (Z * string * Z) :=
  let parts := split_char "-"%char cell in
  do z <- bind (nth_error parts 0) parse_int;
  do symbol <- nth_error parts 1;
  do a <- (if Nat.eqb (length parts) 3 then bind (nth_error parts 2) parse_int else Some 0%Z);
  if (iso_ok a && (0 <=? z)%Z)%bool then Some (z, symbol, a) else None.

(* ------------------------------------------------------------------ nsf.init, row loop *)

(* the Neutron() built from one line, before it is attached to an atom *)
Definition row_record (columns : list string) (nd : bool) : option nrec :=
  do _ <- nth_error columns 1;
  do _ <- nth_error columns 2;
  do b <- unpack 3 (map fix_number (slice 3 6 columns));
  do flag <- nth_error columns 6;
  do c <- unpack 4 (map fix_number (skipn 7 columns));
  let b_c := nthq 0 b in
  do absorption <- nthq 3 c;            (* -None raises TypeError *)
  let b_c_i := Qred (- absorption / two_thousand_lambda) in
  Some (mkN (option_map NRead b_c) (nthq 1 b) (nthq 2 b) None None None
            (nthq 0 c) (nthq 1 c) (option_map NRead (nthq 2 c)) (nthq 3 c)
            (Some 0%Q) (String.eqb flag "E") (Some (option_map NRead b_c, b_c_i)) None nd).

Definition with_abund (r : nrec) (ab : option Q) : nrec :=
  mkN (r_bc r) (r_bp r) (r_bm r) (r_bci r) (r_bpi r) (r_bmi r) (r_coh r) (r_inc r) (r_tot r) (r_abs r)
      ab (r_energy r) (r_bcc r) (r_tab r) (r_nd r).

Definition nsf_row (eb : ebase) (d : dens) (s : st) (line : string) : option st :=
  let columns := split_char ","%char line in
  do p <- nth_error columns 1;
  do spin <- nth_error columns 2;
  do atom <- parse_atom (hd "" columns);
  let '(z, symbol, a) := atom in
  do sym <- eb_symbol eb z;                               (* table[Z] *)
  if negb (String.eqb sym symbol) then None else          (* assert element.symbol == symbol *)
  do rho <- dens_get d z;                                 (* element.number_density *)
  let nd := match rho with Some _ => true | None => false end in
  do r <- row_record columns nd;
  if Z.eqb a 0 then
    let '(s1, i) := alloc s r in Some (set_atom s1 z 0 i)
  else
    do ab <- (if contains_char " "%char p then Some (Some 0%Q) else fix_number p);
    let '(s1, i) := alloc s (with_abund r ab) in
    let s2 := set_spin (set_atom s1 z a i) z a spin in
    match rid_of s2 z 0 with                              (* if element.neutron is missing *)
    | None => Some (set_atom s2 z 0 i)
    | Some _ => Some s2
    end.

(* ------------------------------------------------------------------ gap fills *)

Definition with_total (r : nrec) (t : option num) : nrec :=
  mkN (r_bc r) (r_bp r) (r_bm r) (r_bci r) (r_bpi r) (r_bmi r) (r_coh r) (r_inc r) t (r_abs r)
      (r_abund r) (r_energy r) (r_bcc r) (r_tab r) (r_nd r).
Definition with_bc (r : nrec) (b : option num) : nrec :=
  mkN b (r_bp r) (r_bm r) (r_bci r) (r_bpi r) (r_bmi r) (r_coh r) (r_inc r) (r_tot r) (r_abs r)
      (r_abund r) (r_energy r) (r_bcc r) (r_tab r) (r_nd r).

Definition with_bcc (r : nrec) (c : option (option num * Q)) : nrec :=
  mkN (r_bc r) (r_bp r) (r_bm r) (r_bci r) (r_bpi r) (r_bmi r) (r_coh r) (r_inc r) (r_tot r) (r_abs r)
      (r_abund r) (r_energy r) c (r_tab r) (r_nd r).

Definition is_none {A} (o : option A) : bool := match o with None => true | Some _ => false end.

Definition gap_fills (eb : ebase) (s : st) : option st :=
  do zxe <- eb_number eb "Xe";
  do zeu <- eb_number eb "Eu";
  do ixe <- rid_of s zxe 0;
  do rxe <- PositiveMap.find ixe (s_recs s);
  do ieu <- rid_of s zeu 151;
  do reu <- PositiveMap.find ieu (s_recs s);
  if negb (is_none (r_tot rxe)) then None else            (* assert table.Xe.neutron.total is None *)
  if negb (is_none (r_bc reu)) then None else             (* assert table.Eu[151].neutron.b_c is None *)
  do coh <- r_coh rxe;
  do inc <- r_inc rxe;
  let s1 := set_rec s ixe (with_total rxe (Some (NCalc (Qred (coh + inc))))) in
  do reu' <- PositiveMap.find ieu (s_recs s1);
  do ceu <- r_coh reu';
  (* b_c_complex = b_c + 1j*b_c_complex.imag : the nan real part from the row loop is replaced
     by the filled-in b_c (None.imag would raise) *)
  do cc <- r_bcc reu';
  let b := Some (NSqrt4pi ceu) in
  Some (set_rec s1 ieu (with_bcc (with_bc reu' b) (Some (b, snd cc)))).

(* ------------------------------------------------------------------ imaginary pass *)

Definition with_imag (r : nrec) (a b c : option Q) : nrec :=
  mkN (r_bc r) (r_bp r) (r_bm r) a b c (r_coh r) (r_inc r) (r_tot r) (r_abs r)
      (r_abund r) (r_energy r) (r_bcc r) (r_tab r) (r_nd r).

Definition imag_row (eb : ebase) (s : st) (line : string) : option st :=
  let columns := split_char ","%char line in
  do atom <- parse_atom (hd "" columns);
  let '(z, _, a) := atom in
  do _ <- eb_symbol eb z;
  do i <- rid_of s z a;          (* an atom without a record would patch the shared default *)
  do r <- PositiveMap.find i (s_recs s);
  do v <- unpack 3 (map fix_number (skipn 1 columns));
  Some (set_rec s i (with_imag r (nthq 0 v) (nthq 1 v) (nthq 2 v))).

(* ------------------------------------------------------------------ energy-dependent tables *)

Definition with_tab (r : nrec) (t : option etab) : nrec :=
  mkN (r_bc r) (r_bp r) (r_bm r) (r_bci r) (r_bpi r) (r_bmi r) (r_coh r) (r_inc r) (r_tot r) (r_abs r)
      (r_abund r) (r_energy r) (r_bcc r) t (r_nd r).

(* energy, re_a, im_a, _ = zip( *values ): every row has exactly four numbers *)
Definition parse_erow (row : list string) : option erow :=
  if negb (Nat.eqb (length row) 4) then None else
  do e <- parse_dec (nth 0 row "");
  do re <- parse_dec (nth 1 row "");
  do im <- parse_dec (nth 2 row "");
  do _ <- parse_dec (nth 3 row "");
  Some (e, re, im).

Definition etable := (string * option Z * list (list string))%type.

Definition energy_row (eb : ebase) (s : st) (t : etable) : option st :=
  let '(name, iso, values) := t in
  do rows <- all_some (map parse_erow values);
  do z <- eb_number eb name;
  let a := match iso with Some n => n | None => 0%Z end in
  if negb (iso_ok a) then None else
  do i <- rid_of s z a;
  do r <- PositiveMap.find i (s_recs s);
  Some (set_rec s i (with_tab r (Some (ETab (rev rows))))).     (* wavelength[::-1], xs[::-1] *)

Definition lu_natural (eb : ebase) (s : st) : option st :=
  do z <- eb_number eb "Lu";
  do r175 <- rec_of s z 175;
  do r176 <- rec_of s z 176;
  do _ <- r_bcc r175;
  match r_tab r176 with
  | Some (ETab _) =>
      do i <- rid_of s z 0;
      do r <- PositiveMap.find i (s_recs s);
      Some (set_rec s i (with_tab r (Some ELuNat)))
  | _ => None
  end.

(* ------------------------------------------------------------------ nsf.init *)

Definition nsf_init (eb : ebase) (d : dens) (tbl tblI : list string) (et : list etable) : option st :=
  do s1 <- fold_opt (nsf_row eb d) tbl st0;
  do s2 <- gap_fills eb s1;
  do s3 <- fold_opt (imag_row eb) tblI s2;
  do s4 <- fold_opt (energy_row eb) et s3;
  lu_natural eb s4.

(* ------------------------------------------------------------------ observables *)

Definition has_sld (r : nrec) : bool := (negb (is_none (r_bc r)) && r_nd r)%bool.

(* numpy.interp(x, xp, fp) on an increasing abscissa, complex ordinates as pairs.
   The abscissa used by the model is u = 1/E, an increasing function of the wavelength
   sqrt(ENERGY_FACTOR/(1000 E)); only queries at nodes (and the clamped ends) are meant. *)
Definition cplx := (Q * Q)%type.
Definition Qlt_bool (x y : Q) : bool := negb (Qle_bool y x).

Definition lerp (x x0 x1 : Q) (y0 y1 : cplx) : cplx :=
  let t := ((x - x0) / (x1 - x0))%Q in
  (Qred (fst y0 + (fst y1 - fst y0) * t), Qred (snd y0 + (snd y1 - snd y0) * t)).

Fixpoint interp_from (x x0 : Q) (y0 : cplx) (rest : list (Q * cplx)) : cplx :=
  match rest with
  | [] => y0
  | (x1, y1) :: r =>
      if Qlt_bool x x1 then (if Qeq_bool x x0 then y0 else lerp x x0 x1 y0 y1)
      else interp_from x x1 y1 r
  end.

Definition interp (x : Q) (t : list (Q * cplx)) : option cplx :=
  match t with
  | [] => None
  | (x0, y0) :: r => Some (if Qle_bool x x0 then y0 else interp_from x x0 y0 r)
  end.

Definition abscissa (e : Q) : Q := Qred (/ e).
Definition as_interp_table (rows : list erow) : list (Q * cplx) :=
  map (fun r => match r with (e, re, im) => (abscissa e, (re, im)) end) rows.

(* scattering_by_wavelength(neutron_wavelength(1000 e))[0] *)
Definition b_c_at_energy (r : nrec) (e : Q) : option cplx :=
  match r_tab r with
  | Some (ETab rows) => interp (abscissa e) (as_interp_table rows)
  | _ => None
  end.
