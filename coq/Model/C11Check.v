(* Model/C11Check.v — mixtures: the implementation against the mixture model, for calls
   (mix_by_weight / mix_by_volume on parsed components) and for the string forms. *)
From Coq Require Import ZArith QArith String Ascii List Bool.
From PT Require Import Str Dec Py Loaders Formula FormulaMachine AtomEnv Pyparse TableEnv Mixture PyparseMix C02Check.
Import ListNotations.

Inductive c11in :=
| InCall (vol : bool) (parts : list (string * Q)) (density natural_density : option Q) (name : option string)
| InString (s : string).

Inductive c11obs :=
| ObsF (s : struct) (dens : pyval) (name : option string) (total_mass thickness : pyval)
| ObsErr (e : err).

Definition c11case := (c11in * c11obs)%type.

Definition model_of (E : aenv) (T : ptable) (i : c11in) : presult_m :=
  match i with
  | InString s => parse_formula E T s
  | InCall vol parts d nd name =>
      (* formula(args[i], table) for each component, then the pairs function and the keywords *)
      let parsed := map (fun p => (parse_formula E T (fst p), snd p)) parts in
      match find (fun p => match fst p with RMErr _ => true | _ => false end) parsed with
      | Some (RMErr e, _) => RMErr e
      | _ =>
          let pairs := flat_map (fun p => match fst p with RMOk m => [(m_f m, snd p)] | _ => [] end) parsed in
          match (if vol then mix_by_volume_pairs else mix_by_weight_pairs) E pairs with
          | MOk f => RMOk (plain (apply_keywords E f d nd name))
          | MErr e => RMErr e
          end
      end
  end.

Definition chk_opt (v : pyval) (q : option Q) : bool :=
  match q with
  | Some x => match py_Q v with Some p => Qrel (-40) p x | None => false end
  | None => match v with PNone => true | _ => false end
  end.

Fixpoint frag_close36 (x y : frag) : bool :=
  match x, y with
  | FAtom a, FAtom b => atom_eqb a b
  | FGroup l, FGroup m =>
      (fix go (l m : list (Q * frag)) : bool :=
         match l, m with
         | [], [] => true
         | (c, f) :: r, (c', f') :: r' => (Qrel (-40) c c' && frag_close36 f f' && go r r')%bool
         | _, _ => false
         end) l m
  | _, _ => false
  end.

(* a component whose multiplier is one is spliced into the mixture (1*f is f), any other is kept as a group.  When two
   components have exactly equal mole numbers the exact model gives one to both and the float code 1.0000000000000002
   to one of them: the comparison is made on structures in which every group with a multiplier within 2^-40 of one
   is spliced, on both sides (composition and nesting are otherwise untouched). *)
Fixpoint inline_units (x : frag) : frag :=
  match x with
  | FAtom a => FAtom a
  | FGroup l =>
      FGroup ((fix go (l : list (Q * frag)) : list (Q * frag) :=
                 match l with
                 | [] => []
                 | (c, f) :: r =>
                     match inline_units f with
                     | FGroup g => if Qrel (-40) c 1 then (g ++ go r)%list else (c, FGroup g) :: go r
                     | FAtom a => (c, FAtom a) :: go r
                     end
                 end) l)
  end.
Definition struct_close (x y : frag) : bool := frag_close36 (inline_units x) (inline_units y).

Definition check_case (E : aenv) (T : ptable) (c : c11case) : bool :=
  match model_of E T (fst c), snd c with
  | RMOk m, ObsF s d name tm th =>
      (struct_close (FGroup (f_struct (m_f m))) (FGroup s)
       && chk_opt d (f_density (m_f m))
       && opt_str_eqb (f_name (m_f m)) name
       && chk_opt tm (m_total_mass m) && chk_opt th (m_thickness m))%bool
  | RMErr e, ObsErr e' => err_eqb e e'
  | _, _ => false
  end.

Definition check_all_with (E : aenv) (T : ptable) (cases : list c11case) : list bool := map (check_case E T) cases.
Definition check_all := check_all_with the_env the_ptable.

Definition diag_case (E : aenv) (T : ptable) (c : c11case) : string :=
  match model_of E T (fst c), snd c with
  | RMOk m, ObsF s d name tm th =>
      ((if struct_close (FGroup (f_struct (m_f m))) (FGroup s) then "" else "structure ")
       ++ (if chk_opt d (f_density (m_f m)) then "" else "density ")
       ++ (if opt_str_eqb (f_name (m_f m)) name then "" else "name ")
       ++ (if chk_opt tm (m_total_mass m) then "" else "total_mass ")
       ++ (if chk_opt th (m_thickness m) then "" else "thickness "))%string
  | RMErr e, ObsErr e' => if err_eqb e e' then ""%string else "error-kind"%string
  | RMOk _, ObsErr _ => "model accepts, implementation raises"%string
  | RMErr _, ObsF _ _ _ _ _ => "model raises, implementation accepts"%string
  end.
Definition diag_all := map (diag_case the_env the_ptable).
