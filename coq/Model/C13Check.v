(* Model/C13Check.v — print / parse round trip. *)
From Coq Require Import ZArith QArith String Ascii List Bool.
From PT Require Import Str Dec Py Loaders Formula FormulaMachine AtomEnv Pyparse TableEnv Mixture PyparseMix Printer C01Check.
From PT.Gen Require Import ElementBase.
Import ListNotations.

Definition the_penv : penv := mkPenv (sym_of element_base).

(* dissolve count-1 groups into their parent; counts at the printed precision *)

Fixpoint normalize_items (rnd : Q -> Q) (fuel : nat) (l : list (Q * frag)) : list (Q * frag) :=
  match fuel with
  | O => l
  | S k =>
      flat_map (fun p =>
                  match snd p with
                  | FAtom a => [(rnd (fst p), FAtom a)]
                  | FGroup g =>
                      let c := rnd (fst p) in
                      if Qeq_bool c 1 then normalize_items rnd k g
                      else [(c, FGroup (normalize_items rnd k g))]
                  end) l
  end.
Fixpoint frag_depth (f : frag) : nat :=
  match f with
  | FAtom _ => 1
  | FGroup l => S (fold_right (fun p acc => Nat.max (frag_depth (snd p)) acc) 0%nat l)
  end.
Definition normalize (s : struct) : struct := normalize_items round6 (S (frag_depth (FGroup s))) s.

Inductive reparse := RStruct (s : struct) | RErr' (e : err).

Record c13case := mkC13 {
  r_struct : struct;            (* the formula's structure, counts exactly as the doubles held *)
  r_name : option string;
  r_str : string;               (* str(f) *)
  r_repr : string;              (* repr(f) *)
  r_back : reparse              (* formula(str(f)).structure, for unnamed formulas *)
}.

Fixpoint frag_exact (m p : frag) : bool :=
  match m, p with
  | FAtom a, FAtom b => atom_eqb a b
  | FGroup l, FGroup l' =>
      (fix go (l l' : list (Q * frag)) : bool :=
         match l, l' with
         | [], [] => true
         | (c, f) :: r, (c', f') :: r' => (Qeq_bool c c' && frag_exact f f' && go r r')%bool
         | _, _ => false
         end) l l'
  | _, _ => false
  end.

(* the printer model reproduces str/repr character for character *)
Definition print_agrees (c : c13case) : bool :=
  let f := mkF (r_struct c) KTuple None (r_name c) in
  (String.eqb (str_formula the_penv f) (r_str c) && String.eqb (repr_formula the_penv f) (r_repr c))%bool.

(* the property: the printed form parses back to the normalized structure *)
Definition roundtrip_ok (c : c13case) : bool :=
  match r_name c with
  | Some _ => true
  | None =>
      match r_back c with
      | RStruct s' => frag_exact (FGroup (map (fun p => p) (normalize (r_struct c)))) (FGroup s')
                      || frag_r0 (FGroup (normalize (r_struct c))) (FGroup s')
      | RErr' _ => false
      end
  end.

(* the parser model on the printed string agrees with the implementation's reparse *)
Definition reparse_model_agrees (E : aenv) (T : ptable) (c : c13case) : bool :=
  match r_name c with
  | Some _ => true
  | None =>
      match parse_formula E T (r_str c), r_back c with
      | RMOk m, RStruct s' => frag_r0 (FGroup (f_struct (m_f m))) (FGroup s')
      | RMErr _, RErr' _ => true
      | _, _ => false
      end
  end.

Definition check_case (E : aenv) (T : ptable) (c : c13case) : bool :=
  (print_agrees c && roundtrip_ok c && reparse_model_agrees E T c)%bool.
Definition check_all_with (E : aenv) (T : ptable) (cases : list c13case) : list bool := map (check_case E T) cases.
Definition check_all := check_all_with the_env the_ptable.

Definition diag_all_with (E : aenv) (T : ptable) (cases : list c13case) : list string :=
  map (fun c => ((if print_agrees c then "" else ("print[" ++ str_formula the_penv (mkF (r_struct c) KTuple None (r_name c)) ++ "] ")%string)
                 ++ (if roundtrip_ok c then "" else "roundtrip ")
                 ++ (if reparse_model_agrees E T c then "" else "reparse-model "))%string) cases.
Definition diag_all := diag_all_with the_env the_ptable.
