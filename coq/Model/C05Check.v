(* Model/C05Check.v — runs the x-ray model (Model/Xsf.v, Model/XsfReal.v) on the regenerated .nff
   tables and compares with what the implementation served (comparison rules of DESIGN section 3):
   bit-exact at table nodes and for the energy/wavelength conversion, 2^-40 of the magnitude of the
   terms for interpolated values and SLDs, interval enclosure with 2^-30 for f0, refraction and
   reflectivity. *)
From Coq Require Import ZArith QArith Qabs String Ascii List Bool.
From PT Require Import Str Dec Py Loaders Formula Ancillary Xsf IExpr ICheck XsfReal C06Check AtomEnv.
From PT.Gen Require Import Constants ElementBase NffIndex WaasKirf.
Import ListNotations.
Open Scope Q_scope.

Definition EB05 : ebase := element_base.
Definition HPL : Q := fl (cst plancks_constant_text).
Definition CLIGHT : Q := cst speed_of_light_text.
Definition RE : Q := fl (cst electron_radius_text).
(* NA, ME: C06Check.NA, AtomEnv.ME *)

Definition the_cm05 : option cmdict := cm_init f0_WaasKirf.

(* the reader's literals as the code has them now (Gen/NffIndex.v) against the documented ones *)
Definition reader_literals_ok : bool :=
  (match parse_int nff_skiprows_text with Some z => Z.eqb z (Z.of_nat SKIPROWS) | None => false end
   && match pyfloat nff_sentinel_text with Some q => Qeq_bool q SENTINEL | None => false end
   && match pyfloat nff_scale_text with Some q => Qeq_bool q EV_TO_KEV | None => false end)%bool.

(* xray_energy(x), xray_wavelength(x) in binary64 and exactly *)
Definition conv_fl (x : Q) : Q := hc_over_fl HPL CLIGHT x.
Definition conv_Q (x : Q) : Q := hc_over HPL CLIGHT x.

(* ------------------------------------------------------------------ comparison rules *)
Definition v_err (v : pyval) : bool := match v with PE _ => true | _ => false end.
Definition v_is (e : err) (v : pyval) : bool := match v with PE e' => err_eqb e e' | _ => false end.

(* exact: the float is this rational; otherwise within 2^-40 of the scale *)
Definition chk_val (exact : bool) (scale : Q) (v : pyval) (m : option Q) : bool :=
  match m with
  | None => is_nan v
  | Some q =>
      match v with
      | PF a b => if exact then Qeq_bool (D2Q a b) q else Qclose (-40) scale (D2Q a b) q
      | _ => false
      end
  end.
Definition chk_exact (v : pyval) (q : Q) : bool := chk_val true 0 v (Some q).

Definition pl (v : pyval) : list pyval := match v with PL l => l | _ => [] end.
Definition is_pl (v : pyval) : bool := match v with PL _ => true | _ => false end.
Definition pnth (v : pyval) (i : nat) : pyval := nth i (pl v) (PE OtherErr).

Fixpoint forall2b {A B} (f : A -> B -> bool) (l : list A) (m : list B) : bool :=
  match l, m with
  | [], [] => true
  | a :: l', b :: m' => (f a b && forall2b f l' m')%bool
  | _, _ => false
  end.

(* the checker searches the tables by bisection (equal to the model's search on increasing
   abscissae: Props/C05.v C05_locate_fast_correct) *)
Definition LF : locator := locate_fast.

(* scattering factors at energy x on table t against (f1, f2): exact at a node *)
Definition chk_sf (t : xtable) (x : Q) (f1 f2 : pyval) : bool :=
  let l := LF t x in
  let '((m1, m2), (s1, s2)) := sfs_loc l x in
  let ex := match l with LNode _ => true | _ => false end in
  (chk_val ex s1 f1 m1 && chk_val ex s2 f2 m2)%bool.

(* ------------------------------------------------------------------ cases *)
Inductive query :=
| QLen (n : pyval)                                  (* sftable.shape == (3, n) *)
| QRow (i : nat) (e f1 f2 : pyval)                  (* sftable[:, i] *)
| QSf (x : pyval) (f1 f2 : pyval)                   (* scattering_factors(energy=x) *)
| QSfW (w : pyval) (e : pyval) (f1 f2 : pyval)      (* scattering_factors(wavelength=w); e = xray_energy(w) *)
| QSfVec (xs : pyval) (f1s f2s : pyval)             (* scattering_factors(energy=array) *)
| QSfVecW (ws : pyval) (f1s f2s : pyval)            (* scattering_factors(wavelength=array) *)
| QElSld (x : pyval) (r : pyval).                   (* xray.sld(energy=x): [rho; irho] or [None; None] *)

Inductive cquery :=
(* xray_sld(structure, density=, natural_density=, energy=x | wavelength=x) -> [rho; irho] *)
| QSld (s : struct) (dens natdens : option Q) (byw : bool) (x : pyval) (r : pyval)
(* the same with a vector argument: r = [rhos; irhos] *)
| QSldVec (s : struct) (dens natdens : option Q) (byw : bool) (xs : pyval) (r : pyval)
(* index_of_refraction(...) -> [re; im] *)
| QRefr (s : struct) (dens natdens : option Q) (byw : bool) (x : pyval) (r : pyval)
(* mirror_reflectivity(..., angle=deg, roughness=sg)[0][0] *)
| QMirror (s : struct) (dens natdens : option Q) (byw : bool) (x : pyval) (deg sg : pyval) (r : pyval).

Inductive c05case :=
(* atoms using one table file (an element, its ions and isotopes); has: sftable is not None *)
| CEl (l : list (atom * bool * list query))
| CGroup (zs : list Z) (qs : list cquery)                (* compounds over the elements zs *)
| CF0 (a : atom) (qs : list (pyval * pyval))             (* xray.f0(Q) *)
| CConv (x : pyval) (wl en : pyval)                      (* xray_wavelength(x), xray_energy(x) *)
| CPi (p : pyval).                                       (* numpy.pi *)

(* ------------------------------------------------------------------ element cases *)
Definition q_name (q : query) : string :=
  match q with
  | QLen _ => "sftable.shape" | QRow _ _ _ _ => "sftable[:,i]" | QSf _ _ _ => "scattering_factors(energy)"
  | QSfW _ _ _ _ => "scattering_factors(wavelength)" | QSfVec _ _ _ => "scattering_factors(energy=vector)"
  | QSfVecW _ _ _ => "scattering_factors(wavelength=vector)" | QElSld _ _ => "xray.sld"
  end%string.

Definition chk_query (t : xtable) (nd : res Q) (q : query) : bool :=
  match q with
  | QLen n => match n with PI z => Z.eqb z (Z.of_nat (List.length t)) | _ => false end
  | QRow i e f1 f2 =>
      match nth_error t i with
      | Some (k, (y1, y2)) => (chk_exact e k && chk_val true 0 f1 y1 && chk_exact f2 y2)%bool
      | None => false
      end
  | QSf x f1 f2 => match py_Q x with Some xq => chk_sf t xq f1 f2 | None => false end
  | QSfW w e f1 f2 =>
      match py_Q w with
      | Some wq =>
          let eq := conv_fl wq in
          (chk_exact e eq && chk_val false eq e (Some (conv_Q wq)) && chk_sf t eq f1 f2)%bool
      | None => false
      end
  | QSfVec xs f1s f2s =>
      (is_pl xs && forall2b (fun x ff => match py_Q x with Some xq => chk_sf t xq (fst ff) (snd ff) | None => false end)
                 (pl xs) (combine (pl f1s) (pl f2s))
       && Nat.eqb (List.length (pl xs)) (List.length (pl f1s)) && Nat.eqb (List.length (pl xs)) (List.length (pl f2s)))%bool
  | QSfVecW ws f1s f2s =>
      (is_pl ws && forall2b (fun w ff => match py_Q w with Some wq => chk_sf t (conv_fl wq) (fst ff) (snd ff) | None => false end)
                 (pl ws) (combine (pl f1s) (pl f2s))
       && Nat.eqb (List.length (pl ws)) (List.length (pl f1s)) && Nat.eqb (List.length (pl ws)) (List.length (pl f2s)))%bool
  | QElSld x r =>
      match py_Q x with
      | Some xq =>
          match nd with
          | Val n =>
              let k := RE * n * (1 # 100000000) in
              let '((m1, m2), (s1, s2)) := sfs LF t xq in
              (chk_val false (Qabs k * s1) (pnth r 0) (oscale k m1)
               && chk_val false (Qabs k * s2) (pnth r 1) (oscale k m2))%bool
          | NoneVal => (is_none (pnth r 0) && is_none (pnth r 1))%bool
          | Raise => v_err r
          end
      | None => false
      end
  end.

(* without a table: scattering_factors and sld give (None, None), sftable is None *)
Definition chk_query_none (q : query) : bool :=
  match q with
  | QSf _ f1 f2 => (is_none f1 && is_none f2)%bool
  | QSfW _ _ f1 f2 => (is_none f1 && is_none f2)%bool
  | QElSld _ r => (is_none (pnth r 0) && is_none (pnth r 1))%bool
  | _ => false
  end.

Definition cache := list (string * res xtable).
Definition table_of (c : cache) (a : atom) : res xtable :=
  let name := nff_name (xray_symbol EB05 a) in
  match find (fun p => String.eqb (fst p) name) c with
  | Some p => snd p
  | None => sftable EB05 nff_files a
  end.
Definition load_cache (al : list atom) : cache :=
  map (fun a => (nff_name (xray_symbol EB05 a), sftable EB05 nff_files a)) al.

Definition el_verdicts1 (t : tbl) (d : dens) (ch : cache) (a : atom) (has : bool) (qs : list query) : list (string * bool) :=
  match table_of ch a with
  | Val tb =>
      let nd := number_density_of NA t d (az a) in
      ("sftable is not None"%string, has) :: map (fun q => (q_name q, chk_query tb nd q)) qs
  | NoneVal => ("sftable is None"%string, negb has) :: map (fun q => (q_name q, chk_query_none q)) qs
  | Raise => [("model could not load the table"%string, false)]
  end.
Definition el_verdicts (t : tbl) (d : dens) (l : list (atom * bool * list query)) : list (string * bool) :=
  let ch := load_cache (match l with (a, _, _) :: _ => [a] | [] => [] end) in
  flat_map (fun e => let '(a, has, qs) := e in el_verdicts1 t d ch a has qs) l.

(* ------------------------------------------------------------------ compound cases *)
Definition cq_name (q : cquery) : string :=
  match q with
  | QSld _ _ _ _ _ _ => "xray_sld" | QSldVec _ _ _ _ _ _ => "xray_sld(vector)"
  | QRefr _ _ _ _ _ _ => "index_of_refraction" | QMirror _ _ _ _ _ _ _ _ => "mirror_reflectivity"
  end%string.

(* the energy at which xray_sld looks up the tables *)
Definition sld_energy (byw : bool) (x : Q) : Q := if byw then conv_fl x else x.

Definition run_sld (E : aenv) (c : cache) (s : struct) (dens natdens : option Q) (en : Q) :=
  xray_sld_run LF E RE NA (table_of c) s dens natdens en.

Definition chk_sld1 (E : aenv) (c : cache) (s : struct) (dens natdens : option Q) (en : Q) (r1 r2 : pyval) : bool :=
  match run_sld E c s dens natdens en with
  | Val ((m1, m2), (s1, s2)) => (chk_val false s1 r1 m1 && chk_val false s2 r2 m2)%bool
  | _ => false
  end.

(* |v - e| <= 2^tp * |scale| + extra, e and scale enclosed *)
Definition within2 (tp : Z) (extra : Q) (p : Q) (enc scale : option (Q * Q)) : bool :=
  match enc, scale with
  | Some (lo, hi), Some (slo, shi) =>
      let t := Qmax (Qabs slo) (Qabs shi) * D2Q 1 tp + extra in
      (Qle_bool (lo - t) p && Qle_bool p (hi + t))%bool
  | _, _ => false
  end.

(* wavelength and the (rho, irho) the refraction index is built from:
   index_of_refraction converts energy to wavelength first, xray_sld converts it back *)
Definition refr_inputs (E : aenv) (c : cache) (s : struct) (dens natdens : option Q) (byw : bool) (x : Q)
  : option (Q * Q * Q) :=
  let lam := if byw then x else conv_fl x in
  match run_sld E c s dens natdens (conv_fl lam) with
  | Val ((Some r, Some i), _) => Some (lam, r, i)
  | _ => None
  end.

Definition chk_cquery (E : aenv) (c : cache) (q : cquery) : bool :=
  match q with
  | QSld s dens natdens byw x r =>
      match py_Q x with
      | Some xq =>
          match run_sld E c s dens natdens (sld_energy byw xq) with
          | Raise => v_err r
          | _ => (is_pl r && chk_sld1 E c s dens natdens (sld_energy byw xq) (pnth r 0) (pnth r 1))%bool
          end
      | None => false
      end
  | QSldVec s dens natdens byw xs r =>
      (is_pl xs && forall2b (fun x rr => match py_Q x with
                                        | Some xq => chk_sld1 E c s dens natdens (sld_energy byw xq) (fst rr) (snd rr)
                                        | None => false end)
                 (pl xs) (combine (pl (pnth r 0)) (pl (pnth r 1)))
       && Nat.eqb (List.length (pl xs)) (List.length (pl (pnth r 0)))
       && Nat.eqb (List.length (pl xs)) (List.length (pl (pnth r 1))))%bool
  | QRefr s dens natdens byw x r =>
      match py_Q x with
      | Some xq =>
          match refr_inputs E c s dens natdens byw xq with
          | Some (lam, rho, irho) =>
              match py_Q (pnth r 0), py_Q (pnth r 1) with
              | Some pr, Some pi =>
                  let dr := enclose (delta_expr (ECst lam) (ECst rho)) in
                  let di := enclose (n_im_expr (ECst lam) (ECst irho)) in
                  (* 1 - Re n against delta: 2^-30 of delta plus the rounding of the subtraction from 1 *)
                  (within2 (-30) (D2Q 1 (-50)) (1 - pr) dr dr && within2 (-30) 0 pi di di)%bool
              | _, _ => false
              end
          | None => (is_nan (pnth r 0) || is_nan (pnth r 1) || v_err r)%bool
          end
      | None => false
      end
  | QMirror s dens natdens byw x deg sg r =>
      match py_Q x, py_Q deg, py_Q sg with
      | Some xq, Some dq, Some sq =>
          match refr_inputs E c s dens natdens byw xq with
          | Some (lam, rho, irho) =>
              match py_Q r with
              | Some p =>
                  let lamE := ECst lam in
                  let ri := refl_staged PREC lamE (n_re_expr lamE (ECst rho)) (n_im_expr lamE (ECst irho))
                                        (radians_expr (ECst dq)) (ECst sq) in
                  (* R = |r|^2: the allowance is relative to |r| *)
                  within2 (-30) 0 p (bounds_Q ri)
                          (bounds_Q (I.mul PREC (I.fromZ PREC 2) (I.sqrt PREC ri)))
              | None => false
              end
          | None => (is_nan r || v_err r)%bool
          end
      | _, _, _ => false
      end
  end.

(* ------------------------------------------------------------------ f0 *)
Definition chk_f0 (f : cmf) (qv r : pyval) : bool :=
  match py_Q qv with
  | Some q =>
      match f0_model f q with
      | None => is_nan r
      | Some e =>
          match py_Q r with
          | Some p =>
              (* magnitude of the terms: sum |a_i| + |c| (every exponential is at most 1) *)
              let sc := Qsum (map Qabs (cm_a f)) + Qabs (cm_c f) in
              within (-30) p (enclose_at 64 e) (Some (sc, sc))
          | None => false
          end
      end
  | None => false
  end.

(* ------------------------------------------------------------------ all cases *)
Definition verdicts (t : tbl) (d : dens) (cm : cmdict) (c : c05case) : list (string * bool) :=
  match c with
  | CEl l => el_verdicts t d l
  | CGroup zs qs =>
      let E := env_with (Some t) (Some d) in
      let ch := load_cache (map (fun z => mkAtom z 0 0) zs) in
      map (fun q => (cq_name q, chk_cquery E ch q)) qs
  | CF0 a qs =>
      (* Xray.f0: fxrayatq(symbol=self.element.symbol, charge=self.element.charge) *)
      match cm_lookup cm (cm_symbol (f0_symbol EB05 a) (Some (aq a))) with
      | Some f => map (fun qr => ("xray.f0"%string, chk_f0 f (fst qr) (snd qr))) qs
      | None => map (fun qr => ("xray.f0 without coefficients: KeyError"%string, v_is KeyErr (snd qr))) qs
      end
  | CConv x wl en =>
      match py_Q x with
      | Some xq => [("xray_wavelength"%string, (chk_exact wl (conv_fl xq) && chk_val false (conv_Q xq) wl (Some (conv_Q xq)))%bool);
                    ("xray_energy"%string, (chk_exact en (conv_fl xq) && chk_val false (conv_Q xq) en (Some (conv_Q xq)))%bool)]
      | None => [("xray_wavelength"%string, false)]
      end
  | CPi p => [("numpy.pi"%string, chk_exact p PI64)]
  end.

Definition check_case (t : tbl) (d : dens) (cm : cmdict) (c : c05case) : bool :=
  forallb snd (verdicts t d cm c).

Definition check_all_with (ot : option tbl) (od : option dens) (ocm : option cmdict) (cases : list c05case) : list bool :=
  match ot, od, ocm with
  | Some t, Some d, Some cm => map (check_case t d cm) cases
  | _, _, _ => [false]
  end.
Definition check_all := check_all_with the_tbl the_dens the_cm05.

(* failing observables of a case, with their position among the case's queries *)
Fixpoint diag_list (l : list (string * bool)) (i : N) : list string :=
  match l with
  | [] => []
  | (n, b) :: r => if b then diag_list r (i + 1)%N else ("#" ++ N_to_string i ++ " " ++ n)%string :: diag_list r (i + 1)%N
  end.
Definition diag_case (t : tbl) (d : dens) (cm : cmdict) (c : c05case) : string :=
  String.concat "; " (firstn 6 (diag_list (verdicts t d cm c) 0%N)).
Definition diag_all_with (ot : option tbl) (od : option dens) (ocm : option cmdict) (cases : list c05case) : list string :=
  match ot, od, ocm with
  | Some t, Some d, Some cm => map (diag_case t d cm) cases
  | _, _, _ => ["model loader failed"%string]
  end.
Definition diag_all := diag_all_with the_tbl the_dens the_cm05.
