(* Model/NeutronEval.v — how the neutron checks (C03, C04, C16, C17) run IExpr expressions: the
   same rigorous interval evaluation as IExpr.evalI (Coq-Interval's FloatIntervalFull operations
   under vm_compute), but
     * over the library's BigInt mantissas (Specific_bigint.BigIntRadix2: primitive 63-bit words,
       ~10x faster than the StdZ instance used for the theorems) at 40 bits, and
     * memoising: sub-expressions that were already enclosed (the wavelength, per-atom b_c, the
       sums over the unit cell, the number density) are looked up instead of being recomputed for
       each of the seven outputs.
   Used only to *run* model and spec next to the implementation; no theorem depends on it.
   Proofs/C03Eval.v proves it sound (every value it returns encloses evalR). *)
From Coq Require Import ZArith QArith List Bool.
From Interval Require Import Specific_bigint Specific_ops Float_full Interval Xreal Basic.
From Bignums Require Import BigZ.
From PT Require Import IExpr.
Import ListNotations.

Module FB := SpecificFloat BigIntRadix2.
Module IB := FloatIntervalFull FB.

Definition PRC : FB.precision := FB.PtoP 40.

Definition Qsame (x y : Q) : bool := (Z.eqb (Qnum x) (Qnum y) && Pos.eqb (Qden x) (Qden y))%bool.
Fixpoint expr_eqb (a b : expr) : bool :=
  match a, b with
  | EVar n, EVar m => Nat.eqb n m
  | ECst x, ECst y => Qsame x y
  | EPi, EPi => true
  | EAdd a1 a2, EAdd b1 b2 | ESub a1 a2, ESub b1 b2 | EMul a1 a2, EMul b1 b2 | EDiv a1 a2, EDiv b1 b2 =>
      (expr_eqb a1 b1 && expr_eqb a2 b2)%bool
  | ENeg x, ENeg y | EAbs x, EAbs y | ESqrt x, ESqrt y | ESqr x, ESqr y
  | EExp x, EExp y | ELn x, ELn y | ECos x, ECos y | ESin x, ESin y => expr_eqb x y
  | EPow x n, EPow y m => (Z.eqb n m && expr_eqb x y)%bool
  | _, _ => false
  end.

Definition cache := list (expr * IB.type).
Fixpoint lookup (e : expr) (c : cache) : option IB.type :=
  match c with
  | [] => None
  | (e', i) :: r => if expr_eqb e e' then Some i else lookup e r
  end.

Definition cst_I (q : Q) : IB.type :=
  IB.div PRC (IB.fromZ PRC (Qnum q)) (IB.fromZ PRC (Zpos (Qden q))).

(* closed expressions only: a variable is not-a-number *)
Fixpoint mev (c : cache) (e : expr) : IB.type :=
  let go (e : expr) : IB.type :=
    match e with
    | EVar n => IB.nai
    | ECst q => cst_I q
    | EPi => IB.pi PRC
    | EAdd a b => IB.add PRC (mev c a) (mev c b)
    | ESub a b => IB.sub PRC (mev c a) (mev c b)
    | EMul a b => IB.mul PRC (mev c a) (mev c b)
    | EDiv a b => IB.div PRC (mev c a) (mev c b)
    | ENeg a => IB.neg (mev c a)
    | EAbs a => IB.abs (mev c a)
    | ESqrt a => IB.sqrt PRC (mev c a)
    | ESqr a => IB.sqr PRC (mev c a)
    | EExp a => IB.exp PRC (mev c a)
    | ELn a => IB.ln PRC (mev c a)
    | ECos a => IB.cos PRC (mev c a)
    | ESin a => IB.sin PRC (mev c a)
    | EPow a n => IB.power_int PRC (mev c a) n
    end in
  match e with
  | EVar _ | EPi => go e
  | _ => match lookup e c with Some i => i | None => go e end
  end.

Definition memo (c : cache) (e : expr) : cache := (e, mev c e) :: c.
Definition memo_all (c : cache) (l : list expr) : cache := fold_left memo l c.

(* rational end points *)
Definition floatB_Q (f : FB.type) : option Q :=
  match f with
  | Specific_ops.Float m e =>
      let m := BigZ.to_Z m in
      let e := BigZ.to_Z e in
      Some (if (0 <=? e)%Z then Qmake (m * 2 ^ e) 1 else Qmake m (Z.to_pos (2 ^ (- e))))
  | _ => None
  end.
Definition boundsB_Q (i : IB.type) : option (Q * Q) :=
  match i with
  | Float.Ibnd l u => match floatB_Q l, floatB_Q u with Some a, Some b => Some (a, b) | _, _ => None end
  | _ => None
  end.
Definition enc_c (c : cache) (e : expr) : option (Q * Q) := boundsB_Q (mev c e).
