(* Model/Act.v — code-shaped model of periodictable.activation: the reader of activation.dat
   (activation.init) run on the raw lines regenerated from /repo (Gen/ActivationDat.v), and
   activity() for one reaction row, producing real-valued expressions (Analytic/IExpr.expr).
   Every branch decision is taken on exact rationals (for the two quantities that contain ln 2,
   by comparing a rational with certified rational bounds of ln 2; "undecided" is an outcome).
   Next to each code-shaped expression the model gives (a) the magnitude M of the terms the code
   adds and subtracts (allowance of the model/implementation comparison) and (b) the closed-form
   solution of the reaction chain as an expression (Spec/Activation.v, proved equal in
   Proofs/C14Proofs.v).  No proofs here. *)
From Coq Require Import ZArith QArith Qabs String Ascii List Bool.
From PT Require Import Str Dec Py IExpr.
From PT.Gen Require Import ActivationDat.
Import ListNotations.
Open Scope string_scope.

(* ------------------------------------------------------------------ reader (activation.init) *)

Record arow := mkRow {
  r_Z : Z; r_A : Z;
  r_isotope : string; r_daughter : string; r_reaction : string; r_fast : bool;
  r_abundance : Q; r_xs : Q; r_res : Q; r_thalf : Q;
  r_thalf_par : Q; r_xs_par : Q; r_res_par : Q;
  r_thalf_str : string }.

Fixpoint index_of (name : string) (l : list string) (i : nat) : option nat :=
  match l with
  | [] => None
  | x :: r => if String.eqb x name then Some i else index_of name r (S i)
  end.
Fixpoint memZ (z : Z) (l : list Z) : bool :=
  match l with [] => false | x :: r => (Z.eqb x z || memZ z r)%bool end.

Definition bindo {A B} (x : option A) (f : A -> option B) : option B :=
  match x with Some a => f a | None => None end.
Notation "'do' x <- e ; k" := (bindo e (fun x => k)) (at level 200, x pattern, right associativity).

(* c[1:-1] if c starts with a double quote, else c *)
Definition unquote (c : string) : string := if startswith """" c then strip_ends c else c.

Section Reader.
  Variables (names : list string) (ints bools floats : list Z).

  (* the value of a named column after the typed conversions of init; None = Python would raise
     or would leave a value of another type than the one activity() needs *)
  Definition cell (cols : list string) (name : string) : option (nat * string) :=
    do i <- index_of name names 0;
    if Nat.ltb i (length cols) then Some (i, nth i cols "") else None.

  Definition get_float (cols : list string) (name : string) : option Q :=
    do ic <- cell cols name; let '(i, c) := ic in
    if negb (memZ (Z.of_nat i) floats) then None else
    if String.eqb (strip c) "" then Some 0%Q else parse_dec c.

  Definition get_int (cols : list string) (name : string) : option Z :=
    do ic <- cell cols name; let '(i, c) := ic in
    if negb (memZ (Z.of_nat i) ints) then None else parse_int c.

  Definition get_bool (cols : list string) (name : string) : option bool :=
    do ic <- cell cols name; let '(i, c) := ic in
    if negb (memZ (Z.of_nat i) bools) then None else Some (String.eqb c "y").

  Definition get_str (cols : list string) (name : string) : option string :=
    do ic <- cell cols name; let '(i, c) := ic in
    if (memZ (Z.of_nat i) floats || memZ (Z.of_nat i) ints || memZ (Z.of_nat i) bools)%bool then None
    else Some c.

  (* None = init raises on this line; Some None = the line is skipped *)
  Definition read_line (line : string) : option (option arow) :=
    let raw := split_char (ascii_of_nat 9) line in
    let c0 := strip (hd "" raw) in
    if (String.eqb c0 "" || String.eqb c0 "xx")%bool then Some None else
    let cols := map unquote raw in
    (* every typed column must convert, whether or not activity() uses it *)
    if negb (forallb (fun z => match parse_int (nth (Z.to_nat z) cols "") with Some _ => true | None => false end) ints)
    then None else
    if negb (forallb (fun z => let c := nth (Z.to_nat z) cols "" in
                               if String.eqb (strip c) "" then true else
                               match parse_dec c with Some _ => true | None => false end) floats)
    then None else
    do z <- get_int cols "Z"; do a <- get_int cols "A";
    do iso <- get_str cols "isotope"; do dau <- get_str cols "daughter";
    do rea <- get_str cols "reaction"; do fast <- get_bool cols "fast";
    do ab <- get_float cols "abundance";
    do xs <- get_float cols "thermalXS"; do res <- get_float cols "resonance";
    do th <- get_float cols "Thalf_hrs"; do thp <- get_float cols "Thalf_parent";
    do xsp <- get_float cols "thermalXS_parent"; do resp <- get_float cols "resonance_parent";
    do t1 <- get_str cols "_Thalf"; do t2 <- get_str cols "_Thalf_unit";
    Some (Some (mkRow z a iso dau rea fast ab xs res th thp xsp resp (t1 ++ " " ++ t2))).

  Fixpoint read_lines (ls : list string) (acc : list arow) : option (list arow) :=
    match ls with
    | [] => Some (rev acc)
    | l :: r => match read_line l with
                | None => None
                | Some None => read_lines r acc
                | Some (Some row) => read_lines r (row :: acc)
                end
    end.
End Reader.

(* The data file documents its own layout: three header lines label the columns ("Thermal (b)",
   "Resonance (b)", "t1/2 in hr", "t1/2 of parent", "thermal / resonance ... of 2n precursor", "Abund",
   "Z", "A", "Nuclide", "%IT", "Comments").  The column a name of COLUMN_NAMES selects must be the
   column so labelled. *)
Fixpoint find_cell (label : string) (cols : list string) (i : nat) : option nat :=
  match cols with
  | [] => None
  | x :: r => if String.eqb (strip x) label then Some i else find_cell label r (S i)
  end.
Fixpoint header_col (lines : list string) (label : string) : option nat :=
  match lines with
  | [] => None
  | l :: r =>
      let raw := split_char (ascii_of_nat 9) l in
      let c0 := strip (hd "" raw) in
      if (String.eqb c0 "" || String.eqb c0 "xx")%bool then
        match find_cell label raw 0 with Some i => Some i | None => header_col r label end
      else header_col r label
  end.
Definition header_labels : list (string * string) :=
  [("Thermal", "thermalXS"); ("Resonance", "resonance"); ("in hr", "Thalf_hrs"); ("parent", "Thalf_parent");
   ("thermal", "thermalXS_parent"); ("resonance", "resonance_parent"); ("Abund", "abundance");
   ("Z", "Z"); ("A", "A"); ("Nuclide", "daughter"); ("%IT", "percentIT"); ("Comments", "comments")].
Definition opt_nat_eqb (a b : option nat) : bool :=
  match a, b with Some x, Some y => Nat.eqb x y | _, _ => false end.
Definition columns_match_header (names lines : list string) : bool :=
  forallb (fun p => opt_nat_eqb (header_col lines (fst p)) (index_of (snd p) names 0)) header_labels.

Definition the_rows : option (list arow) :=
  read_lines act_column_names act_int_columns act_bool_columns act_float_columns activation_dat [].

(* isotope.neutron_activation: the rows of (Z, A) in file order *)
Definition rows_of (rows : list arow) (z a : Z) : list arow :=
  filter (fun r => (Z.eqb (r_Z r) z && Z.eqb (r_A r) a)%bool) rows.

(* ------------------------------------------------------------------ expressions *)
Definition c (q : Q) : expr := ECst q.
Definition LN2 : expr := EVar 0.   (* ln 2: the environment of these expressions is ActEval.ln2_env_R *)
Definition eexp_neg (e : expr) : expr := EExp (ENeg e).
Definition expm1 (e : expr) : expr := ESub (EExp e) (c 1).
Infix "+:" := EAdd (at level 50, left associativity).
Infix "-:" := ESub (at level 50, left associativity).
Infix "*:" := EMul (at level 40, left associativity).
Infix "/:" := EDiv (at level 40, left associativity).

(* certified rational bounds of ln 2 (Proofs/C14Proofs.ln2_bounds) *)
Definition ln2_lo : Q := 6931471805599453 # 10000000000000000.
Definition ln2_hi : Q := 6931471805599454 # 10000000000000000.
(* is  a + b * ln 2 < 0 ?   (a, b rationals) *)
Definition lin_ln2_neg (a b : Q) : option bool :=
  let lo := if Qle_bool 0 b then (a + b * ln2_lo)%Q else (a + b * ln2_hi)%Q in
  let hi := if Qle_bool 0 b then (a + b * ln2_hi)%Q else (a + b * ln2_lo)%Q in
  if Qlt_le_dec hi 0 then Some true else if Qle_bool 0 lo then Some false else None.

Definition Qlt_bool (a b : Q) : bool := negb (Qle_bool b a).

(* constants of activity(), as the decimal numbers the source writes *)
Definition BARN : Q := 1 # 1000000000000000000000000.      (* 1e-24 *)
Definition HOUR : Q := 3600.
Definition KUCI : Q := 16278000000000000000.                (* 1.6278e19 *)
Definition SMALL : Q := 1 # 10000000000.                    (* 1e-10 *)

Inductive branch := BMain | BSmall | BB | B2n.

Inductive outcome :=
| OSkip                                   (* the row contributes no entry *)
| ORaise (e : err)                  (* activity() raises *)
| OUndecided                              (* a branch test is closer to its threshold than ln 2 is known *)
| OAct (br : branch) (a m lam spec : expr).  (* activity at end of irradiation, allowance scale, decay constant, chain solution *)

Record actenv := mkEnv { fluence : Q; cd_ratio : Q; fast_ratio : Q }.
Definition epi_factor (e : actenv) : Q := if Qle_bool 1 (cd_ratio e) then (1 / cd_ratio e)%Q else 0%Q.

(* relative conditioning of the float subtraction x - y given magnitudes *)
Definition cond2 (x y : expr) : expr := (EAbs x +: EAbs y) /: EAbs (x -: y).

(* ---- 'b' rows (activation.py lines 403-423); root, plam, lam, t are expressions *)
Definition b_code (root plam lam t : expr) : expr :=
  root /: (plam -: lam) *: (lam *: expm1 (ENeg plam *: t) -: plam *: expm1 (ENeg lam *: t)).
Definition b_scale (root plam lam t : expr) : expr :=
  EAbs root /: EAbs (plam -: lam) *: cond2 plam lam *:
  (lam *: EAbs (expm1 (ENeg plam *: t)) +: plam *: EAbs (expm1 (ENeg lam *: t))).
(* chain: P' = R - lp P, D' = lp P - l D; activity l D, with R = root *)
Definition b_spec (root plam lam t : expr) : expr :=
  root *: (c 1 -: (plam *: eexp_neg (lam *: t) -: lam *: eexp_neg (plam *: t)) /: (plam -: lam)).

(* ---- '2n' rows (lines 425-445): lam_2n = k1, parent_activity = k2c + plam, product_2n = lam *)
Definition n2_term (a b d t : expr) : expr := eexp_neg (a *: t) /: ((b -: a) *: (d -: a)).
Definition n2_code (root lam plam k1 k2c t : expr) : expr :=
  let pact := k2c +: plam in
  root *: lam *: (pact -: plam) *: (n2_term k1 pact lam t +: n2_term pact k1 lam t +: n2_term lam k1 pact t).
Definition n2_scale (root lam plam k1 k2c t : expr) : expr :=
  let pact := k2c +: plam in
  EAbs (root *: lam) *: (EAbs pact +: plam) *:
  (EAbs (n2_term k1 pact lam t) *: cond2 pact k1 *: cond2 lam k1 +:
   EAbs (n2_term pact k1 lam t) *: cond2 k1 pact *: cond2 lam pact +:
   EAbs (n2_term lam k1 pact t) *: cond2 k1 lam *: cond2 pact lam).
(* chain: N1' = -k1 N1, N2' = k1 N1 - kp N2, N3' = k2c N2 - l N3; activity l N3 (Bateman), kp = k2c + plam *)
Definition n2_spec (root lam plam k1 k2c t : expr) : expr :=
  let kp := k2c +: plam in
  root *: lam *: k2c *: (n2_term k1 kp lam t +: n2_term kp k1 lam t +: n2_term lam k1 kp t).

(* ---- all other rows (lines 448-474): burn-up of target and product *)
Definition act_d (lam k1 kb : expr) : expr := lam -: k1 +: kb.
Definition act_V (lam kb t : expr) : expr := (kb +: lam) *: t.
Definition main_code (root lam k1 kb t : expr) : expr :=
  root *: (lam /: act_d lam k1 kb *: (eexp_neg (k1 *: t) -: eexp_neg (act_V lam kb t))).
Definition small_code (root lam k1 kb t : expr) : expr :=
  let U := k1 *: t in let V := act_V lam kb t in
  root *: (lam /: act_d lam k1 kb *: (V -: U +: (V +: U) /: c 2)).
Definition act_scale_pre (root lam k1 kb : expr) : expr :=
  EAbs root *: lam *: (lam +: EAbs k1 +: EAbs kb) /: (act_d lam k1 kb *: act_d lam k1 kb).
Definition main_scale (root lam k1 kb t : expr) : expr :=
  act_scale_pre root lam k1 kb *: (eexp_neg (k1 *: t) +: eexp_neg (act_V lam kb t)).
Definition small_scale (root lam k1 kb t : expr) : expr :=
  let U := EAbs (k1 *: t) in let V := EAbs (act_V lam kb t) in
  act_scale_pre root lam k1 kb *: (V +: U +: (V +: U) /: c 2).
(* chain: N1' = -k1 N1, N2' = k1 N1 - k2 N2, k2 = kb + lam; activity lam N2 / 3600 with N0 = atoms *)
Definition act_spec (atoms lam k1 kb t : expr) : expr :=
  lam /: c HOUR *: (atoms *: k1 /: ((kb +: lam) -: k1) *: (eexp_neg (k1 *: t) -: eexp_neg ((kb +: lam) *: t))).

(* initialXS, effectiveXS and the flux the first reaction sees *)
Definition row_xs (r : arow) (env : actenv) : Q := (r_xs r + epi_factor env * r_res r)%Q.
Definition row_xs2 (r : arow) (env : actenv) : Q := (r_xs_par r + epi_factor env * r_res_par r)%Q.
Definition row_flux (r : arow) (env : actenv) : Q :=
  if r_fast r then (fluence env / fast_ratio env)%Q else fluence env.

(* the repaired form (x = d*exposure; W*exp(-U)*-expm1(-x) if x >= 0 else W*exp(-V)*expm1(x)) *)
Definition act_x (lam k1 kb t : expr) : expr := act_d lam k1 kb *: t.
Definition expm1_code_pos (root lam k1 kb t : expr) : expr :=
  root *: (lam /: act_d lam k1 kb *: eexp_neg (k1 *: t) *: ENeg (expm1 (ENeg (act_x lam k1 kb t)))).
Definition expm1_code_neg (root lam k1 kb t : expr) : expr :=
  root *: (lam /: act_d lam k1 kb *: eexp_neg (act_V lam kb t) *: expm1 (act_x lam k1 kb t)).
(* no subtraction of nearly equal numbers is left; what remains is the sensitivity of W*expm1(-d t) to the
   rounding of d = lam - k1 + kb: relative (lam+|k1|+|kb|)/|d| when |d t| is large, (lam+|k1|+|kb|) t when small *)
Definition emin (a b : expr) : expr := (a +: b -: EAbs (a -: b)) /: c 2.
Definition expm1_scale (value lam k1 kb t : expr) : expr :=
  let s := lam +: EAbs k1 +: EAbs kb in
  EAbs value *: (c 1 +: emin (s /: EAbs (act_d lam k1 kb)) (s *: EAbs t)).

(* the three features of activity() the translator reads from the source *)
Record actcfg := mkCfg { cfg_small : bool;      (* the |U|,|V| < 1e-10 branch exists *)
                         cfg_expm1 : bool;      (* the burn-up difference is computed through expm1 *)
                         cfg_err_g : bool }.    (* the error message formats the isotope with %g (TypeError) *)

Definition activity_row_with (cfg : actcfg) (r : arow) (amass : Z) (mass : Q) (env : actenv) (exposure : Q) : outcome :=
  if (r_fast r && Qeq_bool (fast_ratio env) 0)%bool then OSkip else
  let initialXS := row_xs r env in
  let flux := row_flux r env in
  if Z.eqb amass 0 then ORaise ZeroDivErr else
  let root := (flux * initialXS * BARN * mass / inject_Z amass * KUCI)%Q in
  if Qeq_bool (r_thalf r) 0 then ORaise ZeroDivErr else
  let lam := LN2 /: c (r_thalf r) in
  let t := exposure in
  if String.eqb (r_reaction r) "b" then
    if Qeq_bool (r_thalf_par r) 0 then ORaise ZeroDivErr else
    if Qeq_bool (r_thalf_par r) (r_thalf r) then ORaise ZeroDivErr else
    let plam := LN2 /: c (r_thalf_par r) in
    OAct BB (b_code (c root) plam lam (c t)) (b_scale (c root) plam lam (c t)) lam (b_spec (c root) plam lam (c t))
  else if String.eqb (r_reaction r) "2n" then
    if Qeq_bool (r_thalf_par r) 0 then ORaise ZeroDivErr else
    let plam := LN2 /: c (r_thalf_par r) in
    let effectiveXS := row_xs2 r env in
    let k1 := c (flux * initialXS * BARN * HOUR)%Q in
    let k2c := c (fluence env * BARN * HOUR * effectiveXS)%Q in
    OAct B2n (n2_code (c root) lam plam k1 k2c (c t)) (n2_scale (c root) lam plam k1 k2c (c t)) lam
             (n2_spec (c root) lam plam k1 k2c (c t))
  else
    let effectiveXS := row_xs2 r env in
    let k1 := (flux * initialXS * HOUR * BARN)%Q in
    let kb := (fluence env * effectiveXS * HOUR * BARN)%Q in
    let U := (k1 * t)%Q in
    (* abs(V) < 1e-10 :  |kb*t + (t/T) ln2| < 1e-10 ; both summands have the sign of t *)
    let vsmall : option bool :=
      if Qle_bool 0 t then lin_ln2_neg (kb * t - SMALL)%Q (t / r_thalf r)%Q
      else lin_ln2_neg (- (kb * t) - SMALL)%Q (- (t / r_thalf r))%Q in
    let usmall := Qlt_bool (Qabs U) SMALL in
    let spec := act_spec (c (KUCI * mass / inject_Z amass)%Q) lam (c k1) (c kb) (c t) in
    match (if (cfg_small cfg && usmall)%bool then vsmall else Some false) with
    | None => OUndecided
    | Some true =>
        (* activity < 0 raises RuntimeError; a message that formats the isotope with %g is a TypeError instead.
           sign of root*W*(3V-U)/2: decided through ln 2 bounds *)
        let dneg := lin_ln2_neg (kb - k1)%Q (1 / r_thalf r)%Q in                       (* d < 0 *)
        let nneg := lin_ln2_neg (3 * kb * t - U)%Q (3 * t / r_thalf r)%Q in            (* 3V-U < 0 *)
        match dneg, nneg with
        | Some dn, Some nn =>
            if (xorb dn nn && negb (Qeq_bool root 0))%bool then ORaise (if cfg_err_g cfg then TypeErr else RuntimeErr)
            else OAct BSmall (small_code (c root) lam (c k1) (c kb) (c t)) (small_scale (c root) lam (c k1) (c kb) (c t)) lam spec
        | _, _ => OUndecided
        end
    | Some false =>
        if cfg_expm1 cfg then
          (* if x >= 0: ... else: ...   x = (kb - k1) t + (t/T) ln 2; both forms denote the same real, so an
             undecidable sign (|x| below the resolution of the ln 2 bounds) takes the first *)
          let a := match lin_ln2_neg ((kb - k1) * t)%Q (t / r_thalf r)%Q with
                   | Some true => expm1_code_neg (c root) lam (c k1) (c kb) (c t)
                   | _ => expm1_code_pos (c root) lam (c k1) (c kb) (c t)
                   end in
          OAct BMain a (expm1_scale a lam (c k1) (c kb) (c t)) lam spec
        else
          OAct BMain (main_code (c root) lam (c k1) (c kb) (c t)) (main_scale (c root) lam (c k1) (c kb) (c t)) lam spec
    end.

(* the code as it stands: with the small-argument branch iff the source still has it (Gen flag) *)
Definition current_cfg : actcfg := mkCfg act_small_branch act_expm1_form act_error_formats_isotope_with_g.
Definition activity_row := activity_row_with current_cfg.

(* result[ai] = [activity*exp(-lam*Ti) for Ti in rest_times] *)
Definition rest_model (a lam : expr) (ti : Q) : expr := a *: eexp_neg (lam *: c ti).
(* property: falls by exactly 2^(-t/T): exp(-(t/T) ln 2) *)
Definition rest_spec (spec : expr) (thalf ti : Q) : expr := spec *: eexp_neg (c (ti / thalf)%Q *: LN2).

(* ------------------------------------------------------------------ Sample.calculate_activation
   for one formula constituent: an isotope gets mass*frac; a natural element is expanded over its
   isotopes with mass*frac*abundance*0.01 (zero masses skipped).  The abundances are those served by
   the mass table (C06); they are an input here. *)
Definition isotope_activity (rows : list arow) (z a : Z) (im : Q) (env : actenv) (t : Q) : list outcome :=
  map (fun r => activity_row r a im env t) (rows_of rows z a).
Definition element_activity (rows : list arow) (z : Z) (isos : list (Z * Q)) (m : Q) (env : actenv) (t : Q) : list outcome :=
  flat_map (fun ia => let '(a, ab) := ia in
                      let im := (m * ab * (1 # 100))%Q in
                      if Qeq_bool im 0 then [] else isotope_activity rows z a im env t) isos.
(* a whole sample: the constituents of formula.mass_fraction in order, each an isotope or a natural element;
   every occurrence contributes its own entries and _accumulate ADDS the entries of the same product, so a
   nuclide that arrives twice (labelled and through the natural element) counts with the sum of its masses *)
Inductive constituent := CIso (z a : Z) (frac : Q) | CElem (z : Z) (isos : list (Z * Q)) (frac : Q).
Definition constituent_activity (rows : list arow) (m : Q) (env : actenv) (t : Q) (cst : constituent) : list outcome :=
  match cst with
  | CIso z a f => isotope_activity rows z a (m * f)%Q env t
  | CElem z isos f => element_activity rows z isos (m * f)%Q env t
  end.
Definition sample_activity (rows : list arow) (m : Q) (env : actenv) (t : Q) (cs : list constituent) : list outcome :=
  flat_map (constituent_activity rows m env t) cs.
Definition constituent_rows (rows : list arow) (z : Z) (isos : list (Z * Q)) (m : Q) : list (arow * Q) :=
  flat_map (fun ia => let '(a, ab) := ia in
                      let im := (m * ab * (1 # 100))%Q in
                      if Qeq_bool im 0 then [] else map (fun r => (r, im)) (rows_of rows z a)) isos.
