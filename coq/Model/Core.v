(* Model/Core.v — the object-identity machine of periodictable.core (property C08).

   A heap of atom objects over an allocation counter, and the identity-preserving caches
   of the code:
     PeriodicTable._element   : Z -> Element              (one dict per table)
     Element._isotopes        : A -> Isotope              (one dict per Element object)
     IonSet.ionset            : charge -> Ion             (one dict per Element/Isotope object)
   plus the atom-valued instance attributes of a table (setattr(self, symbol, element), D, T)
   and the module namespace filled by define_elements.  Objects are what the Python objects
   are: an Element carries (table, number, name, symbol, ions); an Isotope carries a pointer
   to its element and its isotope number; an Ion a pointer to its element-or-isotope and its
   charge; every other attribute is reached through the __getattr__ delegation chain.

   Operations transcribe PeriodicTable.__init__/__getitem__/__iter__/symbol/name/isotope,
   IonSet.__getitem__, Element.add_isotope/__getitem__/__iter__, the three __reduce__ and the
   four _make_*, change_table, define_elements and the add_isotope calls of mass.init.
   No proofs here. *)
From Coq Require Import ZArith String Ascii List Bool FMapPositive.
From PT Require Import Str Py.
Import ListNotations.
Open Scope string_scope.

Definition oid := positive.
Inductive tabid := TPub | TPriv.     (* the public table and one private table, both registered in PRIVATE_TABLES *)
Definition tab_eqb (a b : tabid) : bool :=
  match a, b with TPub, TPub | TPriv, TPriv => true | _, _ => false end.

Inductive obj :=
| OElement (T : tabid) (z : Z) (name symbol : string) (ions : list Z)
| OIsotope (el : oid) (a : Z)
| OIon (base : oid) (q : Z).

(* ------------------------------------------------------------------ int-keyed dicts *)
Definition zkey (z : Z) : positive :=
  match z with Z0 => 1%positive | Zpos p => xO p | Zneg p => xI p end.
Definition zunkey (k : positive) : Z :=
  match k with xH => 0%Z | xO p => Zpos p | xI p => Zneg p end.

Definition dict := PositiveMap.t oid.
Definition dempty : dict := PositiveMap.empty oid.
Definition dget (d : dict) (k : Z) : option oid := PositiveMap.find (zkey k) d.
Definition dset (d : dict) (k : Z) (v : oid) : dict := PositiveMap.add (zkey k) v d.
Definition ditems (d : dict) : list (Z * oid) :=
  map (fun kv => (zunkey (fst kv), snd kv)) (PositiveMap.elements d).

(* sorted(d.items()) *)
Fixpoint insert (p : Z * oid) (l : list (Z * oid)) : list (Z * oid) :=
  match l with
  | [] => [p]
  | h :: t => if Z.leb (fst p) (fst h) then p :: l else h :: insert p t
  end.
Definition isort (l : list (Z * oid)) : list (Z * oid) := fold_right insert [] l.
Definition sorted_items (d : dict) : list (Z * oid) := isort (ditems d).

(* dicts owned by objects: owner oid -> dict *)
Definition dict_of (m : PositiveMap.t dict) (x : oid) : dict :=
  match PositiveMap.find x m with Some d => d | None => dempty end.
Definition get2 (m : PositiveMap.t dict) (x : oid) (k : Z) : option oid := dget (dict_of m x) k.
Definition set2 (m : PositiveMap.t dict) (x : oid) (k : Z) (v : oid) : PositiveMap.t dict :=
  PositiveMap.add x (dset (dict_of m x) k v) m.

Fixpoint alookup (s : string) (l : list (string * oid)) : option oid :=
  match l with
  | [] => None
  | (k, v) :: r => if String.eqb k s then Some v else alookup s r
  end.

(* ------------------------------------------------------------------ state *)
Record state := mkSt {
  heap : PositiveMap.t obj;
  next : oid;                              (* allocation counter *)
  elems_pub : dict;                        (* PUBLIC_TABLE._element *)
  elems_priv : dict;                       (* private._element *)
  isos : PositiveMap.t dict;               (* Element._isotopes, per element object *)
  ionsets : PositiveMap.t dict;            (* IonSet.ionset, per element/isotope object *)
  attrs_pub : list (string * oid);         (* atom-valued attributes of the table, latest first *)
  attrs_priv : list (string * oid);
  modattrs : list (string * oid)           (* periodictable.<name>, latest first *)
}.

Definition empty_state : state :=
  mkSt (PositiveMap.empty obj) 1%positive dempty dempty (PositiveMap.empty dict) (PositiveMap.empty dict) [] [] [].

Definition elems (s : state) (T : tabid) : dict := match T with TPub => elems_pub s | TPriv => elems_priv s end.
Definition attrs (s : state) (T : tabid) : list (string * oid) :=
  match T with TPub => attrs_pub s | TPriv => attrs_priv s end.
Definition hget (s : state) (x : oid) : option obj := PositiveMap.find x (heap s).

Definition alloc (s : state) (ob : obj) : state * oid :=
  (mkSt (PositiveMap.add (next s) ob (heap s)) (Pos.succ (next s)) (elems_pub s) (elems_priv s)
        (isos s) (ionsets s) (attrs_pub s) (attrs_priv s) (modattrs s), next s).
Definition with_isos (s : state) (m : PositiveMap.t dict) : state :=
  mkSt (heap s) (next s) (elems_pub s) (elems_priv s) m (ionsets s) (attrs_pub s) (attrs_priv s) (modattrs s).
Definition with_ionsets (s : state) (m : PositiveMap.t dict) : state :=
  mkSt (heap s) (next s) (elems_pub s) (elems_priv s) (isos s) m (attrs_pub s) (attrs_priv s) (modattrs s).
Definition set_elem (s : state) (T : tabid) (z : Z) (o : oid) : state :=
  match T with
  | TPub => mkSt (heap s) (next s) (dset (elems_pub s) z o) (elems_priv s) (isos s) (ionsets s)
                 (attrs_pub s) (attrs_priv s) (modattrs s)
  | TPriv => mkSt (heap s) (next s) (elems_pub s) (dset (elems_priv s) z o) (isos s) (ionsets s)
                  (attrs_pub s) (attrs_priv s) (modattrs s)
  end.
Definition push_attr (s : state) (T : tabid) (k : string) (o : oid) : state :=
  match T with
  | TPub => mkSt (heap s) (next s) (elems_pub s) (elems_priv s) (isos s) (ionsets s)
                 ((k, o) :: attrs_pub s) (attrs_priv s) (modattrs s)
  | TPriv => mkSt (heap s) (next s) (elems_pub s) (elems_priv s) (isos s) (ionsets s)
                  (attrs_pub s) ((k, o) :: attrs_priv s) (modattrs s)
  end.
Definition with_modattrs (s : state) (l : list (string * oid)) : state :=
  mkSt (heap s) (next s) (elems_pub s) (elems_priv s) (isos s) (ionsets s) (attrs_pub s) (attrs_priv s) l.

(* result of an expression: an object or the exception raised *)
Inductive r1 := Ok (o : oid) | Er (e : err).

(* ------------------------------------------------------------------ attribute delegation *)
(* the Element at the end of the .element chain, with the attributes served from it:
   (element object, table, number, ions) *)
Definition elem_info (s : state) (e : oid) : option (oid * tabid * Z * list Z) :=
  match hget s e with
  | Some (OElement T z _ _ io) => Some (e, T, z, io)
  | _ => None
  end.
Definition root_info (s : state) (x : oid) : option (oid * tabid * Z * list Z) :=
  match hget s x with
  | Some (OElement T z _ _ io) => Some (x, T, z, io)
  | Some (OIsotope e _) => elem_info s e
  | Some (OIon b _) =>
      match hget s b with
      | Some (OElement T z _ _ io) => Some (b, T, z, io)
      | Some (OIsotope e _) => elem_info s e
      | _ => None
      end
  | None => None
  end.
Definition attr_number (s : state) (x : oid) : option Z :=
  match root_info s x with Some (_, _, z, _) => Some z | None => None end.
Definition attr_table (s : state) (x : oid) : option tabid :=
  match root_info s x with Some (_, T, _, _) => Some T | None => None end.
(* x.isotope: None = AttributeError (an Element has no such attribute) *)
Definition attr_isotope (s : state) (x : oid) : option Z :=
  match hget s x with
  | Some (OIsotope _ a) => Some a
  | Some (OIon b _) => match hget s b with Some (OIsotope _ a) => Some a | _ => None end
  | _ => None
  end.
(* x.charge: class attribute 0 of Element, reached by delegation from an Isotope *)
Definition attr_charge (s : state) (x : oid) : option Z :=
  match hget s x with
  | Some (OIon _ q) => Some q
  | Some _ => Some 0%Z
  | None => None
  end.

(* ------------------------------------------------------------------ the caches *)
(* PeriodicTable.__getitem__ *)
Definition table_getitem (s : state) (T : tabid) (z : Z) : r1 :=
  match dget (elems s T) z with Some o => Ok o | None => Er KeyErr end.

(* Element.__getitem__; Isotope and Ion are not subscriptable (special methods are looked up
   on the type, not through __getattr__) *)
Definition elem_getitem (s : state) (x : oid) (a : Z) : r1 :=
  match hget s x with
  | Some (OElement _ _ _ _ _) =>
      match get2 (isos s) x a with Some o => Ok o | None => Er KeyErr end
  | Some _ => Er TypeErr
  | None => Er OtherErr
  end.

(* Element.add_isotope, reached from an Isotope or Ion through __getattr__ (bound to the element) *)
Definition add_isotope (s : state) (x : oid) (a : Z) : state * r1 :=
  match root_info s x with
  | Some (e, _, _, _) =>
      match get2 (isos s) e a with
      | Some o => (s, Ok o)
      | None =>
          let (s1, o) := alloc s (OIsotope e a) in
          (with_isos s1 (set2 (isos s1) e a o), Ok o)
      end
  | None => (s, Er OtherErr)
  end.

(* self.element_or_isotope.ions for the owner of an IonSet (an Element or an Isotope) *)
Definition owner_ions (s : state) (b : oid) : option (list Z) :=
  match hget s b with
  | Some (OElement _ _ _ _ io) => Some io
  | Some (OIsotope e _) => match hget s e with Some (OElement _ _ _ _ io) => Some io | _ => None end
  | _ => None
  end.

(* IonSet.__getitem__ of the IonSet owned by b *)
Definition ionset_getitem (s : state) (b : oid) (q : Z) : state * r1 :=
  match get2 (ionsets s) b q with
  | Some o => (s, Ok o)
  | None =>
      match owner_ions s b with
      | Some io =>
          if existsb (Z.eqb q) io then
            let (s1, o) := alloc s (OIon b q) in
            (with_ionsets s1 (set2 (ionsets s1) b q o), Ok o)
          else (s, Er ValueErr)
      | None => (s, Er OtherErr)
      end
  end.

(* x.ion[q]: an Ion has no .ion of its own, __getattr__ serves the IonSet of its element *)
Definition get_ion (s : state) (x : oid) (q : Z) : state * r1 :=
  match hget s x with
  | Some (OIon b _) => ionset_getitem s b q
  | Some _ => ionset_getitem s x q
  | None => (s, Er OtherErr)
  end.

(* ------------------------------------------------------------------ pickling *)
(* the argument tuples of _make_element / _make_isotope / _make_ion / _make_isotope_ion *)
Inductive key :=
| KElement (T : tabid) (z : Z)
| KIsotope (T : tabid) (z a : Z)
| KIon (T : tabid) (z q : Z)
| KIsoIon (T : tabid) (z a q : Z).

(* __reduce__ of Element, Isotope, Ion.  For an Ion the try block reads self.element.isotope,
   which raises AttributeError when self.element is an Element: the except branch then
   returns the _make_ion tuple. *)
Definition reduce (s : state) (x : oid) : option key :=
  match hget s x with
  | Some (OElement T z _ _ _) => Some (KElement T z)
  | Some (OIsotope e a) =>
      match elem_info s e with Some (_, T, z, _) => Some (KIsotope T z a) | None => None end
  | Some (OIon b q) =>
      match root_info s b with
      | Some (_, T, z, _) =>
          match attr_isotope s b with
          | Some a => Some (KIsoIon T z a q)
          | None => Some (KIon T z q)
          end
      | None => None
      end
  | None => None
  end.

(* _make_*: _get_table(name) always succeeds, both tables are registered *)
Definition make (s : state) (k : key) : state * r1 :=
  match k with
  | KElement T z => (s, table_getitem s T z)
  | KIsotope T z a =>
      match table_getitem s T z with
      | Ok e => (s, elem_getitem s e a)
      | Er x => (s, Er x)
      end
  | KIon T z q =>
      match table_getitem s T z with
      | Ok e => ionset_getitem s e q
      | Er x => (s, Er x)
      end
  | KIsoIon T z a q =>
      match table_getitem s T z with
      | Ok e => match elem_getitem s e a with
                | Ok i => ionset_getitem s i q
                | Er x => (s, Er x)
                end
      | Er x => (s, Er x)
      end
  end.

(* pickle.loads(pickle.dumps(x)) and copy.deepcopy(x): both call x.__reduce_ex__ and apply
   the restorer to the argument tuple *)
Definition pickle (s : state) (x : oid) : state * r1 :=
  match reduce s x with
  | Some k => make s k
  | None => (s, Er OtherErr)
  end.

(* core.change_table(atom, table) *)
Definition change_table (s : state) (x : oid) (T : tabid) : state * r1 :=
  match hget s x with
  | Some (OIon b q) =>                                   (* ision(atom) *)
      match attr_number s x with
      | Some z =>
          match hget s b with
          | Some (OIsotope _ a) =>                       (* isisotope(atom): atom.element is an Isotope *)
              match table_getitem s T z with
              | Ok e => match elem_getitem s e a with
                        | Ok i => ionset_getitem s i q
                        | Er r => (s, Er r)
                        end
              | Er r => (s, Er r)
              end
          | _ =>
              match table_getitem s T z with
              | Ok e => ionset_getitem s e q
              | Er r => (s, Er r)
              end
          end
      | None => (s, Er OtherErr)
      end
  | Some (OIsotope _ a) =>
      match attr_number s x with
      | Some z => match table_getitem s T z with
                  | Ok e => (s, elem_getitem s e a)
                  | Er r => (s, Er r)
                  end
      | None => (s, Er OtherErr)
      end
  | Some (OElement _ z _ _ _) => (s, table_getitem s T z)
  | None => (s, Er OtherErr)
  end.

(* ------------------------------------------------------------------ lookups by string *)
(* PeriodicTable.__iter__: sorted(self._element.items()) *)
Definition iter_elements (s : state) (T : tabid) : list oid := map snd (sorted_items (elems s T)).

(* PeriodicTable.symbol: hasattr/getattr + isinstance(value, (Element, Isotope)); the other
   attributes of a table (properties, _element, the methods) are not atoms and end in the raise *)
Definition by_symbol (s : state) (T : tabid) (input : string) : r1 :=
  match alookup input (attrs s T) with Some o => Ok o | None => Er ValueErr end.

Definition elem_name_is (s : state) (input : string) (o : oid) : bool :=
  match hget s o with Some (OElement _ _ n _ _) => String.eqb input n | _ => false end.

(* PeriodicTable.name; self.D.name is 'deuterium', self.T.name is 'tritium' (set in __init__) *)
Definition by_name (s : state) (T : tabid) (input : string) : r1 :=
  match find (elem_name_is s input) (iter_elements s T) with
  | Some o => Ok o
  | None =>
      match alookup "D" (attrs s T) with
      | Some d =>
          if String.eqb input "deuterium" then Ok d
          else match alookup "T" (attrs s T) with
               | Some t => if String.eqb input "tritium" then Ok t else Er ValueErr
               | None => Er AttrErr
               end
      | None => Er AttrErr
      end
  end.

(* int(text) for ASCII text: surrounding blanks, one sign, digits with single underscores *)
Fixpoint int_digits (s : string) (acc : Z) (prev_digit : bool) : option Z :=
  match s with
  | EmptyString => if prev_digit then Some acc else None
  | String c r =>
      if is_digit c then int_digits r (acc * 10 + digit_val c)%Z true
      else if Ascii.eqb c "_"%char then (if prev_digit then int_digits r acc false else None)
      else None
  end.
Definition py_int (s0 : string) : option Z :=
  match strip s0 with
  | String c r =>
      if Ascii.eqb c "-"%char then match int_digits r 0 false with Some v => Some (- v)%Z | None => None end
      else if Ascii.eqb c "+"%char then int_digits r 0 false
      else int_digits (String c r) 0 false
  | EmptyString => None
  end.

(* PeriodicTable.isotope: the parsing of '#-Sym' or 'Sym' into (isotope, symbol); the isotope is
   None when the string has no '-' ... *)
Definition parse_iso_string (input : string) : option Z * string :=
  match split_char "-"%char input with
  | [p0] => (None, p0)
  | [p0; p1] => (Some (match py_int p0 with Some v => v | None => (-1)%Z end), p1)
  | _ => (Some (-1)%Z, "")
  end.

(* ... and the lookup *)
Definition by_iso_string (s : state) (T : tabid) (input : string) : r1 :=
  let '(isotope, symbol) := parse_iso_string input in
  match alookup symbol (attrs s T) with
  | Some attr =>
      match hget s attr with
      | Some (OElement _ _ _ _ _) =>
          match isotope with
          | None => Ok attr                                (* if isotope is None: return attr *)
          | Some a =>
              match get2 (isos s) attr a with              (* isotope in attr.isotopes; attr[isotope] *)
              | Some o => Ok o
              | None => Er ValueErr
              end
          end
      | Some (OIsotope _ _) => match isotope with None => Ok attr | Some _ => Er ValueErr end
      | _ => Er ValueErr
      end
  | None => Er ValueErr
  end.

(* getattr(periodictable, name) for the names exported by define_elements *)
Definition mod_attr (s : state) (input : string) : r1 :=
  match alookup input (modattrs s) with Some o => Ok o | None => Er AttrErr end.

(* ------------------------------------------------------------------ operations *)
Inductive gop (R : Type) :=
| ByZ (T : tabid) (z : Z)              (* table[z] *)
| BySymbol (T : tabid) (s : string)    (* table.symbol(s) *)
| ByName (T : tabid) (s : string)      (* table.name(s) *)
| ByIsoString (T : tabid) (s : string) (* table.isotope(s) *)
| ModuleAttr (s : string)              (* getattr(periodictable, s) *)
| GetIso (x : R) (a : Z)               (* x[a] *)
| GetIon (x : R) (q : Z)               (* x.ion[q] *)
| AddIso (x : R) (a : Z)               (* x.add_isotope(a) *)
| Pickle (x : R)                       (* pickle.loads(pickle.dumps(x)) / copy.deepcopy(x) *)
| ChangeTable (x : R) (T : tabid)      (* core.change_table(x, table) *)
| IterElements (T : tabid)             (* list(table) *)
| IterIsotopes (x : R).                (* list(x) *)
Arguments ByZ {R}. Arguments BySymbol {R}. Arguments ByName {R}. Arguments ByIsoString {R}.
Arguments ModuleAttr {R}. Arguments GetIso {R}. Arguments GetIon {R}. Arguments AddIso {R}.
Arguments Pickle {R}. Arguments ChangeTable {R}. Arguments IterElements {R}. Arguments IterIsotopes {R}.
Definition op := gop oid.

Inductive res := ROk (o : oid) | RList (l : list oid) | RErr (e : err).
Definition lift (r : r1) : res := match r with Ok o => ROk o | Er e => RErr e end.
Definition lift2 (p : state * r1) : state * res := (fst p, lift (snd p)).

Definition step (s : state) (o : op) : state * res :=
  match o with
  | ByZ T z => (s, lift (table_getitem s T z))
  | BySymbol T str => (s, lift (by_symbol s T str))
  | ByName T str => (s, lift (by_name s T str))
  | ByIsoString T str => (s, lift (by_iso_string s T str))
  | ModuleAttr str => (s, lift (mod_attr s str))
  | GetIso x a => (s, lift (elem_getitem s x a))
  | GetIon x q => lift2 (get_ion s x q)
  | AddIso x a => lift2 (add_isotope s x a)
  | Pickle x => lift2 (pickle s x)
  | ChangeTable x T => lift2 (change_table s x T)
  | IterElements T => (s, RList (iter_elements s T))
  | IterIsotopes x =>
      match hget s x with
      | Some (OElement _ _ _ _ _) => (s, RList (map snd (sorted_items (dict_of (isos s) x))))
      | Some _ => (s, RErr TypeErr)
      | None => (s, RErr OtherErr)
      end
  end.

Definition run (s : state) (ops : list op) : state := fold_left (fun s o => fst (step s o)) ops s.

(* ------------------------------------------------------------------ initialisation *)
Definition ebase := list (Z * string * string * list Z * list Z).

Definition lower_char (c : ascii) : ascii :=
  if is_upper c then ascii_of_N (N_of_ascii c + 32) else c.
Fixpoint lower (s : string) : string :=
  match s with EmptyString => EmptyString | String c r => String (lower_char c) (lower r) end.

(* one turn of the loop of PeriodicTable.__init__ (ions: membership is all that is used of
   tuple(sorted(ions+uncommon_ions))) *)
Definition new_element (T : tabid) (s : state) (row : Z * string * string * list Z * list Z) : state :=
  let '(z, name, sym, io, unc) := row in
  let (s1, o) := alloc s (OElement T z (lower name) sym (io ++ unc)%list) in
  push_attr (set_elem s1 T z o) T sym o.

(* PeriodicTable.__init__ *)
Definition init_table (s : state) (T : tabid) (eb : ebase) : state :=
  let s1 := fold_left (new_element T) eb s in
  match alookup "H" (attrs s1 T) with
  | Some h =>
      match add_isotope s1 h 2 with
      | (s2, Ok d) =>
          let s3 := push_attr s2 T "D" d in
          match add_isotope s3 h 3 with
          | (s4, Ok t) => push_attr s4 T "T" t
          | (s4, Er _) => s4
          end
      | (s2, Er _) => s2
      end
  | None => s1
  end.

(* the add_isotope calls of mass.init, one per (Z, A) row *)
Definition mass_init (s : state) (T : tabid) (rows : list (Z * Z)) : state :=
  fold_left (fun s za => match table_getitem s T (fst za) with
                         | Ok e => fst (add_isotope s e (snd za))
                         | Er _ => s
                         end) rows s.

(* core.define_elements(PUBLIC_TABLE, globals()) *)
Definition define_elements (s : state) : state :=
  let l1 := fold_left (fun acc o => match hget s o with
                                    | Some (OElement _ _ n sy _) => (n, o) :: (sy, o) :: acc
                                    | _ => acc
                                    end) (iter_elements s TPub) [] in
  let l2 := match alookup "D" (attrs s TPub) with
            | Some d => ("deuterium", d) :: ("D", d) :: l1 | None => l1 end in
  let l3 := match alookup "T" (attrs s TPub) with
            | Some t => ("tritium", t) :: ("T", t) :: l2 | None => l2 end in
  with_modattrs s l3.

(* import periodictable; private = core.PeriodicTable("private"); mass.init(private) *)
Definition init_state (eb : ebase) (rows : list (Z * Z)) : state :=
  let s1 := init_table empty_state TPub eb in
  let s2 := mass_init s1 TPub rows in
  let s3 := define_elements s2 in
  let s4 := init_table s3 TPriv eb in
  mass_init s4 TPriv rows.
