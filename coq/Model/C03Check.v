(* Model/C03Check.v — correspondence check for C03/C04: the implementation's doubles against the
   rigorous interval enclosure of (a) the code-shaped model (Model/NsfCalc.v) and (b) the
   documented equations (Spec/Neutron.v) evaluated on the tabulated values, at 2^-30 relative to the
   sum of the absolute values of the terms (DESIGN 3.2).  The incoherent SLD is compared in the
   squared domain (sqrt is ill-conditioned at 0: an energy-dependent isotope alone has
   sigma_s = sigma_c exactly and the float difference is rounding noise). *)
From Coq Require Import ZArith QArith Qabs String List Bool.
From PT Require Import Str Dec Py Loaders Formula AtomEnv C06Check Nsf C07Check IExpr ICheck Neutron NsfCalc.
From PT.Gen Require Import Constants.
Import ListNotations.
Open Scope string_scope.

(* ------------------------------------------------------------------ spec side: tabulated values *)
Definition H_Q : Q := q_or_0 (parse_dec plancks_constant_text).
Definition EV_Q : Q := q_or_0 (parse_dec electron_volt_text).
Definition MN_Q : Q := q_or_0 (parse_dec neutron_mass_text).
Definition U_Q : Q := q_or_0 (parse_dec atomic_mass_constant_text).
Definition EF_spec : Q := Qred (energy_factor_Q H_Q EV_Q MN_Q U_Q).
Definition VF_spec : Q := Qred (velocity_factor_Q H_Q EV_Q MN_Q U_Q).

Definition spec_wl_expr (w : wl) : expr :=
  match w with WLam q => cq q | WEn e => ESqrt (EDiv (cq EF_spec) (cq e)) end.
Definition spec_wl_sq (w : wl) : Q :=
  match w with WLam q => Qred (q * q) | WEn e => Qred (EF_spec / e) end.

(* wavelength of a tabulated energy (eV): sqrt(EF/(1000 E)) *)
Definition spec_node_sq (e : Q) : Q := Qred (EF_spec / (1000 * e)).
Definition spec_node_x (e : Q) : expr := ESqrt (EDiv (cq EF_spec) (EMul (ez 1000) (cq e))).
Definition re_nodes (rows : list erow) : list enode :=
  map (fun r => match r with (e, re, _) => (spec_node_sq e, spec_node_x e, re) end) rows.
Definition im_nodes (rows : list erow) : list enode :=
  map (fun r => match r with (e, _, im) => (spec_node_sq e, spec_node_x e, im) end) rows.

(* "has neutron data": a bound coherent scattering length is tabulated *)
Definition spec_has_data (D : ndata) (a : atom) : bool := is_someb (r_bc (nd_rec D (az a) (aa a))).

(* the per-atom quantities of the documentation at the wavelength *)
Definition spec_atom (D : ndata) (w : wl) (p : atom * Q) : option compE :=
  let a := fst p in
  let r := nd_rec D (az a) (aa a) in
  let m := e_mass (nd_env D) a in
  let x := spec_wl_expr w in
  let sq := spec_wl_sq w in
  match r_tab r with
  | None =>
      match r_bc r, r_abs r, r_tot r with
      | Some b, Some ab, Some t =>
          Some (mkCE (snd p) m (num_expr b) (E_im_of_absorption (cq ab)) (num_expr t))
      | _, _, _ => None
      end
  | Some (ETab rows) =>
      let re := E_interp sq x (re_nodes rows) in
      let im := E_interp sq x (im_nodes rows) in
      Some (mkCE (snd p) m re im (E_sigma_s_of_b re im))
  | Some ELuNat =>
      let z := nd_lu D in
      let r175 := nd_rec D z 175 in
      match r_bc r175, r_abs r175, r_tab (nd_rec D z 176), nd_abund D z 175, nd_abund D z 176 with
      | Some b, Some ab, Some (ETab rows), Some a175, Some a176 =>
          let re := E_abundance_mix (num_expr b) a175 (E_interp sq x (re_nodes rows)) a176 in
          let im := E_abundance_mix (E_im_of_absorption (cq ab)) a175 (E_interp sq x (im_nodes rows)) a176 in
          Some (mkCE (snd p) m re im (E_sigma_s_of_b re im))
      | _, _, _, _, _ => None
      end
  end.

Inductive spec_outcome := SNone | SVals (v : list (option (list expr * expr))) | SRaise.

Definition spec_compound (D : ndata) (s : struct) (density natural_density : option Q) (ws : list wl)
  : spec_outcome :=
  match init_density (nd_env D) s density natural_density with
  | None => SRaise
  | Some rho =>
      let d := count_atoms s in
      if negb (forallb (fun p => spec_has_data D (fst p)) d) then SNone else
      SVals (map (fun w => do l <- all_some (map (spec_atom D w) d);
                           Some (E_outputs NAq l rho (spec_wl_expr w), E_rho_inc_sq NAq l rho)) ws)
  end.

(* ------------------------------------------------------------------ scales *)
Definition abs_sum (f : compE -> expr) (ps : list compE) : expr :=
  esum (map (fun c => EMul (cq (Qabs (ce_n c))) (EAbs (f c))) ps).

(* sum of absolute values of the terms of each output: [re; im; inc^2; coh; abs; ixs] *)
Definition scale_exprs (N lam : expr) (ps : list compE) : list expr :=
  let nt := cq (fold_right (fun c acc => Qabs (ce_n c) + acc)%Q 0%Q ps) in
  let A := EDiv (abs_sum ce_re ps) nt in
  let B := EDiv (abs_sum ce_im ps) nt in
  let S := EDiv (abs_sum ce_ss ps) nt in
  let sc := EMul FOURPI_100 (EAdd (ESqr A) (ESqr B)) in
  let aN := EAbs N in
  [EMul (EMul (ez 10) aN) A;
   EMul (EMul (ez 10) aN) B;
   EMul (ESqr (EMul (ez 10) aN)) (EDiv (EAdd S sc) FOURPI_100);
   EMul aN sc;
   EMul aN (EMul (EMul (ez 2000) B) lam);
   EMul aN (EAdd S sc)].

Definition model_inc_sq (o : outs) : expr :=
  EMul (ESqr (EMul (ez 10) (o_N o))) (EDiv (o_sigma_i o) FOURPI_100).

Definition TP : Z := (-30)%Z.

(* one output number p against a value expression *)
Definition cmp_out (j : nat) (p : Q) (val valsq : expr) (scales : list expr) : bool :=
  match j with
  | 2%nat => (Qle_bool 0 p && within TP (p * p)%Q (enclose valsq) (enclose (nth 2 scales (ez 0))))%bool
  | 6%nat => let e := enclose val in within TP p e e
  | _ => within TP p (enclose val) (enclose (nth j scales (ez 0)))
  end.

Definition outs_list (o : outs) : list expr := [o_re o; o_im o; o_inc o; o_coh o; o_abs o; o_ixs o; o_pen o].
Definition out_names : list string := ["sld_re"; "sld_im"; "sld_inc"; "coh_xs"; "abs_xs"; "inc_xs"; "penetration"].

(* ------------------------------------------------------------------ cases *)
(* call: 0 neutron_scattering(compound, ...), 1 neutron_sld(compound, ...),
         2 atom.neutron.scattering(wavelength=), 3 atom.neutron.sld(wavelength=)
   wavelength argument: kind 0 default, 1 wavelength=, 2 energy=; vector flag; values *)
Inductive c03case :=
| CCall (call : Z) (s : struct) (density natural_density : option Q)
        (wkind : Z) (vector : bool) (wvals : list Q) (obs : pyval)
| CConv (kind : Z) (x : Q) (obs : pyval)      (* 0 neutron_wavelength(E), 1 neutron_energy(lambda),
                                                 2 neutron_wavelength_from_velocity(v), 3 ENERGY_FACTOR,
                                                 4 VELOCITY_FACTOR *)
| CConsts.

Definition wls_of (wkind : Z) (wvals : list Q) : list wl :=
  if Z.eqb wkind 0 then [WLam ABS_WL]
  else if Z.eqb wkind 1 then map WLam wvals else map WEn wvals.

Definition pyfloat (v : pyval) : option Q := match v with PF _ _ => py_Q v | _ => None end.

(* the numbers of one output: scalar -> one float, vector -> list of n floats *)
Definition leaf (vector : bool) (n : nat) (v : pyval) : option (list Q) :=
  if vector then
    match v with
    | PL l => if Nat.eqb (length l) n then all_some (map pyfloat l) else None
    | _ => None
    end
  else match pyfloat v with Some q => Some [q] | None => None end.

(* flatten the observed tuple into the list of the outputs present: 7 for scattering, 3 for sld *)
Definition obs_outputs (sld_only : bool) (v : pyval) : option (list pyval) :=
  if sld_only then
    match v with PL [a; b; c] => Some [a; b; c] | _ => None end
  else
    match v with
    | PL [PL [a; b; c]; PL [d; e; f]; g] => Some [a; b; c; d; e; f; g]
    | _ => None
    end.

Definition is_none3 (v : pyval) : bool :=
  match v with PL [PNone; PNone; PNone] => true | _ => false end.
Definition is_vacuum (sld_only : bool) (v : pyval) : bool :=
  if sld_only then match v with PL [PI 0; PI 0; PI 0] => true | _ => false end
  else match v with PL [PL [PI 0; PI 0; PI 0]; PL [PI 0; PI 0; PI 0]; PInf false] => true | _ => false end.

Definition nthd {A} (i : nat) (l : list A) (d : A) : A := nth i l d.

(* verdicts of one wavelength i: every present output j against model and spec *)
Definition verdicts_at (leaves : list (list Q)) (i : nat) (mo : outs) (scales : list expr)
           (sp : option (option (list expr * expr))) : list (string * bool) :=
  flat_map (fun j =>
    let p := nth i (nth j leaves []) 0%Q in
    let name := nth j out_names "?" in
    let mv := cmp_out j p (nth j (outs_list mo) (ez 0)) (model_inc_sq mo) scales in
    let sv := match sp with
              | Some (Some (so, sq)) => [("spec:" ++ name, cmp_out j p (nth j so (ez 0)) sq scales)]
              | Some None => [("spec:" ++ name ++ ":no-value", false)]
              | None => []
              end in
    (("model:" ++ name)%string, mv) :: sv) (seq 0 (length leaves)).

Definition pieces_of (D : ndata) (call : Z) (s : struct) (w : wl) : list compE :=
  match all_some (map (atom_piece D w) (count_atoms s)) with Some l => l | None => [] end.

Definition atom_of_struct (s : struct) : option atom :=
  match s with [(_, FAtom a)] => Some a | _ => None end.

Definition call_verdicts (D : ndata) (call : Z) (s : struct) (density natural_density : option Q)
           (wkind : Z) (vector : bool) (wvals : list Q) (obs : pyval) : list (string * bool) :=
  let ws := wls_of wkind wvals in
  let n := length ws in
  let sld_only := (Z.eqb call 1 || Z.eqb call 3)%bool in
  let direct := (Z.eqb call 2 || Z.eqb call 3)%bool in
  let mo := if direct then
              match atom_of_struct s with
              | Some a => atom_scattering D (az a) (aa a) ws
              | None => ORaise OtherErr
              end
            else neutron_scattering D s density natural_density ws in
  let sp := if direct then None      (* the direct path is tied to the one-atom compound by theorem and by the harness *)
            else Some (spec_compound D s density natural_density ws) in
  let spec_none := match sp with Some SNone => true | _ => false end in
  match mo with
  | ORaise e => [("model raises", match obs with PE e' => err_eqb e e' | _ => false end)]
  | ONone =>
      (* neutron_sld returns (None,None,None)[0] = None *)
      [("model: None", if (Z.eqb call 1) then is_none obs else is_none3 obs);
       ("spec: atoms without tabulated b_c", match sp with Some SNone | None => true | _ => false end)]
  | OVacuum => [("model: vacuum", is_vacuum sld_only obs)]
  | OVals v =>
      match obs_outputs sld_only obs with
      | None => [("shape of the result", false)]
      | Some outs_obs =>
          match all_some (map (leaf vector n) outs_obs) with
          | None => [("shape of an output", false)]
          | Some leaves =>
              if negb (Nat.eqb (length v) n) then [("model arity", false)] else
              flat_map (fun i =>
                          let w := nth i ws (WLam 1) in
                          let o := nth i v (mkO (ez 0) (ez 0) (ez 0) (ez 0) (ez 0) (ez 0) (ez 0) (ez 0) (ez 0)) in
                          let ps := pieces_of D call s w in
                          let scales := scale_exprs (o_N o) (wl_expr w) ps in
                          let spi := match sp with
                                     | Some (SVals l) => Some (nth i l None)
                                     | Some _ => Some None
                                     | None => None
                                     end in
                          verdicts_at leaves i o scales spi) (seq 0 n)
          end
      end
  end.

(* conversions: relative 2^-40 on the value (the square for the sqrt) *)
Definition conv_verdicts (kind : Z) (x : Q) (obs : pyval) : list (string * bool) :=
  match pyfloat obs with
  | None => [("conversion result is not a float", false)]
  | Some p =>
      if Z.eqb kind 0 then
        [("neutron_wavelength^2", (Qle_bool 0 p && Qrel (-40) (p * p) (EF / x))%bool);
         ("spec: lambda^2 = EF/E", (Qle_bool 0 p && Qrel (-40) (p * p) (EF_spec / x))%bool)]
      else if Z.eqb kind 1 then
        [("neutron_energy", Qrel (-40) p (EF / (x * x))); ("spec: E = EF/lambda^2", Qrel (-40) p (EF_spec / (x * x)))]
      else if Z.eqb kind 2 then
        [("neutron_wavelength_from_velocity", Qrel (-40) p (VF / x)); ("spec: lambda = VF/v", Qrel (-40) p (VF_spec / x))]
      else if Z.eqb kind 3 then
        [("ENERGY_FACTOR", Qrel (-40) p EF); ("spec: energy factor", Qrel (-40) p EF_spec)]
      else
        [("VELOCITY_FACTOR", Qrel (-40) p VF); ("spec: velocity factor", Qrel (-40) p VF_spec)]
  end.

Definition verdicts (D : ndata) (c : c03case) : list (string * bool) :=
  match c with
  | CCall call s de nd wk vec wv obs => call_verdicts D call s de nd wk vec wv obs
  | CConv k x obs => conv_verdicts k x obs
  | CConsts => [("regenerated constants readable", consts_ok)]
  end.

Definition check_case (D : ndata) (c : c03case) : bool := forallb snd (verdicts D c).
Definition check_all_with (D : ndata) (cases : list c03case) : list bool := map (check_case D) cases.
Definition check_all := check_all_with the_nd.

Definition diag_case (D : ndata) (c : c03case) : string :=
  String.concat " " (map fst (filter (fun p => negb (snd p)) (verdicts D c))).
Definition diag_all_with (D : ndata) (cases : list c03case) : list string := map (diag_case D) cases.
Definition diag_all := diag_all_with the_nd.
