(* Model/C03Check.v — correspondence check for C03/C04: the implementation's doubles against the
   rigorous interval enclosure of (a) the code-shaped model (Model/NsfCalc.v) and (b) the
   documented equations (Spec/Neutron.v) evaluated on the tabulated values, at 2^-30 relative to the
   sum of the absolute values of the terms (DESIGN 3.2).  The incoherent SLD is compared in the
   squared domain (sqrt is ill-conditioned at 0: an energy-dependent isotope alone has
   sigma_s = sigma_c exactly and the float difference is rounding noise). *)
From Coq Require Import ZArith QArith Qabs String List Bool.
From PT Require Import Str Dec Py Loaders Formula AtomEnv C06Check Nsf C07Check IExpr ICheck Neutron NsfCalc NeutronData NeutronEval.
From PT.Gen Require Import Constants.
Import ListNotations.
Open Scope string_scope.

(* ------------------------------------------------------------------ scales *)
Definition abs_sum (f : compE -> expr) (ps : list compE) : expr :=
  esum (map (fun c => EMul (cq (Qabs (ce_n c))) (EAbs (f c))) ps).

(* sum of absolute values of the terms of each output: [re; im; inc^2; coh; abs; ixs] *)
Definition scale_exprs (N lam : expr) (ps : list compE) : list expr :=
  let nt := cq (fold_right (fun c acc => Qabs (ce_n c) + acc)%Q 0%Q ps) in
  let A := EDiv (abs_sum ce_re ps) nt in
  let B := EDiv (abs_sum ce_im ps) nt in
  let S := EDiv (abs_sum ce_ss ps) nt in
  let sc := EMul FOURPI_100 (EAdd (ESqr A) (ESqr B)) in
  let aN := EAbs N in
  [EMul (EMul (ez 10) aN) A;
   EMul (EMul (ez 10) aN) B;
   EMul (ESqr (EMul (ez 10) aN)) (EDiv (EAdd S sc) FOURPI_100);
   EMul aN sc;
   EMul aN (EMul (EMul (ez 2000) B) lam);
   EMul aN (EAdd S sc)].

Definition model_inc_sq (o : outs) : expr :=
  EMul (ESqr (EMul (ez 10) (o_N o))) (EDiv (o_sigma_i o) FOURPI_100).

Definition TP : Z := (-30)%Z.
Definition bounds := option (Q * Q).

(* one output number p against the enclosure of a value *)
Definition cmp_out (j : nat) (p : Q) (val valsq : bounds) (scales : list bounds) : bool :=
  match j with
  | 2%nat => (Qle_bool 0 p && within TP (p * p)%Q valsq (nth 2 scales None))%bool
  | 6%nat => within TP p val val
  | _ => within TP p val (nth j scales None)
  end.

Definition out_names : list string := ["sld_re"; "sld_im"; "sld_inc"; "coh_xs"; "abs_xs"; "inc_xs"; "penetration"].

Definition piece_exprs (ps : list compE) : list expr := flat_map (fun c => [ce_re c; ce_im c; ce_ss c]) ps.

(* enclosures of the model's outputs [7] (entry 2 is unused: sld_inc is compared through its square),
   of the square of sld_inc, and of the scales *)
Definition model_bounds (o : outs) (ps : list compE) : list bounds * bounds * list bounds :=
  let c := memo_all [] ([o_lam o] ++ piece_exprs ps ++ [o_N o; o_bre o; o_bim o; o_ss o; o_sigma_i o])%list in
  (map (fun j => if Nat.eqb j 2 then None else enc_c c (nth j (outs_list o) (ez 0))) (seq 0 7),
   enc_c c (model_inc_sq o),
   map (enc_c c) (scale_exprs (o_N o) (o_lam o) ps)).

Definition spec_bounds (l : list compE) (rho : Q) (lam : expr) : list bounds * bounds :=
  let c := memo_all [] ([lam] ++ piece_exprs l
                        ++ [E_n_total l; E_number_density NAq l rho; E_b_re l; E_b_im l; E_sigma_s l; E_sigma_c l;
                            E_sigma_a l lam; E_sigma_i l])%list in
  (map (fun j => if Nat.eqb j 2 then None else enc_c c (nth j (E_outputs NAq l rho lam) (ez 0))) (seq 0 7),
   enc_c c (E_rho_inc_sq NAq l rho)).

(* ------------------------------------------------------------------ cases *)
(* call: 0 neutron_scattering(compound, ...), 1 neutron_sld(compound, ...),
         2 atom.neutron.scattering(wavelength=), 3 atom.neutron.sld(wavelength=)
   wavelength argument: kind 0 default, 1 wavelength=, 2 energy=; vector flag; values *)
Inductive c03case :=
| CCall (call : Z) (s : struct) (density natural_density : option Q)
        (wkind : Z) (vector : bool) (wvals : list Q) (obs : pyval)
(* the compound is a Formula object with density [own] (None = unknown); call 4 = compound.neutron_sld(...) *)
| CCallF (call : Z) (s : struct) (own density natural_density : option Q)
         (wkind : Z) (vector : bool) (wvals : list Q) (obs : pyval)
| CConv (kind : Z) (x : Q) (obs : pyval)      (* 0 neutron_wavelength(E), 1 neutron_energy(lambda),
                                                 2 neutron_wavelength_from_velocity(v), 3 ENERGY_FACTOR,
                                                 4 VELOCITY_FACTOR *)
| CConsts.

Definition wls_of (wkind : Z) (wvals : list Q) : list wl :=
  if Z.eqb wkind 0 then [WLam ABS_WL]
  else if Z.eqb wkind 1 then map WLam wvals else map WEn wvals.

Definition pyfloat (v : pyval) : option Q := match v with PF _ _ => py_Q v | _ => None end.

(* the numbers of one output: scalar -> one float, vector -> list of n floats *)
Definition leaf (vector : bool) (n : nat) (v : pyval) : option (list Q) :=
  if vector then
    match v with
    | PL l => if Nat.eqb (length l) n then all_some (map pyfloat l) else None
    | _ => None
    end
  else match pyfloat v with Some q => Some [q] | None => None end.

(* flatten the observed tuple into the list of the outputs present: 7 for scattering, 3 for sld *)
Definition obs_outputs (sld_only : bool) (v : pyval) : option (list pyval) :=
  if sld_only then
    match v with PL [a; b; c] => Some [a; b; c] | _ => None end
  else
    match v with
    | PL [PL [a; b; c]; PL [d; e; f]; g] => Some [a; b; c; d; e; f; g]
    | _ => None
    end.

Definition is_none3 (v : pyval) : bool :=
  match v with PL [PNone; PNone; PNone] => true | _ => false end.
Definition is_vacuum (sld_only : bool) (v : pyval) : bool :=
  if sld_only then match v with PL [PI 0; PI 0; PI 0] => true | _ => false end
  else match v with PL [PL [PI 0; PI 0; PI 0]; PL [PI 0; PI 0; PI 0]; PInf false] => true | _ => false end.

Definition nthd {A} (i : nat) (l : list A) (d : A) : A := nth i l d.

(* verdicts of one wavelength i: every present output j against model and spec *)
Definition verdicts_at (leaves : list (list Q)) (i : nat) (mb : list bounds * bounds * list bounds)
           (sp : option (option (list bounds * bounds))) : list (string * bool) :=
  let '(mvals, msq, scales) := mb in
  flat_map (fun j =>
    let p := nth i (nth j leaves []) 0%Q in
    let name := nth j out_names "?" in
    let mv := cmp_out j p (nth j mvals None) msq scales in
    let sv := match sp with
              | Some (Some (so, sq)) => [(("spec:" ++ name)%string, cmp_out j p (nth j so None) sq scales)]
              | Some None => [(("spec:" ++ name ++ ":no-value")%string, false)]
              | None => []
              end in
    (("model:" ++ name)%string, mv) :: sv) (seq 0 (length leaves)).

Definition atom_of_struct (s : struct) : option atom :=
  match s with [(_, FAtom a)] => Some a | _ => None end.

Definition outs0 : outs :=
  mkO (ez 0) (ez 0) (ez 0) (ez 0) (ez 0) (ez 0) (ez 0) (ez 0) (ez 0) (ez 0) (ez 0) (ez 0) (ez 0).

Definition call_verdicts (D : ndata) (call : Z) (s : struct) (density natural_density : option Q)
           (wkind : Z) (vector : bool) (wvals : list Q) (obs : pyval) : list (string * bool) :=
  let ws := wls_of wkind wvals in
  let n := length ws in
  let sld_only := (Z.eqb call 1 || Z.eqb call 3)%bool in
  let direct := (Z.eqb call 2 || Z.eqb call 3)%bool in
  let mo := if direct then
              match atom_of_struct s with
              | Some a => atom_scattering D (az a) (aa a) ws
              | None => ORaise OtherErr
              end
            else neutron_scattering D s density natural_density ws in
  let sp := if direct then None      (* the direct path is tied to the one-atom compound by theorem and by the harness *)
            else Some (spec_compound D s density natural_density ws) in
  match mo with
  | ORaise e => [("model raises", match obs with PE e' => err_eqb e e' | _ => false end)]
  | ONone =>
      (* neutron_sld returns (None,None,None)[0] = None *)
      [("model: None", if (Z.eqb call 1) then is_none obs else is_none3 obs);
       ("spec: atoms without tabulated b_c", match sp with Some SNone | None => true | _ => false end)]
  | OVacuum => [("model: vacuum", is_vacuum sld_only obs)]
  | OVals v =>
      match obs_outputs sld_only obs with
      | None => [("shape of the result", false)]
      | Some outs_obs =>
          match all_some (map (leaf vector n) outs_obs) with
          | None => [("shape of an output", false)]
          | Some leaves =>
              if negb (Nat.eqb (length v) n) then [("model arity", false)] else
              flat_map (fun i =>
                          let w := nth i ws (WLam 1) in
                          let '(o, ps) := nth i v (outs0, []) in
                          let spi := match sp with
                                     | Some (SVals l rho) =>
                                         Some (match nth i l None with
                                               | Some cl => Some (spec_bounds cl rho (spec_wl_expr w))
                                               | None => None
                                               end)
                                     | Some _ => Some None
                                     | None => None
                                     end in
                          verdicts_at leaves i (model_bounds o ps) spi) (seq 0 n)
          end
      end
  end.

(* a Formula object with its own density: the model applies formula()'s rule, the documented result
   uses the keyword when one is given; Formula.neutron_sld (call 4) returns (None, None, None) when the
   formula has no density *)
Definition formula_verdicts (D : ndata) (call : Z) (s : struct) (own density natural_density : option Q)
           (wkind : Z) (vector : bool) (wvals : list Q) (obs : pyval) : list (string * bool) :=
  let m := formula_density_args own density natural_density in
  let sp := spec_density_args own density natural_density in
  if Z.eqb call 4 then
    match own with
    | None => [("Formula.neutron_sld without density", is_none3 obs)]
    | Some _ => call_verdicts D 1 s own None wkind vector wvals obs
    end
  else
    (("documented density rule = formula() rule",
      (match fst m, fst sp with Some a, Some b => Qeq_bool a b | None, None => true | _, _ => false end
       && match snd m, snd sp with Some a, Some b => Qeq_bool a b | None, None => true | _, _ => false end)%bool)
     :: call_verdicts D call s (fst m) (snd m) wkind vector wvals obs)%list.

(* conversions: relative 2^-40 on the value (the square for the sqrt) *)
Definition conv_verdicts (kind : Z) (x : Q) (obs : pyval) : list (string * bool) :=
  match pyfloat obs with
  | None => [("conversion result is not a float", false)]
  | Some p =>
      if Z.eqb kind 0 then
        [("neutron_wavelength^2", (Qle_bool 0 p && Qrel (-40) (p * p) (EF / x))%bool);
         ("spec: lambda^2 = EF/E", (Qle_bool 0 p && Qrel (-40) (p * p) (EF_spec / x))%bool)]
      else if Z.eqb kind 1 then
        [("neutron_energy", Qrel (-40) p (EF / (x * x))); ("spec: E = EF/lambda^2", Qrel (-40) p (EF_spec / (x * x)))]
      else if Z.eqb kind 2 then
        [("neutron_wavelength_from_velocity", Qrel (-40) p (VF / x)); ("spec: lambda = VF/v", Qrel (-40) p (VF_spec / x))]
      else if Z.eqb kind 3 then
        [("ENERGY_FACTOR", Qrel (-40) p EF); ("spec: energy factor", Qrel (-40) p EF_spec)]
      else
        [("VELOCITY_FACTOR", Qrel (-40) p VF); ("spec: velocity factor", Qrel (-40) p VF_spec)]
  end.

Definition verdicts (D : ndata) (c : c03case) : list (string * bool) :=
  match c with
  | CCall call s de nd wk vec wv obs => call_verdicts D call s de nd wk vec wv obs
  | CCallF call s own de nd wk vec wv obs => formula_verdicts D call s own de nd wk vec wv obs
  | CConv k x obs => conv_verdicts k x obs
  | CConsts => [("regenerated constants readable", consts_ok)]
  end.

Definition check_case (D : ndata) (c : c03case) : bool := forallb snd (verdicts D c).
Definition check_all_with (D : ndata) (cases : list c03case) : list bool := map (check_case D) cases.
Definition check_all := check_all_with the_nd.

Definition diag_case (D : ndata) (c : c03case) : string :=
  String.concat " " (map fst (filter (fun p => negb (snd p)) (verdicts D c))).
Definition diag_all_with (D : ndata) (cases : list c03case) : list string := map (diag_case D) cases.
Definition diag_all := diag_all_with the_nd.
