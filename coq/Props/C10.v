(* Props/C10.v — statements only.  Private tables are isolated (model: Model/Attr.v with three tables over the
   loader scripts regenerated from /repo into Gen/LoaderScripts.v).  After the repairs 706f0ce, 9478875, f23caea
   the statements hold without side conditions; what remains refuted is the sharing of the class-level default
   Neutron object (known finding C10:neutron-default-object-shared). *)
From Coq Require Import String List Bool NArith.
From PT Require Import Py AttrScript LoaderScripts Attr AttrReach C09Proofs C10Proofs.
Import ListNotations.
Open Scope string_scope.

(* Over every history of table creations (a table comes with mass.init), the nine inits on the public and both
   private tables in ANY order relative to ANY use of the public table, reads / hasattr / calculators on every
   table and imports: every observation of the public table is what the canonical order serves, and every read of
   a private table that has been initialised for the name's group is what the canonical order serves on the
   public table. *)
Theorem C10_isolation :
  forall h, forallb ev_in10 h = true -> all_expected10 init_state h = true.
Proof. exact isolation. Qed.
Print Assumptions C10_isolation.

Theorem C10_expected_public_read : forall s a n oc, expected10 s (Read Pub a n) oc = outcome_eqb oc OSame.
Proof. exact expected10_public_read. Qed.
Print Assumptions C10_expected_public_read.

Theorem C10_expected_private_read :
  forall s X a n oc, exists_tab s X = true -> X <> Pub ->
    N.eqb (group_of_name n) 0 = false -> inited (proj (group_of_name n) s) X (group_of_name n) = true ->
    expected10 s (Read X a n) oc = outcome_eqb oc OSame.
Proof. exact expected10_private_read. Qed.
Print Assumptions C10_expected_private_read.

(* public_unaffected: every read of the public table in such a history is the canonical one *)
Theorem C10_public_unaffected :
  forall h i a n, forallb ev_in10 h = true ->
    nth_error h i = Some (Read Pub a n) -> nth i (run init_state h) OOk = OSame.
Proof. exact public_unaffected. Qed.
Print Assumptions C10_public_unaffected.

(* fresh_private_equals_public: every read of a private table X that exists and has been initialised for the
   group of the name (its properties list holds the loader's key; for init_spectral_lines, which has no key: the
   covered atom holds loader data) is the canonical one *)
Theorem C10_fresh_private_equals_public :
  forall h i X a n, forallb ev_in10 h = true ->
    nth_error h i = Some (Read X a n) -> X <> Pub -> N.eqb (group_of_name n) 0 = false ->
    exists_tab (exec init_state (firstn i h)) X = true ->
    inited (proj (group_of_name n) (exec init_state (firstn i h))) X (group_of_name n) = true ->
    nth i (run init_state h) OOk = OSame.
Proof. exact fresh_private_equals_public. Qed.
Print Assumptions C10_fresh_private_equals_public.

(* assignments and in-place mutations: in every reachable state, ANY assignment on an atom of a private table T
   (also while the attribute is still a pending delayed-load property), and any mutation of a served object other
   than the class-level default Neutron, leaves what every other table serves (every name of the group, six atoms)
   and the instance dictionaries of the other private table unchanged *)
Theorem C10_setmut_confined :
  forall g t o, In g all_groups -> InvG10 g t -> In o (setmut_ops g) ->
    ptab_exists t (ltable o) = true -> safe_setmut g t o = true ->
    others_unchanged g t o = true /\ dicts_unchanged g t o = true.
Proof. exact setmut_confined. Qed.
Print Assumptions C10_setmut_confined.

Theorem C10_others_unchanged_spec :
  forall g t o, others_unchanged g t o = true ->
    forall X, X <> ltable o -> served g (plop g t o) X = served g t X.
Proof. exact others_unchanged_spec. Qed.
Print Assumptions C10_others_unchanged_spec.

(* writes_confined: in every reachable state every init / read / probe on a table leaves the instance
   dictionaries of the other private table(s) unchanged *)
Theorem C10_writes_confined :
  forall g t o, In g all_groups -> InvG10 g t -> In o lops10 -> lgroup o = g ->
    ptab_exists t (ltable o) = true -> dicts_unchanged g t o = true.
Proof. exact writes_confined. Qed.
Print Assumptions C10_writes_confined.

(* mutable_disjoint, partial: the object a table serves for (atom, name) and the objects hanging below it (the
   sftable array of an Xray object, magnetic_ff entries, activation records) are shared with another table only
   if the served object is the class-level default of neutron *)
Theorem C10_mutable_disjoint_partial :
  forall g t X Y a n o p, In g all_groups -> InvG10 g t ->
    In a read_atoms -> In n (names_of_group g) -> X <> Y ->
    In o (served_objs g t X a n) -> In p (served_objs g t Y a n) -> obj_eqb o p = true ->
    serves_default g t X a n = true /\ n = "neutron".
Proof. exact mutable_disjoint_partial. Qed.
Print Assumptions C10_mutable_disjoint_partial.

Theorem C10_tracked_subobjects :
  subs (OCache P1 E1 (nid "xray")) = [OSub P1 E1 (nid "xray")]
  /\ subs (OInst P1 E1 (nid "magnetic_ff")) = [OSub P1 E1 (nid "magnetic_ff")]
  /\ subs (OInst P1 I11 (nid "neutron_activation")) = [OSub P1 I11 (nid "neutron_activation")].
Proof. exact tracked_subobjects. Qed.
Print Assumptions C10_tracked_subobjects.

Theorem C10_xray_mutation_confined :
  run init_state [Read Pub E1 "xray"; New P1; Init "xsf.init" P1; New P2; Mut P1 E1 "xray"; Read Pub E1 "xray";
                  Read Pub XE1 "xray"; Read P2 E1 "xray"; Read P1 E1 "xray"; Read P1 I11 "xray"; Read P1 XE1 "xray"]
  = [OSame; OOk; OOk; OOk; OOk; OSame; OSame; OSame; OUser; OUser; OSame].
Proof. exact xray_mutation_confined. Qed.
Print Assumptions C10_xray_mutation_confined.

(* ... and for that object the full statement is false (known finding C10:neutron-default-object-shared) *)
Theorem C10_mutable_disjoint_refuted :
  run init_state (Read Pub E1 "neutron" :: priv P1 [Init "nsf.init" P1; Mut P1 E0 "neutron";
                                                    Read Pub E0 "neutron"; Read Pub E1 "neutron"])
  = [OSame; OOk; OOk; OOk; OOk; ODiff; OSame].
Proof. exact mutable_disjoint_refuted. Qed.
Print Assumptions C10_mutable_disjoint_refuted.

(* the histories that broke isolation before the repairs now behave: private init before the public touch
   (4 loaders), assignment while pending, mutation of a crystal_structure dictionary, init_spectral_lines(T)
   keeping its units, nsf.init(T) repeated after a failed assert *)
Theorem C10_former_witnesses_isolated :
  run init_state (priv P2 [Init "nsf.init" P2; Read Pub E1 "neutron"]) = [OOk; OOk; OOk; OSame]
  /\ run init_state (priv P2 [Init "covalent_radius.init" P2; Read Pub E1 "covalent_radius"]) = [OOk; OOk; OOk; OSame]
  /\ run init_state (priv P2 [Init "crystal_structure.init" P2; Read Pub E1 "crystal_structure"]) = [OOk; OOk; OOk; OSame]
  /\ run init_state (priv P2 [Init "xsf.init_spectral_lines" P2; Read Pub E1 "K_alpha"]) = [OOk; OOk; OOk; OSame]
  /\ run init_state [New P1; SetA P1 E1 "neutron"; Read Pub E1 "neutron"; Read Pub E0 "neutron"; Read P1 E1 "neutron"]
     = [OOk; OOk; OSame; OSame; OUser]
  /\ run init_state [Read Pub E1 "crystal_structure"; New P1; Init "crystal_structure.init" P1;
                     Mut P1 E1 "crystal_structure"; Read Pub E1 "crystal_structure"; Read P1 E1 "crystal_structure"]
     = [OSame; OOk; OOk; OOk; OSame; OUser]
  /\ run init_state [New P1; Init "xsf.init_spectral_lines" P1; Read P1 E1 "K_alpha"; Read P1 E1 "K_alpha_units"]
     = [OOk; OOk; OSame; OSame]
  /\ run init_state [Read Pub E1 "neutron"; New P1; Init "nsf.init" P1; Init "density.init" P1; Init "nsf.init" P1;
                     Read P1 E1 "neutron"]
     = [OSame; OOk; OErr AssertErr; OOk; OOk; OSame].
Proof. exact former_witnesses_isolated. Qed.
Print Assumptions C10_former_witnesses_isolated.

(* the reachable sets (two private tables) are closed, contain the initial state, 405 states *)
Theorem C10_reachable_closed :
  forall g t a, In g all_groups -> InvG10 g t -> In a (acts10 g) ->
    allowed safe10 g t a = true -> InvG10 g (pnext g t a).
Proof. exact reachable_closed10. Qed.
Print Assumptions C10_reachable_closed.
Theorem C10_reachable_init : forall g, In g all_groups -> InvG10 g (proj g init_state).
Proof. exact reachable_init10. Qed.
Print Assumptions C10_reachable_init.
Theorem C10_reachable_counts :
  map (fun g => length (R10 g)) all_groups = [13; 54; 54; 40; 54; 82; 54; 54]%nat.
Proof. exact reachable_counts10. Qed.
Print Assumptions C10_reachable_counts.
