(* Props/C09.v — statements only.  Lazy loading is invisible (model: Model/Attr.v over the loader scripts
   regenerated from /repo into Gen/LoaderScripts.v). *)
From Coq Require Import String List Bool NArith.
From PT Require Import Py AttrScript LoaderScripts Attr AttrReach C09Proofs.
Import ListNotations.
Open Scope string_scope.

(* Every history made of public reads (through any representative element / isotope / ion), hasattr probes,
   imports of any submodule, calculator calls and explicit init(elements) calls - all except a first-touch
   xsf.init_spectral_lines(elements) - serves, at every observation, what the canonical order serves
   (reads: the same value or the same AttributeError; hasattr: the same answer; calculators: the same result;
   imports and inits: no exception). *)
Theorem C09_public_histories_canonical :
  forall h, public_lazy h -> all_expected09 h (run init_state h) = true.
Proof. exact public_histories_canonical. Qed.
Print Assumptions C09_public_histories_canonical.

(* in particular no read returns a placeholder or raises AttributeError for data the canonical order serves *)
Theorem C09_public_reads_canonical :
  forall h i a n o, public_lazy h ->
    nth_error h i = Some (Read Pub a n) -> nth_error (run init_state h) i = Some o -> o = OSame.
Proof. exact public_reads_canonical. Qed.
Print Assumptions C09_public_reads_canonical.

(* The same over the whole alphabet - additionally one private table, every init on it and reads of it, and
   init_spectral_lines(elements) - provided no init listed in public_unsafe (= [xsf.init_spectral_lines]) /
   private_unsafe (= [nsf.init; covalent_radius.init; crystal_structure.init; xsf.init_spectral_lines]) is
   issued while one of its group's attributes is still a pending delayed-load property. *)
Theorem C09_histories_canonical_partial :
  forall h, forallb ev_in09 h = true -> safe_run09 init_state h ->
    all_expected09 h (run init_state h) = true.
Proof. exact histories_canonical_partial. Qed.
Print Assumptions C09_histories_canonical_partial.

(* the full-strength statement (every init(elements) admitted) is false in the faithful model *)
Theorem C09_direct_init_refuted :
  exists h, forallb (fun e => match e with Init k Pub => str_in k init_keys | _ => public_event e end) h = true
            /\ all_expected09 h (run init_state h) = false.
Proof. exact direct_init_refuted. Qed.
Print Assumptions C09_direct_init_refuted.

Theorem C09_direct_init_witness :
  run init_state [Init "xsf.init_spectral_lines" Pub; Read Pub E1 "K_alpha_units"; Read Pub E0 "K_beta1_units";
                  Read Pub E1 "K_alpha"]
  = [OOk; OErr AttrErr; OErr AttrErr; OSame].
Proof. exact direct_init_witness. Qed.
Print Assumptions C09_direct_init_witness.

(* init(private) before the first public touch: each of the four listed loaders breaks a public read *)
Theorem C09_private_first_refuted :
  forall k, In k private_unsafe ->
  exists a n, forallb ev_in09 (with_p1 [Init k P1; Read Pub a n]) = true
              /\ all_expected09 (with_p1 [Init k P1; Read Pub a n])
                                (run init_state (with_p1 [Init k P1; Read Pub a n])) = false.
Proof. exact private_first_refuted. Qed.
Print Assumptions C09_private_first_refuted.

Theorem C09_private_first_witnesses :
  run init_state (with_p1 [Init "nsf.init" P1; Read Pub E1 "neutron"]) = [OOk; OOk; OOk; ODiff]
  /\ run init_state (with_p1 [Init "covalent_radius.init" P1; Read Pub E1 "covalent_radius"]) = [OOk; OOk; OOk; ODiff]
  /\ run init_state (with_p1 [Init "crystal_structure.init" P1; Read Pub E1 "crystal_structure"]) = [OOk; OOk; OOk; OErr AttrErr]
  /\ run init_state (with_p1 [Init "xsf.init_spectral_lines" P1; Read Pub E1 "K_alpha"]) = [OOk; OOk; OOk; OErr AttrErr].
Proof. exact private_first_witnesses. Qed.
Print Assumptions C09_private_first_witnesses.

(* every other init of a private table is admitted at any time *)
Theorem C09_private_safe_keys :
  forall k, In k init_keys -> ~ In k private_unsafe -> forall t, safe09 t (LInit k P1) = true.
Proof. exact private_safe_keys. Qed.
Print Assumptions C09_private_safe_keys.

(* the reachable abstract states, per property group (existing tables, base group, group), are closed under
   every admitted action of the alphabet, contain the initial state, and there are 3+8+8+9+8+10+8+8 of them *)
Theorem C09_reachable_closed :
  forall g t a, In g all_groups -> InvG09 g t -> In a (acts09 g) ->
    allowed safe09 g t a = true -> InvG09 g (pnext g t a).
Proof. exact reachable_closed. Qed.
Print Assumptions C09_reachable_closed.

Theorem C09_reachable_init : forall g, In g all_groups -> InvG09 g (proj g init_state).
Proof. exact reachable_init. Qed.
Print Assumptions C09_reachable_init.

Theorem C09_reachable_counts :
  map (fun g => length (R09 g)) all_groups = [3; 8; 8; 9; 8; 10; 8; 8]%nat.
Proof. exact reachable_counts. Qed.
Print Assumptions C09_reachable_counts.

(* the machine's step, seen from one group, is the projected step (why per-group sets suffice) *)
Theorem C09_projection :
  forall g s o, proj g (fst (apply s o)) = plop g (proj g s) o.
Proof. exact proj_apply. Qed.
Print Assumptions C09_projection.

(* every loader script only touches names of its own group *)
Theorem C09_scripts_are_local : scripts_local = true.
Proof. exact scripts_are_local. Qed.
Print Assumptions C09_scripts_are_local.
