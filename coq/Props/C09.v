(* Props/C09.v — statements only.  Lazy loading is invisible (model: Model/Attr.v over the loader scripts
   regenerated from /repo into Gen/LoaderScripts.v).  After the repairs 706f0ce (setfn runs the loader) and
   9478875 (nsf.init loads the public table first) the statements hold at full strength: there is no side
   condition on the order of inits any more and no `_refuted` theorem. *)
From Coq Require Import String List Bool NArith.
From PT Require Import Py AttrScript LoaderScripts Attr AttrReach C09Proofs.
Import ListNotations.
Open Scope string_scope.

(* Over the whole alphabet - public reads through any representative element / isotope / ion, hasattr probes,
   imports of any submodule, calculator calls, EVERY explicit init(elements) (xsf.init_spectral_lines included),
   creation of a private table, every init on it at any time (before or after the public first touch), reads of
   it - every observation of the public table is what the canonical order serves (reads: the same value or the
   same AttributeError; hasattr: the same answer; calculators: the same result; imports and inits of the public
   table: no exception). *)
Theorem C09_histories_canonical :
  forall h, forallb ev_in09 h = true -> all_expected09 h (run init_state h) = true.
Proof. exact histories_canonical. Qed.
Print Assumptions C09_histories_canonical.

(* in particular no read returns a placeholder or raises AttributeError for data the canonical order serves *)
Theorem C09_reads_canonical :
  forall h i a n o, forallb ev_in09 h = true ->
    nth_error h i = Some (Read Pub a n) -> nth_error (run init_state h) i = Some o -> o = OSame.
Proof. exact reads_canonical. Qed.
Print Assumptions C09_reads_canonical.

(* the property's own quantifier (events on the public table only), spelled out syntactically *)
Theorem C09_public_histories_canonical :
  forall h, public_lazy h -> all_expected09 h (run init_state h) = true.
Proof. exact public_histories_canonical. Qed.
Print Assumptions C09_public_histories_canonical.

Theorem C09_public_reads_canonical :
  forall h i a n o, public_lazy h ->
    nth_error h i = Some (Read Pub a n) -> nth_error (run init_state h) i = Some o -> o = OSame.
Proof. exact public_reads_canonical. Qed.
Print Assumptions C09_public_reads_canonical.

(* no side condition is left: every operation of the alphabet is admitted in every state *)
Theorem C09_no_side_condition : forall t o, safe09 t o = true.
Proof. exact safe09_true. Qed.
Print Assumptions C09_no_side_condition.

(* the shortest histories that broke the public table before the repairs now serve the canonical values *)
Theorem C09_former_witnesses_canonical :
  run init_state [Init "xsf.init_spectral_lines" Pub; Read Pub E1 "K_alpha_units"; Read Pub E0 "K_beta1_units";
                  Read Pub E1 "K_alpha"] = [OOk; OSame; OSame; OSame]
  /\ run init_state (with_p1 [Init "nsf.init" P1; Read Pub E1 "neutron"; Import "fasta"]) = [OOk; OOk; OOk; OSame; OOk]
  /\ run init_state (with_p1 [Init "covalent_radius.init" P1; Read Pub E1 "covalent_radius"]) = [OOk; OOk; OOk; OSame]
  /\ run init_state (with_p1 [Init "crystal_structure.init" P1; Read Pub E1 "crystal_structure"]) = [OOk; OOk; OOk; OSame]
  /\ run init_state (with_p1 [Init "xsf.init_spectral_lines" P1; Read Pub E1 "K_alpha"; Read Pub E1 "K_alpha_units"])
     = [OOk; OOk; OOk; OSame; OSame].
Proof. exact former_witnesses_canonical. Qed.
Print Assumptions C09_former_witnesses_canonical.

(* the reachable abstract states, per property group (existing tables, base group, group), are closed under
   every action of the alphabet, contain the initial state, and there are 3+8+8+7+8+10+8+8 = 60 of them *)
Theorem C09_reachable_closed :
  forall g t a, In g all_groups -> InvG09 g t -> In a (acts09 g) ->
    allowed safe09 g t a = true -> InvG09 g (pnext g t a).
Proof. exact reachable_closed. Qed.
Print Assumptions C09_reachable_closed.

Theorem C09_reachable_init : forall g, In g all_groups -> InvG09 g (proj g init_state).
Proof. exact reachable_init. Qed.
Print Assumptions C09_reachable_init.

Theorem C09_reachable_counts :
  map (fun g => length (R09 g)) all_groups = [3; 8; 8; 7; 8; 10; 8; 8]%nat.
Proof. exact reachable_counts. Qed.
Print Assumptions C09_reachable_counts.

(* the machine's step, seen from one group, is the projected step (why per-group sets suffice) *)
Theorem C09_projection :
  forall g s o, proj g (fst (apply s o)) = plop g (proj g s) o.
Proof. exact proj_apply. Qed.
Print Assumptions C09_projection.

(* every loader script only touches names of its own group *)
Theorem C09_scripts_are_local : scripts_local = true.
Proof. exact scripts_are_local. Qed.
Print Assumptions C09_scripts_are_local.
