(* Props/C17.v — statements only.  The composite SLD calculator (Model/C17Calc.v: _sum_piece and
   the closure _compute of neutron_composite_sld, which carries its own copy of the scattering
   formulas) against the documented equations on the weighted-sum formula and against the model of
   the direct neutron_sld (Model/NsfCalc.v). *)
From Coq Require Import Reals ZArith QArith Qreals List.
From PT Require Import Str Dec Loaders Formula FormulaAlg AtomEnv Nsf IExpr Neutron NsfCalc NeutronData
                       C03Spec C03Data C03Refine C03Top C04Proofs C17Calc C17Proofs.
Import ListNotations.
Open Scope R_scope.

(* ---- for every list of materials, non-negative weights (not all zero: cell_ok), density > 0 and
   wavelength: real, imaginary and incoherent SLD of the calculator ARE the documented equations on
   the unit cell whose per-atom totals are sum_i w_i * (totals of material i) *)
Theorem C17_composite_is_documented_sld : forall D w ds weights density parts dS l,
  wl_pos w -> (0 < density)%Q ->
  Forall (material_ok D) ds ->
  all_some (map (sum_piece D w) ds) = Some parts ->
  NoDup (keys dS) -> weighted_totals weights ds dS ->
  cell_ok D dS -> tab_cell D w dS = Some l ->
  let o := compute parts weights density in
  [evalR no_env_R (s_re o); evalR no_env_R (s_im o); evalR no_env_R (s_inc o)]
  = first3 (outputs (Q2R NAq) l (Q2R density) (wl_R w)).
Proof. exact composite_equals_direct. Qed.
Print Assumptions C17_composite_is_documented_sld.

(* ---- the two routes of the model agree: calculator = direct neutron_sld of any formula with the
   weighted totals *)
Theorem C17_composite_equals_direct : forall D w (materials : list struct) weights density parts SF od ps,
  wl_pos w -> (0 < density)%Q ->
  Forall (material_ok D) (map atoms_of materials) ->
  all_some (map (sum_piece D w) (map atoms_of materials)) = Some parts ->
  weighted_totals weights (map atoms_of materials) (atoms_of SF) ->
  (forall p, In p (atoms_of SF) ->
     (0 <= snd p)%Q /\ (0 < e_mass (nd_env D) (fst p))%Q
     /\ (has_data D (fst p) = true -> rec_okb D (az (fst p)) (aa (fst p)) = true)) ->
  neutron_scattering D SF (Some density) None [w] = OVals [(od, ps)] ->
  let o := compute parts weights density in
  [evalR no_env_R (s_re o); evalR no_env_R (s_im o); evalR no_env_R (s_inc o)]
  = first3 (map (evalR no_env_R) (outs_list od)).
Proof. exact composite_equals_direct_model. Qed.
Print Assumptions C17_composite_equals_direct.

(* the formula w_1*m_1 + ... + w_k*m_k built by Formula.__rmul__/__add__ has the weighted totals *)
Theorem C17_sum_formula_totals : forall weights fs,
  weighted_totals weights (map (fun f => atoms_of (f_struct f)) fs) (atoms_of (f_struct (sum_formula weights fs))).
Proof. exact sum_formula_totals. Qed.
Print Assumptions C17_sum_formula_totals.

(* a sum over (atom, count) entries is determined by the per-atom totals, whatever the order,
   splitting or repetition of entries (repeated materials, atoms shared between materials) *)
Theorem C17_sums_determined_by_totals : forall F n d d', (length d <= n)%nat ->
  (forall a, (dsum d' a == dsum d a)%Q) -> dsumR F d' = dsumR F d.
Proof. exact dsumR_totals. Qed.
Print Assumptions C17_sums_determined_by_totals.

(* _sum_piece: its five sums are the dict sums of the documented per-atom quantities *)
Theorem C17_sum_piece_sound : forall D w d pc, wl_pos w -> material_ok D d -> sum_piece D w d = Some pc ->
  evalR no_env_R (pc_n pc) = dsumR (per_atom D w (fun _ => 1)) d /\
  evalR no_env_R (pc_m pc) = dsumR (per_atom D w c_m) d /\
  evalR no_env_R (pc_re pc) = dsumR (per_atom D w c_re) d /\
  evalR no_env_R (pc_im pc) = dsumR (per_atom D w c_im) d /\
  evalR no_env_R (pc_ss pc) = dsumR (per_atom D w c_ss) d.
Proof. exact sum_piece_sound. Qed.
Print Assumptions C17_sum_piece_sound.

(* the duplicated formulas of _compute are those of _calculate_scattering (first three outputs) *)
Theorem C17_duplicated_formulas_agree : forall parts weights density,
  let o := compute parts weights density in
  let sn := evalR no_env_R (wsum weights pc_n parts) in
  let N := sn / (evalR no_env_R (wsum weights pc_m parts) / Q2R density / Q2R NAq * Q2R E24) in
  [evalR no_env_R (s_re o); evalR no_env_R (s_im o); evalR no_env_R (s_inc o)]
  = first3 (calc_R N 0 (evalR no_env_R (wsum weights pc_re parts) / sn) (evalR no_env_R (wsum weights pc_im parts) / sn)
                   (evalR no_env_R (wsum weights pc_ss parts) / sn)).
Proof. exact ev_compute. Qed.
Print Assumptions C17_duplicated_formulas_agree.

(* ---- zero total weight (mass) or zero density gives zeros *)
Theorem C17_zero_gives_zeros : forall D materials ws weights density,
  (Qeq_bool (total_mass D (map atoms_of materials) weights * density) 0 = true) ->
  length weights = length materials ->
  (exists per_w, all_some (map (fun w => all_some (map (sum_piece D w) (map atoms_of materials))) ws) = Some per_w) ->
  composite_sld D materials ws weights density = CZero.
Proof. exact composite_zero. Qed.
Print Assumptions C17_zero_gives_zeros.

(* ---- one result per wavelength *)
Theorem C17_shape_follows_wavelength : forall D materials ws weights density v,
  composite_sld D materials ws weights density = CVals v -> length v = length ws.
Proof. exact shape_follows_wavelength. Qed.
Print Assumptions C17_shape_follows_wavelength.
