(* Props/C06.v — statements only.  Each is closed by [exact] of a lemma proved in Proofs/. *)
From Coq Require Import ZArith QArith Qabs String List.
From PT Require Import Loaders C06Check C06Sweep.
Open Scope Q_scope.

(* every element block of the embedded composition table gets abundances summing to 100
   (over the listed isotopes and over all isotopes of the element) *)
Theorem C06_abundances_sum_100 :
  forall t, the_tbl = Some t -> forall z l, In (z, l) blocks ->
    Qsum (map (ab_of t z) l) == 100 /\ Qsum (map (ab_of t z) (isotopes_of t z)) == 100.
Proof. exact abundances_sum_100. Qed.
Print Assumptions C06_abundances_sum_100.

Theorem C06_weight_within_uncertainty :
  forall t, the_tbl = Some t -> forall z l, In (z, l) blocks ->
    Qabs (Qsum (map (fun a => ab_of t z a * m_of t z a) l) / 100 - m_of t z 0) <= munc_of t z 0.
Proof. exact weight_within_uncertainty. Qed.
Print Assumptions C06_weight_within_uncertainty.

Theorem C06_unlisted_zero :
  forall t, the_tbl = Some t -> forall z a, In (z, a) (all_isotopes t) -> z <> 0%Z ->
    (forall l, In (z, l) blocks -> ~ In a l) -> ab_of t z a == 0.
Proof. exact unlisted_zero. Qed.
Print Assumptions C06_unlisted_zero.

Theorem C06_tables_load : exists t, the_tbl = Some t.
Proof. exact the_tbl_loaded. Qed.
Print Assumptions C06_tables_load.
