(* Props/C06.v — statements only.  Each is closed by [exact] of a lemma proved in Proofs/. *)
From Coq Require Import ZArith QArith Qabs String List.
From PT Require Import Loaders C06Check C06Sweep C06Rows.
Open Scope Q_scope.

(* every element block of the embedded composition table gets abundances summing to 100
   (over the listed isotopes and over all isotopes of the element) *)
Theorem C06_abundances_sum_100 :
  forall t, the_tbl = Some t -> forall z l, In (z, l) blocks ->
    Qsum (map (ab_of t z) l) == 100 /\ Qsum (map (ab_of t z) (isotopes_of t z)) == 100.
Proof. exact abundances_sum_100. Qed.
Print Assumptions C06_abundances_sum_100.

Theorem C06_weight_within_uncertainty :
  forall t, the_tbl = Some t -> forall z l, In (z, l) blocks ->
    Qabs (Qsum (map (fun a => ab_of t z a * m_of t z a) l) / 100 - m_of t z 0) <= munc_of t z 0.
Proof. exact weight_within_uncertainty. Qed.
Print Assumptions C06_weight_within_uncertainty.

Theorem C06_unlisted_zero :
  forall t, the_tbl = Some t -> forall z a, In (z, a) (all_isotopes t) -> z <> 0%Z ->
    (forall l, In (z, l) blocks -> ~ In a l) -> ab_of t z a == 0.
Proof. exact unlisted_zero. Qed.
Print Assumptions C06_unlisted_zero.

Theorem C06_tables_load : exists t, the_tbl = Some t.
Proof. exact the_tbl_loaded. Qed.
Print Assumptions C06_tables_load.

(* ---- for ANY table contents (generic in the rows) ---- *)
From PT Require Import C06Generic.

(* whatever block the composition loader flushes, each listed isotope gets 100*p/total and no other
   isotope of the element is touched *)
Theorem C06_flush_normalises : forall t z b t', (0 < z)%Z -> tget t z 0 <> None ->
  NoDup (map fst b) -> Forall (fun x => (0 <= fst x)%Z) b -> flush t z b = Some t' ->
  (forall a p u, In (a, Some (p, u)) b -> exists total, block_total b = Some total /\ ab_q t' z a == 100 * p / total)
  /\ (forall a', (0 <= a')%Z -> ~ In a' (map fst b) -> tget t' z a' = tget t z a').
Proof. exact flush_normalises. Qed.
Print Assumptions C06_flush_normalises.

Theorem C06_flush_sums_to_100 : forall t z b t', (0 < z)%Z -> tget t z 0 <> None -> b <> nil ->
  NoDup (map fst b) -> Forall (fun x => (0 <= fst x)%Z) b -> flush t z b = Some t' ->
  C06Generic.Qsum (map (fun x => ab_q t' z (fst x)) b) == 100.
Proof. exact flush_sums_to_100. Qed.
Print Assumptions C06_flush_sums_to_100.

(* n = rho*N_A/m and n*d^3 = 1/k with k = 1e-24, for every density, mass, Avogadro constant *)
Theorem C06_n_d_relation : forall (rho m na k : Q), ~ rho == 0 -> ~ m == 0 -> ~ na == 0 -> ~ k == 0 ->
  (rho / m * na) * (m / (rho * na * k)) == 1 / k.
Proof. exact n_d_relation. Qed.
Print Assumptions C06_n_d_relation.

Theorem C06_number_density_value : forall na t d z r m,
  density_of t d z 0 = Val r -> mass_of t z 0 = Val m -> Qeq_bool m 0 = false ->
  number_density_of na t d z = Val (Qred (r / m * na)).
Proof. exact number_density_value. Qed.
Print Assumptions C06_number_density_value.

Theorem C06_isotope_density_scaling : forall t d z a r mi me, a <> 0%Z ->
  dens_get d z = Some (Some r) -> mass_of t z a = Val mi -> mass_of t z 0 = Val me -> Qeq_bool me 0 = false ->
  density_of t d z a = Val (Qred (r * (mi / me))).
Proof. exact isotope_density_scaling. Qed.
Print Assumptions C06_isotope_density_scaling.

Theorem C06_isotope_density_unknown : forall t d z a, a <> 0%Z -> dens_get d z = Some None -> density_of t d z a = NoneVal.
Proof. exact isotope_density_unknown. Qed.
Print Assumptions C06_isotope_density_unknown.

(* every row of the three embedded mass tables names the element it is filed under (the loaders look rows up by the
   atomic-number column alone; the symbol and name columns tell a mis-typed key), and the atomic-weight table has
   one row per element, in order *)
Theorem C06_mass_rows_name_their_element :
  (forall line, In line Gen.MassTables.element_mass -> weight_row_ok line = true) /\
  (forall line, In line Gen.MassTables.isotope_mass -> isotope_row_ok line = true) /\
  (forall line, In line Gen.MassTables.isotope_abundance -> composition_row_ok line = true).
Proof. exact mass_rows_name_their_element. Qed.
Print Assumptions C06_mass_rows_name_their_element.

Theorem C06_weight_rows_one_per_element : strictly_increasing (map row_z Gen.MassTables.element_mass) = true.
Proof. exact weight_rows_one_per_element. Qed.
Print Assumptions C06_weight_rows_one_per_element.


Theorem C06_isotope_rows_one_per_nuclide : strictly_increasing (map isotope_row_key Gen.MassTables.isotope_mass) = true.
Proof. exact isotope_rows_one_per_nuclide. Qed.
Print Assumptions C06_isotope_rows_one_per_nuclide.
