(* Props/C03.v — statements only.  Each is closed by [exact] of a lemma proved in Proofs/.
   Reading guide: Spec/Neutron.v holds the documented equations ([outputs], [interp]),
   Spec/NeutronData.v their per-atom inputs from the tabulated data ([tab_comp], [tab_cell]),
   Model/NsfCalc.v the code-shaped model ([neutron_scattering], [atom_scattering]);
   [evalR no_env_R e] is the real number an expression of the model denotes. *)
From Coq Require Import Reals ZArith QArith Qreals List String.
From PT Require Import Str Dec Loaders Formula AtomEnv C06Check Nsf C07Check C07Sweep IExpr Neutron NsfCalc NeutronData
                       C03Spec C03Data C03Refine C03Top C03Tables.
Import ListNotations.
Open Scope R_scope.

(* ---- the model refines the documented equations: for every compound, density and wavelength or
   energy of the call, each of the seven numbers the model returns (real, imaginary, incoherent SLD;
   coherent, absorption, incoherent cross section; penetration depth) IS the documented equation
   evaluated on the tabulated scattering lengths, cross sections and masses.
   On the regenerated tables, for every structure with non-negative counts (not all zero: the
   call returned values, not the vacuum result) and positive masses: *)
Theorem C03_model_refines_spec_tables : forall s density natural_density ws v rho,
  (forall w, In w ws -> wl_pos w) ->
  (forall p, In p (atoms_of s) -> (0 <= snd p)%Q /\ (0 < e_mass the_env (fst p))%Q) ->
  density_of_compound the_nd s density natural_density = Some rho -> (0 < rho)%Q ->
  neutron_scattering the_nd s density natural_density ws = OVals v ->
  Forall2 (fun w ov => exists l, tab_cell the_nd w (atoms_of s) = Some l /\
                       map (evalR no_env_R) (outs_list (fst ov))
                       = outputs (Q2R NAq) l (Q2R rho) (wl_R w)) ws v.
Proof. exact nsf_model_refines_spec_tables. Qed.
Print Assumptions C03_model_refines_spec_tables.

(* for ANY table contents whose records satisfy the data facts [rec_okb] (complex b_c consistent
   with b_c and absorption, absorption and total >= 0, tables non-empty with positive energies and
   Im b <= 0) *)
Theorem C03_model_refines_spec : forall D s density natural_density ws v rho,
  (forall w, In w ws -> wl_pos w) ->
  (forall p, In p (atoms_of s) ->
     (0 <= snd p)%Q /\ (0 < e_mass (nd_env D) (fst p))%Q
     /\ (has_data D (fst p) = true -> rec_okb D (az (fst p)) (aa (fst p)) = true)) ->
  density_of_compound D s density natural_density = Some rho -> (0 < rho)%Q ->
  neutron_scattering D s density natural_density ws = OVals v ->
  Forall2 (agrees D (atoms_of s) rho) ws v.
Proof. exact nsf_model_refines_spec. Qed.
Print Assumptions C03_model_refines_spec.

(* every record of the regenerated neutron table that has a scattering length satisfies those data facts *)
Theorem C03_table_records_ok : forall z a, is_someb (r_bc (nd_rec the_nd z a)) = true -> rec_okb the_nd z a = true.
Proof. exact the_nd_ok. Qed.
Print Assumptions C03_table_records_ok.

(* the core algebra: _calculate_scattering on the model's number density and averaged lengths is
   the list of documented outputs (unit factors, normalisation by the atom count, |.| vs sign) *)
Theorem C03_calculation_is_documented : forall NA l rho lam,
  0 < NA -> 0 < rho -> 0 < lam -> 0 < n_total l -> 0 < molar_mass l ->
  sum (fun c => c_n c * c_im c) l <= 0 ->
  calc_R (model_N NA rho l) lam (b_re l) (b_im l) (sigma_s l) = outputs NA l rho lam.
Proof. exact calc_is_spec. Qed.
Print Assumptions C03_calculation_is_documented.

Theorem C03_calculate_scattering_meaning : forall N lam bre bim ss,
  map (evalR no_env_R) (outs_list (calculate_scattering N lam bre bim ss))
  = calc_R (evalR no_env_R N) (evalR no_env_R lam) (evalR no_env_R bre) (evalR no_env_R bim) (evalR no_env_R ss).
Proof. exact ev_calculate_scattering. Qed.
Print Assumptions C03_calculate_scattering_meaning.

(* one kind of atom: what the model sums is the documented per-atom quantity (tabulated b_c,
   -absorption/(2000*1.798), total; or the interpolated table; or the Lu mix) *)
Theorem C03_atom_piece_refines : forall D w p c, wl_pos w ->
  rec_okb D (az (fst p)) (aa (fst p)) = true ->
  atom_piece D w p = Some c -> tab_comp D w p = Some (evalC c).
Proof. exact atom_piece_refines. Qed.
Print Assumptions C03_atom_piece_refines.

(* numpy.interp as modelled (segment chosen exactly on the energies) is the documented
   piecewise-linear interpolation in the wavelength, clamped at both ends *)
Theorem C03_numpy_interp_is_interpolation : forall w, wl_pos w -> forall rows s, rows_pos rows ->
  locate (wl_en w) rows = Some s ->
  evalR no_env_R (seg_re (wl_expr w) s) = interp (wl_R w) (re_nodes_R rows) /\
  evalR no_env_R (seg_im (wl_expr w) s) = interp (wl_R w) (im_nodes_R rows).
Proof. exact locate_sound. Qed.
Print Assumptions C03_numpy_interp_is_interpolation.

(* ---- interpolation, for any strictly increasing abscissae *)
Theorem C03_interp_node : forall t, increasing t -> forall k v, In (k, v) t -> interp k t = v.
Proof. exact interp_node. Qed.
Print Assumptions C03_interp_node.

Theorem C03_interp_clamped_left : forall x x0 y0 r, x <= x0 -> interp x ((x0, y0) :: r) = y0.
Proof. exact interp_clamped_left. Qed.
Print Assumptions C03_interp_clamped_left.

Theorem C03_interp_clamped_right : forall x t, increasing t -> t <> [] ->
  (forall k v, In (k, v) t -> k <= x) -> interp x t = snd (last t (0, 0)).
Proof. exact interp_clamped_right. Qed.
Print Assumptions C03_interp_clamped_right.

Theorem C03_interp_between : forall pre xa ya xb yb post x,
  increasing (pre ++ (xa, ya) :: (xb, yb) :: post) -> xa <= x < xb ->
  interp x (pre ++ (xa, ya) :: (xb, yb) :: post) = ya + (yb - ya) * ((x - xa) / (xb - xa)).
Proof. exact interp_between. Qed.
Print Assumptions C03_interp_between.

(* natural Lu: interpolating the mixed table = mixing the interpolated Lu-176 value *)
Theorem C03_interp_affine : forall (a b : R) t x, t <> [] ->
  interp x (map (fun p => (fst p, a + b * snd p)) t) = a + b * interp x t.
Proof. exact interp_affine. Qed.
Print Assumptions C03_interp_affine.

(* the energy tables of the regenerated data are strictly increasing in wavelength, so the three
   interpolation laws apply to them; in particular a tabulated energy returns the tabulated b_c *)
Theorem C03_energy_tables_increasing : forall z a rows, r_tab (nd_rec the_nd z a) = Some (ETab rows) ->
  increasing (re_nodes_R rows) /\ increasing (im_nodes_R rows).
Proof. exact energy_tables_increasing. Qed.
Print Assumptions C03_energy_tables_increasing.

Theorem C03_tabulated_at_nodes : forall z a rows e re im,
  r_tab (nd_rec the_nd z a) = Some (ETab rows) -> In (e, re, im) rows ->
  interp (node_x_R e) (re_nodes_R rows) = Q2R re /\ interp (node_x_R e) (im_nodes_R rows) = Q2R im.
Proof. exact tabulated_at_nodes. Qed.
Print Assumptions C03_tabulated_at_nodes.

(* ---- the expression reading of the specification (what the check runs) means the equations *)
Theorem C03_spec_expressions_mean_equations : forall NA l rho lam,
  map (evalR no_env_R) (E_outputs NA l rho lam)
  = outputs (Q2R NA) (map evalC l) (Q2R rho) (evalR no_env_R lam).
Proof. exact E_outputs_sound. Qed.
Print Assumptions C03_spec_expressions_mean_equations.

Theorem C03_spec_atom_sound : 0 < EF_R -> forall D w p c, wl_pos w -> tables_pos D (fst p) ->
  spec_atom D w p = Some c -> tab_comp D w p = Some (evalC c).
Proof. exact spec_atom_sound. Qed.
Print Assumptions C03_spec_atom_sound.

(* the documentation gives rho_im in two forms; they agree.  sigma_a' = sigma_a lambda'/1.798 *)
Theorem C03_rho_im_forms : forall N_A l rho lambda, lambda <> 0 ->
  rho_im N_A l rho lambda = rho_im' N_A l rho.
Proof. exact rho_im_forms. Qed.
Print Assumptions C03_rho_im_forms.

Theorem C03_absorption_scales_with_wavelength : forall n m re sa ss lambda, n <> 0 -> lambda <> 0 ->
  sigma_a [mkC n m re (im_of_absorption sa) ss] lambda = sa * lambda / lambda_0.
Proof. exact one_atom_sigma_a. Qed.
Print Assumptions C03_absorption_scales_with_wavelength.

(* the clip of sigma_i at zero (on which the documentation is silent) is the documented
   difference whenever that is non-negative *)
Theorem C03_sigma_i_unclipped : forall l, sigma_c l <= sigma_s l -> sigma_i l = sigma_s l - sigma_c l.
Proof. exact sigma_i_unclipped. Qed.
Print Assumptions C03_sigma_i_unclipped.

(* ---- the regenerated source constants are the documented ones *)
Theorem C03_source_constants :
  FOURPI_100 = EDiv (EMul (ECst 4) EPi) (ECst 100) /\ (EF == EF_spec)%Q /\ (VF == VF_spec)%Q.
Proof. exact (conj FOURPI_100_is (conj EF_is_spec VF_is_spec)). Qed.
Print Assumptions C03_source_constants.

(* ---- an element or isotope queried directly gives the same numbers as the one-atom compound at
   that atom's density, for any tables *)
Theorem C03_atom_equals_one_atom_compound : forall D z a rho nd,
  has_sld (nd_rec D z a) = true ->
  e_density (nd_env D) (mkAtom z a 0) = Some rho ->
  nd_numdens D z = Some nd ->
  (0 < e_mass (nd_env D) (mkAtom z a 0))%Q -> (0 < rho)%Q ->
  Q2R nd * Q2R (e_mass (nd_env D) (mkAtom z a 0)) = Q2R rho * Q2R NAq ->
  forall ws va, atom_scattering D z a ws = OVals va ->
  exists vc, neutron_scattering D [(1%Q, FAtom (mkAtom z a 0))] None None ws = OVals vc /\
             Forall2 same_numbers va vc.
Proof. exact atom_equals_one_atom_compound. Qed.
Print Assumptions C03_atom_equals_one_atom_compound.

(* its numerical premise holds for every element and isotope of any mass/density tables *)
Theorem C03_number_density_relation : forall os t d z a rho nd,
  let D := nd_with (Some os) (Some t) (Some d) in
  e_density (nd_env D) (mkAtom z a 0) = Some rho ->
  nd_numdens D z = Some nd ->
  (0 < e_mass (nd_env D) (mkAtom z a 0))%Q ->
  Q2R nd * Q2R (e_mass (nd_env D) (mkAtom z a 0)) = Q2R rho * Q2R NAq.
Proof. exact number_density_relation. Qed.
Print Assumptions C03_number_density_relation.

(* ---- missing data *)
Theorem C03_missing_gives_none : forall D s density natural_density ws rho,
  density_of_compound D s density natural_density = Some rho ->
  (exists p, In p (atoms_of s) /\ has_data D (fst p) = false) ->
  neutron_scattering D s density natural_density ws = ONone.
Proof. exact missing_gives_none. Qed.
Print Assumptions C03_missing_gives_none.

(* both directions, at full strength: (None, None, None) exactly when some atom has no tabulated
   scattering length (the density of the pure element is not asked for: RaO3 gets numbers) *)
Theorem C03_none_iff_missing_data : forall D s density natural_density ws rho,
  density_of_compound D s density natural_density = Some rho ->
  (neutron_scattering D s density natural_density ws = ONone <->
   exists p, In p (atoms_of s) /\ spec_has_data D (fst p) = false).
Proof. exact none_iff_missing_data. Qed.
Print Assumptions C03_none_iff_missing_data.

Theorem C03_radium_compound_has_values : ra_check the_nd = true.
Proof. exact ra_witness_c. Qed.
Print Assumptions C03_radium_compound_has_values.

(* ---- the compound given as a Formula object that carries its own density: a density= or
   natural_density= keyword of the call replaces it (so C03_model_refines_spec applies with the
   keyword's density); the object's own density is used only when neither keyword is given *)
Theorem C03_formula_density_rule : forall own density natural_density,
  formula_density_args own density natural_density = spec_density_args own density natural_density.
Proof. exact formula_density_rule. Qed.
Print Assumptions C03_formula_density_rule.
Theorem C03_formula_object_density_keyword_wins : forall D s own rho ws,
  neutron_scattering_formula D s own (Some rho) None ws = neutron_scattering D s (Some rho) None ws.
Proof. exact formula_object_density_keyword_wins. Qed.
Theorem C03_formula_object_natural_density_keyword_wins : forall D s own density nd ws,
  neutron_scattering_formula D s own density (Some nd) ws = neutron_scattering D s density (Some nd) ws.
Proof. exact formula_object_natural_density_keyword_wins. Qed.
Theorem C03_formula_object_own_density_by_default : forall D s own ws,
  neutron_scattering_formula D s own None None ws = neutron_scattering D s own None ws.
Proof. exact formula_object_own_density_by_default. Qed.

(* ---- the regenerated Lynn & Seeger tables are internally consistent: every row carries Re(a), Im(a) and |a| to two
   decimals, and | |a| - sqrt(Re^2 + Im^2) | <= 0.0125 (as squares, over Q) - a mis-typed cell of the data the
   library reads breaks this.  One row of the data as it stands does not satisfy it (known finding):
   natural Eu at 0.37 eV, Im(a) = -3.38 where -3.58 would be consistent. *)
Open Scope Q_scope.
Theorem C03_energy_tables_modulus_consistent_partial : forall sym iso rows row,
  In (sym, iso, rows) Gen.NsfTables.energy_dependent_tables -> In row rows ->
  known_bad sym iso row = false -> row_ok row = true.
Proof. exact energy_tables_modulus_consistent_partial. Qed.
Print Assumptions C03_energy_tables_modulus_consistent_partial.

Theorem C03_modulus_ok_meaning : forall re im m, modulus_ok re im m = true ->
  MOD_TOL <= m /\ (m - MOD_TOL) * (m - MOD_TOL) <= re * re + im * im /\ re * re + im * im <= (m + MOD_TOL) * (m + MOD_TOL).
Proof. exact modulus_ok_spec. Qed.
Print Assumptions C03_modulus_ok_meaning.

Theorem C03_energy_tables_modulus_consistent_refuted : exists sym iso rows row,
  In (sym, iso, rows) Gen.NsfTables.energy_dependent_tables /\ In row rows /\ row_ok row = false /\
  row = ["0.37"; "3.17"; "-3.38"; "4.78"]%string.
Proof. exact energy_tables_modulus_consistent_refuted. Qed.
Print Assumptions C03_energy_tables_modulus_consistent_refuted.

