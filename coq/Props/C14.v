(* Props/C14.v — statements only.  Each is closed by [exact] of a lemma proved in Spec/ or Proofs/. *)
From Coq Require Import Reals ZArith QArith Qreals String List Bool.
From Coquelicot Require Import Coquelicot.
From PT Require Import Str Dec Py IExpr ActEval ActEvalSound Act Activation C14Proofs C14Sweep C14Table.
From PT Require C14Check.   (* the comparison rules the tie runs: kept in the build of this file *)
From PT.Gen Require ActivationDat.
Import ListNotations.
Open Scope R_scope.

(* ---------------- Spec: the closed forms solve their reaction chains *)

(* single capture with burn-up of target (k1) and product (k2):  N1' = -k1 N1, N2' = k1 N1 - k2 N2 *)
Theorem C14_chain_capture_solves : forall N0 k1 k2, k1 <> k2 ->
  (forall t, is_derive (c1_N1 N0 k1) t (- k1 * c1_N1 N0 k1 t)) /\
  (forall t, is_derive (c1_N2 N0 k1 k2) t (k1 * c1_N1 N0 k1 t - k2 * c1_N2 N0 k1 k2 t)) /\
  c1_N1 N0 k1 0 = N0 /\ c1_N2 N0 k1 k2 0 = 0.
Proof.
  exact (fun N0 k1 k2 H => conj (c1_N1_ode N0 k1) (conj (c1_N2_ode N0 k1 k2 H) (c1_init N0 k1 k2))).
Qed.
Print Assumptions C14_chain_capture_solves.

(* feeding by decay of an activated parent:  P' = R - lp P, D' = lp P - l D *)
Theorem C14_chain_b_solves : forall R0 lp l, lp <> 0 -> l <> 0 -> lp <> l ->
  (forall t, is_derive (cb_P R0 lp) t (R0 - lp * cb_P R0 lp t)) /\
  (forall t, is_derive (cb_D R0 lp l) t (lp * cb_P R0 lp t - l * cb_D R0 lp l t)) /\
  cb_P R0 lp 0 = 0 /\ cb_D R0 lp l 0 = 0.
Proof.
  exact (fun R0 lp l H1 H2 H3 => conj (cb_P_ode R0 lp H1) (conj (cb_D_ode R0 lp l H1 H2 H3) (cb_init R0 lp l H3))).
Qed.
Print Assumptions C14_chain_b_solves.

(* two-step capture:  N1' = -k1 N1, N2' = k1 N1 - kp N2, N3' = kc N2 - l N3 *)
Theorem C14_chain_2n_solves : forall N0 k1 kp kc l, k1 <> kp -> k1 <> l -> kp <> l ->
  (forall t, is_derive (c2_N1 N0 k1) t (- k1 * c2_N1 N0 k1 t)) /\
  (forall t, is_derive (c2_N2 N0 k1 kp) t (k1 * c2_N1 N0 k1 t - kp * c2_N2 N0 k1 kp t)) /\
  (forall t, is_derive (c2_N3 N0 k1 kp kc l) t (kc * c2_N2 N0 k1 kp t - l * c2_N3 N0 k1 kp kc l t)) /\
  c2_N1 N0 k1 0 = N0 /\ c2_N2 N0 k1 kp 0 = 0 /\ c2_N3 N0 k1 kp kc l 0 = 0.
Proof.
  exact (fun N0 k1 kp kc l H1 H2 H3 =>
           conj (c2_N1_ode N0 k1) (conj (c2_N2_ode N0 k1 kp H1) (conj (c2_N3_ode N0 k1 kp kc l H1 H2 H3)
                (c2_init N0 k1 kp kc l H1 H2 H3)))).
Qed.
Print Assumptions C14_chain_2n_solves.

(* ---------------- Spec: the laws of the property on the chain solutions *)

Theorem C14_activity_nonneg_spec : forall ch mass A phi1 phi s1 s2 T Tp t,
  0 <= mass -> 0 < A -> 0 <= phi1 -> 0 <= phi -> 0 <= s1 -> 0 <= s2 -> 0 < T -> 0 <= t ->
  match ch with
  | CAct => rate phi1 s1 <> rate phi s2 + decay_const T
  | CB => 0 < Tp /\ decay_const Tp <> decay_const T
  | C2n => 0 < Tp /\ rate phi1 s1 <> rate phi s2 + decay_const Tp /\ rate phi1 s1 <> decay_const T
           /\ rate phi s2 + decay_const Tp <> decay_const T
  end ->
  0 <= activity_end ch mass A phi1 phi s1 s2 T Tp t.
Proof. exact activity_end_nonneg. Qed.
Print Assumptions C14_activity_nonneg_spec.

Theorem C14_linear_in_mass : forall ch c mass A phi1 phi s1 s2 T Tp t,
  activity_end ch (c * mass) A phi1 phi s1 s2 T Tp t = c * activity_end ch mass A phi1 phi s1 s2 T Tp t.
Proof. exact activity_linear_in_mass. Qed.
Print Assumptions C14_linear_in_mass.

Theorem C14_rest_decay_exact : forall a T r1 r2,
  activity_rest a T 0 = a /\
  activity_rest a T (r1 + r2) = activity_rest a T r1 * Rpower 2 (- r2 / T) /\
  (T <> 0 -> activity_rest a T T = a / 2).
Proof. exact (fun a T r1 r2 => conj (rest_decay_zero a T) (conj (rest_decay_exact a T r1 r2) (rest_halves a T))). Qed.
Print Assumptions C14_rest_decay_exact.

Theorem C14_monotone_up_to_depletion : forall mass A phi1 phi s1 s2 T Tp t1 t2,
  0 <= mass -> 0 < A -> 0 <= phi1 -> 0 <= s1 -> 0 < T -> 0 <= t1 <= t2 ->
  rate phi1 s1 <> rate phi s2 + decay_const T ->
  activity_end CAct mass A phi1 phi s1 s2 T Tp t1 * exp (- rate phi1 s1 * (t2 - t1))
  <= activity_end CAct mass A phi1 phi s1 s2 T Tp t2.
Proof. exact activity_monotone_up_to_depletion. Qed.
Print Assumptions C14_monotone_up_to_depletion.

(* ---------------- Model (transcription of activity()) against the Spec *)

(* the expression the tie compares every implementation value with IS the chain solution *)
Theorem C14_model_spec_is_chain_solution : forall sb r amass mass env t br a m lam spec,
  activity_row_with sb r amass mass env t = OAct br a m lam spec ->
  evalR ln2_env_R spec =
    activity_end (chain_of br) (Q2R mass) (IZR amass) (Q2R (row_flux r env)) (Q2R (fluence env))
                 (Q2R (row_xs r env)) (Q2R (row_xs2 r env)) (Q2R (r_thalf r)) (Q2R (r_thalf_par r)) (Q2R t)
  /\ evalR ln2_env_R lam = decay_const (Q2R (r_thalf r)).
Proof. exact model_spec_is_chain_solution. Qed.
Print Assumptions C14_model_spec_is_chain_solution.

(* main branch, 'b' and '2n': the code-shaped expression denotes the chain solution exactly *)
Theorem C14_model_refines_spec : forall sb r amass mass env t br a m lam spec,
  activity_row_with sb r amass mass env t = OAct br a m lam spec ->
  br <> BSmall ->
  (br = BMain -> decay_const (Q2R (r_thalf r)) - rate (Q2R (row_flux r env)) (Q2R (row_xs r env))
                 + rate (Q2R (fluence env)) (Q2R (row_xs2 r env)) <> 0) ->
  evalR ln2_env_R a =
    activity_end (chain_of br) (Q2R mass) (IZR amass) (Q2R (row_flux r env)) (Q2R (fluence env))
                 (Q2R (row_xs r env)) (Q2R (row_xs2 r env)) (Q2R (r_thalf r)) (Q2R (r_thalf_par r)) (Q2R t).
Proof. exact model_activity_is_chain_solution. Qed.
Print Assumptions C14_model_refines_spec.

(* the same transcription without the small-argument test (what a repaired activity() would be)
   denotes the chain solution on every branch *)
Theorem C14_model_refines_spec_without_small_branch : forall r amass mass env t br a m lam spec,
  activity_row_with false r amass mass env t = OAct br a m lam spec ->
  (br = BMain -> decay_const (Q2R (r_thalf r)) - rate (Q2R (row_flux r env)) (Q2R (row_xs r env))
                 + rate (Q2R (fluence env)) (Q2R (row_xs2 r env)) <> 0) ->
  evalR ln2_env_R a =
    activity_end (chain_of br) (Q2R mass) (IZR amass) (Q2R (row_flux r env)) (Q2R (fluence env))
                 (Q2R (row_xs r env)) (Q2R (row_xs2 r env)) (Q2R (r_thalf r)) (Q2R (r_thalf_par r)) (Q2R t).
Proof. exact model_refines_spec_repaired. Qed.
Print Assumptions C14_model_refines_spec_without_small_branch.

(* the small-argument branch is the first-order term times 1 + (V+U)/(2(V-U)) *)
Theorem C14_small_branch_factor : forall env root lam k1 kb t,
  let U := evalR env k1 * evalR env t in let V := (evalR env kb + evalR env lam) * evalR env t in
  evalR env lam - evalR env k1 + evalR env kb <> 0 -> V <> U ->
  evalR env (small_code root lam k1 kb t) =
    evalR env root * (evalR env lam / (evalR env lam - evalR env k1 + evalR env kb)) * (V - U) * (1 + (V + U) / (2 * (V - U))).
Proof. exact small_code_factor. Qed.
Print Assumptions C14_small_branch_factor.

(* REFUTED at full strength: on the small-argument branch the model (and the code) is not the solution *)
Theorem C14_small_branch_refuted :
  exists r amass mass env t a m lam spec,
    physical mass env t /\
    activity_row_with true r amass mass env t = OAct BSmall a m lam spec /\
    0 < evalR ln2_env_R spec /\
    evalR ln2_env_R a > (149 / 100) * evalR ln2_env_R spec.
Proof. exact small_branch_refuted. Qed.
Print Assumptions C14_small_branch_refuted.

(* REFUTED at full strength: "never fail to compute for physical inputs" *)
Theorem C14_never_raises_refuted :
  exists r amass mass env t, physical mass env t /\ activity_row_with true r amass mass env t = ORaise TypeErr.
Proof. exact small_branch_raises_refuted. Qed.
Print Assumptions C14_never_raises_refuted.

Theorem C14_model_rest_decay_exact : forall a lam T ti, evalR ln2_env_R lam = decay_const T ->
  evalR ln2_env_R (rest_model a lam ti) = activity_rest (evalR ln2_env_R a) T (Q2R ti).
Proof. exact model_rest_decay_exact. Qed.
Print Assumptions C14_model_rest_decay_exact.

Theorem C14_fast_omitted : forall sb r amass mass env t,
  (r_fast r = true -> Qeq (fast_ratio env) 0 -> activity_row_with sb r amass mass env t = OSkip) /\
  (~ Qeq (fast_ratio env) 0 -> activity_row_with sb r amass mass env t <> OSkip).
Proof. exact (fun sb r amass mass env t => conj (fast_omitted sb r amass mass env t) (fast_included sb r amass mass env t)). Qed.
Print Assumptions C14_fast_omitted.

Theorem C14_epithermal_omitted : forall r env,
  ((cd_ratio env < 1)%Q -> Qeq (row_xs r env) (r_xs r) /\ Qeq (row_xs2 r env) (r_xs_par r)) /\
  ((1 <= cd_ratio env)%Q -> Qeq (row_xs r env) (r_xs r + r_res r / cd_ratio env)
                            /\ Qeq (row_xs2 r env) (r_xs_par r + r_res_par r / cd_ratio env)).
Proof. exact (fun r env => conj (epithermal_omitted r env) (epithermal_included r env)). Qed.
Print Assumptions C14_epithermal_omitted.

Theorem C14_natural_is_abundance_sum : forall rows z isos m env t,
  element_activity rows z isos m env t =
  concat (map (fun ia => if Qeq_bool (m * snd ia * (1 # 100)) 0 then []
                         else isotope_activity rows z (fst ia) (m * snd ia * (1 # 100))%Q env t) isos).
Proof. exact natural_is_abundance_sum. Qed.
Print Assumptions C14_natural_is_abundance_sum.

(* ---------------- the rows of the regenerated activation.dat *)

Theorem C14_table_loads : exists rows, the_rows = Some rows /\ length rows = 513%nat.
Proof. exact rows_loaded. Qed.
Print Assumptions C14_table_loads.

Theorem C14_columns_as_labelled : columns_match_header ActivationDat.act_column_names ActivationDat.activation_dat = true.
Proof. exact columns_as_labelled. Qed.
Print Assumptions C14_columns_as_labelled.

Theorem C14_table_rows_physical : forall rows, the_rows = Some rows -> forall r, In r rows -> row_ok r = true.
Proof. exact rows_all_ok. Qed.
Print Assumptions C14_table_rows_physical.

(* all 513 rows, all physical inputs: the solution is non-negative, and so is the model's activity
   off the small-argument branch *)
Theorem C14_activity_nonneg : forall rows, the_rows = Some rows -> forall r, In r rows ->
  forall sb mass env t br a m lam spec, physical mass env t ->
  activity_row_with sb r (r_A r) mass env t = OAct br a m lam spec ->
  distinct_rates (chain_of br) (Q2R (row_flux r env)) (Q2R (fluence env)) (Q2R (row_xs r env)) (Q2R (row_xs2 r env))
                 (Q2R (r_thalf r)) (Q2R (r_thalf_par r)) ->
  0 <= evalR ln2_env_R spec /\ (br <> BSmall -> 0 <= evalR ln2_env_R a).
Proof. exact activity_nonneg. Qed.
Print Assumptions C14_activity_nonneg.

(* ---------------- the comparison rule of the tie is a theorem about the meaning *)
Theorem C14_tolerance_test_sound : forall tp py v scale fl,
  (is_ge0 (sign_of (slack tp py v scale fl)) = true ->
   Rabs (Q2R py - evalR ln2_env_R v) <= Q2R (D2Q 1 tp) * Rabs (evalR ln2_env_R scale) + Q2R fl) /\
  (is_lt0 (sign_of (slack tp py v scale fl)) = true ->
   Rabs (Q2R py - evalR ln2_env_R v) > Q2R (D2Q 1 tp) * Rabs (evalR ln2_env_R scale) + Q2R fl).
Proof. exact (fun tp py v scale fl => conj (slack_sound tp py v scale fl) (slack_violated_sound tp py v scale fl)). Qed.
Print Assumptions C14_tolerance_test_sound.

Theorem C14_ln2_bounds : Q2R ln2_lo < ln 2 < Q2R ln2_hi.
Proof. exact ln2_bounds. Qed.
Print Assumptions C14_ln2_bounds.
