(* Props/C14.v — statements only.  Each is closed by [exact] of lemmas proved in Spec/ or Proofs/.
   [activity_row] is the transcription of activity() in the configuration the translator reads from
   /repo on every run (Gen/ActivationDat.v: no small-argument branch, burn-up difference through
   expm1); reverting the source changes the configuration and the obligations below that depend on
   it (never_raises, refinement on every branch) no longer check. *)
From Coq Require Import Reals ZArith QArith Qreals String List Bool.
From Coquelicot Require Import Coquelicot.
From PT Require Import Str Dec Py IExpr ActEval ActEvalSound Act Activation C14Proofs C14Sweep C14Table C14Rows.
From PT Require C14Check.   (* the comparison rules the tie runs: kept in the build of this file *)
From PT.Gen Require ActivationDat.
Import ListNotations.
Open Scope R_scope.

(* ---------------- Spec: the closed forms solve their reaction chains
   capture with burn-up:  N1' = -k1 N1, N2' = k1 N1 - k2 N2
   decay feeding ('b'):    P' = R - lp P,  D' = lp P - l D
   two-step capture ('2n'): N1' = -k1 N1, N2' = k1 N1 - kp N2, N3' = kc N2 - l N3 *)
Theorem C14_chains_solve :
  (forall N0 k1 k2, k1 <> k2 ->
     (forall t, is_derive (c1_N1 N0 k1) t (- k1 * c1_N1 N0 k1 t)) /\
     (forall t, is_derive (c1_N2 N0 k1 k2) t (k1 * c1_N1 N0 k1 t - k2 * c1_N2 N0 k1 k2 t)) /\
     c1_N1 N0 k1 0 = N0 /\ c1_N2 N0 k1 k2 0 = 0) /\
  (forall R0 lp l, lp <> 0 -> l <> 0 -> lp <> l ->
     (forall t, is_derive (cb_P R0 lp) t (R0 - lp * cb_P R0 lp t)) /\
     (forall t, is_derive (cb_D R0 lp l) t (lp * cb_P R0 lp t - l * cb_D R0 lp l t)) /\
     cb_P R0 lp 0 = 0 /\ cb_D R0 lp l 0 = 0) /\
  (forall N0 k1 kp kc l, k1 <> kp -> k1 <> l -> kp <> l ->
     (forall t, is_derive (c2_N1 N0 k1) t (- k1 * c2_N1 N0 k1 t)) /\
     (forall t, is_derive (c2_N2 N0 k1 kp) t (k1 * c2_N1 N0 k1 t - kp * c2_N2 N0 k1 kp t)) /\
     (forall t, is_derive (c2_N3 N0 k1 kp kc l) t (kc * c2_N2 N0 k1 kp t - l * c2_N3 N0 k1 kp kc l t)) /\
     c2_N1 N0 k1 0 = N0 /\ c2_N2 N0 k1 kp 0 = 0 /\ c2_N3 N0 k1 kp kc l 0 = 0).
Proof.
  exact (conj (fun N0 k1 k2 H => conj (c1_N1_ode N0 k1) (conj (c1_N2_ode N0 k1 k2 H) (c1_init N0 k1 k2)))
        (conj (fun R0 lp l H1 H2 H3 => conj (cb_P_ode R0 lp H1) (conj (cb_D_ode R0 lp l H1 H2 H3) (cb_init R0 lp l H3)))
              (fun N0 k1 kp kc l H1 H2 H3 =>
                 conj (c2_N1_ode N0 k1) (conj (c2_N2_ode N0 k1 kp H1) (conj (c2_N3_ode N0 k1 kp kc l H1 H2 H3)
                      (c2_init N0 k1 kp kc l H1 H2 H3)))))).
Qed.
Print Assumptions C14_chains_solve.

(* ---------------- Spec: the laws of the property on the chain solutions:
   non-negative; proportional to mass; falls by exactly 2^(-t/T) over a rest time; does not fall with
   exposure by more than the depletion exp(-k1 dt) of the target (single capture) *)
Theorem C14_spec_laws :
  (forall ch mass A phi1 phi s1 s2 T Tp t,
     0 <= mass -> 0 < A -> 0 <= phi1 -> 0 <= phi -> 0 <= s1 -> 0 <= s2 -> 0 < T -> 0 <= t ->
     match ch with
     | CAct => rate phi1 s1 <> rate phi s2 + decay_const T
     | CB => 0 < Tp /\ decay_const Tp <> decay_const T
     | C2n => 0 < Tp /\ rate phi1 s1 <> rate phi s2 + decay_const Tp /\ rate phi1 s1 <> decay_const T
              /\ rate phi s2 + decay_const Tp <> decay_const T
     end ->
     0 <= activity_end ch mass A phi1 phi s1 s2 T Tp t) /\
  (forall ch c mass A phi1 phi s1 s2 T Tp t,
     activity_end ch (c * mass) A phi1 phi s1 s2 T Tp t = c * activity_end ch mass A phi1 phi s1 s2 T Tp t) /\
  (forall a T r1 r2,
     activity_rest a T 0 = a /\
     activity_rest a T (r1 + r2) = activity_rest a T r1 * Rpower 2 (- r2 / T) /\
     (T <> 0 -> activity_rest a T T = a / 2)) /\
  (forall mass A phi1 phi s1 s2 T Tp t1 t2,
     0 <= mass -> 0 < A -> 0 <= phi1 -> 0 <= s1 -> 0 < T -> 0 <= t1 <= t2 ->
     rate phi1 s1 <> rate phi s2 + decay_const T ->
     activity_end CAct mass A phi1 phi s1 s2 T Tp t1 * exp (- rate phi1 s1 * (t2 - t1))
     <= activity_end CAct mass A phi1 phi s1 s2 T Tp t2).
Proof.
  exact (conj activity_end_nonneg (conj activity_linear_in_mass
        (conj (fun a T r1 r2 => conj (rest_decay_zero a T) (conj (rest_decay_exact a T r1 r2) (rest_halves a T)))
              activity_monotone_up_to_depletion))).
Qed.
Print Assumptions C14_spec_laws.

(* ---------------- Model (transcription of activity() as the source stands) against the Spec:
   (1) the expression the tie compares every implementation value with IS the chain solution (any
       configuration); (2) on EVERY branch the code-shaped expression denotes the chain solution
       (distinct removal rates); (3) the rest-time factor exp(-lam t) is 2^(-t/T) *)
Theorem C14_model_refines_spec :
  (forall cfg r amass mass env t br a m lam spec,
     activity_row_with cfg r amass mass env t = OAct br a m lam spec ->
     evalR ln2_env_R spec =
       activity_end (chain_of br) (Q2R mass) (IZR amass) (Q2R (row_flux r env)) (Q2R (fluence env))
                    (Q2R (row_xs r env)) (Q2R (row_xs2 r env)) (Q2R (r_thalf r)) (Q2R (r_thalf_par r)) (Q2R t)
     /\ evalR ln2_env_R lam = decay_const (Q2R (r_thalf r))) /\
  (forall r amass mass env t br a m lam spec,
     activity_row r amass mass env t = OAct br a m lam spec ->
     (br = BMain -> decay_const (Q2R (r_thalf r)) - rate (Q2R (row_flux r env)) (Q2R (row_xs r env))
                    + rate (Q2R (fluence env)) (Q2R (row_xs2 r env)) <> 0) ->
     evalR ln2_env_R a =
       activity_end (chain_of br) (Q2R mass) (IZR amass) (Q2R (row_flux r env)) (Q2R (fluence env))
                    (Q2R (row_xs r env)) (Q2R (row_xs2 r env)) (Q2R (r_thalf r)) (Q2R (r_thalf_par r)) (Q2R t)) /\
  (forall a lam T ti, evalR ln2_env_R lam = decay_const T ->
     evalR ln2_env_R (rest_model a lam ti) = activity_rest (evalR ln2_env_R a) T (Q2R ti)).
Proof. exact (conj model_spec_is_chain_solution (conj model_refines_spec_current model_rest_decay_exact)). Qed.
Print Assumptions C14_model_refines_spec.

(* ---------------- "never fail to compute for physical inputs", "never negative": all 513 rows of the
   regenerated activation.dat, every mass, environment and exposure *)
Theorem C14_never_raises : forall rows, the_rows = Some rows -> forall r, In r rows ->
  forall mass env t, (forall e, activity_row r (r_A r) mass env t <> ORaise e)
                     /\ activity_row r (r_A r) mass env t <> OUndecided.
Proof. exact never_raises_current. Qed.
Print Assumptions C14_never_raises.

Theorem C14_activity_nonneg : forall rows, the_rows = Some rows -> forall r, In r rows ->
  forall mass env t br a m lam spec, physical mass env t ->
  activity_row r (r_A r) mass env t = OAct br a m lam spec ->
  distinct_rates (chain_of br) (Q2R (row_flux r env)) (Q2R (fluence env)) (Q2R (row_xs r env)) (Q2R (row_xs2 r env))
                 (Q2R (r_thalf r)) (Q2R (r_thalf_par r)) ->
  0 <= evalR ln2_env_R a.
Proof. exact activity_nonneg_current. Qed.
Print Assumptions C14_activity_nonneg.

(* ---------------- omission rules and natural elements (any configuration) *)
Theorem C14_omission_rules :
  (forall cfg r amass mass env t,
     (r_fast r = true -> Qeq (fast_ratio env) 0 -> activity_row_with cfg r amass mass env t = OSkip) /\
     (~ Qeq (fast_ratio env) 0 -> activity_row_with cfg r amass mass env t <> OSkip)) /\
  (forall r env,
     ((cd_ratio env < 1)%Q -> Qeq (row_xs r env) (r_xs r) /\ Qeq (row_xs2 r env) (r_xs_par r)) /\
     ((1 <= cd_ratio env)%Q -> Qeq (row_xs r env) (r_xs r + r_res r / cd_ratio env)
                               /\ Qeq (row_xs2 r env) (r_xs_par r + r_res_par r / cd_ratio env))) /\
  (forall rows z isos m env t,
     element_activity rows z isos m env t =
     concat (map (fun ia => if Qeq_bool (m * snd ia * (1 # 100)) 0 then []
                            else isotope_activity rows z (fst ia) (m * snd ia * (1 # 100))%Q env t) isos)) /\
  (* a sample is the concatenation of what its constituents contribute (entries of one product are added) *)
  (forall rows m env t cs1 cs2,
     sample_activity rows m env t (cs1 ++ cs2) = (sample_activity rows m env t cs1 ++ sample_activity rows m env t cs2)%list
     /\ (forall cst, sample_activity rows m env t [cst] = constituent_activity rows m env t cst)).
Proof.
  exact (conj (fun cfg r amass mass env t => conj (fast_omitted cfg r amass mass env t) (fast_included cfg r amass mass env t))
        (conj (fun r env => conj (epithermal_omitted r env) (epithermal_included r env))
              (conj natural_is_abundance_sum sample_is_sum_of_constituents))).
Qed.
Print Assumptions C14_omission_rules.

(* ---------------- the regenerated activation.dat: 513 rows load, each physically meaningful, and the
   columns read under the names thermalXS, resonance, Thalf_hrs, ... are those the file's own header
   lines label so *)
Theorem C14_table :
  (exists rows, the_rows = Some rows /\ length rows = 513%nat) /\
  (forall rows, the_rows = Some rows -> forall r, In r rows -> row_ok r = true) /\
  columns_match_header ActivationDat.act_column_names ActivationDat.activation_dat = true.
Proof. exact (conj rows_loaded (conj rows_all_ok columns_as_labelled)). Qed.
Print Assumptions C14_table.

(* ---------------- the comparison rule of the tie is a theorem about the meaning *)
Theorem C14_comparison_rule_sound :
  (forall tp py v scale fl,
     (is_ge0 (sign_of (slack tp py v scale fl)) = true ->
      Rabs (Q2R py - evalR ln2_env_R v) <= Q2R (D2Q 1 tp) * Rabs (evalR ln2_env_R scale) + Q2R fl) /\
     (is_lt0 (sign_of (slack tp py v scale fl)) = true ->
      Rabs (Q2R py - evalR ln2_env_R v) > Q2R (D2Q 1 tp) * Rabs (evalR ln2_env_R scale) + Q2R fl)) /\
  (forall e, sgn_means (sign_of e) (evalR ln2_env_R e)) /\
  Q2R ln2_lo < ln 2 < Q2R ln2_hi.
Proof.
  exact (conj (fun tp py v scale fl => conj (slack_sound tp py v scale fl) (slack_violated_sound tp py v scale fl))
        (conj sign_of_sound ln2_bounds)).
Qed.
Print Assumptions C14_comparison_rule_sound.

(* ---------------- every row names the nuclide it is filed under: the "isotope" column is Sym-A for the symbol of
   atomic number Z (core.element_base) and the mass number A under which activation.init files the row *)
Theorem C14_rows_name_their_target : forall rows, the_rows = Some rows -> forall r, In r rows ->
  act_row_names_target r = true.
Proof. exact act_rows_name_their_target. Qed.
Print Assumptions C14_rows_name_their_target.

(* ---------------- the two spellings of the half-life in a row (number + unit, and hours - the column activity()
   uses) agree to 1/500, for each of the 513 reaction rows (the row 186-W -> W-188 of the data as shipped did not:
   69.4 d against 69.4 h; repaired in /repo) *)
Theorem C14_halflife_columns_agree : forall line, In line ActivationDat.activation_dat -> halflife_cols_ok line = true.
Proof. exact halflife_columns_agree. Qed.
Print Assumptions C14_halflife_columns_agree.

Theorem C14_halflife_rows_examined : length (filter is_data_row ActivationDat.activation_dat) = 513%nat.
Proof. exact halflife_rows_examined. Qed.
Print Assumptions C14_halflife_rows_examined.

(* ---------------- the parent half-life of every two-step / decay-fed row (92 rows) is the half-life, in hours, of the
   product of the primary row of the same element just above it *)
Theorem C14_parent_halflives_agree :
  parent_halflives_ok ActivationDat.activation_dat None = true /\
  length (filter is_chain_row ActivationDat.activation_dat) = 92%nat.
Proof. exact (conj sweep_parent_halflives chain_rows_examined). Qed.
Print Assumptions C14_parent_halflives_agree.

