(* Props/C13.v — statements only. *)
From Coq Require Import ZArith QArith String List Bool.
From PT Require Import Str Dec Py Loaders Formula FormulaMachine FormulaAlg Pyparse TableEnv Grammar Printer C13Check C13Proofs.
From PT Require Import C01Lex C01Wf C13Num C13Roundtrip.
Import ListNotations.
Open Scope Q_scope.

(* the normal form a printed formula parses back to (count-1 groups dissolved) has the same atom
   counts, for any nesting, whenever the printed precision is exact *)
Theorem C13_normal_form_keeps_atoms : forall (rnd : Q -> Q), (forall c, rnd c == c) ->
  forall b fuel l, cnt b (FGroup (normalize_items rnd fuel l)) == cnt b (FGroup l).
Proof. exact normalize_items_cnt. Qed.
Print Assumptions C13_normal_form_keeps_atoms.

(* counts that need no more than six digits print exactly: n/10^k, 1 <= n < 3000, k <= 7 (bounded sweep) *)
Theorem C13_short_counts_print_exactly :
  forallb (fun k => forallb (fun n => exact_on n k) (zrange 1 3000)) [0; 1; 2; 3; 4; 5; 6; 7]%Z = true.
Proof. exact fmt_count_exact_sweep. Qed.
Print Assumptions C13_short_counts_print_exactly.

Theorem C13_six_digit_counts_print_exactly :
  forallb (fun n => exact_on n 3) (zrange 999000 1000000) && forallb (fun n => exact_on n 0) (zrange 999000 1000000)
  && forallb (fun n => exact_on n 9) (zrange 100000 101000) = true.
Proof. exact fmt_count_exact_six_digits. Qed.
Print Assumptions C13_six_digit_counts_print_exactly.

(* counts of any magnitude print without exponent notation (sampled mantissas x 10^-30..10^30) *)
Theorem C13_counts_print_plain :
  forallb (fun e => forallb (fun n => plain_count (fmt_count (round64 (Qmake n 1 * pow10Q e))))
                            [1; 7; 12; 999; 123456; 1234567; 99999949; 99999951]%Z)
          (zrange (-30) 30) = true.
Proof. exact fmt_count_plain_sweep. Qed.
Print Assumptions C13_counts_print_plain.

(* ------------------------------------------------------------------ print, then parse (Proofs/C13Roundtrip.v)
   tree_of_struct / cstring_of_struct : the derivation tree of the documented grammar that a structure is
     printed as (adjacent atoms form one implicit group, a count-1 group is spliced, any other group is
     parenthesised with its count text; nothing is written between groups);
   printable P T s : computable; every count is 1 or prints as a count text of the grammar
     (C01Lex.is_count_text), every atom is named by the table (symbol known and standing for this
     element / this named isotope, isotope defined, charge listed, isotope number >= 0), no group is empty;
   wfb : the well-formedness of C01 (Proofs/C01Wf.v), including its two unambiguity conditions. *)
Open Scope string_scope.

(* the printed form of ANY structure, of any nesting depth, is the rendering of its tree *)
Theorem C13_print_is_grammar : forall P s, render (cstring_of_struct P s) = str_atoms P s.
Proof. exact render_tree_of_struct. Qed.
Print Assumptions C13_print_is_grammar.

(* printable structures print as well-formed strings: the unambiguity conditions of C01 hold by
   construction (no printed group begins with a count, adjacent atoms are one implicit group) *)
Theorem C13_printable_wf : forall P T s, printable P T s = true -> wfb T (cstring_of_struct P s) = true.
Proof. exact printable_wf. Qed.
Print Assumptions C13_printable_wf.

(* the round trip: the printed string is consumed completely and what comes back is the normal form of
   C13Check.normalize (count-1 groups dissolved, counts at the printed precision), exactly *)
Theorem C13_roundtrip : forall P T s, printable P T s = true ->
  p_compound T (str_atoms P s) = POk (normalize s, DNone) "".
Proof. exact roundtrip. Qed.
Print Assumptions C13_roundtrip.

Theorem C13_roundtrip_formula : forall E P T s, printable P T s = true ->
  parse_compound E T (str_atoms P s) = Some (ROk (new_formula E (normalize s) KTuple None None None)).
Proof. exact roundtrip_formula. Qed.
Print Assumptions C13_roundtrip_formula.

(* when every count of the structure is its own six-digit rounding, the atoms come back exactly *)
Theorem C13_roundtrip_atoms : forall E P T s, printable P T s = true -> exact_counts s = true ->
  exists f, parse_compound E T (str_atoms P s) = Some (ROk f) /\
            forall b, (dget0 (f_atoms f) b == dget0 (count_atoms s) b)%Q.
Proof. exact roundtrip_atoms. Qed.
Print Assumptions C13_roundtrip_atoms.

(* the fuel of C13Check.normalize is enough: it computes the fuel-free normal form *)
Theorem C13_normalize_is_normal_form : forall s, normalize s = norm_frag round6 (FGroup s).
Proof. exact normalize_norm. Qed.
Print Assumptions C13_normalize_is_normal_form.

(* numbers: a count equal to 1 reads back as 1; the text of a positive integer (isotope number, charge
   magnitude) is a number without leading zero that reads back as that integer *)
Theorem C13_unit_count_reads_back : forall c, (c == 1)%Q -> round6 c = 1%Q.
Proof. exact round6_one. Qed.
Print Assumptions C13_unit_count_reads_back.

Theorem C13_integer_text_reads_back : forall z, (0 < z)%Z ->
  is_whole (Z_to_string z) = true /\ parse_int (Z_to_string z) = Some z.
Proof. exact Z_to_string_pos. Qed.
Print Assumptions C13_integer_text_reads_back.

(* repr, and named formulas *)
Theorem C13_repr : forall P f, repr_formula P f = "formula('" ++ str_formula P f ++ "')".
Proof. exact repr_shape. Qed.
Print Assumptions C13_repr.

Theorem C13_str_named : forall P f n, f_name f = Some n -> n <> "" -> str_formula P f = n.
Proof. exact str_named. Qed.
Print Assumptions C13_str_named.

Theorem C13_str_unnamed : forall P f, f_name f = None \/ f_name f = Some "" ->
  str_formula P f = str_atoms P (f_struct f).
Proof. exact str_unnamed. Qed.
Print Assumptions C13_str_unnamed.

(* printable is inhabited: nesting, a spliced count-1 group, an isotope, D+, ions, a count above 1e6 *)
Theorem C13_printable_example :
  printable the_penv the_ptable ex_struct = true /\
  str_atoms the_penv ex_struct = "CaCO[18]3(H2O)6D{+}0.5(Fe[56]{2+}2.5Cl{-})1234570" /\
  exact_counts ex_struct = false.
Proof. exact ex_struct_printable. Qed.
Print Assumptions C13_printable_example.
