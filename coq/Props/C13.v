(* Props/C13.v — statements only. *)
From Coq Require Import ZArith QArith String List Bool.
From PT Require Import Str Dec Loaders Formula FormulaAlg Printer C13Check C13Proofs.
Import ListNotations.
Open Scope Q_scope.

(* the normal form a printed formula parses back to (count-1 groups dissolved) has the same atom
   counts, for any nesting, whenever the printed precision is exact *)
Theorem C13_normal_form_keeps_atoms : forall (rnd : Q -> Q), (forall c, rnd c == c) ->
  forall b fuel l, cnt b (FGroup (normalize_items rnd fuel l)) == cnt b (FGroup l).
Proof. exact normalize_items_cnt. Qed.
Print Assumptions C13_normal_form_keeps_atoms.

(* counts that need no more than six digits print exactly: n/10^k, 1 <= n < 3000, k <= 7 (bounded sweep) *)
Theorem C13_short_counts_print_exactly :
  forallb (fun k => forallb (fun n => exact_on n k) (zrange 1 3000)) [0; 1; 2; 3; 4; 5; 6; 7]%Z = true.
Proof. exact fmt_count_exact_sweep. Qed.
Print Assumptions C13_short_counts_print_exactly.

Theorem C13_six_digit_counts_print_exactly :
  forallb (fun n => exact_on n 3) (zrange 999000 1000000) && forallb (fun n => exact_on n 0) (zrange 999000 1000000)
  && forallb (fun n => exact_on n 9) (zrange 100000 101000) = true.
Proof. exact fmt_count_exact_six_digits. Qed.
Print Assumptions C13_six_digit_counts_print_exactly.

(* counts of any magnitude print without exponent notation (sampled mantissas x 10^-30..10^30) *)
Theorem C13_counts_print_plain :
  forallb (fun e => forallb (fun n => plain_count (fmt_count (round64 (Qmake n 1 * pow10Q e))))
                            [1; 7; 12; 999; 123456; 1234567; 99999949; 99999951]%Z)
          (zrange (-30) 30) = true.
Proof. exact fmt_count_plain_sweep. Qed.
Print Assumptions C13_counts_print_plain.
