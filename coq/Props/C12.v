(* Props/C12.v — statements only: density, natural density, isotope substitution, cell volume. *)
From Coq Require Import Reals ZArith QArith Qabs Qreals String Ascii List Bool.
From PT Require Import Str Dec Py Loaders Formula FormulaAlg FormulaMachine AtomEnv Pyparse TableEnv Mixture PyparseMix
                       IExpr ICheck Density C12Proofs C12Volume C12Sound.
Import ListNotations.
Open Scope Q_scope.

(* ================================================================ natural density *)
(* natural_density / density = (sum count x natural mass) / (sum count x mass), the sums running
   over the structure with every nested count multiplied through — any nesting *)
Theorem C12_natural_ratio_spec : forall E f d, f_density f = Some d -> ~ d == 0 ->
  exists nd, f_natural_density E f = Some nd /\
    nd / d == fweight (e_natmass E) (FGroup (f_struct f)) / fweight (e_mass E) (FGroup (f_struct f)).
Proof. exact natural_ratio_spec. Qed.
Print Assumptions C12_natural_ratio_spec.

(* the same over the atoms dictionary, whose entries are the count-weighted totals *)
Theorem C12_natural_ratio_atoms : forall E f d, f_density f = Some d -> ~ d == 0 ->
  exists nd, f_natural_density E f = Some nd /\
    nd / d == dweight (e_natmass E) (f_atoms f) / dweight (e_mass E) (f_atoms f)
    /\ forall b, dget0 (f_atoms f) b == cnt_s b (f_struct f).
Proof. exact natural_ratio_atoms. Qed.
Print Assumptions C12_natural_ratio_atoms.

(* in the table environment the natural mass of an atom is the mass of its natural ELEMENT less
   charge electron masses (ion charges kept); its own mass is the isotope's less the same *)
Theorem C12_env_masses : forall t d a,
  e_mass (env_with (Some t) (Some d)) a = q_of (mass_of t (az a) (aa a)) - inject_Z (aq a) * ME /\
  e_natmass (env_with (Some t) (Some d)) a = q_of (mass_of t (az a) 0) - inject_Z (aq a) * ME.
Proof. exact env_masses. Qed.
Print Assumptions C12_env_masses.

(* without isotopes (ions allowed) natural density and density coincide *)
Theorem C12_natural_formula_ratio_one : forall ot od f,
  (forall a c, In (a, c) (f_atoms f) -> aa a = 0%Z) -> ~ f_mass (env_with ot od) f == 0 ->
  natural_mass_ratio (env_with ot od) f == 1.
Proof. exact natural_formula_ratio_one. Qed.
Print Assumptions C12_natural_formula_ratio_one.

(* ================================================================ setting one, reading the other *)
Theorem C12_setter_getter_inverse : forall E f nd, ~ natural_mass_ratio E f == 0 ->
  exists x, f_natural_density E (set_natural_density E nd f) = Some x /\ x == nd.
Proof. exact setter_getter_inverse. Qed.
Print Assumptions C12_setter_getter_inverse.

Theorem C12_getter_setter_inverse : forall E f d, ~ natural_mass_ratio E f == 0 ->
  exists nd, f_natural_density E (set_density (Some d) f) = Some nd /\
  exists x, f_density (set_natural_density E nd (set_density (Some d) f)) = Some x /\ x == d.
Proof. exact getter_setter_inverse. Qed.
Print Assumptions C12_getter_setter_inverse.

Theorem C12_setter_value : forall E f nd,
  f_density (set_natural_density E nd f) = Some (nd / natural_mass_ratio E f).
Proof. exact setter_value. Qed.
Print Assumptions C12_setter_value.

(* ================================================================ tag = keyword = attribute *)
Theorem C12_tag_equals_keyword : forall E st x,
  fobj_of_compound E st (DIso x) = new_formula E st KTuple (Some x) None None /\
  fobj_of_compound E st (DNat x) = new_formula E st KTuple None (Some x) None /\
  fobj_of_compound E st DNone = new_formula E st KTuple None None None.
Proof. exact tag_equals_keyword. Qed.
Print Assumptions C12_tag_equals_keyword.

(* '@' number, then 'n' = natural, 'i' or nothing = isotopic *)
Theorem C12_tag_parse : forall r c r2, p_number r = POk c r2 ->
  p_density (String "@"%char r) =
    match skip_ws r2 with
    | String "n"%char r3 => POk (DNat c) r3
    | String "i"%char r3 => POk (DIso c) r3
    | _ => POk (DIso c) r2
    end.
Proof. exact tag_parse. Qed.
Print Assumptions C12_tag_parse.

Theorem C12_compound_tag_formula : forall E T s st d r, p_compound T s = POk (st, d) r ->
  p_compound_m E T s = POk (plain (fobj_of_compound E st d)) r.
Proof. exact compound_tag_formula. Qed.
Print Assumptions C12_compound_tag_formula.

Theorem C12_keyword_equals_attribute : forall E st k d0 nd d name,
  new_formula E st k d0 (Some nd) name = set_natural_density E nd (new_formula E st k None None name) /\
  new_formula E st k (Some d) None name = set_density (Some d) (new_formula E st k None None name).
Proof. exact keyword_equals_attribute. Qed.
Print Assumptions C12_keyword_equals_attribute.

(* ================================================================ single atom default *)
Theorem C12_single_atom_default : forall E st k name a c, count_atoms st = [(a, c)] ->
  f_density (new_formula E st k None None name) = e_density E a.
Proof. exact single_atom_default. Qed.
Print Assumptions C12_single_atom_default.

Theorem C12_several_atoms_unknown : forall E st k name, length (count_atoms st) <> 1%nat ->
  f_density (new_formula E st k None None name) = None.
Proof. exact several_atoms_unknown. Qed.
Print Assumptions C12_several_atoms_unknown.

(* ================================================================ substitution *)
Theorem C12_replace_other_counts : forall E f src tgt p b, b <> src -> b <> tgt ->
  cnt_s b (f_struct (f_replace E f src tgt p)) == cnt_s b (f_struct f).
Proof. exact replace_other_counts. Qed.
Print Assumptions C12_replace_other_counts.

Theorem C12_replace_counts : forall E f src tgt p, src <> tgt ->
  cnt_s tgt (f_struct (f_replace E f src tgt p)) == cnt_s tgt (f_struct f) + cnt_s src (f_struct f) * p /\
  cnt_s src (f_struct (f_replace E f src tgt p)) == cnt_s src (f_struct f) * (1 - p).
Proof. exact replace_counts. Qed.
Print Assumptions C12_replace_counts.

Theorem C12_replace_mass : forall E f src tgt p, src <> tgt ->
  f_mass E (f_replace E f src tgt p) ==
  f_mass E f - cnt_s src (f_struct f) * p * (e_mass E src - e_mass E tgt).
Proof. exact replace_mass. Qed.
Print Assumptions C12_replace_mass.

(* mass / density is kept, i.e. the density scales with the mass *)
Theorem C12_replace_keeps_cell_volume : forall E f src tgt p rho, src <> tgt -> f_density f = Some rho ->
  ~ rho == 0 -> ~ f_mass E f == 0 -> ~ f_mass E (f_replace E f src tgt p) == 0 ->
  exists rho', f_density (f_replace E f src tgt p) = Some rho' /\
    f_mass E (f_replace E f src tgt p) / rho' == f_mass E f / rho /\
    rho' == rho * f_mass E (f_replace E f src tgt p) / f_mass E f.
Proof. exact replace_keeps_cell_volume. Qed.
Print Assumptions C12_replace_keeps_cell_volume.

(* on the property's domain (positive masses, non-negative counts, 0 <= portion <= 1, positive
   density) no side condition on the result is needed *)
Theorem C12_replace_keeps_cell_volume_domain : forall E f src tgt p rho, src <> tgt -> 0 <= p -> p <= 1 ->
  (forall a, 0 < e_mass E a) -> (forall a c, In (a, c) (f_atoms f) -> 0 <= c) -> 0 < f_mass E f ->
  f_density f = Some rho -> 0 < rho ->
  exists rho', f_density (f_replace E f src tgt p) = Some rho' /\ 0 < rho' /\
    f_mass E (f_replace E f src tgt p) / rho' == f_mass E f / rho.
Proof. exact replace_keeps_cell_volume_domain. Qed.
Print Assumptions C12_replace_keeps_cell_volume_domain.

(* repaired model *)
Theorem C12_replace_unknown_stays_unknown : forall E f src tgt p, f_density f = None ->
  length (f_atoms (f_replace E f src tgt p)) <> 1%nat -> f_density (f_replace E f src tgt p) = None.
Proof. exact replace_unknown_stays_unknown. Qed.
Print Assumptions C12_replace_unknown_stays_unknown.

(* more than one atom certainly remains after a partial substitution, and after a full one when
   the formula holds a third atom *)
Theorem C12_replace_partial_unknown_stays_unknown : forall E f src tgt p ns, src <> tgt ->
  dget (f_atoms f) src = Some ns -> ~ p == 1 -> f_density f = None ->
  f_density (f_replace E f src tgt p) = None.
Proof. exact replace_partial_unknown_stays_unknown. Qed.
Print Assumptions C12_replace_partial_unknown_stays_unknown.

Theorem C12_replace_third_atom_unknown_stays_unknown : forall E f src tgt p ns b, src <> tgt ->
  dget (f_atoms f) src = Some ns -> b <> src -> b <> tgt -> In b (keys (f_atoms f)) -> f_density f = None ->
  f_density (f_replace E f src tgt p) = None.
Proof. exact replace_third_atom_unknown_stays_unknown. Qed.
Print Assumptions C12_replace_third_atom_unknown_stays_unknown.

Theorem C12_replace_unknown_single_atom : forall E f src tgt p a c, f_density f = None ->
  f_atoms (f_replace E f src tgt p) = [(a, c)] -> f_density (f_replace E f src tgt p) = e_density E a.
Proof. exact replace_unknown_single_atom. Qed.
Print Assumptions C12_replace_unknown_single_atom.

Theorem C12_replace_absent_source_is_identity : forall E f src tgt p, dget (f_atoms f) src = None ->
  f_struct (f_replace E f src tgt p) = hill_struct E (f_atoms f) /\
  (forall b, cnt_s b (f_struct (f_replace E f src tgt p)) == cnt_s b (f_struct f)) /\
  f_mass E (f_replace E f src tgt p) == f_mass E f /\
  (forall rho, f_density f = Some rho -> f_density (f_replace E f src tgt p) = Some rho) /\
  (f_density f = None -> length (f_atoms f) <> 1%nat -> f_density (f_replace E f src tgt p) = None).
Proof. exact replace_absent_source_is_identity. Qed.
Print Assumptions C12_replace_absent_source_is_identity.

Theorem C12_replace_same_atom_is_identity : forall E f a p,
  (forall b, cnt_s b (f_struct (f_replace E f a a p)) == cnt_s b (f_struct f)) /\
  f_mass E (f_replace E f a a p) == f_mass E f /\
  (forall rho, f_density f = Some rho -> f_density (f_replace E f a a p) = Some rho).
Proof. exact replace_same_atom_is_identity. Qed.
Print Assumptions C12_replace_same_atom_is_identity.

(* the code as it stands (after repairs 7a61cac, b97d1be) is the model, for every input: every theorem above about
   f_replace is a theorem about the code's branches *)
Theorem C12_replace_code_agrees : forall E f src tgt p,
  f_replace_code E f src tgt p = f_replace E f src tgt p.
Proof. exact replace_code_agrees. Qed.
Print Assumptions C12_replace_code_agrees.

(* the former failing inputs (H2O without density, H -> D; H2O@1, H -> H) *)
Theorem C12_replace_former_witnesses :
  f_density (f_replace_code E_unit (water None) (mkAtom 1 0 0) (mkAtom 1 2 0) 1) = None /\
  cnt_s (mkAtom 1 2 0) (f_struct (f_replace_code E_unit (water None) (mkAtom 1 0 0) (mkAtom 1 2 0) 1)) == 2 /\
  cnt_s (mkAtom 1 0 0) (f_struct (f_replace_code E_unit (water (Some 1)) (mkAtom 1 0 0) (mkAtom 1 0 0) 1)) == 2 /\
  f_density (f_replace_code E_unit (water (Some 1)) (mkAtom 1 0 0) (mkAtom 1 0 0) 1) = Some 1.
Proof. exact replace_former_witnesses. Qed.
Print Assumptions C12_replace_former_witnesses.

(* ================================================================ volumes (over R) *)
Open Scope R_scope.

Theorem C12_cell_volume_formula : forall env a b c alpha beta gamma,
  evalR env (cell_volume a (Some b) (Some c) (Some alpha) (Some beta) (Some gamma)) =
  Q2R a * Q2R b * Q2R c *
  sqrt (1 - cos (deg alpha) * cos (deg alpha) - cos (deg beta) * cos (deg beta) - cos (deg gamma) * cos (deg gamma)
        + 2 * cos (deg alpha) * cos (deg beta) * cos (deg gamma)) * Q2R TEN24.
Proof. exact cell_volume_formula. Qed.
Print Assumptions C12_cell_volume_formula.

Theorem C12_cell_volume_defaults : forall env a b c alpha beta gamma,
  evalR env (cell_volume a b c alpha beta gamma) =
  let ca := cos_or alpha 0 in
  lattice_volume (Q2R a) (Q2R (dflt b a)) (Q2R (dflt c a)) ca (cos_or beta ca) (cos_or gamma ca) * Q2R TEN24.
Proof. exact cell_volume_defaults. Qed.
Print Assumptions C12_cell_volume_defaults.

Theorem C12_cell_volume_cubic : forall env a,
  evalR env (cell_volume a None None None None None) = Q2R a * Q2R a * Q2R a * Q2R TEN24.
Proof. exact cell_volume_cubic. Qed.
Print Assumptions C12_cell_volume_cubic.

Theorem C12_cell_volume_orthorhombic : forall env a b c,
  evalR env (cell_volume a (Some b) (Some c) (Some 90%Q) None None) = Q2R a * Q2R b * Q2R c * Q2R TEN24.
Proof. exact cell_volume_orthorhombic. Qed.
Print Assumptions C12_cell_volume_orthorhombic.

Theorem C12_ten24 : Q2R TEN24 = / 10 ^ 24.
Proof. exact TEN24_value. Qed.
Print Assumptions C12_ten24.

Theorem C12_volume_packing_formula : forall env rs pf,
  evalR env (volume_packing rs pf) = cube_sum rs * (4 * Rtrigo1.PI / 3) / evalR env pf * Q2R TEN24.
Proof. exact volume_packing_formula. Qed.
Print Assumptions C12_volume_packing_formula.

Theorem C12_packing_factor_values : forall env,
  evalR env pf_cubic = Rtrigo1.PI / 6 /\ evalR env pf_bcc = Rtrigo1.PI * sqrt 3 / 8 /\
  evalR env pf_hcp = Rtrigo1.PI / sqrt 18 /\ evalR env pf_fcc = Rtrigo1.PI / sqrt 18 /\
  evalR env pf_diamond = Rtrigo1.PI * sqrt 3 / 16.
Proof. exact packing_factor_values. Qed.
Print Assumptions C12_packing_factor_values.

Theorem C12_volume_scales_with_counts : forall env k rs pf,
  evalR env (volume_packing (scale_counts k rs) pf) = Q2R k * evalR env (volume_packing rs pf).
Proof. exact volume_scales_with_counts. Qed.
Print Assumptions C12_volume_scales_with_counts.

Theorem C12_volume_additive : forall env rs1 rs2 pf,
  evalR env (volume_packing (rs1 ++ rs2) pf) =
  evalR env (volume_packing rs1 pf) + evalR env (volume_packing rs2 pf).
Proof. exact volume_additive. Qed.
Print Assumptions C12_volume_additive.

(* ================================================================ what the volume comparison of the tie means *)
(* the rational bounds computed inside Coq enclose the real value of the expression *)
Theorem C12_enclose_sound : forall e lo hi, enclose e = Some (lo, hi) -> Q2R lo <= evalR no_env_R e <= Q2R hi.
Proof. exact enclose_sound. Qed.
Print Assumptions C12_enclose_sound.

(* an implementation double accepted by the check is within (width of the enclosure) + 2^tp * max|bound|
   of the real value of the model expression *)
Theorem C12_volume_check_sound : forall tp v e p, py_Q v = Some p -> chk_expr_rel tp v e = true ->
  exists lo hi : Q, enclose e = Some (lo, hi) /\
    Q2R lo <= evalR no_env_R e <= Q2R hi /\
    let t := Q2R (Qmax (Qabs lo) (Qabs hi) * D2Q 1 tp) in
    Q2R lo - t <= Q2R p <= Q2R hi + t /\
    Rabs (Q2R p - evalR no_env_R e) <= (Q2R hi - Q2R lo) + t.
Proof. exact chk_expr_rel_sound. Qed.
Print Assumptions C12_volume_check_sound.
