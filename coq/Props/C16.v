(* Props/C16.v — statements only.  D2O contrast matching: Model/C16Calc.v (D2O_sld, D2O_match,
   _D2O_slds, _isotope_substitution, fasta.Molecule numbers) against Spec/NeutronContrast.v. *)
From Coq Require Import Reals ZArith QArith Qreals List.
From PT Require Import Str Dec Loaders Formula FormulaAlg AtomEnv Nsf IExpr Neutron NsfCalc NeutronData NeutronContrast
                       C03Spec C03Data C03Refine C03Top C04Proofs C17Proofs C16Calc C16Proofs.
Import ListNotations.
Open Scope R_scope.

(* ---- the headline: for every compound (any structure), density, wavelength or energy and D2O
   fraction f, the real and imaginary SLD reported at solute volume fraction 1 ARE the documented
   SLD of the compound with a fraction f of its labile hydrogens (H[1]) replaced by deuterium and the
   rest by natural hydrogen, at unchanged cell volume ([substituted]: counts (1-f)n of H, f n of D,
   density rho*M'/M) *)
Theorem C16_D2O_sld_equals_substitution : forall D s density natural_density w x rho f lf,
  wl_pos w ->
  density_of_compound D s density natural_density = Some rho -> (0 < rho)%Q ->
  D2O_slds D s density natural_density w = Some x ->
  let d := atoms_of s in
  let dh := fst (substitute (nd_env D) d rho aH1 aH) in
  let dd := fst (substitute (nd_env D) d rho aH1 aD) in
  (0 < snd (substitute (nd_env D) d rho aH1 aH))%Q -> (0 < snd (substitute (nd_env D) d rho aH1 aD))%Q ->
  atoms_fine D (atoms_of (struct_of dh)) -> atoms_fine D (atoms_of (struct_of dd)) ->
  Q2R (rweight (e_mass (nd_env D)) d) <> 0 ->
  tab_cell D w (fst (substituted (nd_env D) d rho f)) = Some lf -> n_total lf <> 0 -> molar_mass lf <> 0 ->
  let rf := snd (substituted (nd_env D) d rho f) in
  let '(re, im, _) := D2O_sld x 1 f in
  evalR no_env_R re = rho_re (Q2R NAq) lf (Q2R rf) /\ evalR no_env_R im = rho_im' (Q2R NAq) lf (Q2R rf).
Proof. exact D2O_sld_equals_substitution. Qed.
Print Assumptions C16_D2O_sld_equals_substitution.

(* its two halves.  (i) spec level: at unchanged cell volume the SLD of the f-substituted compound is
   the (f, 1-f) mix of the SLDs of the D form and the H form that _isotope_substitution builds *)
Theorem C16_substituted_compound_is_mix : forall D w d rho f dh rh dd rd lH lD lf,
  NoDup (keys d) ->
  substitute (nd_env D) d rho aH1 aH = (dh, rh) ->
  substitute (nd_env D) d rho aH1 aD = (dd, rd) ->
  tab_cell D w (atoms_of (struct_of dh)) = Some lH ->
  tab_cell D w (atoms_of (struct_of dd)) = Some lD ->
  tab_cell D w (fst (substituted (nd_env D) d rho f)) = Some lf ->
  Q2R NAq <> 0 -> Q2R rho <> 0 -> Q2R (rweight (e_mass (nd_env D)) d) <> 0 ->
  n_total lH <> 0 -> molar_mass lH <> 0 -> n_total lD <> 0 -> molar_mass lD <> 0 ->
  n_total lf <> 0 -> molar_mass lf <> 0 ->
  let rf := snd (substituted (nd_env D) d rho f) in
  rho_re (Q2R NAq) lf (Q2R rf) = mix (rho_re (Q2R NAq) lD (Q2R rd)) (rho_re (Q2R NAq) lH (Q2R rh)) (Q2R f) /\
  rho_im' (Q2R NAq) lf (Q2R rf) = mix (rho_im' (Q2R NAq) lD (Q2R rd)) (rho_im' (Q2R NAq) lH (Q2R rh)) (Q2R f).
Proof. exact substituted_compound_is_mix. Qed.
Print Assumptions C16_substituted_compound_is_mix.

(* (ii) the density bookkeeping of Formula.replace: mass/density (the cell volume) is unchanged, and
   the atoms are those of the compound with [source] moved to [target] *)
Theorem C16_replace_keeps_cell_volume : forall E d rho source target d' rho',
  NoDup (keys d) -> source <> target -> substitute E d rho source target = (d', rho') ->
  Q2R (rweight (e_mass E) d) <> 0 ->
  Q2R rho' * Q2R (rweight (e_mass E) d) = Q2R rho * Q2R (rweight (e_mass E) d').
Proof. exact substitute_keeps_volume. Qed.
Print Assumptions C16_replace_keeps_cell_volume.

Theorem C16_replace_totals : forall E d rho source target, NoDup (keys d) -> source <> target ->
  forall b, (dsum (fst (substitute E d rho source target)) b
             == dsum d b + ind b target (dsum d source) - ind b source (dsum d source))%Q.
Proof. exact substitute_totals. Qed.
Print Assumptions C16_replace_totals.

(* linearity at fixed cell volume, for any cells whose five sums mix *)
Theorem C16_sld_linear_fixed_volume : forall NA rho M, NA <> 0 -> rho <> 0 -> M <> 0 ->
  forall l0 l1 lf f, aggr lf = mix5 f (aggr l1) (aggr l0) ->
  n_total l0 <> 0 -> molar_mass l0 <> 0 -> n_total l1 <> 0 -> molar_mass l1 <> 0 ->
  n_total lf <> 0 -> molar_mass lf <> 0 ->
  rho_re NA lf (rho_of rho M lf) = mix (rho_re NA l1 (rho_of rho M l1)) (rho_re NA l0 (rho_of rho M l0)) f /\
  rho_im' NA lf (rho_of rho M lf) = mix (rho_im' NA l1 (rho_of rho M l1)) (rho_im' NA l0 (rho_of rho M l0)) f.
Proof. exact sld_linear_fixed_volume. Qed.
Print Assumptions C16_sld_linear_fixed_volume.

(* ---- volume fraction: 1 = the solute, 0 = the H2O/D2O mixture, linear in between *)
Theorem C16_D2O_sld_meaning : forall x vf f,
  let '(re, im, inc) := D2O_sld x vf f in
  evalR no_env_R re = solution (evalR no_env_R (o_re (fst (x_D x)))) (evalR no_env_R (o_re (fst (x_H x))))
                               (evalR no_env_R (o_re (fst (x_D2O x)))) (evalR no_env_R (o_re (fst (x_H2O x)))) (Q2R vf) (Q2R f) /\
  evalR no_env_R im = solution (evalR no_env_R (o_im (fst (x_D x)))) (evalR no_env_R (o_im (fst (x_H x))))
                               (evalR no_env_R (o_im (fst (x_D2O x)))) (evalR no_env_R (o_im (fst (x_H2O x)))) (Q2R vf) (Q2R f).
Proof. exact D2O_sld_meaning. Qed.
Print Assumptions C16_D2O_sld_meaning.

Theorem C16_solution_at_one : forall sD sH wD wH f, solution sD sH wD wH 1 f = mix sD sH f.
Proof. exact solution_at_one. Qed.
Theorem C16_solution_at_zero : forall sD sH wD wH f, solution sD sH wD wH 0 f = mix wD wH f.
Proof. exact solution_at_zero. Qed.
Theorem C16_solution_linear : forall sD sH wD wH vf f,
  solution sD sH wD wH vf f = vf * solution sD sH wD wH 1 f + (1 - vf) * solution sD sH wD wH 0 f.
Proof. exact solution_linear. Qed.
Print Assumptions C16_solution_linear.

(* ---- the match point: at the reported fraction the solution's real SLD is the same for every
   volume fraction (it is the reported match SLD), and no other fraction has this property *)
Theorem C16_match_point_invariant : forall sD sH wD wH vf,
  sD - sH + wH - wD <> 0 ->
  let fm := match_fraction sD sH wD wH in
  mix sD sH fm = mix wD wH fm /\ solution sD sH wD wH vf fm = mix sD sH fm.
Proof. exact match_point_invariant. Qed.
Print Assumptions C16_match_point_invariant.

Theorem C16_match_point_unique : forall sD sH wD wH f,
  sD - sH + wH - wD <> 0 -> mix sD sH f = mix wD wH f -> f = match_fraction sD sH wD wH.
Proof. exact match_point_unique. Qed.
Print Assumptions C16_match_point_unique.

Theorem C16_D2O_match_meaning : forall x,
  let sD := evalR no_env_R (re3 (x_D x)) in let sH := evalR no_env_R (re3 (x_H x)) in
  let wD := evalR no_env_R (re3 (x_D2O x)) in let wH := evalR no_env_R (re3 (x_H2O x)) in
  evalR no_env_R (fst (D2O_match x)) = match_fraction sD sH wD wH /\
  evalR no_env_R (snd (D2O_match x)) = mix sD sH (match_fraction sD sH wD wH).
Proof. exact D2O_match_meaning. Qed.
Print Assumptions C16_D2O_match_meaning.

(* ---- the biomolecule classes report the same match point (as a percentage) and SLDs *)
Theorem C16_molecule_agrees : forall x vf f,
  evalR no_env_R (molecule_D2Omatch x) = 100 * evalR no_env_R (fst (D2O_match x)) /\
  evalR no_env_R (molecule_D2Osld x vf f) = evalR no_env_R (fst (fst (D2O_sld x vf f))).
Proof. exact molecule_agrees. Qed.
Print Assumptions C16_molecule_agrees.
