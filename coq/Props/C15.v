(* Props/C15.v — statements only.  Each is closed by [exact] of lemmas proved in Proofs/C15Proofs.v.
   numR is the real-number instance of the code-shaped model of decay_time/find_root
   (Model/DecayTime.v: Newton iteration, at most 20 steps, |f| < 1e-10 stop, final 0.1% guard);
   decay_time_cur is that model with the form of the early-exit test and of df that the translator
   reads from /repo on every run (Gen/ActivationDat.v: "f(0) <= 0", "-sum(La*Ia*exp(..))"): reverting the
   source flips a flag and the two full statements below no longer check. *)
From Coq Require Import Reals ZArith QArith Qreals List Bool.
From Coquelicot Require Import Coquelicot.
From PT Require Import Dec Py IExpr ActEval ActEvalSound DecayTime C15Proofs C15Exist.
From PT Require C15Check.   (* the comparison rules the tie runs: kept in the build of this file *)
From PT.Gen Require ActivationDat.
Import ListNotations.
Open Scope R_scope.

(* whenever the model returns a time, the TRUE summed activity sum_i A_i(0) 2^(-t/T_i) is within 0.1%
   of the target there, whatever the smallest requested rest time To was; the function the code solves
   is the true activity minus the target for every rest-time list, and the model computes it *)
Theorem C15_returned_time_accurate :
  (forall rem To target t, 0 < target ->
     decay_time_cur (data_at rem To) To target = Ok (Ret t) ->
     Rabs (true_A rem t - target) <= / 1000 * target) /\
  (forall rem To target t, fR (data_at rem To) To target t = true_A rem t - target) /\
  (forall data To target t v, f R numR data To target t = Ok v -> v = fR data To target t).
Proof.
  exact (conj (fun rem To target t => returned_time_accurate _ _ rem To target t) (conj f_is_true_activity f_R)).
Qed.
Print Assumptions C15_returned_time_accurate.

(* it returns 0 exactly when the activity at removal is already at or below the target *)
Theorem C15_zero_iff_already_below : forall rem To target f0,
  f R numR (data_at rem To) To target 0 = Ok f0 ->
  (decay_time_cur (data_at rem To) To target = Ok RetZero <-> true_A rem 0 <= target).
Proof. exact zero_iff_already_below. Qed.
Print Assumptions C15_zero_iff_already_below.

(* the df of the model is the derivative of f, for every rest-time list *)
Theorem C15_df_is_derivative : forall data To target t v,
  df R numR ActivationDat.dt_df_rest_factor data To t = Ok v -> is_derive (fR data To target) t v.
Proof. exact df_is_derivative. Qed.
Print Assumptions C15_df_is_derivative.

(* the time the property asks for is unique and, over the reals, does not depend on the rest-time list *)
Theorem C15_rest_list_independent :
  (forall rem target t1 t2, physical_rem rem -> 0 < target ->
     true_A rem t1 = target -> true_A rem t2 = target -> t1 = t2) /\
  (forall rem To To' target t t', physical_rem rem -> 0 < target ->
     fR (data_at rem To) To target t = 0 -> fR (data_at rem To') To' target t' = 0 -> t = t').
Proof. exact (conj spec_root_unique rest_list_independent). Qed.
Print Assumptions C15_rest_list_independent.

(* REFUTED at full strength (known finding): the code-shaped model - exp raises above 709.78 as in the
   code - does depend on the rest-time list and raises an error other than RuntimeError: one product of
   1 uCi, half-life 3.6 s, target 2 uCi: rest_times=[2] -> OverflowError, rest_times=[0] -> 0 *)
Theorem C15_rest_list_independence_refuted :
  exists rem To target, physical_rem rem /\ 0 < target /\
    decay_time_cur (data_at rem To) To target = Err OtherErr /\
    decay_time_cur (data_at rem 0) 0 target = Ok RetZero.
Proof. exact rest_list_independence_refuted. Qed.
Print Assumptions C15_rest_list_independence_refuted.

(* Newton from the left: f is convex and decreasing, so a step with the true derivative from a point
   left of the root moves towards the root and does not pass it (convergence within the 20 steps is
   NOT proved; the final guard makes any returned time correct regardless) *)
Theorem C15_newton_left_monotone : forall data To target x r, physical_data data ->
  fR data To target r = 0 -> 0 <= fR data To target x -> derR data To x < 0 ->
  x <= x - fR data To target x / derR data To x <= r.
Proof. exact newton_left_monotone. Qed.
Print Assumptions C15_newton_left_monotone.

(* the sign decisions the tie uses for the 0.1% postcondition are theorems about the meaning *)
Theorem C15_sign_decision_sound : forall e, sgn_means (sign_of e) (evalR ln2_env_R e).
Proof. exact sign_of_sound. Qed.
Print Assumptions C15_sign_decision_sound.

(* the time the property speaks of exists and is unique: the summed activity is continuous and strictly
   decreasing and falls below every positive level, so for every target in (0, A(0)) there is exactly one
   time, and it is positive, at which the activity equals the target; when A(0) <= target the activity is
   at or below the target at every t >= 0 (the case in which 0 is returned) *)
Theorem C15_time_exists_unique :
  (forall rem target, physical_rem rem -> 0 < target -> target < true_A rem 0 ->
     exists t, (0 < t /\ true_A rem t = target) /\ forall t', true_A rem t' = target -> t' = t) /\
  (forall rem target t, physical_rem rem -> true_A rem 0 <= target -> 0 <= t -> true_A rem t <= target).
Proof. exact (conj spec_root_exists_unique below_stays_below). Qed.
Print Assumptions C15_time_exists_unique.

(* the summed activity never increases, and strictly decreases while it is positive *)
Theorem C15_activity_decreasing : forall rem t1 t2, physical_rem rem -> t1 < t2 ->
  true_A rem t2 <= true_A rem t1 /\ (0 < true_A rem t1 -> true_A rem t2 < true_A rem t1).
Proof. exact true_A_decr. Qed.
Print Assumptions C15_activity_decreasing.

(* the premises of the existence statement are satisfiable: 2 uCi with a half-life of 1 h reaches 1 uCi at 1 h *)
Theorem C15_time_exists_example :
  physical_rem [(2, 1)] /\ 0 < 1 /\ 1 < true_A [(2, 1)] 0 /\ true_A [(2, 1)] 1 = 1.
Proof. exact spec_root_exists_example. Qed.
Print Assumptions C15_time_exists_example.

(* Newton from the left, any number of steps: started where f >= 0 (at or left of the root) with the true derivative,
   every iterate lies between its predecessor and the root - the sequence is monotone and never passes the root
   (that it reaches |f| < 1e-10 within the code's 20 steps is still NOT proved) *)
Theorem C15_newton_iterates_left : forall data To target r, physical_data data ->
  fR data To target r = 0 -> (forall x, derR data To x < 0) ->
  forall n x0, 0 <= fR data To target x0 ->
    x0 <= newton data To target n x0 <= r /\ 0 <= fR data To target (newton data To target n x0) /\
    newton data To target n x0 <= newton data To target (S n) x0.
Proof. exact newton_iterates_left. Qed.
Print Assumptions C15_newton_iterates_left.

Theorem C15_newton_iterates_example :
  physical_data [(1, 1)] /\ (forall x, derR [(1, 1)] 0 x < 0) /\ fR [(1, 1)] 0 (/ 2) (ln 2) = 0 /\
  0 <= fR [(1, 1)] 0 (/ 2) 0.
Proof. exact newton_iterates_left_example. Qed.
Print Assumptions C15_newton_iterates_example.

(* the start value of the iteration, max_i (-log(target/Ia_i)/La_i + To), is at or left of the root: at any g not later
   than the time at which some one product alone meets the target, f(g) >= 0 (the max is attained by a product, so it
   is such a g) - the premise C15_newton_iterates_left asks for *)
Theorem C15_start_value_left : forall data To target g Ia La, physical_data data -> 0 < target ->
  In (Ia, La) data -> 0 < Ia -> g <= - ln (target / Ia) / La + To -> 0 <= fR data To target g.
Proof. exact start_value_left. Qed.
Print Assumptions C15_start_value_left.
