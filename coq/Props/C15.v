(* Props/C15.v — statements only.  Each is closed by [exact] of a lemma proved in Proofs/C15Proofs.v.
   numR is the real-number instance of the code-shaped model of decay_time/find_root
   (Model/DecayTime.v: Newton iteration, at most 20 steps, |f| < 1e-10 stop, final 0.1% guard). *)
From Coq Require Import Reals ZArith QArith Qreals List Bool.
From Coquelicot Require Import Coquelicot.
From PT Require Import Dec Py IExpr ActEval ActEvalSound DecayTime C15Proofs.
From PT Require C15Check.   (* the comparison rules the tie runs: kept in the build of this file *)
Import ListNotations.
Open Scope R_scope.

(* whenever the model returns a time, the TRUE summed activity sum_i A_i(0) 2^(-t/T_i) is within 0.1%
   of the target there, whatever the smallest requested rest time To was *)
Theorem C15_returned_time_accurate : forall early_vs_target df_rest_factor rem To target t, 0 < target ->
  decay_time_core R numR early_vs_target df_rest_factor (data_at rem To) To target = Ok (Ret t) ->
  Rabs (true_A rem t - target) <= / 1000 * target.
Proof. exact returned_time_accurate. Qed.
Print Assumptions C15_returned_time_accurate.

(* the function the code solves is the true activity minus the target, for every rest-time list *)
Theorem C15_f_is_true_activity : forall rem To target t,
  fR (data_at rem To) To target t = true_A rem t - target.
Proof. exact f_is_true_activity. Qed.
Print Assumptions C15_f_is_true_activity.

(* the model computes f with fR (when no exp overflows); decay_time_core's two boolean parameters select
   the form of the early-exit test and of df that the source has (Gen/ActivationDat.v) *)
Theorem C15_model_f : forall data To target t v, f R numR data To target t = Ok v -> v = fR data To target t.
Proof. exact f_R. Qed.
Print Assumptions C15_model_f.

(* REFUTED at full strength: "returns 0 exactly when the activity at removal is at or below the target" *)
Theorem C15_zero_iff_already_below_refuted :
  exists rem To target, physical_rem rem /\ 0 < target /\ target < true_A rem 0 /\
    forall dff, decay_time_core R numR true dff (data_at rem To) To target = Ok RetZero.
Proof. exact zero_iff_already_below_refuted. Qed.
Print Assumptions C15_zero_iff_already_below_refuted.

(* what does hold: 0 is returned exactly when A(0) < 2 target (the test is f(0) < target with f = A - target) *)
Theorem C15_zero_iff_below_twice_partial : forall dff data To target f0,
  f R numR data To target 0 = Ok f0 ->
  (decay_time_core R numR true dff data To target = Ok RetZero <-> sumR data To 0 < 2 * target).
Proof. exact zero_iff_below_twice. Qed.
Print Assumptions C15_zero_iff_below_twice_partial.

Theorem C15_already_below_returns_zero_partial : forall dff rem To target f0, 0 < target ->
  f R numR (data_at rem To) To target 0 = Ok f0 ->
  true_A rem 0 <= target -> decay_time_core R numR true dff (data_at rem To) To target = Ok RetZero.
Proof. exact already_below_returns_zero. Qed.
Print Assumptions C15_already_below_returns_zero_partial.

(* the model with the test written "f(0) <= 0" (what a repaired decay_time would be; the translator
   selects this variant when the source reads so) returns 0 exactly when A(0) <= target *)
Theorem C15_zero_iff_already_below_repaired : forall dff data To target f0,
  f R numR data To target 0 = Ok f0 ->
  (decay_time_core R numR false dff data To target = Ok RetZero <-> sumR data To 0 <= target).
Proof. exact zero_iff_already_below_repaired. Qed.
Print Assumptions C15_zero_iff_already_below_repaired.

(* REFUTED at full strength: "df is the derivative of f" *)
Theorem C15_df_is_derivative_refuted :
  exists data To target t, ~ is_derive (fR data To target) t (dfR data To t).
Proof. exact df_is_derivative_refuted. Qed.
Print Assumptions C15_df_is_derivative_refuted.

(* what does hold: df = (1 - To) f', so it is the derivative when 0 is among the rest times *)
Theorem C15_df_is_derivative_partial : forall data To target t,
  is_derive (fR data To target) t (derR data To t) /\ dfR data To t = (1 - To) * derR data To t /\
  is_derive (fR data 0 target) t (dfR data 0 t).
Proof.
  exact (fun data To target t => conj (fR_is_derive data To target t)
                                      (conj (dfR_factor data To t) (df_is_derivative_partial data target t))).
Qed.
Print Assumptions C15_df_is_derivative_partial.

(* what the model's df computes, and that the variant "-sum(La*Ia*exp(..))" is the derivative *)
Theorem C15_model_df : forall dff data To t v, df R numR dff data To t = Ok v ->
  v = if dff then dfR data To t else derR data To t.
Proof. exact model_df. Qed.
Print Assumptions C15_model_df.

Theorem C15_df_is_derivative_repaired : forall data To target t v, df R numR false data To t = Ok v ->
  is_derive (fR data To target) t v.
Proof. exact df_is_derivative_repaired. Qed.
Print Assumptions C15_df_is_derivative_repaired.

(* the time the property asks for is unique and does not depend on the rest-time list *)
Theorem C15_spec_root_unique : forall rem target t1 t2, physical_rem rem -> 0 < target ->
  true_A rem t1 = target -> true_A rem t2 = target -> t1 = t2.
Proof. exact spec_root_unique. Qed.
Print Assumptions C15_spec_root_unique.

Theorem C15_rest_list_independent : forall rem To To' target t t', physical_rem rem -> 0 < target ->
  fR (data_at rem To) To target t = 0 -> fR (data_at rem To') To' target t' = 0 -> t = t'.
Proof. exact rest_list_independent. Qed.
Print Assumptions C15_rest_list_independent.

(* the sign decisions the tie uses for the 0.1% postcondition are theorems about the meaning *)
Theorem C15_sign_decision_sound : forall e, sgn_means (sign_of e) (evalR ln2_env_R e).
Proof. exact sign_of_sound. Qed.
Print Assumptions C15_sign_decision_sound.

(* Newton from the left: f is convex and decreasing, so a step with the true derivative from a point
   left of the root moves towards the root and does not pass it (convergence within the 20 steps is
   NOT proved; the final guard makes any returned time correct regardless) *)
Theorem C15_newton_left_monotone : forall data To target x r, physical_data data ->
  fR data To target r = 0 -> 0 <= fR data To target x -> derR data To x < 0 ->
  x <= x - fR data To target x / derR data To x <= r.
Proof. exact newton_left_monotone. Qed.
Print Assumptions C15_newton_left_monotone.
