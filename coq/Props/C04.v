(* Props/C04.v — statements only.  Invariances of the neutron calculation.  They are stated on the
   documented equations ([outputs] of Spec/Neutron.v on the tabulated data [tab_cell]); by C03
   (Props/C03.v: C03_model_refines_spec) the model returns exactly these numbers, and the
   statements about [compound_at]/[neutron_scattering] below are about the model directly. *)
From Coq Require Import Reals ZArith QArith Qreals List.
From PT Require Import Str Dec Loaders Formula FormulaAlg AtomEnv C06Check Nsf C07Check IExpr Neutron NsfCalc NeutronData
                       C03Spec C03Data C03Refine C03Top C04Proofs.
Import ListNotations.
Open Scope R_scope.

(* ---- scaling the density by k scales every SLD and cross section by k, the penetration by 1/k *)
Theorem C04_scale_density : forall NA l rho lambda k,
  NA <> 0 -> rho <> 0 -> k <> 0 -> molar_mass l <> 0 ->
  outputs NA l (k * rho) lambda =
  match outputs NA l rho lambda with
  | [re; im; inc; coh; ab; ixs; pen] => [k * re; k * im; k * inc; k * coh; k * ab; k * ixs; pen / k]
  | _ => []
  end.
Proof. exact scale_density. Qed.
Print Assumptions C04_scale_density.

(* ---- results depend on the formula only through the per-atom totals [cnt_s]: two structures whose
   totals agree up to a common factor k > 0 give the same seven numbers.  k = 1: any regrouping,
   nesting or reordering of the same atoms; k <> 1: multiplying all counts by a constant *)
Theorem C04_regroup_invariant : forall D w s s' l l' rho k,
  tab_cell D w (atoms_of s) = Some l -> tab_cell D w (atoms_of s') = Some l' ->
  (forall a, (cnt_s a s' == k * cnt_s a s)%Q) -> (0 < k)%Q ->
  Q2R NAq <> 0 -> Q2R rho <> 0 -> n_total l <> 0 -> molar_mass l <> 0 ->
  outputs (Q2R NAq) l' (Q2R rho) (wl_R w) = outputs (Q2R NAq) l (Q2R rho) (wl_R w).
Proof. exact regroup_invariant. Qed.
Print Assumptions C04_regroup_invariant.

(* n * formula as Formula.__rmul__ builds it *)
Theorem C04_scale_counts : forall D w (f : fobj) n l l' rho,
  tab_cell D w (atoms_of (f_struct f)) = Some l ->
  tab_cell D w (atoms_of (f_struct (f_rmul n f))) = Some l' ->
  (0 < n)%Q -> Q2R NAq <> 0 -> Q2R rho <> 0 -> n_total l <> 0 -> molar_mass l <> 0 ->
  outputs (Q2R NAq) l' (Q2R rho) (wl_R w) = outputs (Q2R NAq) l (Q2R rho) (wl_R w).
Proof. exact scale_counts. Qed.
Print Assumptions C04_scale_counts.

(* the underlying facts: only five sums over the cell matter, and a sum over the atoms dictionary
   is determined by the per-atom totals *)
Theorem C04_outputs_homogeneous : forall NA l l' rho lambda k,
  k <> 0 -> NA <> 0 -> rho <> 0 -> n_total l <> 0 -> molar_mass l <> 0 ->
  aggr l' = scale5 k (aggr l) -> outputs NA l' rho lambda = outputs NA l rho lambda.
Proof. exact outputs_homogeneous. Qed.
Print Assumptions C04_outputs_homogeneous.

Theorem C04_dict_sum_determined : forall F k d d', NoDup (keys d) -> NoDup (keys d') ->
  (forall a, (dget0 d' a == k * dget0 d a)%Q) -> dsumR F d' = Q2R k * dsumR F d.
Proof. exact dsumR_determined. Qed.
Print Assumptions C04_dict_sum_determined.

(* ---- energy= and the equivalent wavelength= agree: the documented per-atom quantities depend on
   the call's argument only through the wavelength, and energy= means sqrt(h^2/(2 m_n E)) *)
Theorem C04_energy_equals_wavelength : forall D w w' d, wl_R w = wl_R w' -> tab_cell D w d = tab_cell D w' d.
Proof. exact energy_equals_wavelength. Qed.
Print Assumptions C04_energy_equals_wavelength.

Theorem C04_energy_argument_is_documented_wavelength : forall en,
  wl_R (WEn en) = wavelength_of_energy h_R e_R mn_R u_R (Q2R en).
Proof. exact wl_R_energy. Qed.
Print Assumptions C04_energy_argument_is_documented_wavelength.

(* ---- conversions, for any values of the constants *)
Theorem C04_energy_times_wavelength_squared : forall h e m_n u lam, lam <> 0 ->
  energy_of_wavelength h e m_n u lam * (lam * lam) = energy_factor h e m_n u.
Proof. exact energy_times_wavelength_squared. Qed.
Print Assumptions C04_energy_times_wavelength_squared.

Theorem C04_wavelength_squared_times_energy : forall h e m_n u E, 0 < E -> 0 <= energy_factor h e m_n u ->
  wavelength_of_energy h e m_n u E * wavelength_of_energy h e m_n u E * E = energy_factor h e m_n u.
Proof. exact wavelength_squared_times_energy. Qed.
Print Assumptions C04_wavelength_squared_times_energy.

Theorem C04_velocity_times_wavelength : forall h e m_n u v, v <> 0 ->
  v * wavelength_of_velocity h e m_n u v = velocity_factor h e m_n u.
Proof. exact velocity_times_wavelength. Qed.
Print Assumptions C04_velocity_times_wavelength.

Theorem C04_energy_round_trip : forall h e m_n u E, 0 < E -> 0 < energy_factor h e m_n u ->
  energy_of_wavelength h e m_n u (wavelength_of_energy h e m_n u E) = E.
Proof. exact energy_round_trip. Qed.
Print Assumptions C04_energy_round_trip.

Theorem C04_wavelength_round_trip : forall h e m_n u lam, 0 < lam -> 0 < energy_factor h e m_n u ->
  wavelength_of_energy h e m_n u (energy_of_wavelength h e m_n u lam) = lam.
Proof. exact wavelength_round_trip. Qed.
Print Assumptions C04_wavelength_round_trip.

(* E = m v^2 / 2 with lambda = h/(m v): the two factors are mutually consistent *)
Theorem C04_factors_consistent : forall h e m_n u, e <> 0 -> m_n <> 0 -> u <> 0 ->
  energy_factor h e m_n u
  = velocity_factor h e m_n u * velocity_factor h e m_n u * (m_n * u) / (2 * e) * 1000.
Proof. exact factors_consistent. Qed.
Print Assumptions C04_factors_consistent.

(* the constants the model reads from the source are these expressions on the library's constants *)
Theorem C04_energy_factor_value : EF_R = energy_factor h_R e_R mn_R u_R.
Proof. exact EF_R_is_energy_factor. Qed.
Print Assumptions C04_energy_factor_value.
Theorem C04_velocity_factor_value : Q2R VF_spec = velocity_factor h_R e_R mn_R u_R.
Proof. exact VF_R_is_velocity_factor. Qed.
Print Assumptions C04_velocity_factor_value.

(* on the model: neutron_energy(neutron_wavelength(E)) = E; v * wavelength_from_velocity(v) = VELOCITY_FACTOR *)
Theorem C04_model_energy_round_trip : forall en, (0 < en)%Q ->
  evalR no_env_R (neutron_energy_E (neutron_wavelength_E en)) = Q2R en.
Proof. exact model_energy_round_trip. Qed.
Print Assumptions C04_model_energy_round_trip.
Theorem C04_model_velocity_times_wavelength : forall v, ~ (v == 0)%Q ->
  Q2R v * evalR no_env_R (neutron_wavelength_from_velocity_E v) = Q2R VF_spec.
Proof. exact model_velocity_times_wavelength. Qed.
Print Assumptions C04_model_velocity_times_wavelength.

(* ---- the documented anchor 1.798 A = 25.3 meV = 2200 m/s *)
Theorem C04_anchor :
  Rabs (energy_of_wavelength h_R e_R mn_R u_R lambda_0 - 253 / 10) <= 5 / 100 /\
  Rabs (velocity_of_wavelength h_R e_R mn_R u_R lambda_0 - 2200) <= 1.
Proof. exact anchor. Qed.
Print Assumptions C04_anchor.

(* ---- a vector of wavelengths returns, entry by entry, the result of the scalar call *)
Theorem C04_vector_is_map : forall D s density natural_density ws v,
  neutron_scattering D s density natural_density ws = OVals v ->
  forall i w, nth_error ws i = Some w ->
    exists o, nth_error v i = Some o /\ neutron_scattering D s density natural_density [w] = OVals [o].
Proof. exact vector_is_map. Qed.
Print Assumptions C04_vector_is_map.

(* ---- imaginary and incoherent SLD, all cross sections and the penetration depth are never negative *)
Theorem C04_outputs_nonneg : forall D d rho w o ps,
  wl_pos w -> (0 < rho)%Q -> cell_ok D d -> compound_at D d rho w = Some (o, ps) ->
  0 <= evalR no_env_R (o_im o) /\ 0 <= evalR no_env_R (o_inc o) /\ 0 <= evalR no_env_R (o_coh o) /\
  0 <= evalR no_env_R (o_abs o) /\ 0 <= evalR no_env_R (o_ixs o) /\ 0 <= evalR no_env_R (o_pen o).
Proof. exact outputs_nonneg. Qed.
Print Assumptions C04_outputs_nonneg.

(* for _calculate_scattering on any inputs with non-negative number density, wavelength and sigma_s *)
Theorem C04_calculation_nonneg : forall n lam bre bim ss, 0 <= n -> 0 <= lam -> 0 <= ss ->
  match calc_R n lam bre bim ss with
  | [re; im; inc; coh; ab; ixs; pen] => 0 <= im /\ 0 <= inc /\ 0 <= coh /\ 0 <= ab /\ 0 <= ixs /\ 0 <= pen
  | _ => False
  end.
Proof. exact calc_nonneg. Qed.
Print Assumptions C04_calculation_nonneg.
