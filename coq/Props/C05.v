(* Props/C05.v — statements only.  Each is closed by [exact] of a lemma proved in Proofs/. *)
From Coq Require Import Reals ZArith QArith Qabs Qreals String List.
From PT Require Import Dec Loaders Formula Ancillary Xsf IExpr XsfReal C06Check AtomEnv C05Check
     C05Interp C05SweepDefs C05Sweep C05Real.
From PT.Gen Require Import NffIndex ElementBase.
Import ListNotations.
Open Scope Q_scope.

(* ---------------------------------------------------------------- interpolation: any table with increasing abscissae *)
(* f1, f2 at a tabulated energy are the tabulated values *)
Theorem C05_interp_node : forall (xs : list (Q * option Q)) xj yj x,
  increasing xs -> In (xj, yj) xs -> x == xj -> interp_nan xs x = yj.
Proof. exact interp_node. Qed.
Print Assumptions C05_interp_node.

(* between two neighbouring rows: the straight line through them, which stays between their values *)
Theorem C05_interp_between : forall l1 xj a xk b l2 x,
  increasing (l1 ++ (xj, Some a) :: (xk, Some b) :: l2) -> xj < x -> x < xk ->
  exists v, interp_nan (l1 ++ (xj, Some a) :: (xk, Some b) :: l2) x = Some v /\
            v == a + (b - a) / (xk - xj) * (x - xj) /\ Qminmax.Qmin a b <= v /\ v <= Qminmax.Qmax a b.
Proof. exact interp_between. Qed.
Print Assumptions C05_interp_between.

(* a missing value (-9999) at either neighbour makes the open segment NaN *)
Theorem C05_interp_nan_propagates : forall l1 xj yj xk yk l2 x,
  increasing (l1 ++ (xj, yj) :: (xk, yk) :: l2) -> xj < x -> x < xk -> yj = None \/ yk = None ->
  interp_nan (l1 ++ (xj, yj) :: (xk, yk) :: l2) x = None.
Proof. exact interp_nan_propagates. Qed.
Print Assumptions C05_interp_nan_propagates.

(* NaN outside the tabulated range *)
Theorem C05_interp_outside : forall l1 x0 (y0 : option Q) xl yl x,
  increasing ((x0, y0) :: l1 ++ [(xl, yl)]) -> x < x0 \/ xl < x ->
  interp_nan ((x0, y0) :: l1 ++ [(xl, yl)]) x = None.
Proof. exact interp_outside. Qed.
Print Assumptions C05_interp_outside.

(* an absorption edge tabulated twice (repeated abscissa) returns the upper value *)
Theorem C05_interp_repeated_abscissa : forall xe yl yu xk yk x,
  x == xe -> xe < xk -> interp_nan [(xe, yl); (xe, yu); (xk, yk)] x = yu.
Proof. exact interp_repeated_abscissa. Qed.
Print Assumptions C05_interp_repeated_abscissa.

(* a vector argument is answered element by element: scalar and vector calls agree *)
Theorem C05_scalar_vector : forall t xs i x,
  nth_error xs i = Some x -> nth_error (sf_vec t xs) i = Some (sf t x).
Proof. exact sf_vec_pointwise. Qed.
Print Assumptions C05_scalar_vector.

(* the bisection search the checker runs is the model's search *)
Theorem C05_locate_fast_correct : forall (xs : xtable) x, increasing xs -> locate_fast xs x = locate xs x.
Proof. exact (@locate_fast_correct (option Q * Q)). Qed.
Print Assumptions C05_locate_fast_correct.

(* the SLD computation the checker runs (one search per atom, reduced fractions) is the model's *)
Theorem C05_checker_sld_is_model : forall E re na T s dn nd x,
  match xray_sld_run locate E re na T s dn nd x, xray_sld_model E re na T s dn nd x with
  | Val ((a1, a2), _), Val (b1, b2) => oeq a1 b1 /\ oeq a2 b2
  | Raise, Raise => True
  | _, _ => False
  end.
Proof. exact xray_sld_run_is_model. Qed.
Print Assumptions C05_checker_sld_is_model.

(* ---------------------------------------------------------------- the regenerated tables *)
(* every .nff file loads; all but si.nff have strictly increasing energies *)
Theorem C05_nff_sorted_partial : forall name lines t, In (name, lines) nff_files -> name <> "si.nff"%string ->
  nff_table lines = Some t -> increasing t.
Proof. exact nff_sorted_partial. Qed.
Print Assumptions C05_nff_sorted_partial.

Theorem C05_nff_tables_load : forall name lines, In (name, lines) nff_files -> exists t, nff_table lines = Some t.
Proof. intros name lines H. destruct (nff_tables name lines H) as [t [E _]]. exists t. exact E. Qed.
Print Assumptions C05_nff_tables_load.

(* si.nff: data rows 580 and 581 (file lines 581, 582) are out of order *)
Theorem C05_nff_sorted_refuted : exists lines t rj rk,
  file_lookup nff_files "si.nff" = Some lines /\ nff_table lines = Some t /\
  nth_error t 579 = Some rj /\ nth_error t 580 = Some rk /\ fst rk < fst rj /\ ~ increasing t.
Proof. exact nff_sorted_refuted. Qed.
Print Assumptions C05_nff_sorted_refuted.

(* every table covers 10 eV .. 30 keV and has f2 > 0 *)
Theorem C05_nff_range : forall name lines t, In (name, lines) nff_files -> nff_table lines = Some t ->
  (exists r l, t = r :: l /\ fst r <= E_FIRST) /\ (exists l r, t = (l ++ [r])%list /\ E_LAST <= fst r) /\
  (forall r, In r t -> 0 < snd (snd r)).
Proof. exact nff_range. Qed.
Print Assumptions C05_nff_range.

(* hydrogen .. uranium have a table, nothing beyond, 92 files *)
Theorem C05_nff_elements : (forall z, (1 <= z <= 92)%Z -> has_file z = true) /\
                           (forall z, (93 <= z <= 118)%Z -> has_file z = false) /\ List.length nff_files = 92%nat.
Proof. exact nff_elements. Qed.
Print Assumptions C05_nff_elements.

(* the reader's literals in xsf.py (header rows, -9999 sentinel, eV -> keV) are the documented ones *)
Theorem C05_nff_reader_literals : reader_literals_ok = true.
Proof. exact nff_reader_literals. Qed.
Print Assumptions C05_nff_reader_literals.

(* ---------------------------------------------------------------- energy <-> wavelength, SLD *)
Theorem C05_energy_wavelength_roundtrip : forall x, ~ x == 0 -> conv_Q (conv_Q x) == x.
Proof. exact conv_roundtrip. Qed.
Print Assumptions C05_energy_wavelength_roundtrip.

Theorem C05_sld_linear_in_density : forall E re na T s rho k x r1 r2,
  xray_sld_model E re na T s (Some rho) None x = Val (r1, r2) ->
  exists r1' r2', xray_sld_model E re na T s (Some (k * rho)) None x = Val (r1', r2') /\
                  oeq r1' (oscale k r1) /\ oeq r2' (oscale k r2).
Proof. exact sld_linear_in_density. Qed.
Print Assumptions C05_sld_linear_in_density.

(* with a natural density: r_e N_A 1e-8 rho_nat / m_nat * sum n f *)
Theorem C05_sld_natural_density_form : forall E re na T s rn x,
  defined_on T x s -> ~ fweight (e_mass E) (FGroup s) == 0 -> ~ fweight (e_natmass E) (FGroup s) == 0 ->
  exists v1 v2, xray_sld_model E re na T s None (Some rn) x = Val (Some v1, Some v2) /\
    v1 == re * na * (1 # 100000000) * rn / fweight (e_natmass E) (FGroup s)
          * fweight (fun a => oval (F1_of T x a)) (FGroup s) /\
    v2 == re * na * (1 # 100000000) * rn / fweight (e_natmass E) (FGroup s)
          * fweight (fun a => oval (F2_of T x a)) (FGroup s).
Proof. exact sld_natural_density_form. Qed.
Print Assumptions C05_sld_natural_density_form.

(* equal natural density => equal SLD, whatever isotopes are present *)
Theorem C05_isotope_independent : forall E re na T s1 s2 rn x,
  fvariant (FGroup s1) (FGroup s2) ->
  (forall a b, avariant a b -> e_natmass E a == e_natmass E b) ->
  (forall a b, avariant a b -> T a = T b) ->
  defined_on T x s1 -> defined_on T x s2 ->
  ~ fweight (e_mass E) (FGroup s1) == 0 -> ~ fweight (e_mass E) (FGroup s2) == 0 ->
  ~ fweight (e_natmass E) (FGroup s1) == 0 ->
  exists a1 a2 b1 b2,
    xray_sld_model E re na T s1 None (Some rn) x = Val (Some a1, Some a2) /\
    xray_sld_model E re na T s2 None (Some rn) x = Val (Some b1, Some b2) /\
    a1 == b1 /\ a2 == b2.
Proof. exact isotope_independent. Qed.
Print Assumptions C05_isotope_independent.

(* its first hypothesis holds for the masses loaded from the regenerated tables *)
Theorem C05_natmass_of_element : forall a b, avariant a b ->
  e_natmass (env_with the_tbl the_dens) a == e_natmass (env_with the_tbl the_dens) b.
Proof. exact natmass_of_element. Qed.
Print Assumptions C05_natmass_of_element.

(* its second hypothesis holds for the table lookup of the model: every atom of an element
   (isotopes, ions, the ions of D and T) uses the element's table *)
Theorem C05_same_table_for_variants : forall a b, avariant a b ->
  sftable EB05 nff_files a = sftable EB05 nff_files b.
Proof. exact same_table_for_variants. Qed.
Print Assumptions C05_same_table_for_variants.

(* ---------------------------------------------------------------- f0 *)
(* every entry of f0_WaasKirf.dat: sum a_i + c is within 0.05 of Z - charge *)
Theorem C05_f0_at_zero : forall d, the_cm05 = Some d -> forall z sym, In (z, sym) wk_headers ->
  exists f, cm_lookup d sym = Some f /\ List.length (cm_a f) = 5%nat /\ List.length (cm_b f) = 5%nat /\
            Qabs (cm_at_zero f - inject_Z (z - entry_charge sym)) <= 5 # 100.
Proof. exact f0_at_zero. Qed.
Print Assumptions C05_f0_at_zero.

(* every atom or ion of the table that has coefficients, through the symbol Xray.f0 builds *)
Theorem C05_f0_at_zero_atoms : forall d, the_cm05 = Some d ->
  forall z name sym ions unc c f, In (z, name, sym, ions, unc) element_base -> In c (0%Z :: ions) ->
  cm_lookup d (cm_symbol sym (Some c)) = Some f -> Qabs (cm_at_zero f - inject_Z (z - c)) <= 5 # 100.
Proof. exact f0_at_zero_atoms. Qed.
Print Assumptions C05_f0_at_zero_atoms.

Theorem C05_f0_beyond_range_nan : forall f q, STOL_LIMIT < stol64 q -> f0_model f q = None.
Proof. exact f0_beyond_range_nan. Qed.
Print Assumptions C05_f0_beyond_range_nan.

Theorem C05_f0_boundary : stol64 Q24PI == 6 /\ f0_beyond Q24PI = false /\
                          f0_beyond (Q24PI + D2Q 1 (-46)) = true /\ f0_beyond 76 = true.
Proof. exact f0_boundary. Qed.
Print Assumptions C05_f0_boundary.

Open Scope R_scope.

(* the model expression means sum a_i exp(-b_i (Q/4pi)^2) + c; at Q = 0 it is sum a_i + c,
   and f0(Q) tends to that value as Q -> 0 *)
Theorem C05_f0_expr_meaning : forall env f qv, evalR env (f0_expr f qv) = f0R f (evalR env qv).
Proof. exact f0_expr_meaning. Qed.
Print Assumptions C05_f0_expr_meaning.

Theorem C05_f0_limit_at_zero : forall f, length (cm_a f) = length (cm_b f) ->
  forall eps, 0 < eps -> exists delta, 0 < delta /\
    forall q, Rabs q < delta -> Rabs (f0R f q - Q2R (cm_at_zero f)) < eps.
Proof. exact f0_limit_at_zero. Qed.
Print Assumptions C05_f0_limit_at_zero.

Theorem C05_PI64_is_pi_rounded : Rabs (Q2R PI64 - PI) <= / 2 ^ 52.
Proof. exact PI64_is_pi_rounded. Qed.
Print Assumptions C05_PI64_is_pi_rounded.

(* ---------------------------------------------------------------- refraction, reflectivity *)
Theorem C05_refraction_formula : forall env lam rho irho,
  evalR env (n_re_expr lam rho) = 1 - evalR env lam * evalR env lam / (2 * PI) * evalR env rho * / 1000000 /\
  evalR env (n_im_expr lam irho) = - (evalR env lam * evalR env lam / (2 * PI) * evalR env irho * / 1000000).
Proof. exact refraction_formula. Qed.
Print Assumptions C05_refraction_formula.

(* |(ki - kf)/(ki + kf) exp(-2 ki kf sigma^2)|^2 lies in [0, 1] for ki >= 0, Re kf >= 0 *)
Theorem C05_reflectivity_in_unit_interval : forall ki p q s2,
  0 <= ki -> 0 <= p -> 0 <= s2 -> 0 < (ki + p) * (ki + p) + q * q ->
  0 <= cnorm2 (fresnel_r ki (p, q) s2) <= 1.
Proof. exact reflectivity_in_unit_interval. Qed.
Print Assumptions C05_reflectivity_in_unit_interval.

(* the real/imaginary parts used by the model are a square root with non-negative real part *)
Theorem C05_csqrt_parts : forall a b,
  let m := zmodR a b in
  let p := sqrt ((m + a) / 2) in
  let q := sgn b * sqrt ((m - a) / 2) in
  0 <= p /\ cmul (p, q) (p, q) = (a, b).
Proof. exact csqrt_parts. Qed.
Print Assumptions C05_csqrt_parts.

(* the model expression is that squared modulus ... *)
Theorem C05_refl_core_is_modulus : forall env ki kp kq2 sg kq,
  evalR env kq2 = kq * kq ->
  0 < (evalR env ki + evalR env kp) * (evalR env ki + evalR env kp) + kq * kq ->
  evalR env (refl_core ki kp kq2 sg) =
  cnorm2 (fresnel_r (evalR env ki) (evalR env kp, kq) (evalR env sg * evalR env sg)).
Proof. exact refl_core_is_modulus. Qed.
Print Assumptions C05_refl_core_is_modulus.

(* ... and lies in [0, 1] for every wavelength > 0, index of refraction, angle in [0, pi], roughness *)
Theorem C05_refl_model_in_unit_interval : forall env,
  0 < env 0%nat -> 0 <= sin (env 3%nat) ->
  0 < sin (env 3%nat) \/ zmodR (env 1%nat * env 1%nat - env 2%nat * env 2%nat - cos (env 3%nat) * cos (env 3%nat))
                                (2 * (env 1%nat * env 2%nat)) <> 0 ->
  0 <= evalR env refl_vars <= 1.
Proof. exact refl_model_in_unit_interval. Qed.
Print Assumptions C05_refl_model_in_unit_interval.
