(* Props/C08.v — statements only: atoms are unique per table and every lookup route returns the
   same object.  The machine is Model/Core.v (heap of atom objects, the caches _element,
   _isotopes, ionset, the table attributes and the module namespace); [Inv] says the caches and
   the heap are inverse bijections; [shape s x k] says object x is live and its table, number,
   isotope number and charge are those of key k. *)
From Coq Require Import ZArith String Ascii List Sorting.Sorted.
From PT Require Import Str Py Core C08Check C08Proofs C08Sweep.
From PT.Gen Require Import ElementBase.
Import ListNotations.
Open Scope string_scope.

(* --- the invariant: initially, after every operation, hence after every sequence of operations *)
Theorem C08_inv_init : forall rows, Inv element_base (init_state element_base rows).
Proof. exact inv_init_base. Qed.
Print Assumptions C08_inv_init.

Theorem C08_inv_step : forall eb s o, Inv eb s -> Inv eb (fst (step s o)).
Proof. exact inv_step. Qed.
Print Assumptions C08_inv_step.

Theorem C08_inv_run : forall rows ops, Inv element_base (run (init_state element_base rows) ops).
Proof. exact inv_reachable. Qed.
Print Assumptions C08_inv_run.

(* objects are never changed or dropped, caches only grow *)
Theorem C08_state_only_grows : forall eb ops s, Inv eb s -> ext s (run s ops).
Proof. exact ext_run. Qed.
Print Assumptions C08_state_only_grows.

(* --- one object per key *)
Theorem C08_every_object_has_its_key : forall eb s x ob, Inv eb s -> hget s x = Some ob -> exists k, shape s x k.
Proof. exact live_shape. Qed.
Print Assumptions C08_every_object_has_its_key.

Theorem C08_attributes_are_the_key : forall s x k, shape s x k ->
  attr_table s x = Some (key_tab k) /\ attr_number s x = Some (key_z k) /\
  attr_isotope s x = key_a k /\ attr_charge s x = Some (key_q k).
Proof. exact shape_attrs. Qed.
Print Assumptions C08_attributes_are_the_key.

Theorem C08_same_key_same_object : forall eb s x y k, Inv eb s -> shape s x k -> shape s y k -> x = y.
Proof. exact same_key_same_object. Qed.
Print Assumptions C08_same_key_same_object.

(* every successful single-object operation returns a live object with a key *)
Theorem C08_results_are_live : forall eb s op s1 o, Inv eb s -> step s op = (s1, ROk o) -> exists k, shape s1 o k.
Proof. exact step_result_live. Qed.
Print Assumptions C08_results_are_live.

(* two successful lookups anywhere in a history whose results have the same key returned the same object *)
Theorem C08_routes_agree : forall eb s0 op1 s1 o1 ops op2 s3 o2 k,
  Inv eb s0 -> step s0 op1 = (s1, ROk o1) -> step (run s1 ops) op2 = (s3, ROk o2) ->
  shape s1 o1 k -> shape s3 o2 k -> o1 = o2.
Proof. exact routes_agree. Qed.
Print Assumptions C08_routes_agree.

(* lookup_stable: a lookup repeated at once or at any later time returns the same object and changes nothing *)
Theorem C08_lookup_stable : forall eb s op s1 o ops, Inv eb s -> step s op = (s1, ROk o) ->
  step (run s1 ops) op = (run s1 ops, ROk o).
Proof. exact route_stable. Qed.
Print Assumptions C08_lookup_stable.

(* --- what each route returns: the number, symbol, name, isotope number and charge match the key used *)
Theorem C08_by_number : forall eb s T z o, Inv eb s -> table_getitem s T z = Ok o -> shape s o (KElement T z).
Proof. exact table_getitem_shape. Qed.
Print Assumptions C08_by_number.

Theorem C08_by_symbol : forall eb s T str o, Inv eb s -> by_symbol s T str = Ok o ->
  (exists z n io, hget s o = Some (OElement T z n str io)) \/
  (exists e z n io a, ((str = "D" /\ a = 2%Z) \/ (str = "T" /\ a = 3%Z)) /\
                      hget s o = Some (OIsotope e a) /\ hget s e = Some (OElement T z n "H" io)).
Proof. exact by_symbol_obj. Qed.
Print Assumptions C08_by_symbol.

Theorem C08_by_name : forall eb s T str o, Inv eb s -> by_name s T str = Ok o ->
  (exists z sy io, hget s o = Some (OElement T z str sy io)) \/
  (str = "deuterium" /\ attr_ok s T "D" o) \/ (str = "tritium" /\ attr_ok s T "T" o).
Proof. exact by_name_obj. Qed.
Print Assumptions C08_by_name.

Theorem C08_by_module_attribute : forall eb s str o, Inv eb s -> mod_attr s str = Ok o ->
  (exists z n sy io, hget s o = Some (OElement TPub z n sy io) /\ (str = sy \/ str = n)) \/
  ((str = "D" \/ str = "deuterium") /\ attr_ok s TPub "D" o) \/
  ((str = "T" \/ str = "tritium") /\ attr_ok s TPub "T" o).
Proof. exact mod_attr_obj. Qed.
Print Assumptions C08_by_module_attribute.

Theorem C08_by_iso_string : forall eb s T str o, Inv eb s -> by_iso_string s T str = Ok o ->
  exists attr, alookup (snd (parse_iso_string str)) (attrs s T) = Some attr /\
    ((fst (parse_iso_string str) = None /\ o = attr) \/
     (exists a, fst (parse_iso_string str) = Some a /\ hget s o = Some (OIsotope attr a))).
Proof. exact by_iso_string_obj. Qed.
Print Assumptions C08_by_iso_string.

Theorem C08_element_getitem : forall eb s x a o, Inv eb s -> elem_getitem s x a = Ok o ->
  hget s o = Some (OIsotope x a) /\ exists T z n sy io, hget s x = Some (OElement T z n sy io).
Proof. exact elem_getitem_obj. Qed.
Print Assumptions C08_element_getitem.

Theorem C08_ion_getitem : forall eb s x q s1 o, Inv eb s -> get_ion s x q = (s1, Ok o) ->
  exists b, hget s1 o = Some (OIon b q) /\ (b = x \/ exists q', hget s x = Some (OIon b q')).
Proof. exact get_ion_obj. Qed.
Print Assumptions C08_ion_getitem.

(* no two elements of a table share a symbol or a name; D and T are isotopes 2 and 3 of element 1 *)
Theorem C08_symbol_determines_element : forall s T z1 n1 io1 z2 n2 io2 sy o1 o2, Inv element_base s ->
  hget s o1 = Some (OElement T z1 n1 sy io1) -> hget s o2 = Some (OElement T z2 n2 sy io2) -> o1 = o2.
Proof. exact symbol_determines_element. Qed.
Print Assumptions C08_symbol_determines_element.

Theorem C08_name_determines_element : forall s T z1 sy1 io1 z2 sy2 io2 n o1 o2, Inv element_base s ->
  hget s o1 = Some (OElement T z1 n sy1 io1) -> hget s o2 = Some (OElement T z2 n sy2 io2) -> o1 = o2.
Proof. exact name_determines_element. Qed.
Print Assumptions C08_name_determines_element.

Theorem C08_D_T_resolve : forall s T str a o, Inv element_base s -> (str = "D" /\ a = 2%Z \/ str = "T" /\ a = 3%Z) ->
  (step s (BySymbol T str) = (s, ROk o) \/ step s (ByIsoString T str) = (s, ROk o)) -> shape s o (KIsotope T 1 a).
Proof. exact D_T_resolve. Qed.
Print Assumptions C08_D_T_resolve.

Theorem C08_deuterium_tritium_resolve : forall s T str a o, Inv element_base s ->
  (str = "deuterium" /\ a = 2%Z \/ str = "tritium" /\ a = 3%Z) ->
  step s (ByName T str) = (s, ROk o) -> shape s o (KIsotope T 1 a).
Proof. exact deuterium_tritium_resolve. Qed.
Print Assumptions C08_deuterium_tritium_resolve.

(* every row of element_base and every isotope row of the mass table resolves, in both tables of the
   initial state, by every route to one object with that number (kernel-evaluated sweep) *)
Theorem C08_every_element_resolves : forall T r, In r element_base -> routes_ok the_init T r = true.
Proof. exact every_element_resolves. Qed.
Print Assumptions C08_every_element_resolves.

Theorem C08_every_isotope_resolves : forall T za, In za the_rows -> iso_routes_ok the_init T za = true.
Proof. exact every_isotope_resolves. Qed.
Print Assumptions C08_every_isotope_resolves.

(* --- pickling and deep-copying return the object itself *)
Theorem C08_pickle_identity : forall eb s x ob, Inv eb s -> hget s x = Some ob -> pickle s x = (s, Ok x).
Proof. exact pickle_identity. Qed.
Print Assumptions C08_pickle_identity.

Theorem C08_make_reduce : forall eb s x k, Inv eb s -> shape s x k -> make s k = (s, Ok x).
Proof. exact make_reduce. Qed.
Print Assumptions C08_make_reduce.

Theorem C08_make_returns_the_key : forall eb s k s1 o, Inv eb s -> make s k = (s1, Ok o) -> shape s1 o k.
Proof. exact make_shape. Qed.
Print Assumptions C08_make_returns_the_key.

(* --- ions and isotopes are created once *)
Theorem C08_ions_created_once : forall eb s x q s1 o ops, Inv eb s -> step s (GetIon x q) = (s1, ROk o) ->
  (next s1 = next s \/ next s1 = Pos.succ (next s)) /\
  step (run s1 ops) (GetIon x q) = (run s1 ops, ROk o).
Proof. exact ions_created_once. Qed.
Print Assumptions C08_ions_created_once.

Theorem C08_isotopes_created_once : forall eb s x a s1 o ops, Inv eb s -> step s (AddIso x a) = (s1, ROk o) ->
  (next s1 = next s \/ next s1 = Pos.succ (next s)) /\
  step (run s1 ops) (AddIso x a) = (run s1 ops, ROk o).
Proof. exact isotopes_created_once. Qed.
Print Assumptions C08_isotopes_created_once.

(* --- iteration: increasing Z / increasing A, every object exactly once, nothing else *)
Theorem C08_iter_elements_sorted_once : forall eb s T, Inv eb s ->
  let items := sorted_items (elems s T) in
  step s (IterElements T) = (s, RList (map snd items)) /\
  StronglySorted Z.lt (map fst items) /\ NoDup (map snd items) /\
  (forall z o, In (z, o) items <-> exists n sy io, hget s o = Some (OElement T z n sy io)).
Proof. exact iter_elements_sorted_once. Qed.
Print Assumptions C08_iter_elements_sorted_once.

Theorem C08_iter_isotopes_sorted_once : forall eb s x T z n sy io, Inv eb s ->
  hget s x = Some (OElement T z n sy io) ->
  let items := sorted_items (dict_of (isos s) x) in
  step s (IterIsotopes x) = (s, RList (map snd items)) /\
  StronglySorted Z.lt (map fst items) /\ NoDup (map snd items) /\
  (forall a o, In (a, o) items <-> hget s o = Some (OIsotope x a)).
Proof. exact iter_isotopes_sorted_once. Qed.
Print Assumptions C08_iter_isotopes_sorted_once.

(* --- invalid keys raise, and leave the state unchanged *)
Theorem C08_unknown_number_raises : forall s T z, Inv element_base s -> (z < 0 \/ 118 < z)%Z ->
  step s (ByZ T z) = (s, RErr KeyErr).
Proof. exact out_of_range_z_raises. Qed.
Print Assumptions C08_unknown_number_raises.

Theorem C08_unknown_symbol_raises : forall eb s T str, Inv eb s -> ~ In str (map row_sym eb) -> str <> "D" -> str <> "T" ->
  step s (BySymbol T str) = (s, RErr ValueErr).
Proof. exact unknown_symbol_raises. Qed.
Print Assumptions C08_unknown_symbol_raises.

Theorem C08_unknown_name_raises : forall rows ops T str, ~ In str (map row_name element_base) ->
  str <> "deuterium" -> str <> "tritium" ->
  let s := run (init_state element_base rows) ops in step s (ByName T str) = (s, RErr ValueErr).
Proof. exact unknown_name_raises_reachable. Qed.
Print Assumptions C08_unknown_name_raises.

Theorem C08_unknown_module_attribute_raises : forall eb s str, Inv eb s ->
  ~ In str (map row_sym eb) -> ~ In str (map row_name eb) ->
  str <> "D" -> str <> "T" -> str <> "deuterium" -> str <> "tritium" ->
  step s (ModuleAttr str) = (s, RErr AttrErr).
Proof. exact unknown_module_attr_raises. Qed.
Print Assumptions C08_unknown_module_attribute_raises.

Theorem C08_missing_isotope_raises : forall eb s x a T z n sy io, Inv eb s ->
  hget s x = Some (OElement T z n sy io) -> (forall o, hget s o <> Some (OIsotope x a)) ->
  step s (GetIso x a) = (s, RErr KeyErr).
Proof. exact missing_isotope_raises. Qed.
Print Assumptions C08_missing_isotope_raises.

Theorem C08_missing_iso_string_raises : forall eb s T str e a, Inv eb s ->
  fst (parse_iso_string str) = Some a ->
  alookup (snd (parse_iso_string str)) (attrs s T) = Some e ->
  (forall o, hget s o <> Some (OIsotope e a)) ->
  step s (ByIsoString T str) = (s, RErr ValueErr).
Proof. exact missing_iso_string_raises. Qed.
Print Assumptions C08_missing_iso_string_raises.

Theorem C08_unknown_iso_symbol_raises : forall eb s T str, Inv eb s ->
  ~ In (snd (parse_iso_string str)) (map row_sym eb) ->
  snd (parse_iso_string str) <> "D" -> snd (parse_iso_string str) <> "T" ->
  step s (ByIsoString T str) = (s, RErr ValueErr).
Proof. exact unknown_iso_symbol_raises. Qed.
Print Assumptions C08_unknown_iso_symbol_raises.

Theorem C08_iso_string_error_kind : forall s T str e, by_iso_string s T str = Er e -> e = ValueErr.
Proof. exact iso_string_error_kind. Qed.
Print Assumptions C08_iso_string_error_kind.

Theorem C08_malformed_1_2_H : forall s T, Inv element_base s -> step s (ByIsoString T "1-2-H") = (s, RErr ValueErr).
Proof. exact one_two_H_raises. Qed.
Print Assumptions C08_malformed_1_2_H.

Theorem C08_malformed_4_D : forall s T, Inv element_base s -> step s (ByIsoString T "4-D") = (s, RErr ValueErr).
Proof. exact four_D_raises. Qed.
Print Assumptions C08_malformed_4_D.

(* 'x-H': in every state reached from the initial one by operations that add no isotope with a
   non-positive mass number *)
Theorem C08_malformed_x_H : forall ops T, Forall pos_op ops ->
  let s := run the_init ops in step s (ByIsoString T "x-H") = (s, RErr ValueErr).
Proof. exact x_H_raises_reachable. Qed.
Print Assumptions C08_malformed_x_H.

Theorem C08_bad_charge_raises : forall eb s x q ob io, Inv eb s -> hget s x = Some ob ->
  (forall b q', ob <> OIon b q') -> owner_ions s x = Some io -> ~ In q io ->
  step s (GetIon x q) = (s, RErr ValueErr).
Proof. exact bad_charge_raises. Qed.
Print Assumptions C08_bad_charge_raises.

(* --- moving an atom to another table gives the atom with the same Z, A and charge there *)
Theorem C08_change_table_key : forall eb s x k T s1 o, Inv eb s -> shape s x k ->
  change_table s x T = (s1, Ok o) -> shape s1 o (retable T k).
Proof. exact change_table_key. Qed.
Print Assumptions C08_change_table_key.

(* --- an accepted string with an isotope part returns that isotope (the number matches the key used);
   '0-Sym' raises in every state reached without adding isotopes of non-positive mass number *)
Theorem C08_iso_string_with_number : forall eb s T str o, Inv eb s -> contains_char "-"%char str = true ->
  by_iso_string s T str = Ok o ->
  exists e a, fst (parse_iso_string str) = Some a /\
              alookup (snd (parse_iso_string str)) (attrs s T) = Some e /\
              hget s o = Some (OIsotope e a).
Proof. exact iso_string_with_number. Qed.
Print Assumptions C08_iso_string_with_number.

Theorem C08_isotope_string_names_isotope : iso_string_names_isotope element_base.
Proof. exact isotope_string_names_isotope. Qed.
Print Assumptions C08_isotope_string_names_isotope.

Theorem C08_zero_iso_string_raises : forall ops T sym, Forall pos_op ops ->
  let s := run the_init ops in step s (ByIsoString T ("0-" ++ sym)) = (s, RErr ValueErr).
Proof. exact zero_iso_string_raises. Qed.
Print Assumptions C08_zero_iso_string_raises.
