(* Props/C18.v — biomolecule sequences are the sum of their residues: statements only.
   Model: Model/Fasta.v (transcription of periodictable.fasta and of the prefix branch of
   formulas.formula()); tables: Gen/FastaTables.v regenerated from /repo on every run. *)
From Coq Require Import ZArith QArith String Ascii List Bool Permutation.
From PT Require Import Str Dec Py Loaders Formula FormulaMachine FormulaAlg C06Check AtomEnv Pyparse TableEnv
     Fasta C18Proofs.
From PT.Gen Require Import FastaTables.
Import ListNotations.
Open Scope Q_scope.

(* ---------------------------------------------------------------- Molecule.__init__ *)
Theorem C18_molecule_fields : forall E name M0 vol q m, molecule_of E name M0 vol q = FOk m ->
  m_name m = name /\ m_vol m = vol /\ m_charge m = q /\ f_struct (m_labile m) = f_struct M0 /\
  (m_mass m == natural_mass E (m_labile m) /\ m_Dmass m == deuterated_mass E (m_labile m)).
Proof. exact molecule_fields. Qed.
Print Assumptions C18_molecule_fields.

(* ---------------------------------------------------------------- a sequence is the sum of its residues *)
(* ANY atom environment, ANY code table, ANY string *)
Theorem C18_sequence_is_sum : forall E tab name s sm, sequence_of E tab name s = FOk sm ->
  exists parts,
    Forall2 (fun c p => tab_get tab (code_key c) = Some p) (chars (clean s)) parts /\
    s_sequence sm = clean s /\
    m_vol (s_mol sm) == qsum (map m_vol parts) /\
    m_charge (s_mol sm) == qsum (map m_charge parts) /\
    (forall a, dget0 (f_atoms (m_labile (s_mol sm))) a ==
               qsum (map (fun p => dget0 (f_atoms (m_labile p)) a) parts)) /\
    m_mass (s_mol sm) == qsum (map (fun p => natural_mass E (m_labile p)) parts) /\
    m_Dmass (s_mol sm) == qsum (map (fun p => deuterated_mass E (m_labile p)) parts).
Proof. exact sequence_is_sum_gen. Qed.
Print Assumptions C18_sequence_is_sum.

Theorem C18_sequence_mass_is_sum : forall ts ty tab name s sm, the_tables = FOk ts ->
  tables_get ts ty = Some tab -> sequence_of the_env tab name s = FOk sm ->
  exists parts,
    Forall2 (fun c p => tab_get tab (code_key c) = Some p) (chars (clean s)) parts /\
    m_mass (s_mol sm) == qsum (map m_mass parts) /\ m_Dmass (s_mol sm) == qsum (map m_Dmass parts).
Proof. exact sequence_mass_is_sum_tables. Qed.
Print Assumptions C18_sequence_mass_is_sum.

(* ---------------------------------------------------------------- order, spaces, '*' *)
Theorem C18_permutation_invariant : forall E tab name s s',
  Permutation (chars (clean s)) (chars (clean s')) ->
  seq_mol_of E tab name s = seq_mol_of E tab name s'.
Proof. exact permutation_invariant_gen. Qed.
Print Assumptions C18_permutation_invariant.

Theorem C18_spaces_ignored : forall E tab name s s', remove_spaces s = remove_spaces s' ->
  sequence_of E tab name s = sequence_of E tab name s'.
Proof. exact spaces_ignored_gen. Qed.
Print Assumptions C18_spaces_ignored.

Theorem C18_space_anywhere : forall E tab name s1 s2,
  sequence_of E tab name (s1 ++ " " ++ s2) = sequence_of E tab name (s1 ++ s2).
Proof. exact space_anywhere. Qed.
Print Assumptions C18_space_anywhere.

Theorem C18_star_truncates : forall E tab name s1 s2,
  sequence_of E tab name (s1 ++ "*" ++ s2) = sequence_of E tab name s1.
Proof. exact star_truncates_gen. Qed.
Print Assumptions C18_star_truncates.

(* ---------------------------------------------------------------- the tables of this source tree *)
Theorem C18_tables_built : exists ts, the_tables = FOk ts.
Proof. exact the_tables_built. Qed.
Print Assumptions C18_tables_built.

Theorem C18_tables_keys : forall ts, the_tables = FOk ts -> map fst ts = ["aa"; "dna"; "rna"]%string.
Proof. exact the_tables_keys. Qed.
Print Assumptions C18_tables_keys.

Theorem C18_tables_consistent : forall ts ty tab, the_tables = FOk ts -> tables_get ts ty = Some tab ->
  forall k m, tab_get tab k = Some m ->
    m_mass m == natural_mass the_env (m_labile m) /\ m_Dmass m == deuterated_mass the_env (m_labile m).
Proof. exact the_tables_consistent. Qed.
Print Assumptions C18_tables_consistent.

Theorem C18_ambiguity_is_average : forall ts, the_tables = FOk ts ->
  (exists tab, tables_get ts "aa" = Some tab /\
     forall code members name, In (code, members, name) aa_averages ->
       exists m ms, tab_get tab code = Some m /\ parts_of tab (chars members) = Some ms /\ is_average m ms) /\
  (exists tab, tables_get ts "dna" = Some tab /\
     forall code members name, In (code, members, name) nucleic_codes ->
       exists m ms, tab_get tab code = Some m /\ parts_of tab (chars members) = Some ms /\ is_average m ms) /\
  (exists tab, tables_get ts "rna" = Some tab /\
     forall code members name, In (code, members, name) nucleic_codes ->
       exists m ms, tab_get tab code = Some m /\ parts_of tab (chars members) = Some ms /\ is_average m ms).
Proof. exact ambiguity_is_average_tables. Qed.
Print Assumptions C18_ambiguity_is_average.

(* ---------------------------------------------------------------- every string over the code tables *)
Theorem C18_sequence_total : forall ts ty tab name s, the_tables = FOk ts -> tables_get ts ty = Some tab ->
  (forall c, In c (chars (clean s)) -> tab_get tab (code_key c) <> None) ->
  exists sm, sequence_of the_env tab name s = FOk sm.
Proof. exact sequence_total. Qed.
Print Assumptions C18_sequence_total.

Theorem C18_sequence_unknown_code : forall E tab name s c, In c (chars (clean s)) ->
  tab_get tab (code_key c) = None -> sequence_of E tab name s = FErr KeyErr.
Proof. exact sequence_unknown_code. Qed.
Print Assumptions C18_sequence_unknown_code.

(* ---------------------------------------------------------------- _code_average, for ANY table *)
Theorem C18_code_average_is_mean : forall E tab bases f v q, code_average E tab bases = FOk (f, v, q) ->
  exists members, parts_of tab (chars bases) = Some members /\
    v == qmean (map m_vol members) /\ q == qmean (map m_charge members) /\
    forall a, cnt_s a (f_struct f) == qmean (map (fun p => cnt_s a (f_struct (m_labile p))) members).
Proof. exact code_average_is_mean. Qed.
Print Assumptions C18_code_average_is_mean.

(* ---------------------------------------------------------------- density *)
(* m_density is the Molecule / Sequence object's own .density attribute (self.density = H.density) *)
Theorem C18_density_is_mass_over_volume : forall E name M0 vol q m, molecule_of E name M0 vol q = FOk m ->
  exists dl dn, f_density (m_labile m) = Some dl /\ f_density (m_natural m) = Some dn /\
    m_density m = Some dn /\
    (0 < vol -> dl == TEN24 * (f_mass E (m_labile m) / NA) / vol /\
                dn == TEN24 * (m_mass m / NA) / vol) /\
    (vol <= 0 -> dl == 0 /\ dn == 0).
Proof. exact molecule_density. Qed.
Print Assumptions C18_density_is_mass_over_volume.

Theorem C18_sequence_density : forall E tab name s sm, sequence_of E tab name s = FOk sm ->
  let m := s_mol sm in
  exists dl dn, f_density (m_labile m) = Some dl /\ f_density (m_natural m) = Some dn /\
    m_density m = Some dn /\
    (0 < m_vol m -> dl == TEN24 * (f_mass E (m_labile m) / NA) / m_vol m /\
                    dn == TEN24 * (m_mass m / NA) / m_vol m) /\
    (m_vol m <= 0 -> dl == 0 /\ dn == 0).
Proof. exact sequence_density. Qed.
Print Assumptions C18_sequence_density.

(* ---------------------------------------------------------------- prefixes *)
Theorem C18_prefix_equals_class : forall E T ts ty tab s,
  tables_get ts ty = Some tab -> contains_char ":" ty = false ->
  formula_of_string E T ts (ty ++ ":" ++ s) = labile_of (sequence_of E tab None s).
Proof. exact prefix_equals_class_gen. Qed.
Print Assumptions C18_prefix_equals_class.

Theorem C18_prefix_equals_class_tables : forall ts ty tab s, the_tables = FOk ts ->
  tables_get ts ty = Some tab ->
  formula_of_string the_env the_ptable ts (ty ++ ":" ++ s) = labile_of (sequence_of the_env tab None s).
Proof. exact prefix_equals_class_tables. Qed.
Print Assumptions C18_prefix_equals_class_tables.

(* ---------------------------------------------------------------- FASTA *)
Theorem C18_read_fasta_records : forall pre recs,
  Forall (fun l => is_header l = false) pre -> Forall wf_record recs ->
  read_fasta (pre ++ emit recs)%list = map record_of recs.
Proof. exact read_fasta_records_gen. Qed.
Print Assumptions C18_read_fasta_records.

Theorem C18_read_fasta_roundtrip : forall recs,
  Forall wf_record recs ->
  Forall (fun r : frecord => py_rstrip (fst r) = fst r /\ Forall (fun l => py_rstrip l = l) (snd r)) recs ->
  read_fasta (emit recs) = map (fun r : frecord => (fst r, join_all (snd r))) recs.
Proof. exact read_fasta_roundtrip. Qed.
Print Assumptions C18_read_fasta_roundtrip.

Theorem C18_read_fasta_text_records : forall pre recs,
  Forall (fun x => contains_char "010" x = false) (pre ++ emit recs)%list ->
  Forall (fun l => is_header l = false) pre -> Forall wf_record recs ->
  read_fasta_text (unlines (pre ++ emit recs)%list) = map record_of recs.
Proof. exact read_fasta_text_records. Qed.
Print Assumptions C18_read_fasta_text_records.

Theorem C18_type_from_extension :
  (forall stem, guess_type (stem ++ ".fna") None = "dna"%string) /\
  (forall stem, guess_type (stem ++ ".ffn") None = "dna"%string) /\
  (forall stem, guess_type (stem ++ ".faa") None = "aa"%string) /\
  (forall stem, guess_type (stem ++ ".frn") None = "rna"%string) /\
  (forall f, endswith ".fna" f = false -> endswith ".ffn" f = false -> endswith ".faa" f = false ->
             endswith ".frn" f = false -> guess_type f None = "aa"%string) /\
  (forall f t, guess_type f (Some t) = t).
Proof. exact type_from_extension_rules. Qed.
Print Assumptions C18_type_from_extension.

Theorem C18_loadall_records : forall E ts filename type text,
  loadall E ts filename type text =
  map (fun r : string * string => sequence_typed E ts (Some (fst r)) (snd r) (guess_type filename type))
      (read_fasta_text text).
Proof. exact loadall_records. Qed.
Print Assumptions C18_loadall_records.

Theorem C18_load_first : forall E ts filename type text,
  load E ts filename type text = match loadall E ts filename type text with
                                 | [] => FErr OtherErr
                                 | x :: _ => x
                                 end.
Proof. exact load_first. Qed.
Print Assumptions C18_load_first.
