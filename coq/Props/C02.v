(* Props/C02.v — statements only. *)
From Coq Require Import ZArith QArith String List.
From PT Require Import Loaders Formula FormulaMachine FormulaAlg AtomEnv C02Proofs.
Import ListNotations.
Open Scope Q_scope.

(* .atoms of any nesting = count-weighted sum (a count multiplies everything in its group, repeats add) *)
Theorem C02_atoms_weighted_sum : forall s b, dget0 (count_atoms s) b == cnt_s b s.
Proof. exact count_atoms_spec. Qed.
Print Assumptions C02_atoms_weighted_sum.

Theorem C02_atoms_keys_unique : forall f, NoDup (keys (count_frag f)).
Proof. exact nodup_count_frag. Qed.
Print Assumptions C02_atoms_keys_unique.

Theorem C02_add : forall b f g, cnt_s b (f_struct (f_add f g)) == cnt_s b (f_struct f) + cnt_s b (f_struct g).
Proof. exact add_cnt. Qed.
Print Assumptions C02_add.

Theorem C02_iadd : forall b f g, cnt_s b (f_struct (f_iadd f g)) == cnt_s b (f_struct f) + cnt_s b (f_struct g).
Proof. exact iadd_cnt. Qed.
Print Assumptions C02_iadd.

(* every rational multiplier, including 0, 1 and the single-fragment shortcut *)
Theorem C02_rmul : forall b n f, cnt_s b (f_struct (f_rmul n f)) == n * cnt_s b (f_struct f).
Proof. exact rmul_cnt. Qed.
Print Assumptions C02_rmul.

Theorem C02_mass_structural : forall E f, f_mass E f == fweight (e_mass E) (FGroup (f_struct f)).
Proof. exact mass_structural. Qed.
Print Assumptions C02_mass_structural.

Theorem C02_mass_add : forall E f g, f_mass E (f_add f g) == f_mass E f + f_mass E g.
Proof. exact mass_add. Qed.
Print Assumptions C02_mass_add.

Theorem C02_mass_rmul : forall E n f, f_mass E (f_rmul n f) == n * f_mass E f.
Proof. exact mass_rmul. Qed.
Print Assumptions C02_mass_rmul.

Theorem C02_charge_structural : forall f, f_charge f == fweight (fun a => inject_Z (aq a)) (FGroup (f_struct f)).
Proof. exact charge_structural. Qed.
Print Assumptions C02_charge_structural.

Theorem C02_charge_add : forall f g, f_charge (f_add f g) == f_charge f + f_charge g.
Proof. exact charge_add. Qed.
Print Assumptions C02_charge_add.

Theorem C02_charge_rmul : forall n f, f_charge (f_rmul n f) == n * f_charge f.
Proof. exact charge_rmul. Qed.
Print Assumptions C02_charge_rmul.

Theorem C02_ion_mass : forall ot od a,
  e_mass (env_with ot od) a ==
  e_mass (env_with ot od) (mkAtom (az a) (aa a) 0) - inject_Z (aq a) * (match ot, od with Some _, Some _ => ME | _, _ => 0 end).
Proof. exact ion_mass. Qed.
Print Assumptions C02_ion_mass.

Theorem C02_fractions_sum_one : forall E f, ~ f_mass E f == 0 ->
  fold_right Qplus 0 (map snd (f_mass_fraction E f)) == 1.
Proof. exact fractions_sum_one. Qed.
Print Assumptions C02_fractions_sum_one.

Theorem C02_fraction_value : forall E f a x, In (a, x) (f_mass_fraction E f) ->
  exists c, In (a, c) (f_atoms f) /\ x = c * e_mass E a / f_mass E f.
Proof. exact fraction_value. Qed.
Print Assumptions C02_fraction_value.

(* operations returning a new formula leave every existing object unchanged *)
Theorem C02_pure_ops_preserve : forall E s o s', pure_op o = true -> step E s o = Some s' ->
  forall i, (i < length (heap s))%nat -> obj_get s' i = obj_get s i.
Proof. exact pure_ops_preserve. Qed.
Print Assumptions C02_pure_ops_preserve.

Theorem C02_iadd_changes_only_target : forall E s x y s' ox, step E s (OIadd x y) = Some s' ->
  var_get s x = Some ox -> forall i, i <> ox -> obj_get s' i = obj_get s i.
Proof. exact iadd_changes_only_target. Qed.
Print Assumptions C02_iadd_changes_only_target.

Theorem C02_step_add_atoms : forall E s v x y s' ox oy f g b,
  step E s (OAdd v x y) = Some s' -> var_get s x = Some ox -> var_get s y = Some oy ->
  obj_get s ox = Some f -> obj_get s oy = Some g ->
  exists h, var_get s' v = Some (length (heap s)) /\ obj_get s' (length (heap s)) = Some h /\
            dget0 (f_atoms h) b == dget0 (f_atoms f) b + dget0 (f_atoms g) b.
Proof. exact step_add_atoms. Qed.
Print Assumptions C02_step_add_atoms.

Theorem C02_step_rmul_atoms : forall E s v n x s' ox f b,
  step E s (ORmul v n x) = Some s' -> var_get s x = Some ox -> obj_get s ox = Some f ->
  exists h, var_get s' v = Some (length (heap s)) /\ obj_get s' (length (heap s)) = Some h /\
            dget0 (f_atoms h) b == n * dget0 (f_atoms f) b.
Proof. exact step_rmul_atoms. Qed.
Print Assumptions C02_step_rmul_atoms.

Theorem C02_step_iadd_atoms : forall E s x y s' ox oy f g b,
  step E s (OIadd x y) = Some s' -> var_get s x = Some ox -> var_get s y = Some oy ->
  obj_get s ox = Some f -> obj_get s oy = Some g ->
  exists h, var_get s' x = Some ox /\ obj_get s' ox = Some h /\
            dget0 (f_atoms h) b == dget0 (f_atoms f) b + dget0 (f_atoms g) b.
Proof. exact step_iadd_atoms. Qed.
Print Assumptions C02_step_iadd_atoms.

Theorem C02_formula_nested_atoms : forall E s v st de nd na s' b,
  step E s (OFormula v (SNested st) de nd na) = Some s' ->
  exists h, obj_get s' (length (heap s)) = Some h /\ dget0 (f_atoms h) b == cnt_s b st.
Proof. exact formula_nested_atoms. Qed.
Print Assumptions C02_formula_nested_atoms.

(* every program keeps the machine well-formed (all sequences of operations) *)
Theorem C02_run_inv : forall E ops s s', Inv s -> run E s ops = Some s' -> Inv s'.
Proof. exact run_inv. Qed.
Print Assumptions C02_run_inv.

(* "an ion weighing its atom less charge electron masses": the constant in constants.py is the electron mass *)
Theorem C02_electron_mass_is_reference : electron_mass_ok ME = true.
Proof. exact electron_mass_is_reference. Qed.
Print Assumptions C02_electron_mass_is_reference.
