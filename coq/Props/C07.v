(* Props/C07.v — statements only.  Each is closed by [exact] of a lemma proved in Proofs/. *)
From Coq Require Import ZArith QArith Qabs String Ascii List FMapPositive.
From PT Require Import Str Dec Loaders Nsf C07Check C07Fix C07Sweep C07Rows.
From PT.Gen Require Import NsfTables.
Open Scope string_scope.

(* ---- the regenerated table loads: every row is accepted and the assertions of nsf.init hold *)
Theorem C07_tables_load : exists s, the_nsf = Some s.
Proof. exact the_nsf_loaded. Qed.
Print Assumptions C07_tables_load.

(* ---- every row: the atom it names serves that row's cells (independent re-reading: cut at
   commas, number = text before '(' or '*' after an optional '<', blank = missing), the
   imaginary lengths of the companion table, spin and abundance-or-half-life column; the two
   documented gap fills (Xe total, Eu-151 b_c) are part of [row_ok] *)
Theorem C07_every_row_is_served :
  forall s, the_nsf = Some s -> forall line, In line nsftable -> row_ok s line = true.
Proof. exact every_row_is_served. Qed.
Print Assumptions C07_every_row_is_served.

Theorem C07_init_assertions_hold : forall line, In line nsftable -> gaps_blank line = true.
Proof. exact init_assertions_hold. Qed.
Print Assumptions C07_init_assertions_hold.

Theorem C07_imaginary_rows_named : forall line, In line nsftableI -> imag_named line = true.
Proof. exact imaginary_rows_named. Qed.
Print Assumptions C07_imaginary_rows_named.

(* ---- fix_number, for any text *)
Theorem C07_fix_number_blank : fix_number "" = Some None.
Proof. exact fix_number_blank. Qed.
Print Assumptions C07_fix_number_blank.

Theorem C07_fix_number_marks : forall s t, strip_marks s = strip_marks t -> fix_number s = fix_number t.
Proof. exact fix_number_marks. Qed.
Print Assumptions C07_fix_number_marks.

Theorem C07_fix_number_limit : forall s, fix_number (String "<" s) = fix_number s.
Proof. exact fix_number_limit. Qed.
Print Assumptions C07_fix_number_limit.

Theorem C07_fix_number_estimate : forall s, fix_number (s ++ "*") = fix_number s.
Proof. exact fix_number_estimate. Qed.
Print Assumptions C07_fix_number_estimate.

Theorem C07_fix_number_plain : forall v, plain v -> v <> "" ->
  fix_number v = match parse_dec v with Some q => Some (Some q) | None => None end.
Proof. exact fix_number_plain. Qed.
Print Assumptions C07_fix_number_plain.

(* value(unc)...: whenever fix_number returns, it returns the number before the parenthesis *)
Theorem C07_fix_number_drops_uncertainty : forall v w x,
  plain v -> fix_number (v ++ String "(" w) = Some x -> x <> None /\ x = parse_dec v.
Proof. exact fix_number_value_unc. Qed.
Print Assumptions C07_fix_number_drops_uncertainty.

(* ---- column mapping, for any line: an accepted line has exactly eleven columns and the record's
   fields are the columns by position, each read by fix_number *)
Theorem C07_row_record_columns : forall columns nd r, row_record columns nd = Some r ->
  let cell i := nth i columns "" in
  length columns = 11%nat /\
  (exists x, fix_number (cell 3%nat) = Some x /\ r_bc r = option_map NRead x) /\
  fix_number (cell 4%nat) = Some (r_bp r) /\
  fix_number (cell 5%nat) = Some (r_bm r) /\
  r_energy r = String.eqb (cell 6%nat) "E" /\
  fix_number (cell 7%nat) = Some (r_coh r) /\
  fix_number (cell 8%nat) = Some (r_inc r) /\
  (exists t, fix_number (cell 9%nat) = Some t /\ r_tot r = option_map NRead t) /\
  fix_number (cell 10%nat) = Some (r_abs r) /\
  r_bci r = None /\ r_bpi r = None /\ r_bmi r = None /\ r_tab r = None /\ r_nd r = nd.
Proof. exact row_record_columns. Qed.
Print Assumptions C07_row_record_columns.

(* ---- complex b_c *)
(* any line the row loader accepts yields b_c_complex = b_c - i absorption/(2000*1.798) *)
Theorem C07_row_b_c_complex : forall columns nd r, row_record columns nd = Some r ->
  exists ab im, r_abs r = Some ab /\ r_bcc r = Some (r_bc r, im) /\
                (im == - ab / (2000 * (1798 # 1000)))%Q.
Proof. exact row_record_bcc. Qed.
Print Assumptions C07_row_b_c_complex.

(* full strength on the loaded table: every record, the gap-filled Eu-151 one included, has a
   complex b_c whose real part is the reported b_c (nan when b_c is missing) and whose imaginary
   part is -absorption/(2000*1.798) *)
Theorem C07_b_c_complex_identity :
  forall s, the_nsf = Some s -> forall i r, PositiveMap.find i (s_recs s) = Some r ->
    exists ab re im, r_abs r = Some ab /\ r_bcc r = Some (re, im) /\
                     (im == - ab / (2000 * (1798 # 1000)))%Q /\ num_same (r_bc r) re.
Proof. exact b_c_complex_identity. Qed.
Print Assumptions C07_b_c_complex_identity.

Theorem C07_absorption_wavelength :
  match parse_dec ABSORPTION_WAVELENGTH_text with Some q => (q == 1798 # 1000)%Q | None => False end.
Proof. exact absorption_wavelength_is_1_798. Qed.
Print Assumptions C07_absorption_wavelength.

(* ---- single-isotope elements and absent atoms *)
Theorem C07_sole_isotope_fallback :
  forall s, the_nsf = Some s -> forall z a, In (z, a) row_atoms -> n_rows_of z = 1%nat -> a <> 0%Z ->
    neutron_of s z 0 = neutron_of s z a.
Proof. exact sole_isotope_same_record. Qed.
Print Assumptions C07_sole_isotope_fallback.

(* full strength ("an element without a row that is not a single-isotope entry has no SLD") is
   REFUTED by the faithful model: Pu (rows Pu-239, Pu-240, Pu-242, no row "94-Pu") serves the
   record of Pu-239.  Witness and the part that holds: *)
Theorem C07_absent_atoms_no_sld_refuted :
  exists s z, the_nsf = Some s /\ ~ In (z, 0%Z) row_atoms /\ (1 < n_rows_of z)%nat /\
              has_sld (neutron_of s z 0) = true.
Proof. exact absent_atoms_no_sld_refuted. Qed.
Print Assumptions C07_absent_atoms_no_sld_refuted.

Theorem C07_absent_atoms_no_sld_partial :
  forall s, the_nsf = Some s -> forall z a, (0 <= z)%Z -> (0 <= a < 1000)%Z ->
    ~ In (z, a) row_atoms -> (a = 0%Z -> n_rows_of z = 0%nat) ->
    neutron_of s z a = missing_rec /\ has_sld (neutron_of s z a) = false.
Proof. exact absent_atoms_no_sld_partial. Qed.
Print Assumptions C07_absent_atoms_no_sld_partial.

(* ---- energy-dependent tables *)
(* numpy.interp on any strictly increasing table returns the tabulated value at every node *)
Theorem C07_interp_node : forall t, sorted t -> forall k v, In (k, v) t -> interp k t = Some v.
Proof. exact interp_node. Qed.
Print Assumptions C07_interp_node.

Theorem C07_energy_tables_increasing : forall t, In t energy_dependent_tables -> energies_ok t = true.
Proof. exact energy_tables_increasing. Qed.
Print Assumptions C07_energy_tables_increasing.

Theorem C07_energy_tables_attached :
  forall s, the_nsf = Some s -> forall t, In t energy_dependent_tables -> etab_attached s t = true.
Proof. exact energy_tables_attached. Qed.
Print Assumptions C07_energy_tables_attached.

Theorem C07_node_returns_tabulated :
  forall s, the_nsf = Some s -> forall i r rows, PositiveMap.find i (s_recs s) = Some r ->
    r_tab r = Some (ETab rows) ->
    forall e re im, In (e, re, im) rows -> b_c_at_energy r e = Some (re, im).
Proof. exact node_returns_tabulated. Qed.
Print Assumptions C07_node_returns_tabulated.

Theorem C07_source_nodes_return_tabulated :
  forall s, the_nsf = Some s -> forall t, In t energy_dependent_tables -> source_nodes_ok s t = true.
Proof. exact source_nodes_return_tabulated. Qed.
Print Assumptions C07_source_nodes_return_tabulated.

(* every row of nsftable and of the companion table of imaginary lengths names the element it is filed under
   (key "Z-Sym[-A]": the symbol is the symbol of atomic number Z, the mass number is positive) *)
Theorem C07_rows_name_their_element :
  (forall line, In line nsftable -> nsf_row_ok line = true) /\
  (forall line, In line nsftableI -> nsf_row_ok line = true).
Proof. exact nsf_rows_name_their_element. Qed.
Print Assumptions C07_rows_name_their_element.

