(* Props/C01.v — statements only.  Definitions used in the statements:
   Spec/Grammar.v      derivation trees (elem, sep, group = GImp | GExp, comp, cstring), render, sem_comp,
                       leaves_cnt, leaves_charge  (written from doc/sphinx/guide/formula_grammar.rst)
   Model/Pyparse.v     p_compound, at_end, pres = POk | PFail | PAbort  (transcription of formula_grammar)
   Model/TableEnv.v    parse_compound, the_ptable
   Proofs/C01Wf.v      wfb (boolean well-formedness of a tree w.r.t. a table), v_comp, v_dens
   Proofs/C01Consume.v accepted, bal (parenthesis depth)
   Proofs/C01Reject.v  bpos / r_pos / wf_pos (a prefix of a well-formed string that ends just before an
                       element, at any nesting depth), lex_elem
   Proofs/C01Positions.v  at_comp (an element of a tree, with its position and the text after it),
                       replaced l l' e e' (l' is l with the element e at one position replaced by e')
   Proofs/C01Stuck.v   stuck W (a text at which no group, separator, ')' or '@' starts and no count is read),
                       garbage (a character of no token)
   Proofs/C01Proofs.v  dens_spec, the example trees *)
From Coq Require Import ZArith QArith String Ascii List Bool.
From PT Require Import Str Dec Py Loaders Formula FormulaMachine AtomEnv Pyparse TableEnv Grammar FormulaAlg.
From PT Require Import C01Lex C01Wf C01Sem C01Accept C01Consume C01Reject C01Positions C01Stuck C01Proofs.
Import ListNotations.
Open Scope string_scope.

(* the composition read off a parsed structure is the count-weighted sum over its nesting *)
Theorem C01_structure_denotes_weighted_sum : forall s b, (dget0 (count_atoms s) b == cnt_s b s)%Q.
Proof. exact count_atoms_spec. Qed.
Print Assumptions C01_structure_denotes_weighted_sum.

(* ------------------------------------------------------------------ acceptance *)
(* wfb is not vacuous: the guide's strings are renderings of well-formed trees *)
Theorem C01_wf_examples :
  (render ex_hydrate = "CaCO3+6H2O" /\ wfb the_ptable ex_hydrate = true) /\
  (render ex_peg = "HO ((CH2)2O)6 H" /\ wfb the_ptable ex_peg = true) /\
  (render ex_iso = "CaCO[18]3+(3HO1.5)2" /\ wfb the_ptable ex_iso = true) /\
  (render ex_ion = "P{5+}O{2-}4 @1.5n" /\ wfb the_ptable ex_ion = true).
Proof. exact examples_wf. Qed.
Print Assumptions C01_wf_examples.

(* every well-formed tree (any nesting depth, any table) is parsed completely, and the structure
   returned has, for every atom, the count the documented reading assigns; the net charge and the
   density tag likewise *)
Theorem C01_accept : forall T t, wfb T t = true ->
  exists st d lv,
    p_compound T (render t) = POk (st, d) "" /\
    sem_comp (t_symbol T) (c_comp t) = Some lv /\
    (forall b, cnt_s b st == leaves_cnt lv b)%Q /\
    (fweight (fun a => inject_Z (aq a)) (FGroup st) == leaves_charge lv)%Q /\
    dens_spec t d.
Proof. exact accept. Qed.
Print Assumptions C01_accept.

(* the same, with the structure given explicitly and with any closing text after it *)
Theorem C01_accept_structure : forall T t rest, wfb T t = true -> tail_ok rest = true ->
  p_compound T (render t ++ rest) = POk (v_comp T (c_comp t), v_dens (c_density t)) rest.
Proof. exact compound_accept_rest. Qed.
Print Assumptions C01_accept_structure.

(* the Formula object: .atoms, .charge and .density are those of the documented reading *)
Theorem C01_accept_formula : forall E T t, wfb T t = true ->
  exists f lv,
    parse_compound E T (render t) = Some (ROk f) /\
    sem_comp (t_symbol T) (c_comp t) = Some lv /\
    (forall b, dget0 (f_atoms f) b == leaves_cnt lv b)%Q /\
    (f_charge f == leaves_charge lv)%Q /\
    match c_density t with
    | None => f_density f = init_density E (f_struct f) None None
    | Some (_, txt, m) =>
        exists q, parse_dec txt = Some q /\
                  f_density f = match m with
                                | Some ch => if Ascii.eqb ch "n"
                                             then Some (q / natural_mass_ratio E f)%Q
                                             else Some q
                                | None => Some q
                                end
    end.
Proof. exact accept_formula. Qed.
Print Assumptions C01_accept_formula.

(* the two unambiguity clauses of wfb cannot be dropped: trees that violate only them are parsed
   to a different composition than the documented reading of the tree ("H2O" as H.2O, "2HO" as
   2H.O, "(HO)2O" as (HO).2O) *)
Theorem C01_side_conditions_needed :
  (forallb (fun p => wf_group the_ptable (snd p)) (c_comp amb_count) = true /\
   forallb (fun p => wf_group the_ptable (snd p)) (c_comp amb_imp) = true /\
   forallb (fun p => wf_group the_ptable (snd p)) (c_comp amb_exp) = true) /\
  count_of the_ptable amb_count (mkAtom 1 0 0) = Some (2, 1)%Q /\
  count_of the_ptable amb_imp (mkAtom 8 0 0) = Some (2, 1)%Q /\
  count_of the_ptable amb_exp (mkAtom 1 0 0) = Some (2, 1)%Q.
Proof. exact side_conditions_needed. Qed.
Print Assumptions C01_side_conditions_needed.

(* ------------------------------------------------------------------ rejection *)
(* accepted = parse_compound returns a formula; an abort is the exception of that kind *)
Theorem C01_accepted_iff_formula : forall E T s,
  accepted T s <-> exists f, parse_compound E T s = Some (ROk f).
Proof. exact accepted_iff_formula. Qed.
Print Assumptions C01_accepted_iff_formula.

Theorem C01_abort_is_exception : forall E T s e,
  p_compound T s = PAbort e -> parse_compound E T s = Some (RErr e).
Proof. exact abort_is_exception. Qed.
Print Assumptions C01_abort_is_exception.

(* an unknown symbol at ANY element position of an otherwise well-formed string (inside any number of
   open parentheses, after any well-formed groups), whatever follows: ValueError *)
Theorem C01_reject_unknown_symbol : forall T P sym Z, wf_pos T P = true ->
  is_symbol sym = true -> t_symbol T sym = None -> hdp notlower Z = true ->
  p_compound T (r_pos P ++ sym ++ Z) = PAbort ValueErr.
Proof. exact unknown_symbol_aborts. Qed.
Print Assumptions C01_reject_unknown_symbol.

(* an isotope the element does not have, at any such position: KeyError *)
Theorem C01_reject_undefined_isotope : forall T P e z n v Z, wf_pos T P = true ->
  lex_elem e = true -> t_symbol T (el_sym e) = Some (z, 0%Z) ->
  el_iso e = Some n -> parse_int n = Some v -> t_has_iso T z v = false -> hdp nf_elem Z = true ->
  p_compound T (r_pos P ++ r_elem e ++ Z) = PAbort KeyErr.
Proof. exact undefined_isotope_aborts. Qed.
Print Assumptions C01_reject_undefined_isotope.

(* an isotope tag on D or T: TypeError *)
Theorem C01_reject_isotope_of_isotope : forall T P e z a0 n Z, wf_pos T P = true ->
  lex_elem e = true -> t_symbol T (el_sym e) = Some (z, a0) -> a0 <> 0%Z ->
  el_iso e = Some n -> hdp nf_elem Z = true ->
  p_compound T (r_pos P ++ r_elem e ++ Z) = PAbort TypeErr.
Proof. exact isotope_of_isotope_aborts. Qed.
Print Assumptions C01_reject_isotope_of_isotope.

(* a charge the element does not list: ValueError *)
Theorem C01_reject_undefined_charge : forall T P e z a0 q Z, wf_pos T P = true ->
  lex_elem e = true -> t_symbol T (el_sym e) = Some (z, a0) ->
  match el_iso e with
  | None => True
  | Some n => a0 = 0%Z /\ exists v, parse_int n = Some v /\ t_has_iso T z v = true
  end ->
  el_ion e <> None -> ion_val (el_ion e) = Some q -> t_has_ion T z q = false -> hdp nf_elem Z = true ->
  p_compound T (r_pos P ++ r_elem e ++ Z) = PAbort ValueErr.
Proof. exact undefined_charge_aborts. Qed.
Print Assumptions C01_reject_undefined_charge.

Theorem C01_reject_unknown_symbol_example : p_compound the_ptable "H2(O2Xx3)3O" = PAbort ValueErr.
Proof. exact unknown_symbol_nested. Qed.
Print Assumptions C01_reject_unknown_symbol_example.

(* parentheses: for ALL strings, acceptance implies balanced parentheses *)
Theorem C01_reject_unbalanced : forall T s, accepted T s -> bal 0 s = Some 0%nat.
Proof. exact accepted_balanced. Qed.
Print Assumptions C01_reject_unbalanced.

(* so a single parenthesis inserted anywhere into an accepted string is rejected *)
Theorem C01_reject_paren_inserted : forall T a b, accepted T (a ++ b) ->
  ~ accepted T (a ++ "(" ++ b) /\ ~ accepted T (a ++ ")" ++ b).
Proof. exact paren_inserted_rejected. Qed.
Print Assumptions C01_reject_paren_inserted.

Theorem C01_reject_unmatched_paren : forall T t, wfb T t = true ->
  ~ accepted T (render t ++ ")") /\ ~ accepted T ("(" ++ render t) /\
  ~ accepted T (render t ++ "(") /\ ~ accepted T (")" ++ render t).
Proof. exact unmatched_paren_rejected. Qed.
Print Assumptions C01_reject_unmatched_paren.

(* '@' not followed by a number *)
Theorem C01_reject_at_without_number : forall T l ws Y, wf_comp T l = true -> all_chars is_blank ws = true ->
  (forall q r, p_number Y <> POk q r) ->
  ~ accepted T (r_comp l ++ ws ++ "@" ++ Y).
Proof. exact at_without_number_rejected. Qed.
Print Assumptions C01_reject_at_without_number.

(* the same three, stated on trees: one element of a well-formed tree replaced, at any nesting depth;
   X is what follows the compound (a density tag, a closing text, nothing) *)
Theorem C01_reject_replaced_unknown_symbol : forall T l l' e e' X, wf_comp T l = true -> replaced l l' e e' ->
  hdp nf_imp X = true -> lex_elem e' = true -> t_symbol T (el_sym e') = None ->
  p_compound T (r_comp l' ++ X) = PAbort ValueErr.
Proof. exact replaced_unknown_symbol. Qed.
Print Assumptions C01_reject_replaced_unknown_symbol.

Theorem C01_reject_replaced_undefined_isotope : forall T l l' e e' X z n v, wf_comp T l = true -> replaced l l' e e' ->
  hdp nf_imp X = true -> lex_elem e' = true -> t_symbol T (el_sym e') = Some (z, 0%Z) ->
  el_iso e' = Some n -> parse_int n = Some v -> t_has_iso T z v = false ->
  p_compound T (r_comp l' ++ X) = PAbort KeyErr.
Proof. exact replaced_undefined_isotope. Qed.
Print Assumptions C01_reject_replaced_undefined_isotope.

Theorem C01_reject_replaced_undefined_charge : forall T l l' e e' X z a0 q, wf_comp T l = true -> replaced l l' e e' ->
  hdp nf_imp X = true -> lex_elem e' = true -> t_symbol T (el_sym e') = Some (z, a0) ->
  match el_iso e' with
  | None => True
  | Some n => a0 = 0%Z /\ exists v, parse_int n = Some v /\ t_has_iso T z v = true
  end ->
  el_ion e' <> None -> ion_val (el_ion e') = Some q -> t_has_ion T z q = false ->
  p_compound T (r_comp l' ++ X) = PAbort ValueErr.
Proof. exact replaced_undefined_charge. Qed.
Print Assumptions C01_reject_replaced_undefined_charge.

(* [replaced] is inhabited at nested positions: "H2(O2C3)3O" with C replaced by Xx *)
Theorem C01_replaced_example :
  wf_comp the_ptable tree_ok = true /\ r_comp tree_bad = "H2(O2Xx3)3O" /\
  replaced tree_ok tree_bad (En "C" "3") (En "Xx" "3").
Proof. exact replaced_example. Qed.
Print Assumptions C01_replaced_example.

(* a count with a leading zero ("02", "007") directly after a symbol that carries no count, at ANY
   element position of an otherwise well-formed string (also inside open parentheses), whatever follows *)
Theorem C01_reject_leading_zero : forall T P e d Z, wf_pos T P = true -> wf_elem T e = true ->
  el_cnt e = None -> is_digit d = true ->
  ~ accepted T (r_pos P ++ r_elem e ++ "0" ++ String d Z).
Proof. exact leading_zero_anywhere. Qed.
Print Assumptions C01_reject_leading_zero.

(* the general form: a text W at which the grammar is stuck, after a complete element at any element
   position, is left over *)
Theorem C01_reject_stuck_text : forall T W, stuck W -> forall P e, wf_pos T P = true -> wf_elem T e = true ->
  p_element T (r_elem e ++ W) = POk (v_elem T e) W ->
  ~ accepted T (r_pos P ++ r_elem e ++ W).
Proof. exact stuck_after_element_rejected. Qed.
Print Assumptions C01_reject_stuck_text.

(* malformed count / stray character ("H2O*", "H-2", "H1,5", "H2]") *)
Theorem C01_reject_garbage_after_element : forall T P e c X, wf_pos T P = true -> wf_elem T e = true ->
  garbage c = true -> ~ accepted T (r_pos P ++ r_elem e ++ String c X).
Proof. exact garbage_after_element_rejected. Qed.
Print Assumptions C01_reject_garbage_after_element.

(* malformed isotope tag: '[' after the symbol that is not followed by a number without leading zero
   and ']' ("O[]", "O[0]", "O[018]", "O[1.5]", "O[18") *)
Theorem C01_reject_bad_isotope_tag : forall T P e X, wf_pos T P = true -> wf_elem T e = true ->
  el_iso e = None -> el_ion e = None -> el_cnt e = None ->
  p_isotope (String "[" X) = POk 0%Z (String "[" X) ->
  ~ accepted T (r_pos P ++ r_elem e ++ String "[" X).
Proof. exact bad_isotope_tag_rejected. Qed.
Print Assumptions C01_reject_bad_isotope_tag.

(* malformed ion tag ("O{}", "O{+2}", "O{0+}", "O{2+") *)
Theorem C01_reject_bad_ion_tag : forall T P e X, wf_pos T P = true -> wf_elem T e = true ->
  el_ion e = None -> el_cnt e = None ->
  p_ion (String "{" X) = POk 0%Z (String "{" X) ->
  ~ accepted T (r_pos P ++ r_elem e ++ String "{" X).
Proof. exact bad_ion_tag_rejected. Qed.
Print Assumptions C01_reject_bad_ion_tag.

(* text after a complete density tag ("NaCl@2.16nx", "NaCl@1in") *)
Theorem C01_reject_text_after_density : forall T t ws txt m G, wfb T t = true ->
  c_density t = Some (ws, txt, Some m) -> at_end G = false ->
  ~ accepted T (render t ++ G).
Proof. exact text_after_density_rejected. Qed.
Print Assumptions C01_reject_text_after_density.

Theorem C01_reject_malformed_examples :
  r_pos pos_nested = "H2 (C" /\
  ~ accepted the_ptable "H2 (CO[018]3)2" /\ ~ accepted the_ptable "H2 (CO[1.5])2" /\
  ~ accepted the_ptable "H2 (CO{+2})2" /\ ~ accepted the_ptable "H2 (CO02)2" /\
  ~ accepted the_ptable "H2 (CO*2)2".
Proof. exact malformed_examples. Qed.
Print Assumptions C01_reject_malformed_examples.

(* and after any well-formed compound whose last group ends without a count (last element without
   count, or nothing written after ')'): the text from the zero on is left unconsumed *)
Theorem C01_reject_leading_zero_after_compound : forall T l0 s g d Z,
  wf_comp T (l0 ++ [(s, g)])%list = true -> countless g -> is_digit d = true ->
  ~ accepted T (r_comp (l0 ++ [(s, g)])%list ++ "0" ++ String d Z).
Proof. exact leading_zero_rejected. Qed.
Print Assumptions C01_reject_leading_zero_after_compound.

(* ------------------------------------------------------------------ determinism facts *)
Theorem C01_rest_is_proper_suffix : forall T s v r, p_compound T s = POk v r ->
  (exists pre, s = pre ++ r) /\ (String.length r < String.length s)%nat.
Proof. exact rest_is_proper_suffix. Qed.
Print Assumptions C01_rest_is_proper_suffix.

Theorem C01_fuel_independent : forall T s fuel, (String.length s < fuel)%nat ->
  p_composite T fuel s = p_composite T (S (String.length s)) s.
Proof. exact p_composite_fuel. Qed.
Print Assumptions C01_fuel_independent.

Theorem C01_fuel_independent_elements : forall T s fuel, (String.length s <= fuel)%nat ->
  p_more_elements T fuel s = p_more_elements T (String.length s) s.
Proof. exact p_more_elements_fuel. Qed.
Print Assumptions C01_fuel_independent_elements.
