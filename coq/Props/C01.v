(* Props/C01.v — statements only (grows as the parser proofs land). *)
From Coq Require Import ZArith QArith String List.
From PT Require Import Formula FormulaAlg.
Open Scope Q_scope.

(* the composition read off a parsed structure is the count-weighted sum over its nesting *)
Theorem C01_structure_denotes_weighted_sum : forall s b, dget0 (count_atoms s) b == cnt_s b s.
Proof. exact count_atoms_spec. Qed.
Print Assumptions C01_structure_denotes_weighted_sum.
