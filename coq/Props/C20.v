(* Props/C20.v — statements only.  Each is closed by [exact] of a lemma proved in Proofs/.
   The tables (Gen/Cordero, Crystal, Spectral, Cfml, WaasKirf) are regenerated from /repo on every
   run; the_cov, the_crystal, the_spectral, the_mff, the_cm are the Gallina transcriptions of the five
   loaders (Model/Ancillary.v) run on that text; cordero_numbered, cordero_groups, crystal_slot,
   spectral_listed, mff_listed, cm_listed, cm_species, cm_file_rows are naive second readings of
   the same text (Proofs/C20Sweep.v). *)
From Coq Require Import ZArith QArith Qabs String List.
From PT Require Import Str Dec Loaders Ancillary C20Check C20Generic C20Sweep C20Rows.
From PT.Gen Require Import Cordero.
Import ListNotations.
Open Scope string_scope.

(* every row of every table is accepted by its loader *)
Theorem C20_tables_load :
  (exists a, the_cov = Some a) /\ (exists b, the_crystal = Some b) /\ (exists c, the_spectral = Some c) /\
  (exists d, the_mff = Some d) /\ (exists e, the_cm = Some e).
Proof. exact tables_load. Qed.
Print Assumptions C20_tables_load.

(* --- covalent radius: a numbered Cordero row lands on its own Z with its own radius and uncertainty *)
Theorem C20_cordero_rows : forall t, the_cov = Some t -> forall z r u, In (z, r, u) cordero_numbered ->
  cov_radius EB t z = Val r /\ cov_unc_raw EB t z = Val u.
Proof. exact cordero_rows. Qed.
Print Assumptions C20_cordero_rows.

(* every row is either numbered or an alternate ("-") row *)
Theorem C20_cordero_rows_accounted : forall line, In line Cordero ->
  hd "" (tokens line) = "-" \/ exists n, nat_of_digits (hd "" (tokens line)) = Some n.
Proof. exact cordero_rows_accounted. Qed.
Print Assumptions C20_cordero_rows_accounted.

(* elements without a row report None (the neutron keeps its preset radius, uncertainty None) *)
Theorem C20_cordero_absent_none : forall t, the_cov = Some t -> forall z, In z el_numbers ->
  (forall r u, ~ In (z, r, u) cordero_numbered) ->
  (z <> 0%Z -> cov_radius EB t z = NoneVal) /\ cov_unc_raw EB t z = NoneVal.
Proof. exact cordero_absent_none. Qed.
Print Assumptions C20_cordero_absent_none.

(* first spin state: for every group (numbered row + the "-" rows below it) the radius served is
   that of the numbered row; generic: a "-" row never changes the table, whatever it holds *)
Theorem C20_first_spin_state : forall t, the_cov = Some t -> forall z r alts, In (z, r, alts) cordero_groups ->
  cov_radius EB t z = Val r.
Proof. exact first_spin_state. Qed.
Print Assumptions C20_first_spin_state.

Theorem C20_alternate_row_skipped : forall eb st line rest,
  split_ws line = "-" :: rest -> cordero_row eb st line = Some st.
Proof. exact alternate_row_skipped. Qed.
Print Assumptions C20_alternate_row_skipped.

Theorem C20_alternates_exist : exists z r a alts, In (z, r, a :: alts) cordero_groups.
Proof. exact alternates_exist. Qed.
Print Assumptions C20_alternates_exist.

(* the stored float float(digits)*0.01 is digits/100 to within 2^-50 relative *)
Theorem C20_uncertainty_is_percent : forall z r u, In (z, r, u) cordero_numbered ->
  (pct_lhs unc_scale u <= pct_rhs u)%Q.
Proof. exact uncertainty_is_percent. Qed.
Print Assumptions C20_uncertainty_is_percent.

(* --- crystal structure: element Z gets slot Z of the literal, AttributeError beyond its end *)
Theorem C20_crystal_by_index : forall t, the_crystal = Some t -> forall z, In z el_numbers ->
  crystal_of EB t z = crystal_slot z.
Proof. exact crystal_by_index. Qed.
Print Assumptions C20_crystal_by_index.

(* --- emission lines: element with symbol sym gets the row whose first token is sym, or no attribute *)
Theorem C20_spectral_by_symbol : forall t, the_spectral = Some t -> forall z sym, In z el_numbers ->
  eb_symbol EB z = Some sym ->
  k_alpha_of EB t z = line_of fst sym /\ k_beta1_of EB t z = line_of snd sym.
Proof. exact spectral_by_symbol. Qed.
Print Assumptions C20_spectral_by_symbol.

Theorem C20_spectral_rows : forall t, the_spectral = Some t -> forall sym a b, In (sym, (a, b)) spectral_listed ->
  exists z, eb_number EB sym = Some z /\ k_alpha_of EB t z = Val a /\ k_beta1_of EB t z = Val b.
Proof. exact spectral_rows. Qed.
Print Assumptions C20_spectral_rows.

(* --- magnetic form factors: for ALL z, charge, set name the coefficients served are those of the
   statement whose label spells that element and charge (letters/digits reading), else nothing *)
Theorem C20_magnetic_entries : forall t, the_mff = Some t -> forall z c jn,
  mff_get t z c jn = assoc mkey_eqb mff_listed (z, c, jn).
Proof. exact magnetic_entries. Qed.
Print Assumptions C20_magnetic_entries.

Theorem C20_magnetic_absent : forall t, the_mff = Some t -> forall z,
  mff_el t z = None <-> (forall c jn v, ~ In ((z, c, jn), v) mff_listed).
Proof. exact magnetic_absent. Qed.
Print Assumptions C20_magnetic_absent.

Theorem C20_seven_coefficients : forall t, the_mff = Some t -> forall z c jn v, mff_get t z c jn = Some v ->
  List.length v = 7%nat.
Proof. exact seven_coefficients. Qed.
Print Assumptions C20_seven_coefficients.

(* <j0> at Q = 0: A + B + C + D within 0.5% of 1, every entry *)
Theorem C20_j0_at_zero : forall t, the_mff = Some t -> forall z c v, mff_get t z c "j0" = Some v ->
  (995 # 1000 <= ff0_at_zero v /\ ff0_at_zero v <= 1005 # 1000)%Q.
Proof. exact j0_at_zero. Qed.
Print Assumptions C20_j0_at_zero.

(* generic, for every coefficient tuple and every exponential: <jn>(0) = 0, <j0>(0) = A+B+C+D *)
Theorem C20_jn_at_zero : forall (ex : Q -> Q) v x, formfactor_n ex v 0 = Some x -> (x == 0)%Q.
Proof. exact formfactor_n_zero. Qed.
Print Assumptions C20_jn_at_zero.

Theorem C20_j0_value_at_zero : forall (ex : Q -> Q), (forall y, (y == 0)%Q -> (ex y == 1)%Q) ->
  forall v x, formfactor_0 ex v 0 = Some x -> (x == ff0_at_zero v)%Q.
Proof. exact formfactor_0_zero. Qed.
Print Assumptions C20_j0_value_at_zero.

(* shape: with seven coefficients the form factors are A ex(-a s2) + B ex(-b s2) + C ex(-c s2) + D
   and s2 times that (ff_core is that expression by definition) *)
Theorem C20_formfactor_shape : forall ex v s2, List.length v = 7%nat ->
  formfactor_0 ex v s2 = Some (ff_core ex v s2) /\ formfactor_n ex v s2 = Some (s2 * ff_core ex v s2)%Q.
Proof. exact formfactor_defined. Qed.
Print Assumptions C20_formfactor_shape.

(* the dipole form J is also 1 at Q = 0 except for two entries of the CrysFML text (Nd2+, Dy3+);
   Dy3+ sums to 1.131665 *)
Theorem C20_J_at_zero_partial : forall t, the_mff = Some t -> forall z c v, mff_get t z c "J" = Some v ->
  ~ In (z, c) J_known_outliers ->
  (995 # 1000 <= ff0_at_zero v /\ ff0_at_zero v <= 1005 # 1000)%Q.
Proof. exact J_at_zero_partial. Qed.
Print Assumptions C20_J_at_zero_partial.

Theorem C20_J_at_zero_outlier : forall t, the_mff = Some t ->
  exists v, mff_get t 66 3 "J" = Some v /\ (ff0_at_zero v == 1131665 # 1000000)%Q.
Proof. exact J_at_zero_outlier. Qed.
Print Assumptions C20_J_at_zero_outlier.

(* --- Cromer-Mann: for ALL symbols the positional reader (a1..a5 c b1..b5) serves the values
   standing under the labels a1..a5, c, b1..b5 of the symbol's own #L line; KeyError otherwise *)
Theorem C20_cm_column_order : forall t, the_cm = Some t -> forall sym,
  cm_lookup t sym = assoc String.eqb cm_listed sym.
Proof. exact cm_column_order. Qed.
Print Assumptions C20_cm_column_order.

(* element z with charge c is served the row headed by number z whose symbol carries charge c *)
Theorem C20_cm_species_served : forall t, the_cm = Some t -> forall z c, In z el_numbers ->
  In c small_charges \/ In c (el_ions z) ->
  cm_of EB t z c = assoc zz_eqb cm_species (z, c).
Proof. exact cm_species_served. Qed.
Print Assumptions C20_cm_species_served.

(* f0(0) = c + sum a_i counts the electrons: within 0.05 of Z - charge, five terms each *)
Theorem C20_cm_electron_count : forall z sym f, In (z, sym, f) cm_file_rows ->
  (Qabs (cm_at_zero f - electrons z sym) <= 5 # 100)%Q /\ List.length (cm_a f) = 5%nat /\ List.length (cm_b f) = 5%nat.
Proof. exact cm_electron_count. Qed.
Print Assumptions C20_cm_electron_count.

Theorem C20_cm_value_at_zero : forall (ex : Q -> Q), (forall y, (y == 0)%Q -> (ex y == 1)%Q) ->
  forall f, List.length (cm_a f) = List.length (cm_b f) -> (cm_eval ex f 0 == cm_at_zero f)%Q.
Proof. exact cm_eval_zero. Qed.
Print Assumptions C20_cm_value_at_zero.

(* --- the form factors for Q > 0 (real-valued; these rest on the axioms of Coq's real numbers).
   The interval evaluators that the correspondence run executes enclose, for EVERY coefficient
   list and EVERY Q, the documented formulas  A exp(-a s2) + B exp(-b s2) + C exp(-c s2) + D,
   s2 times that, and c + sum a_i exp(-b_i s2), with s2 = (Q/(4 pi))^2 *)
From Coq Require Import Reals.
From Interval Require Import Interval Xreal.
From PT Require Import C20FF C20FFSound.

Theorem C20_formfactor_0_enclosed : forall v q,
  contains (I.convert (ff0I v q)) (Xreal (ff_coreR v (Rsqr (QR q / (IZR 4 * Rtrigo1.PI))))).
Proof. exact ff0I_sound. Qed.
Print Assumptions C20_formfactor_0_enclosed.

Theorem C20_formfactor_n_enclosed : forall v q,
  contains (I.convert (ffnI v q))
           (Xreal (Rsqr (QR q / (IZR 4 * Rtrigo1.PI)) * ff_coreR v (Rsqr (QR q / (IZR 4 * Rtrigo1.PI))))%R).
Proof. exact ffnI_sound. Qed.
Print Assumptions C20_formfactor_n_enclosed.

Theorem C20_cromer_mann_enclosed : forall f q, contains (I.convert (cmI f q)) (Xreal (cmR f q)).
Proof. exact cmI_sound. Qed.
Print Assumptions C20_cromer_mann_enclosed.

Theorem C20_formfactor_reals_at_zero : forall v,
  ff0R v 0 = (QR (coef v 0) + QR (coef v 2) + QR (coef v 4) + QR (coef v 6))%R /\ ffnR v 0 = 0%R.
Proof. intro v. split; [exact (ff0R_at_zero v)|exact (ffnR_at_zero v)]. Qed.
Print Assumptions C20_formfactor_reals_at_zero.

(* the comparison rule of the correspondence run: an accepted double differs from the enclosed
   real value by an element of 2^-30 * [-1,1] * scale *)
Theorem C20_near_sound : forall m e x scale r, C20FF.near (Py.PF m e) x scale = true ->
  contains (I.convert x) (Xreal r) ->
  contains (I.convert (I.mul prec epsI scale)) (Xreal (r - dblR m e)).
Proof. exact near_sound. Qed.
Print Assumptions C20_near_sound.

(* the positional crystal-structure table: entry k is the entry the source labels with the symbol of atomic number k
   (labels regenerated from the '#Sym' comments of crystal_structure.py), and there are as many labels as entries *)
Theorem C20_crystal_rows_name_their_element :
  List.length Gen.Crystal.crystal_labels = List.length Gen.Crystal.crystal_structures /\
  forall k lab, nth_error Gen.Crystal.crystal_labels k = Some lab -> label_ok (Z.of_nat k) lab = true.
Proof. exact crystal_rows_name_their_element. Qed.
Print Assumptions C20_crystal_rows_name_their_element.

