(* Props/C19.v — Hill form: statements only. *)
From Coq Require Import ZArith QArith String List Permutation Sorted.
From PT Require Import Loaders Formula FormulaAlg AtomEnv C19Proofs.
From PT.Gen Require Import ElementBase.
Import ListNotations.
Open Scope Q_scope.

(* ---------------------------------------------------------------- the order is a strict total order *)
Theorem C19_lex_asym : forall (A B : Type) (ltA : A -> A -> bool) (ltB : B -> B -> bool),
  (forall a b, ltA a b = true -> ltA b a = false) ->
  (forall a b, ltB a b = true -> ltB b a = false) ->
  forall x y, lex_ltb ltA ltB x y = true -> lex_ltb ltA ltB y x = false.
Proof. exact lex_asym. Qed.
Print Assumptions C19_lex_asym.

Theorem C19_lex_trans : forall (A B : Type) (ltA : A -> A -> bool) (ltB : B -> B -> bool),
  (forall a b c, ltA a b = true -> ltA b c = true -> ltA a c = true) ->
  (forall a b, ltA a b = false -> ltA b a = false -> a = b) ->
  (forall a b c, ltB a b = true -> ltB b c = true -> ltB a c = true) ->
  forall x y z, lex_ltb ltA ltB x y = true -> lex_ltb ltA ltB y z = true -> lex_ltb ltA ltB x z = true.
Proof. exact lex_trans. Qed.
Print Assumptions C19_lex_trans.

Theorem C19_lex_total : forall (A B : Type) (ltA : A -> A -> bool) (ltB : B -> B -> bool),
  (forall a b, ltA a b = false -> ltA b a = false -> a = b) ->
  (forall a b, ltB a b = false -> ltB b a = false -> a = b) ->
  forall x y, lex_ltb ltA ltB x y = false -> lex_ltb ltA ltB y x = false -> x = y.
Proof. exact lex_total. Qed.
Print Assumptions C19_lex_total.

Theorem C19_key_asym : forall a b, hill_ltK a b = true -> hill_ltK b a = false.
Proof. exact hill_ltK_asym. Qed.
Print Assumptions C19_key_asym.

Theorem C19_key_trans : forall a b c, hill_ltK a b = true -> hill_ltK b c = true -> hill_ltK a c = true.
Proof. exact hill_ltK_trans. Qed.
Print Assumptions C19_key_trans.

Theorem C19_key_total : forall a b, hill_ltK a b = false -> hill_ltK b a = false -> a = b.
Proof. exact hill_ltK_total. Qed.
Print Assumptions C19_key_total.

(* on atoms: two atoms neither of which precedes the other are the same atom *)
Theorem C19_order_total_on_atoms : forall sym a b, hill_ltb sym a b = false -> hill_ltb sym b a = false -> a = b.
Proof. exact hill_ltb_total. Qed.
Print Assumptions C19_order_total_on_atoms.

(* ---------------------------------------------------------------- what the order is *)
(* the code's tuple comparison equals the documented order written out: rank (C 0, H 1, others 2),
   symbol, mass number, charge, atomic number *)
Theorem C19_order_meaning : forall sym a b,
  hill_ltb sym a b =
  (if Z.ltb (hill_rank (sym a)) (hill_rank (sym b)) then true
   else if Z.ltb (hill_rank (sym b)) (hill_rank (sym a)) then false
   else if str_ltb (sym a) (sym b) then true
   else if str_ltb (sym b) (sym a) then false
   else if Z.ltb (aa a) (aa b) then true
   else if Z.ltb (aa b) (aa a) then false
   else if Z.ltb (aq a) (aq b) then true
   else if Z.ltb (aq b) (aq a) then false
   else Z.ltb (az a) (az b)).
Proof. exact hill_order_meaning. Qed.
Print Assumptions C19_order_meaning.

Theorem C19_rank : forall s, hill_rank s = if String.eqb s "C" then 0%Z else if String.eqb s "H" then 1%Z else 2%Z.
Proof. reflexivity. Qed.
Print Assumptions C19_rank.

Theorem C19_carbon_first : forall sym a b, sym a = "C"%string -> sym b <> "C"%string -> hill_ltb sym a b = true.
Proof. exact hill_C_first. Qed.
Print Assumptions C19_carbon_first.

Theorem C19_hydrogen_second : forall sym a b, sym a = "H"%string -> sym b <> "C"%string -> sym b <> "H"%string ->
  hill_ltb sym a b = true.
Proof. exact hill_H_second. Qed.
Print Assumptions C19_hydrogen_second.

Theorem C19_others_alphabetical : forall sym a b,
  sym a <> "C"%string -> sym a <> "H"%string -> sym b <> "C"%string -> sym b <> "H"%string ->
  str_ltb (sym a) (sym b) = true -> hill_ltb sym a b = true.
Proof. exact hill_others_alphabetical. Qed.
Print Assumptions C19_others_alphabetical.

Theorem C19_isotopes_by_mass_number : forall sym a b, sym a = sym b -> (aa a < aa b)%Z -> hill_ltb sym a b = true.
Proof. exact hill_isotopes_by_mass_number. Qed.
Print Assumptions C19_isotopes_by_mass_number.

Theorem C19_ions_by_charge : forall sym a b, sym a = sym b -> aa a = aa b -> (aq a < aq b)%Z -> hill_ltb sym a b = true.
Proof. exact hill_ions_by_charge. Qed.
Print Assumptions C19_ions_by_charge.

(* kernel-evaluated sweep over the regenerated element table: no element is called D or T and
   one symbol names one atomic number; so for atoms of the table the last key component never decides *)
Theorem C19_symbols_unique : forall a b, table_atom element_base a -> table_atom element_base b ->
  sym_of element_base a = sym_of element_base b -> aa a = aa b -> aq a = aq b -> a = b.
Proof. exact symbols_unique. Qed.
Print Assumptions C19_symbols_unique.

Theorem C19_order_meaning_table : forall a b, table_atom element_base a -> table_atom element_base b ->
  hill_ltb (sym_of element_base) a b =
  (let sym := sym_of element_base in
   if Z.ltb (hill_rank (sym a)) (hill_rank (sym b)) then true
   else if Z.ltb (hill_rank (sym b)) (hill_rank (sym a)) then false
   else if str_ltb (sym a) (sym b) then true
   else if str_ltb (sym b) (sym a) then false
   else if Z.ltb (aa a) (aa b) then true
   else if Z.ltb (aa b) (aa a) then false
   else Z.ltb (aq a) (aq b)).
Proof. exact hill_order_meaning_table. Qed.
Print Assumptions C19_order_meaning_table.

Theorem C19_table_has_rows : (length element_base > 100)%nat.
Proof. exact table_rows_nonempty. Qed.
Print Assumptions C19_table_has_rows.

Theorem C19_check_env_symbols : e_sym the_env = sym_of element_base.
Proof. exact the_env_sym. Qed.
Print Assumptions C19_check_env_symbols.

(* ---------------------------------------------------------------- same atom counts *)
Theorem C19_hill_atoms_dict : forall E d b, cnt b (FGroup (hill_struct E d)) == dsum d b.
Proof. exact hill_atoms. Qed.
Print Assumptions C19_hill_atoms_dict.

Theorem C19_hill_same_counts : forall E s b, cnt_s b (hill_struct E (count_atoms s)) == cnt_s b s.
Proof. exact hill_same_counts. Qed.
Print Assumptions C19_hill_same_counts.

Theorem C19_formula_hill_same_counts : forall E f b, cnt_s b (f_struct (f_hill E f)) == cnt_s b (f_struct f).
Proof. exact f_hill_same_counts. Qed.
Print Assumptions C19_formula_hill_same_counts.

(* ---------------------------------------------------------------- shape and order of the Hill structure *)
Theorem C19_hill_flat : forall E d, is_flat (hill_struct E d) = true.
Proof. exact hill_flat. Qed.
Print Assumptions C19_hill_flat.

Theorem C19_hill_atoms_are_the_keys : forall E d, Permutation (top_atoms (hill_struct E d)) (keys d).
Proof. exact hill_atoms_perm. Qed.
Print Assumptions C19_hill_atoms_are_the_keys.

Theorem C19_hill_sorted : forall E d,
  LocallySorted (fun a b => hill_ltb (e_sym E) b a = false) (top_atoms (hill_struct E d)).
Proof. exact hill_sorted. Qed.
Print Assumptions C19_hill_sorted.

Theorem C19_hill_sorted_strict : forall E d, NoDup (keys d) ->
  LocallySorted (fun a b => hill_ltb (e_sym E) a b = true) (top_atoms (hill_struct E d)).
Proof. exact hill_sorted_strict. Qed.
Print Assumptions C19_hill_sorted_strict.

(* ---------------------------------------------------------------- canonical *)
Theorem C19_hill_canonical : forall E d1 d2, NoDup (keys d1) -> NoDup (keys d2) ->
  (forall a, In a (keys d1) <-> In a (keys d2)) ->
  (forall a, dget0 d1 a == dget0 d2 a) ->
  hill_struct E d1 = hill_struct E d2.
Proof. exact hill_canonical. Qed.
Print Assumptions C19_hill_canonical.

Theorem C19_formula_hill_canonical : forall E f g,
  (forall a, In a (keys (f_atoms f)) <-> In a (keys (f_atoms g))) ->
  (forall a, cnt_s a (f_struct f) == cnt_s a (f_struct g)) ->
  formula_eqb (f_hill E f) (f_hill E g) = true.
Proof. exact f_hill_canonical. Qed.
Print Assumptions C19_formula_hill_canonical.

(* every order ... *)
Theorem C19_hill_reorder : forall E s t, Permutation s t ->
  hill_struct E (count_atoms s) = hill_struct E (count_atoms t).
Proof. exact hill_reorder. Qed.
Print Assumptions C19_hill_reorder.

(* ... and grouping: c*(g) followed by r, against the items of g with counts multiplied by c, followed by r *)
Theorem C19_hill_regroup : forall E c g r,
  hill_struct E (count_atoms ((c, FGroup g) :: r)) =
  hill_struct E (count_atoms (map (fun p => (c * fst p, snd p)) g ++ r)%list).
Proof. exact hill_regroup. Qed.
Print Assumptions C19_hill_regroup.

(* ---------------------------------------------------------------- idempotent *)
Theorem C19_hill_idempotent : forall E d, NoDup (keys d) ->
  hill_struct E (count_atoms (hill_struct E d)) = hill_struct E d.
Proof. exact hill_idempotent. Qed.
Print Assumptions C19_hill_idempotent.

Theorem C19_formula_hill_idempotent : forall E f, formula_eqb (f_hill E (f_hill E f)) (f_hill E f) = true.
Proof. exact f_hill_idempotent. Qed.
Print Assumptions C19_formula_hill_idempotent.

(* ---------------------------------------------------------------- an ordered formula is its own Hill form *)
Theorem C19_count_atoms_flat : forall l, NoDup (map fst l) ->
  count_atoms (map (fun p => (snd p, FAtom (fst p))) l) = map (fun p => (fst p, 0 + 1 * snd p)) l.
Proof. exact count_atoms_flat. Qed.
Print Assumptions C19_count_atoms_flat.

Theorem C19_ordered_is_own_hill : forall E f (l : list (atom * Q)),
  f_struct f = map (fun p => (snd p, FAtom (fst p))) l -> f_kind f = KTuple ->
  NoDup (map fst l) -> LocallySorted (fun a b => hill_ltb (e_sym E) b a = false) (map fst l) ->
  formula_eqb f (f_hill E f) = true.
Proof. exact ordered_is_own_hill. Qed.
Print Assumptions C19_ordered_is_own_hill.

Theorem C19_ordered_is_own_hill_strict : forall E f (l : list (atom * Q)),
  f_struct f = map (fun p => (snd p, FAtom (fst p))) l -> f_kind f = KTuple ->
  LocallySorted (fun a b => hill_ltb (e_sym E) a b = true) (map fst l) ->
  formula_eqb f (f_hill E f) = true.
Proof. exact ordered_is_own_hill_strict. Qed.
Print Assumptions C19_ordered_is_own_hill_strict.

(* were the Hill structure a list (as before the repair), no formula would equal its Hill form *)
Theorem C19_list_kind_never_own_hill : forall E f, f_kind f = KList -> formula_eqb f (f_hill E f) = false.
Proof. exact list_kind_never_own_hill. Qed.
Print Assumptions C19_list_kind_never_own_hill.

(* ---------------------------------------------------------------- non-vacuity *)
Example C19_ex_symbols : map (sym_of element_base) [aC; aH; aD; aT; aFe2; aO18; aDp] =
  ["C"; "H"; "D"; "T"; "Fe"; "O"; "D"]%string.
Proof. exact ex_syms. Qed.
Print Assumptions C19_ex_symbols.

Example C19_ex_ch4 : hill_struct E0 (count_atoms [(4, FAtom aH); (1, FAtom aC)]) = [(1, FAtom aC); (4, FAtom aH)].
Proof. exact ex_ch4. Qed.
Print Assumptions C19_ex_ch4.

Example C19_ex_order :
  top_atoms (hill_struct E0 [(aT,1); (aO18,1); (aFe3,1); (aCl,1); (aH,1); (aO,1); (aFe56_2, 1); (aFe2,1); (aD,1); (aCa,1); (aC,1); (aDp, 1)])
  = [aC; aH; aCa; aCl; aD; aDp; aFe2; aFe3; aFe56_2; aO; aO18; aT].
Proof. exact ex_order. Qed.
Print Assumptions C19_ex_order.

Example C19_ex_fe_both_orders :
  hill_struct E0 [(aFe3, 1); (aFe2, 2)] = [(2, FAtom aFe2); (1, FAtom aFe3)] /\
  hill_struct E0 [(aFe2, 2); (aFe3, 1)] = [(2, FAtom aFe2); (1, FAtom aFe3)].
Proof. exact ex_fe_both_orders. Qed.
Print Assumptions C19_ex_fe_both_orders.

Example C19_ex_canonical :
  formula_eqb (f_hill E0 (fT [(2, FGroup [(1, FAtom aO); (1, FAtom aH)]); (1, FAtom aCa)]))
              (f_hill E0 (fT [(1, FAtom aCa); (2, FAtom aO); (2, FAtom aH)])) = true.
Proof. exact ex_canonical. Qed.
Print Assumptions C19_ex_canonical.

Example C19_ex_own_hill :
  formula_eqb (fT [(1, FAtom aC); (4, FAtom aH)]) (f_hill E0 (fT [(1, FAtom aC); (4, FAtom aH)])) = true.
Proof. exact ex_own_hill. Qed.
Print Assumptions C19_ex_own_hill.

Example C19_ex_not_own_hill :
  formula_eqb (fT [(4, FAtom aH); (1, FAtom aC)]) (f_hill E0 (fT [(4, FAtom aH); (1, FAtom aC)])) = false.
Proof. exact ex_not_own_hill. Qed.
Print Assumptions C19_ex_not_own_hill.

Example C19_ex_strictly_ordered :
  LocallySorted (fun a b => hill_ltb (e_sym E0) a b = true) [aC; aH; aD; aFe2; aFe3; aT].
Proof. exact ex_strict. Qed.
Print Assumptions C19_ex_strictly_ordered.
