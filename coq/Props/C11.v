(* Props/C11.v — statements only. *)
From Coq Require Import ZArith QArith String List Bool.
From PT Require Import Str Dec Py Loaders Formula FormulaAlg FormulaMachine C02Proofs Mixture C11Proofs.
Import ListNotations.
Open Scope Q_scope.

(* by weight: each component's mass in the mixture is its quantity over one common scale, so the
   masses are in the ratio of the quantities (any number of components, any quantities) *)
Theorem C11_weight_component_mass : forall E scale (f : fobj) q, ~ f_mass E f == 0 -> ~ scale == 0 ->
  (q / f_mass E f / scale) * f_mass E f == q / scale.
Proof. exact weight_component_mass. Qed.
Print Assumptions C11_weight_component_mass.

Theorem C11_weight_total_mass : forall E scale pairs,
  (forall p, In p pairs -> ~ f_mass E (fst p) == 0) -> ~ scale == 0 ->
  f_mass E (mix_loop (fun p => snd p / f_mass E (fst p) / scale) pairs empty_formula) == Qsum (map snd pairs) / scale.
Proof. exact weight_total_mass. Qed.
Print Assumptions C11_weight_total_mass.

(* the atoms of a mixture are the multiplier-weighted sums of the components' atoms *)
Theorem C11_mixture_atoms : forall b w pairs,
  cnt_s b (f_struct (mix_loop w pairs empty_formula)) == Qsum (map (fun p => w p * cnt_s b (f_struct (fst p))) pairs).
Proof. exact weight_atoms. Qed.
Print Assumptions C11_mixture_atoms.

(* density by weight = total mass / total volume *)
Theorem C11_weight_density : forall E scale pairs,
  (forall p, In p pairs -> ~ f_mass E (fst p) == 0) -> ~ scale == 0 ->
  ~ Qsum (map (fun p => snd p / dens0 (fst p)) pairs) == 0 ->
  let result := mix_loop (fun p => snd p / f_mass E (fst p) / scale) pairs empty_formula in
  let volume := Qsum (map (fun p => snd p / dens0 (fst p)) pairs) / scale in
  f_mass E result / volume == Qsum (map snd pairs) / Qsum (map (fun p => snd p / dens0 (fst p)) pairs).
Proof. exact weight_density. Qed.
Print Assumptions C11_weight_density.

(* by volume: each component's volume (mass/density) is its quantity over the common scale *)
Theorem C11_volume_component_volume : forall E scale (f : fobj) q, ~ f_mass E f == 0 -> ~ scale == 0 -> ~ dens0 f == 0 ->
  (q * dens0 f / f_mass E f / scale) * f_mass E f / dens0 f == q / scale.
Proof. exact volume_component_volume. Qed.
Print Assumptions C11_volume_component_volume.

Theorem C11_volume_density : forall E scale pairs,
  (forall p, In p pairs -> ~ f_mass E (fst p) == 0) -> ~ scale == 0 -> ~ Qsum (map snd pairs) == 0 ->
  let result := mix_loop (fun p => snd p * dens0 (fst p) / f_mass E (fst p) / scale) pairs empty_formula in
  f_mass E result / (Qsum (map snd pairs) / scale)
  == Qsum (map (fun p => snd p * dens0 (fst p)) pairs) / Qsum (map snd pairs).
Proof. exact volume_density. Qed.
Print Assumptions C11_volume_density.

Theorem C11_zero_vanishes_weight : forall E pairs f q, q <= 0 ->
  mix_by_weight_pairs E (pairs ++ [(f, q)])%list = mix_by_weight_pairs E pairs.
Proof. exact zero_vanishes_weight. Qed.
Print Assumptions C11_zero_vanishes_weight.

Theorem C11_zero_vanishes_volume : forall E pairs f q, q <= 0 ->
  mix_by_volume_pairs E (pairs ++ [(f, q)])%list = mix_by_volume_pairs E pairs.
Proof. exact zero_vanishes_volume. Qed.
Print Assumptions C11_zero_vanishes_volume.

(* independence of how a component's formula unit is scaled *)
Theorem C11_unit_scaling_weight : forall E b k (f : fobj) q scale, ~ k == 0 -> ~ f_mass E f == 0 -> ~ scale == 0 ->
  (q / f_mass E (f_rmul k f) / scale) * cnt_s b (f_struct (f_rmul k f)) == (q / f_mass E f / scale) * cnt_s b (f_struct f).
Proof. exact unit_scaling_weight. Qed.
Print Assumptions C11_unit_scaling_weight.

Theorem C11_unit_scaling_volume : forall E b k (f : fobj) q rho scale, ~ k == 0 -> ~ f_mass E f == 0 -> ~ scale == 0 ->
  (q * rho / f_mass E (f_rmul k f) / scale) * cnt_s b (f_struct (f_rmul k f)) == (q * rho / f_mass E f / scale) * cnt_s b (f_struct f).
Proof. exact unit_scaling_volume. Qed.
Print Assumptions C11_unit_scaling_volume.

(* the scale is the smallest multiplier: it is attained and no multiplier is smaller *)
Theorem C11_scale_is_minimum : forall l x m, list_min l = Some m -> In x l -> m <= x.
Proof. exact list_min_le. Qed.
Print Assumptions C11_scale_is_minimum.
Theorem C11_scale_is_attained : forall l m, list_min l = Some m -> In m l.
Proof. exact list_min_in. Qed.
Print Assumptions C11_scale_is_attained.
