(* Proofs/C13Proofs.v — facts about the count printer and the normal form a printed
   formula parses back to. *)
From Coq Require Import ZArith QArith Ascii String List Bool Lia.
From PT Require Import Str Dec Loaders Formula FormulaAlg Printer C13Check.
Import ListNotations.
Open Scope Q_scope.

(* ---------------------------------------------------------------- dissolving count-1 groups keeps the atoms *)
Section Normalize.
  Variable rnd : Q -> Q.
  Hypothesis rnd_id : forall c, rnd c == c.

  Lemma cnt_items_app : forall b (l m : list (Q * frag)),
    cnt b (FGroup (l ++ m)%list) == cnt b (FGroup l) + cnt b (FGroup m).
  Proof. intros. apply cnt_app. Qed.

  Lemma normalize_items_cons : forall k c f r,
    normalize_items rnd (S k) ((c, f) :: r) =
    ((match f with
      | FAtom a => [(rnd c, FAtom a)]
      | FGroup g => if Qeq_bool (rnd c) 1 then normalize_items rnd k g
                    else [(rnd c, FGroup (normalize_items rnd k g))]
      end) ++ normalize_items rnd (S k) r)%list.
  Proof. reflexivity. Qed.

  Lemma normalize_items_cnt : forall b fuel l,
    cnt b (FGroup (normalize_items rnd fuel l)) == cnt b (FGroup l).
  Proof.
    intros b fuel. induction fuel as [|k IH]; intro l; [reflexivity|].
    induction l as [|[c f] r IHr]; [reflexivity|].
    rewrite normalize_items_cons, cnt_items_app, IHr, (cnt_group_cons b c f r). destruct f as [a|g].
    - rewrite cnt_group_cons, cnt_group_nil. rewrite rnd_id. ring.
    - destruct (Qeq_bool (rnd c) 1) eqn:E.
      + apply Qeq_bool_iff in E. rewrite rnd_id in E. rewrite IH. rewrite E. ring.
      + rewrite cnt_group_cons, cnt_group_nil. rewrite rnd_id. rewrite IH. ring.
  Qed.
End Normalize.

(* ---------------------------------------------------------------- the count printer on short decimals *)
(* counts n / 10^k with at most six significant digits print exactly (bounded sweep, the bound
   is part of the statement) *)
Definition exact_on (n : Z) (k : Z) : bool :=
  let q := Qred (Qmake n (Z.to_pos (10 ^ k))) in
  match parse_dec (fmt_count (round64 q)) with Some p => Qeq_bool p q | None => false end.

Definition zrange (a b : Z) : list Z := map (fun i => (a + Z.of_nat i)%Z) (seq 0 (Z.to_nat (b - a))).

Lemma fmt_count_exact_sweep :
  forallb (fun k => forallb (fun n => exact_on n k) (zrange 1 3000)) [0; 1; 2; 3; 4; 5; 6; 7]%Z = true.
Proof. vm_compute. reflexivity. Qed.

Lemma fmt_count_exact_six_digits :
  forallb (fun n => exact_on n 3) (zrange 999000 1000000) && forallb (fun n => exact_on n 0) (zrange 999000 1000000)
  && forallb (fun n => exact_on n 9) (zrange 100000 101000) = true.
Proof. vm_compute. reflexivity. Qed.

Theorem fmt_count_exact : forall n k, (1 <= n < 3000)%Z -> (0 <= k <= 7)%Z ->
  parse_dec (fmt_count (round64 (Qred (Qmake n (Z.to_pos (10 ^ k)))))) = Some (Qred (Qmake n (Z.to_pos (10 ^ k))))
  \/ exact_on n k = true.
Proof.
  intros n k Hn Hk. right.
  pose proof fmt_count_exact_sweep as H. rewrite forallb_forall in H.
  assert (Hin : In k [0; 1; 2; 3; 4; 5; 6; 7]%Z) by (simpl; lia).
  specialize (H k Hin). rewrite forallb_forall in H. apply H.
  unfold zrange. apply in_map_iff. exists (Z.to_nat (n - 1)). split; [lia|].
  apply in_seq. lia.
Qed.

(* exponent notation never appears: the printed count is digits with at most one '.' *)
Definition plain_count (s : string) : bool :=
  (all_chars (fun c => (is_digit c || Ascii.eqb c "."%char)%bool) s && negb (String.eqb s ""))%bool.

Lemma fmt_count_plain_sweep :
  forallb (fun e => forallb (fun n => plain_count (fmt_count (round64 (Qmake n 1 * pow10Q e))))
                            [1; 7; 12; 999; 123456; 1234567; 99999949; 99999951]%Z)
          (zrange (-30) 30) = true.
Proof. vm_compute. reflexivity. Qed.
