(* Proofs/C05Sweep2.v — part 2 of the kernel-evaluated sweep over the regenerated .nff tables. *)
From Coq Require Import String List.
From PT Require Import Xsf C05SweepDefs.
From PT.Gen Require Import NffIndex.
Lemma chunk2_ok : chunk_ok nff_files_2 = true.
Proof. vm_compute. reflexivity. Qed.
