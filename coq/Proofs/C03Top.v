(* Proofs/C03Top.v — C03 for whole calls: neutron_scattering at every wavelength of the call equals
   the documented equations on the tabulated data; the None path; the data facts the refinement
   needs hold for every record of the regenerated neutron table (kernel-evaluated sweep); an element
   or isotope queried directly equals its one-atom compound at the atom's density. *)
From Coq Require Import Reals ZArith QArith Qreals Qabs String List Bool Lra Lia FMapPositive.
From PT Require Import Str Dec Loaders Formula AtomEnv C06Check Nsf C07Check C07Sweep IExpr Neutron NsfCalc NeutronData
                       C03Spec C03Data C03Refine.
Import ListNotations.
Open Scope R_scope.

Notation ev := (evalR no_env_R).

(* what C03 asserts of one wavelength of a call *)
Definition agrees (D : ndata) (d : dict) (rho : Q) (w : wl) (ov : outs * list compE) : Prop :=
  exists l, tab_cell D w d = Some l /\
            map ev (outs_list (fst ov)) = outputs (Q2R NAq) l (Q2R rho) (wl_R w).

Lemma rweight_nil : forall w, rweight w [] = 0%Q.
Proof. reflexivity. Qed.

Lemma rweight_acc_zero : forall (w : atom -> Q) d acc, (forall p, In p d -> snd p == 0)%Q ->
  (fold_left (fun acc p => Qred (acc + w (fst p) * snd p)) d acc == acc)%Q.
Proof.
  intros w d. induction d as [|p r IH]; intros acc H; cbn [fold_left]; [reflexivity|].
  rewrite IH by (intros q Hq; apply H; right; exact Hq).
  rewrite Qred_correct. rewrite (H p (or_introl eq_refl)). ring.
Qed.
Lemma rweight_zero : forall (w : atom -> Q) d, (forall p, In p d -> snd p == 0)%Q -> (rweight w d == 0)%Q.
Proof. intros w d H. unfold rweight. apply rweight_acc_zero. exact H. Qed.

Lemma pos_or_all_zero : forall d : dict, (forall p, In p d -> (0 <= snd p)%Q) ->
  (exists p, In p d /\ (0 < snd p)%Q) \/ (forall p, In p d -> (snd p == 0)%Q).
Proof.
  induction d as [|p r IH]; intro H; [right; intros p []|].
  destruct (Qlt_le_dec 0 (snd p)) as [Hp|Hp].
  - left. exists p. split; [left; reflexivity|exact Hp].
  - destruct (IH (fun q Hq => H q (or_intror Hq))) as [(q & Hq & Hpos)|Hz].
    + left. exists q. split; [right; exact Hq|exact Hpos].
    + right. intros q [E|Hq]; [subst q; apply Qle_antisym; [exact Hp|apply H; left; reflexivity]|exact (Hz q Hq)].
Qed.

(* a call that returned values had a cell that is ok: data for every atom, some positive count *)
Lemma scattering_cell_ok : forall D s density natural_density ws v rho,
  (forall p, In p (atoms_of s) ->
     (0 <= snd p)%Q /\ (0 < e_mass (nd_env D) (fst p))%Q
     /\ (has_data D (fst p) = true -> rec_okb D (az (fst p)) (aa (fst p)) = true)) ->
  density_of_compound D s density natural_density = Some rho ->
  neutron_scattering D s density natural_density ws = OVals v ->
  cell_ok D (atoms_of s) /\ all_some (map (compound_at D (atoms_of s) rho) ws) = Some v.
Proof.
  intros D s density natural_density ws v rho Hd Hrho H.
  unfold neutron_scattering in H. rewrite Hrho in H.
  destruct (forallb (fun p => has_data D (fst p)) (atoms_of s)) eqn:Hall; [|discriminate]. cbn [negb] in H.
  destruct (Qeq_bool (rweight (e_mass (nd_env D)) (atoms_of s) * rho) 0) eqn:Hvac; [discriminate|].
  split.
  - split.
    + intros p Hin. destruct (Hd p Hin) as (H1 & H2 & H3).
      split; [exact H1|]. split; [exact H2|]. apply H3. rewrite forallb_forall in Hall. exact (Hall p Hin).
    + destruct (pos_or_all_zero (atoms_of s) (fun p Hp => proj1 (Hd p Hp))) as [Hex|Hz]; [exact Hex|].
      exfalso. assert (E : (rweight (e_mass (nd_env D)) (atoms_of s) * rho == 0)%Q).
      { rewrite (rweight_zero _ _ Hz). ring. }
      apply Qeq_bool_iff in E. congruence.
  - destruct (all_some (map (compound_at D (atoms_of s) rho) ws)) as [v'|] eqn:Ev; [|discriminate].
    inversion H. reflexivity.
Qed.

Theorem nsf_model_refines_spec : forall D s density natural_density ws v rho,
  (forall w, In w ws -> wl_pos w) ->
  (forall p, In p (atoms_of s) ->
     (0 <= snd p)%Q /\ (0 < e_mass (nd_env D) (fst p))%Q
     /\ (has_data D (fst p) = true -> rec_okb D (az (fst p)) (aa (fst p)) = true)) ->
  density_of_compound D s density natural_density = Some rho -> (0 < rho)%Q ->
  neutron_scattering D s density natural_density ws = OVals v ->
  Forall2 (agrees D (atoms_of s) rho) ws v.
Proof.
  intros D s density natural_density ws v rho Hws Hd Hrho Hpos H.
  destruct (scattering_cell_ok D s density natural_density ws v rho Hd Hrho H) as [Hcell Ev].
  clear H. revert v Ev Hws. induction ws as [|w r IH]; intros v Ev Hws; cbn [map all_some] in Ev.
  - inversion Ev. constructor.
  - destruct (compound_at D (atoms_of s) rho w) as [[o ps]|] eqn:Ec; [|discriminate].
    destruct (all_some (map (compound_at D (atoms_of s) rho) r)) as [v'|] eqn:Er; [|discriminate].
    inversion Ev; subst v. constructor.
    + unfold agrees. cbn [fst].
      apply (compound_refines D (atoms_of s) rho w o ps); try assumption. apply Hws. left. reflexivity.
    + apply IH; [reflexivity|]. intros w' Hin. apply Hws. right. exact Hin.
Qed.

(* A compound containing an atom the code has no SLD for yields (None, None, None) (when its
   density is known) *)
Theorem missing_gives_none : forall D s density natural_density ws rho,
  density_of_compound D s density natural_density = Some rho ->
  (exists p, In p (atoms_of s) /\ has_data D (fst p) = false) ->
  neutron_scattering D s density natural_density ws = ONone.
Proof.
  intros D s density natural_density ws rho Hrho (p & Hin & Hp). unfold neutron_scattering. rewrite Hrho.
  destruct (forallb (fun p => has_data D (fst p)) (atoms_of s)) eqn:Hall; [|reflexivity].
  rewrite forallb_forall in Hall. rewrite (Hall p Hin) in Hp. discriminate.
Qed.

(* "has neutron data" of the model is that of the specification: a tabulated scattering length *)
Theorem has_data_is_tabulated : forall D a, has_data D a = spec_has_data D a.
Proof. intros D a. reflexivity. Qed.

(* ------------------------------------------------------------------ the regenerated table *)
Lemma the_tbl_some : is_someb the_tbl = true.
Proof. vm_compute. reflexivity. Qed.
Lemma the_dens_some : is_someb the_dens = true.
Proof. vm_compute. reflexivity. Qed.

Lemma the_nd_rec : forall s, the_nsf = Some s -> forall z a, nd_rec the_nd z a = neutron_of s z a.
Proof.
  intros s E z a. unfold the_nd, nd_with. rewrite E.
  pose proof the_tbl_some as Ht. pose proof the_dens_some as Hd.
  destruct the_tbl; [|discriminate Ht]. destruct the_dens; [|discriminate Hd]. reflexivity.
Qed.
Lemma the_nd_env : nd_env the_nd = the_env.
Proof.
  unfold the_nd, nd_with, the_env. destruct the_nsf_loaded as [s E]. rewrite E.
  pose proof the_tbl_some as Ht. pose proof the_dens_some as Hd.
  destruct the_tbl; [|discriminate Ht]. destruct the_dens; [|discriminate Hd]. reflexivity.
Qed.

(* every record of the loaded table that has an SLD satisfies what the refinement asks *)
Lemma sweep_rec_ok_c :
  on_st the_nsf (fun s => all_recs s (fun r => implb (is_someb (r_bc r)) (rec_okb_r the_nd r))) = true.
Proof. vm_compute. reflexivity. Qed.

(* the closed constants that evaluate whole tables are unfolded last by the conversion *)
Local Strategy opaque [the_nd the_nsf the_tbl the_dens the_env].

Theorem the_nd_ok : forall z a, is_someb (r_bc (nd_rec the_nd z a)) = true -> rec_okb the_nd z a = true.
Proof.
  intros z a H. destruct the_nsf_loaded as [s E]. unfold rec_okb.
  rewrite (the_nd_rec s E) in *. unfold neutron_of in *.
  destruct (rec_of s z a) as [r|] eqn:Er; [|discriminate H].
  unfold rec_of in Er. destruct (rid_of s z a) as [i|]; [|discriminate Er].
  pose proof (on_st_elim _ _ s sweep_rec_ok_c E) as Hs.
  pose proof (all_recs_elim s _ Hs i r Er) as Hr. cbn beta in Hr. rewrite H in Hr. exact Hr.
Qed.

(* C03 on the regenerated tables *)
Theorem nsf_model_refines_spec_tables : forall s density natural_density ws v rho,
  (forall w, In w ws -> wl_pos w) ->
  (forall p, In p (atoms_of s) -> (0 <= snd p)%Q /\ (0 < e_mass the_env (fst p))%Q) ->
  density_of_compound the_nd s density natural_density = Some rho -> (0 < rho)%Q ->
  neutron_scattering the_nd s density natural_density ws = OVals v ->
  Forall2 (agrees the_nd (atoms_of s) rho) ws v.
Proof.
  intros s density natural_density ws v rho Hws Hd Hrho Hpos H.
  apply (nsf_model_refines_spec the_nd s density natural_density ws v rho); try assumption.
  intros p Hin. destruct (Hd p Hin) as [H1 H2]. rewrite the_nd_env.
  split; [exact H1|]. split; [exact H2|]. intro Hdata. apply the_nd_ok. unfold has_data in Hdata. exact Hdata.
Qed.

(* ------------------------------------------------------------------ the None clause, both directions *)
(* (None, None, None) exactly when some atom of the compound has no tabulated scattering length *)
Theorem none_iff_missing_data : forall D s density natural_density ws rho,
  density_of_compound D s density natural_density = Some rho ->
  (neutron_scattering D s density natural_density ws = ONone <->
   exists p, In p (atoms_of s) /\ spec_has_data D (fst p) = false).
Proof.
  intros D s density natural_density ws rho Hrho. split.
  - intro H. unfold neutron_scattering in H. rewrite Hrho in H.
    destruct (forallb (fun p => has_data D (fst p)) (atoms_of s)) eqn:Hall.
    + cbn [negb] in H. destruct (Qeq_bool _ 0); [discriminate H|]. destruct (all_some _); discriminate H.
    + assert (Hex : existsb (fun p => negb (has_data D (fst p))) (atoms_of s) = true).
      { clear -Hall. induction (atoms_of s) as [|p r IH]; [discriminate Hall|]. cbn [forallb existsb] in *.
        destruct (has_data D (fst p)); [cbn; apply IH; exact Hall|reflexivity]. }
      apply existsb_exists in Hex. destruct Hex as (p & Hin & Hp). exists p. split; [exact Hin|].
      rewrite <- has_data_is_tabulated. destruct (has_data D (fst p)); [discriminate Hp|reflexivity].
  - intros (p & Hin & Hp). apply (missing_gives_none D s density natural_density ws rho Hrho).
    exists p. split; [exact Hin|]. rewrite has_data_is_tabulated. exact Hp.
Qed.

(* Ra has a scattering length but no element density: its compounds at a given density get numbers *)
Definition ra_witness : struct := [(1%Q, FAtom (mkAtom 88 0 0)); (3%Q, FAtom (mkAtom 8 0 0))].
Definition ra_check (D : ndata) : bool :=
  (negb (has_sld (nd_rec D 88 0))
   && match neutron_scattering D ra_witness (Some 5%Q) None [WLam (1798 # 1000)] with OVals [_] => true | _ => false end)%bool.
Lemma ra_witness_c : ra_check the_nd = true.
Proof. vm_compute. reflexivity. Qed.

(* ------------------------------------------------------------------ element / isotope queried directly *)
(* atoms_of of the one-atom formula *)
Lemma atoms_of_one : forall a, atoms_of [(1%Q, FAtom a)] = [(a, Qred (0 + 1 * 1)%Q)].
Proof. intro a. reflexivity. Qed.

Lemma Q2R_011 : Q2R (0 + 1 * 1) = 1.
Proof. rewrite Q2R_plus, Q2R_mult, RMicromega.Q2R_0, RMicromega.Q2R_1. ring. Qed.

Definition same_numbers (x y : outs * list compE) : Prop :=
  map ev (outs_list (fst x)) = map ev (outs_list (fst y)).

Section OneAtom.
  Variable D : ndata.
  Variables z a : Z.
  Let atom := mkAtom z a 0.
  Variables rho nd : Q.
  Hypothesis Hsld : has_sld (nd_rec D z a) = true.
  Hypothesis Hdens : e_density (nd_env D) atom = Some rho.
  Hypothesis Hnd : nd_numdens D z = Some nd.
  Hypothesis Hmass : (0 < e_mass (nd_env D) atom)%Q.
  Hypothesis Hrho : (0 < rho)%Q.
  (* number density x atomic mass = density x N_A *)
  Hypothesis Hrel : Q2R nd * Q2R (e_mass (nd_env D) atom) = Q2R rho * Q2R NAq.

  Lemma one_atom_at : forall w o ps, atom_at D z a nd w = Some (o, ps) ->
    exists o' ps', compound_at D [(atom, Qred (0 + 1 * 1)%Q)] rho w = Some (o', ps') /\
                   map ev (outs_list o) = map ev (outs_list o').
  Proof.
    intros w o ps H. unfold atom_at in H. unfold compound_at, atom_piece. cbn [map fst snd az aa atom].
    destruct (scattering_by_wavelength D z a w) as [[[re im] ss]|]; [|discriminate].
    cbn [bind fst snd all_some] in *. inversion H; subst o ps. clear H.
    eexists. eexists. split; [reflexivity|].
    unfold compound_parts, calc5, acc_sum. cbn [fold_left ce_n ce_m ce_re ce_im ce_ss].
    rewrite !ev_calculate_scattering. cbn [evalR]. rewrite !ev_cq, !ev_ez, !Q2R_Qred.
    set (m := Q2R (e_mass (nd_env D) (mkAtom z a 0))) in *.
    assert (Hm : 0 < m) by (apply Q2R_pos; exact Hmass).
    assert (Hr : 0 < Q2R rho) by (apply Q2R_pos; exact Hrho).
    pose proof NA_pos as HNA.
    rewrite Q2R_011.
    assert (HN : Q2R nd * Q2R E24m = (0 + 1) / ((0 + m * 1) / Q2R rho / Q2R NAq * Q2R E24)).
    { rewrite Q2R_E24. replace (Q2R E24m) with (/ (100000000 * 100000000 * 100000000)).
      - assert (Hrel' : Q2R nd * m = Q2R rho * Q2R NAq) by exact Hrel.
        replace (Q2R nd) with (Q2R rho * Q2R NAq / m) by (rewrite <- Hrel'; field; lra).
        field. repeat split; lra.
      - unfold E24m, Q2R. cbn [Qnum Qden]. change (Z.pos (10 ^ 24)) with (100000000 * 100000000 * 100000000)%Z.
        rewrite !mult_IZR. lra. }
    rewrite HN.
    replace ((0 + 1 * ev re) / (0 + 1)) with (ev re) by field.
    replace ((0 + 1 * ev im) / (0 + 1)) with (ev im) by field.
    replace ((0 + 1 * ev ss) / (0 + 1)) with (ev ss) by field.
    reflexivity.
  Qed.

  Theorem atom_equals_one_atom_compound : forall ws va,
    atom_scattering D z a ws = OVals va ->
    exists vc, neutron_scattering D [(1%Q, FAtom atom)] None None ws = OVals vc /\
               Forall2 same_numbers va vc.
  Proof.
    intros ws va H. unfold atom_scattering in H. rewrite Hsld, Hnd in H. cbn [negb] in H.
    destruct (all_some (map (atom_at D z a nd) ws)) as [va'|] eqn:Ea; [|discriminate].
    inversion H; subst va'. clear H.
    unfold neutron_scattering, density_of_compound. rewrite atoms_of_one. rewrite Hdens.
    assert (Hbc : is_someb (r_bc (nd_rec D z a)) = true).
    { unfold has_sld in Hsld. destruct (r_bc (nd_rec D z a)); [reflexivity|discriminate Hsld]. }
    cbn [forallb fst]. unfold has_data. cbn [az aa atom]. rewrite Hbc. cbn [negb andb].
    assert (Hv : Qeq_bool (rweight (e_mass (nd_env D)) [(atom, Qred (0 + 1 * 1)%Q)] * rho) 0 = false).
    { destruct (Qeq_bool _ 0) eqn:E; [|reflexivity]. exfalso. apply Qeq_bool_iff in E.
      apply Qeq_eqR in E. rewrite Q2R_mult in E. unfold rweight in E. cbn [fold_left fst snd] in E.
      rewrite Q2R_Qred, Q2R_plus, Q2R_mult, Q2R_Qred in E.
      rewrite Q2R_011 in E.
      rewrite !RMicromega.Q2R_0 in E.
      assert (0 < Q2R (e_mass (nd_env D) atom)) by (apply Q2R_pos; exact Hmass).
      assert (0 < Q2R rho) by (apply Q2R_pos; exact Hrho). nra. }
    rewrite Hv.
    revert va Ea. induction ws as [|w r IH]; intros va Ea; cbn [map all_some] in *.
    - inversion Ea. eexists. split; [reflexivity|constructor].
    - destruct (atom_at D z a nd w) as [[o ps]|] eqn:E1; [|discriminate].
      destruct (all_some (map (atom_at D z a nd) r)) as [va'|] eqn:Er; [|discriminate].
      inversion Ea; subst va.
      destruct (one_atom_at w o ps E1) as (o' & ps' & Ec & Heq). rewrite Ec.
      destruct (IH va' eq_refl) as (vc' & Hvc & Hall).
      destruct (all_some (map (compound_at D [(atom, Qred (0 + 1 * 1)%Q)] rho) r)) as [vc''|]; [|discriminate].
      inversion Hvc; subst vc''. eexists. split; [reflexivity|]. constructor; [exact Heq|exact Hall].
  Qed.
End OneAtom.

(* the relation "number density x atomic mass = density x N_A" holds for every element and isotope
   of any mass/density tables: the isotope's density is the element's scaled by the mass ratio,
   and the number density used is the element's *)
Theorem number_density_relation : forall os t d z a rho nd,
  let D := nd_with (Some os) (Some t) (Some d) in
  e_density (nd_env D) (mkAtom z a 0) = Some rho ->
  nd_numdens D z = Some nd ->
  (0 < e_mass (nd_env D) (mkAtom z a 0))%Q ->
  Q2R nd * Q2R (e_mass (nd_env D) (mkAtom z a 0)) = Q2R rho * Q2R NAq.
Proof.
  intros os t d z a rho nd D Hrho Hnd Hm. unfold D, nd_with in *. cbn [nd_env nd_numdens] in *.
  unfold env_with in *. cbn [e_density e_mass az aa aq] in *.
  unfold numdens_of in Hnd.
  assert (Hme : forall q, Q2R (q - inject_Z 0 * ME) = Q2R q).
  { intro q. apply Qeq_eqR. unfold inject_Z. ring. }
  rewrite Hme in *.
  destruct (density_of t d z 0) as [r| |] eqn:Er; try discriminate.
  destruct (mass_of t z 0) as [me| |] eqn:Eme; try discriminate.
  destruct (Qeq_bool me 0) eqn:Ez; [discriminate|].
  set (x := Qred (r / me * NAq)) in Hnd. assert (Hx : nd = x) by congruence. rewrite Hx. unfold x. clear Hnd Hx x.
  rewrite Q2R_Qred, Q2R_mult.
  assert (Hme0 : Q2R me <> 0).
  { intro E. assert (me == 0)%Q. { apply eqR_Qeq. rewrite E. symmetry. apply RMicromega.Q2R_0. }
    apply Qeq_bool_iff in H. congruence. }
  rewrite Q2R_div' by exact Hme0.
  unfold density_of in Hrho, Er. destruct (dens_get d z) as [orho|]; [|discriminate].
  rewrite Z.eqb_refl in Er.
  destruct (Z.eqb a 0) eqn:Ea.
  - apply Z.eqb_eq in Ea. subst a. rewrite Eme in *. cbn [q_of] in *.
    destruct orho as [r0|]; [|discriminate Er]. assert (r0 = r) by congruence. subst r0.
    assert (rho = r) by congruence. subst rho. field. exact Hme0.
  - destruct orho as [r0|]; [|discriminate Er]. assert (r0 = r) by congruence. subst r0.
    rewrite Eme in Hrho. destruct (mass_of t z a) as [mi| |] eqn:Emi; try discriminate Hrho.
    rewrite Ez in Hrho. set (y := Qred (r * (mi / me))) in Hrho.
    assert (Hy : rho = y) by congruence. rewrite Hy. unfold y. clear Hrho Hy y. cbn [q_of].
    rewrite Q2R_Qred, Q2R_mult, Q2R_div' by exact Hme0. field. exact Hme0.
Qed.

(* ------------------------------------------------------------------ the tables are ordered by wavelength *)
Fixpoint decreasing_fromb (e0 : Q) (rest : list erow) : bool :=
  match rest with
  | [] => true
  | (e1, _, _) :: r => (Qlt_bool e1 e0 && decreasing_fromb e1 r)%bool
  end.
Definition rows_sortedb (rows : list erow) : bool :=
  match rows with [] => true | (e0, _, _) :: r => decreasing_fromb e0 r end.

Lemma node_x_lt : forall e0 e1, (0 < e0)%Q -> (0 < e1)%Q -> Qlt_bool e1 e0 = true -> node_x_R e0 < node_x_R e1.
Proof.
  intros e0 e1 H0 H1 H. apply Qlt_bool_Rlt in H. apply Q2R_pos in H0, H1. unfold node_x_R.
  apply sqrt_div_lt; [exact EF_R_pos|lra|lra|lra].
Qed.

Lemma decreasing_increasing_re : forall rest e0 (y0 : Q), (0 < e0)%Q -> rows_pos rest ->
  decreasing_fromb e0 rest = true -> increasing_from (node_x_R e0) (re_nodes_R rest).
Proof.
  induction rest as [|[[e1 re1] im1] r IH]; intros e0 y0 H0 Hp H; [exact I|].
  cbn [decreasing_fromb] in H. apply andb_prop in H. destruct H as [H1 H2].
  inversion Hp as [|? ? Hp1 Hp2]; subst. cbn [fst] in Hp1. cbn [re_nodes_R map increasing_from]. split.
  - apply node_x_lt; assumption.
  - apply (IH e1 re1 Hp1 Hp2 H2).
Qed.
Lemma decreasing_increasing_im : forall rest e0 (y0 : Q), (0 < e0)%Q -> rows_pos rest ->
  decreasing_fromb e0 rest = true -> increasing_from (node_x_R e0) (im_nodes_R rest).
Proof.
  induction rest as [|[[e1 re1] im1] r IH]; intros e0 y0 H0 Hp H; [exact I|].
  cbn [decreasing_fromb] in H. apply andb_prop in H. destruct H as [H1 H2].
  inversion Hp as [|? ? Hp1 Hp2]; subst. cbn [fst] in Hp1. cbn [im_nodes_R map increasing_from]. split.
  - apply node_x_lt; assumption.
  - apply (IH e1 im1 Hp1 Hp2 H2).
Qed.

Theorem sorted_rows_increasing : forall rows, rows_pos rows -> rows_sortedb rows = true ->
  increasing (re_nodes_R rows) /\ increasing (im_nodes_R rows).
Proof.
  intros [|[[e0 re0] im0] r] Hp H; [split; exact I|].
  inversion Hp as [|? ? Hp1 Hp2]; subst. cbn [fst] in Hp1. cbn [rows_sortedb] in H.
  cbn [re_nodes_R im_nodes_R map increasing]. split.
  - apply (decreasing_increasing_re r e0 re0 Hp1 Hp2 H).
  - apply (decreasing_increasing_im r e0 im0 Hp1 Hp2 H).
Qed.

Definition tab_sortedb (r : nrec) : bool :=
  match r_tab r with Some (ETab rows) => (rows_posb rows && rows_sortedb rows)%bool | _ => true end.
Lemma sweep_tab_sorted_c : on_st the_nsf (fun s => all_recs s tab_sortedb) = true.
Proof. vm_compute. reflexivity. Qed.

(* every energy table of the regenerated data is strictly increasing in wavelength *)
Theorem energy_tables_increasing : forall z a rows, r_tab (nd_rec the_nd z a) = Some (ETab rows) ->
  increasing (re_nodes_R rows) /\ increasing (im_nodes_R rows).
Proof.
  intros z a rows H. destruct the_nsf_loaded as [s E]. rewrite (the_nd_rec s E) in H. unfold neutron_of in H.
  destruct (rec_of s z a) as [r|] eqn:Er; [|discriminate H].
  unfold rec_of in Er. destruct (rid_of s z a) as [i|]; [|discriminate Er].
  pose proof (on_st_elim _ _ s sweep_tab_sorted_c E) as Hs.
  pose proof (all_recs_elim s _ Hs i r Er) as Hr. unfold tab_sortedb in Hr. rewrite H in Hr.
  apply andb_prop in Hr. destruct Hr as [H1 H2]. apply sorted_rows_increasing; [apply rows_posb_ok; exact H1|exact H2].
Qed.

(* hence, at the wavelength of a tabulated energy the documented b_c is the tabulated one, for the
   actual tables *)
Theorem tabulated_at_nodes : forall z a rows e re im,
  r_tab (nd_rec the_nd z a) = Some (ETab rows) -> In (e, re, im) rows ->
  interp (node_x_R e) (re_nodes_R rows) = Q2R re /\ interp (node_x_R e) (im_nodes_R rows) = Q2R im.
Proof.
  intros z a rows e re im H Hin. destruct (energy_tables_increasing z a rows H) as [H1 H2]. split.
  - apply (interp_node _ H1). unfold re_nodes_R. apply in_map_iff. exists (e, re, im). split; [reflexivity|exact Hin].
  - apply (interp_node _ H2). unfold im_nodes_R. apply in_map_iff. exists (e, re, im). split; [reflexivity|exact Hin].
Qed.

(* ------------------------------------------------------------------ Formula objects with their own density *)
(* formula(compound, density=, natural_density=) on a Formula object: the rule of the code is the
   documented one (density= is the mass density, natural_density= the natural-abundance density; the
   object's own density only when neither is given) *)
Theorem formula_density_rule : forall own density natural_density,
  formula_density_args own density natural_density = spec_density_args own density natural_density.
Proof. intros own [r|] [nd|]; reflexivity. Qed.

Theorem formula_object_density_keyword_wins : forall D s own rho ws,
  neutron_scattering_formula D s own (Some rho) None ws = neutron_scattering D s (Some rho) None ws.
Proof. reflexivity. Qed.
Theorem formula_object_natural_density_keyword_wins : forall D s own density nd ws,
  neutron_scattering_formula D s own density (Some nd) ws = neutron_scattering D s density (Some nd) ws.
Proof. intros D s own [r|] nd ws; reflexivity. Qed.
Theorem formula_object_own_density_by_default : forall D s own ws,
  neutron_scattering_formula D s own None None ws = neutron_scattering D s own None ws.
Proof. reflexivity. Qed.
