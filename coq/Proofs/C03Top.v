(* Proofs/C03Top.v — C03 for whole calls: neutron_scattering at every wavelength of the call equals
   the documented equations on the tabulated data; the None path; the data facts the refinement
   needs hold for every record of the regenerated neutron table (kernel-evaluated sweep); an element
   or isotope queried directly equals its one-atom compound at the atom's density. *)
From Coq Require Import Reals ZArith QArith Qreals Qabs String List Bool Lra Lia FMapPositive.
From PT Require Import Str Dec Loaders Formula AtomEnv C06Check Nsf C07Check C07Sweep IExpr Neutron NsfCalc NeutronData
                       C03Spec C03Data C03Refine.
Import ListNotations.
Open Scope R_scope.

Notation ev := (evalR no_env_R).

(* what C03 asserts of one wavelength of a call *)
Definition agrees (D : ndata) (d : dict) (rho : Q) (w : wl) (ov : outs * list compE) : Prop :=
  exists l, tab_cell D w d = Some l /\
            map ev (outs_list (fst ov)) = outputs (Q2R NAq) l (Q2R rho) (wl_R w).

Lemma rweight_nil : forall w, rweight w [] = 0%Q.
Proof. reflexivity. Qed.

Theorem nsf_model_refines_spec : forall D s density natural_density ws v rho,
  (forall w, In w ws -> wl_pos w) ->
  (forall p, In p (atoms_of s) ->
     (0 < snd p)%Q /\ (0 < e_mass (nd_env D) (fst p))%Q
     /\ (has_data D (fst p) = true -> rec_okb D (az (fst p)) (aa (fst p)) = true)) ->
  density_of_compound D s density natural_density = Some rho -> (0 < rho)%Q ->
  neutron_scattering D s density natural_density ws = OVals v ->
  Forall2 (agrees D (atoms_of s) rho) ws v.
Proof.
  intros D s density natural_density ws v rho Hws Hd Hrho Hpos H.
  unfold neutron_scattering in H. rewrite Hrho in H.
  destruct (forallb (fun p => has_data D (fst p)) (atoms_of s)) eqn:Hall; [|discriminate]. cbn [negb] in H.
  destruct (Qeq_bool (rweight (e_mass (nd_env D)) (atoms_of s) * rho) 0) eqn:Hvac; [discriminate|].
  assert (Hcell : cell_ok D (atoms_of s)).
  { split.
    - intro E. rewrite E in Hvac. rewrite rweight_nil in Hvac. discriminate Hvac.
    - intros p Hin. destruct (Hd p Hin) as (H1 & H2 & H3).
      split; [exact H1|]. split; [exact H2|]. apply H3. rewrite forallb_forall in Hall. exact (Hall p Hin). }
  destruct (all_some (map (compound_at D (atoms_of s) rho) ws)) as [v'|] eqn:Ev; [|discriminate].
  inversion H; subst v'. clear H.
  revert v Ev Hws. induction ws as [|w r IH]; intros v Ev Hws; cbn [map all_some] in Ev.
  - inversion Ev. constructor.
  - destruct (compound_at D (atoms_of s) rho w) as [[o ps]|] eqn:Ec; [|discriminate].
    destruct (all_some (map (compound_at D (atoms_of s) rho) r)) as [v'|] eqn:Er; [|discriminate].
    inversion Ev; subst v. constructor.
    + unfold agrees. cbn [fst].
      apply (compound_refines D (atoms_of s) rho w o ps); try assumption. apply Hws. left. reflexivity.
    + apply IH; [reflexivity|]. intros w' Hin. apply Hws. right. exact Hin.
Qed.

(* A compound containing an atom the code has no SLD for yields (None, None, None) (when its
   density is known) *)
Theorem missing_gives_none : forall D s density natural_density ws rho,
  density_of_compound D s density natural_density = Some rho ->
  (exists p, In p (atoms_of s) /\ has_data D (fst p) = false) ->
  neutron_scattering D s density natural_density ws = ONone.
Proof.
  intros D s density natural_density ws rho Hrho (p & Hin & Hp). unfold neutron_scattering. rewrite Hrho.
  destruct (forallb (fun p => has_data D (fst p)) (atoms_of s)) eqn:Hall; [|reflexivity].
  rewrite forallb_forall in Hall. rewrite (Hall p Hin) in Hp. discriminate.
Qed.

(* an atom without a tabulated scattering length has no SLD *)
Theorem no_b_c_no_data : forall D a, spec_has_data D a = false -> has_data D a = false.
Proof.
  intros D a H. unfold spec_has_data in H. unfold has_data, has_sld.
  destruct (r_bc (nd_rec D (az a) (aa a))); [discriminate|]. reflexivity.
Qed.

(* ------------------------------------------------------------------ the regenerated table *)
Lemma the_tbl_some : is_someb the_tbl = true.
Proof. vm_compute. reflexivity. Qed.
Lemma the_dens_some : is_someb the_dens = true.
Proof. vm_compute. reflexivity. Qed.

Lemma the_nd_rec : forall s, the_nsf = Some s -> forall z a, nd_rec the_nd z a = neutron_of s z a.
Proof.
  intros s E z a. unfold the_nd, nd_with. rewrite E.
  pose proof the_tbl_some as Ht. pose proof the_dens_some as Hd.
  destruct the_tbl; [|discriminate Ht]. destruct the_dens; [|discriminate Hd]. reflexivity.
Qed.
Lemma the_nd_env : nd_env the_nd = the_env.
Proof.
  unfold the_nd, nd_with, the_env. destruct the_nsf_loaded as [s E]. rewrite E.
  pose proof the_tbl_some as Ht. pose proof the_dens_some as Hd.
  destruct the_tbl; [|discriminate Ht]. destruct the_dens; [|discriminate Hd]. reflexivity.
Qed.

(* every record of the loaded table that has an SLD satisfies what the refinement asks *)
Lemma sweep_rec_ok_c :
  on_st the_nsf (fun s => all_recs s (fun r => implb (has_sld r) (rec_okb_r the_nd r))) = true.
Proof. vm_compute. reflexivity. Qed.

Theorem the_nd_ok : forall z a, has_sld (nd_rec the_nd z a) = true -> rec_okb the_nd z a = true.
Proof.
  intros z a H. destruct the_nsf_loaded as [s E]. unfold rec_okb.
  rewrite (the_nd_rec s E) in *. unfold neutron_of in *.
  destruct (rec_of s z a) as [r|] eqn:Er; [|discriminate H].
  unfold rec_of in Er. destruct (rid_of s z a) as [i|]; [|discriminate Er].
  pose proof (on_st_elim _ _ s sweep_rec_ok_c E) as Hs.
  pose proof (all_recs_elim s _ Hs i r Er) as Hr. cbn beta in Hr. rewrite H in Hr. exact Hr.
Qed.

(* C03 on the regenerated tables *)
Theorem nsf_model_refines_spec_tables : forall s density natural_density ws v rho,
  (forall w, In w ws -> wl_pos w) ->
  (forall p, In p (atoms_of s) -> (0 < snd p)%Q /\ (0 < e_mass the_env (fst p))%Q) ->
  density_of_compound the_nd s density natural_density = Some rho -> (0 < rho)%Q ->
  neutron_scattering the_nd s density natural_density ws = OVals v ->
  Forall2 (agrees the_nd (atoms_of s) rho) ws v.
Proof.
  intros s density natural_density ws v rho Hws Hd Hrho Hpos H.
  apply (nsf_model_refines_spec the_nd s density natural_density ws v rho); try assumption.
  intros p Hin. destruct (Hd p Hin) as [H1 H2]. rewrite the_nd_env.
  split; [exact H1|]. split; [exact H2|]. intro Hdata. apply the_nd_ok. unfold has_data in Hdata. exact Hdata.
Qed.

(* ------------------------------------------------------------------ full strength of the None clause *)
(* "a compound whose atoms all have neutron data gets numbers" fails on the faithful model:
   Ra has a tabulated scattering length and cross sections, but no element density, and has_sld()
   asks for one although the calculation at a given density does not use it *)
Definition ra_witness : struct := [(1%Q, FAtom (mkAtom 88 0 0)); (3%Q, FAtom (mkAtom 8 0 0))].
Lemma ra_witness_c :
  (forallb (fun p => spec_has_data the_nd (fst p)) (atoms_of ra_witness)
   && match neutron_scattering the_nd ra_witness (Some 5%Q) None [WLam (1798 # 1000)] with ONone => true | _ => false end)%bool
  = true.
Proof. vm_compute. reflexivity. Qed.

Theorem values_iff_tabulated_refuted :
  exists s rho w, (forall p, In p (atoms_of s) -> spec_has_data the_nd (fst p) = true) /\
                  neutron_scattering the_nd s (Some rho) None [w] = ONone.
Proof.
  exists ra_witness, 5%Q, (WLam (1798 # 1000)). pose proof ra_witness_c as H.
  apply andb_prop in H. destruct H as [H1 H2]. split.
  - intros p Hin. rewrite forallb_forall in H1. exact (H1 p Hin).
  - destruct (neutron_scattering the_nd ra_witness (Some 5%Q) None [WLam (1798 # 1000)]); try discriminate H2.
    reflexivity.
Qed.

(* what holds: numbers exactly when every atom has an SLD of its own (scattering length and
   element density) *)
Theorem values_iff_sld_partial : forall D s density natural_density ws rho,
  density_of_compound D s density natural_density = Some rho ->
  (neutron_scattering D s density natural_density ws = ONone <->
   exists p, In p (atoms_of s) /\ has_data D (fst p) = false).
Proof.
  intros D s density natural_density ws rho Hrho. split.
  - intro H. unfold neutron_scattering in H. rewrite Hrho in H.
    destruct (forallb (fun p => has_data D (fst p)) (atoms_of s)) eqn:Hall.
    + cbn [negb] in H. destruct (Qeq_bool _ 0); [discriminate|]. destruct (all_some _); discriminate.
    + assert (Hex : existsb (fun p => negb (has_data D (fst p))) (atoms_of s) = true).
      { clear -Hall. induction (atoms_of s) as [|p r IH]; [discriminate|]. cbn [forallb existsb] in *.
        destruct (has_data D (fst p)); [cbn; apply IH; exact Hall|reflexivity]. }
      apply existsb_exists in Hex. destruct Hex as (p & Hin & Hp). exists p. split; [exact Hin|].
      destruct (has_data D (fst p)); [discriminate|reflexivity].
  - apply (missing_gives_none D s density natural_density ws rho Hrho).
Qed.
