(* Proofs/C19Proofs.v — Hill form: same atom counts, documented order, canonical, idempotent,
   an ordered flat formula is its own Hill form. *)
From Coq Require Import ZArith QArith Qreduction String Ascii List Bool Lia Permutation Sorted Setoid.
From PT Require Import Str Dec Loaders Formula FormulaAlg HillOrder C06Check AtomEnv C06Sweep.
From PT.Gen Require Import ElementBase.
Import ListNotations.
Open Scope Q_scope.

(* ================================================================ 1. lexicographic orders *)
Section Lex.
  Variables A B : Type.
  Variable ltA : A -> A -> bool.
  Variable ltB : B -> B -> bool.
  Hypothesis asymA : forall a b, ltA a b = true -> ltA b a = false.
  Hypothesis transA : forall a b c, ltA a b = true -> ltA b c = true -> ltA a c = true.
  Hypothesis totalA : forall a b, ltA a b = false -> ltA b a = false -> a = b.
  Hypothesis asymB : forall a b, ltB a b = true -> ltB b a = false.
  Hypothesis transB : forall a b c, ltB a b = true -> ltB b c = true -> ltB a c = true.
  Hypothesis totalB : forall a b, ltB a b = false -> ltB b a = false -> a = b.

  Lemma irreflA : forall a, ltA a a = false.
  Proof. intro a. destruct (ltA a a) eqn:E; [|reflexivity]. pose proof (asymA a a E) as H. rewrite E in H. discriminate H. Qed.

  Lemma lex_asym : forall x y, lex_ltb ltA ltB x y = true -> lex_ltb ltA ltB y x = false.
  Proof.
    intros [a1 b1] [a2 b2]. unfold lex_ltb. simpl.
    destruct (ltA a1 a2) eqn:E1.
    - intros _. rewrite (asymA _ _ E1). reflexivity.
    - destruct (ltA a2 a1) eqn:E2; [discriminate|]. apply asymB.
  Qed.

  Lemma lex_trans : forall x y z, lex_ltb ltA ltB x y = true -> lex_ltb ltA ltB y z = true ->
    lex_ltb ltA ltB x z = true.
  Proof.
    intros [a1 b1] [a2 b2] [a3 b3]. unfold lex_ltb. simpl.
    destruct (ltA a1 a2) eqn:E12.
    - intros _. destruct (ltA a2 a3) eqn:E23.
      + intros _. rewrite (transA _ _ _ E12 E23). reflexivity.
      + destruct (ltA a3 a2) eqn:E32; [discriminate|]. intros _.
        rewrite <- (totalA _ _ E23 E32). rewrite E12. reflexivity.
    - destruct (ltA a2 a1) eqn:E21; [discriminate|]. intro H12.
      rewrite <- (totalA _ _ E12 E21).
      destruct (ltA a1 a3) eqn:E13; [reflexivity|].
      destruct (ltA a3 a1) eqn:E31; [discriminate|]. intro H23. exact (transB _ _ _ H12 H23).
  Qed.

  Lemma lex_total : forall x y, lex_ltb ltA ltB x y = false -> lex_ltb ltA ltB y x = false -> x = y.
  Proof.
    intros [a1 b1] [a2 b2]. unfold lex_ltb. simpl.
    destruct (ltA a1 a2) eqn:E12; [discriminate|].
    destruct (ltA a2 a1) eqn:E21; [discriminate|].
    intros H1 H2. rewrite (totalA _ _ E12 E21). rewrite (totalB _ _ H1 H2). reflexivity.
  Qed.
End Lex.

Lemma Zltb_asym : forall a b : Z, Z.ltb a b = true -> Z.ltb b a = false.
Proof. intros a b H. apply Z.ltb_lt in H. apply Z.ltb_ge. lia. Qed.
Lemma Zltb_trans : forall a b c : Z, Z.ltb a b = true -> Z.ltb b c = true -> Z.ltb a c = true.
Proof. intros a b c H1 H2. apply Z.ltb_lt in H1, H2. apply Z.ltb_lt. lia. Qed.
Lemma Zltb_total : forall a b : Z, Z.ltb a b = false -> Z.ltb b a = false -> a = b.
Proof. intros a b H1 H2. apply Z.ltb_ge in H1, H2. lia. Qed.

(* ================================================================ 2. the Hill key order *)
Definition ltZZ := lex_ltb Z.ltb Z.ltb.
Definition ltZZZ := lex_ltb Z.ltb ltZZ.
Definition ltSZZZ := lex_ltb str_ltb ltZZZ.

Lemma ltZZ_asym : forall a b, ltZZ a b = true -> ltZZ b a = false.
Proof. apply lex_asym; [apply Zltb_asym|apply Zltb_asym]. Qed.
Lemma ltZZ_trans : forall a b c, ltZZ a b = true -> ltZZ b c = true -> ltZZ a c = true.
Proof. apply lex_trans; first [apply Zltb_asym|apply Zltb_trans|apply Zltb_total]. Qed.
Lemma ltZZ_total : forall a b, ltZZ a b = false -> ltZZ b a = false -> a = b.
Proof. apply lex_total; apply Zltb_total. Qed.

Lemma ltZZZ_asym : forall a b, ltZZZ a b = true -> ltZZZ b a = false.
Proof. apply lex_asym; [apply Zltb_asym|apply ltZZ_asym]. Qed.
Lemma ltZZZ_trans : forall a b c, ltZZZ a b = true -> ltZZZ b c = true -> ltZZZ a c = true.
Proof. apply lex_trans; first [apply Zltb_asym|apply Zltb_trans|apply Zltb_total|apply ltZZ_trans]. Qed.
Lemma ltZZZ_total : forall a b, ltZZZ a b = false -> ltZZZ b a = false -> a = b.
Proof. apply lex_total; [apply Zltb_total|apply ltZZ_total]. Qed.

Lemma ltSZZZ_asym : forall a b, ltSZZZ a b = true -> ltSZZZ b a = false.
Proof. apply lex_asym; [apply str_ltb_asym|apply ltZZZ_asym]. Qed.
Lemma ltSZZZ_trans : forall a b c, ltSZZZ a b = true -> ltSZZZ b c = true -> ltSZZZ a c = true.
Proof. apply lex_trans; first [apply str_ltb_asym|apply str_ltb_trans|apply str_ltb_total|apply ltZZZ_trans]. Qed.
Lemma ltSZZZ_total : forall a b, ltSZZZ a b = false -> ltSZZZ b a = false -> a = b.
Proof. apply lex_total; [apply str_ltb_total|apply ltZZZ_total]. Qed.

Theorem hill_ltK_asym : forall a b, hill_ltK a b = true -> hill_ltK b a = false.
Proof. apply lex_asym; [apply Zltb_asym|apply ltSZZZ_asym]. Qed.
Theorem hill_ltK_trans : forall a b c, hill_ltK a b = true -> hill_ltK b c = true -> hill_ltK a c = true.
Proof. apply lex_trans; first [apply Zltb_asym|apply Zltb_trans|apply Zltb_total|apply ltSZZZ_trans]. Qed.
Theorem hill_ltK_total : forall a b, hill_ltK a b = false -> hill_ltK b a = false -> a = b.
Proof. apply lex_total; [apply Zltb_total|apply ltSZZZ_total]. Qed.

Lemma hill_ltK_irrefl : forall a, hill_ltK a a = false.
Proof. intro a. destruct (hill_ltK a a) eqn:E; [|reflexivity]. pose proof (hill_ltK_asym a a E) as H. rewrite E in H. discriminate H. Qed.

(* the key determines the atom, whatever the symbol function *)
Lemma hill_tuple_inj : forall sym a b, hill_tuple sym a = hill_tuple sym b -> a = b.
Proof.
  intros sym [z1 a1 q1] [z2 a2 q2]. unfold hill_tuple. simpl. intro H. inversion H. reflexivity.
Qed.

(* on atoms the Hill order is a strict total order *)
Theorem hill_ltb_asym : forall sym a b, hill_ltb sym a b = true -> hill_ltb sym b a = false.
Proof. intros sym a b. apply hill_ltK_asym. Qed.
Theorem hill_ltb_trans : forall sym a b c, hill_ltb sym a b = true -> hill_ltb sym b c = true -> hill_ltb sym a c = true.
Proof. intros sym a b c. apply hill_ltK_trans. Qed.
Theorem hill_ltb_total : forall sym a b, hill_ltb sym a b = false -> hill_ltb sym b a = false -> a = b.
Proof. intros sym a b H1 H2. apply (hill_tuple_inj sym). apply hill_ltK_total; assumption. Qed.
Lemma hill_ltb_irrefl : forall sym a, hill_ltb sym a a = false.
Proof. intros. apply hill_ltK_irrefl. Qed.

(* ================================================================ 3. what the order means *)
(* the documented order, written out: carbon, then hydrogen, then everything else; within a
   rank by symbol (code points), then mass number (0 = natural element), then charge; the
   atomic number last (it never decides for atoms of a table, see symbols_unique) *)
Definition hill_rank (s : string) : Z :=
  if String.eqb s "C" then 0%Z else if String.eqb s "H" then 1%Z else 2%Z.

Definition spec_ltb (sym : atom -> string) (a b : atom) : bool :=
  if Z.ltb (hill_rank (sym a)) (hill_rank (sym b)) then true
  else if Z.ltb (hill_rank (sym b)) (hill_rank (sym a)) then false
  else if str_ltb (sym a) (sym b) then true
  else if str_ltb (sym b) (sym a) then false
  else if Z.ltb (aa a) (aa b) then true
  else if Z.ltb (aa b) (aa a) then false
  else if Z.ltb (aq a) (aq b) then true
  else if Z.ltb (aq b) (aq a) then false
  else Z.ltb (az a) (az b).

Lemma hill_key_meaning : forall (sa sb : string) (ra rb : Z * (Z * Z)),
  hill_ltK (hill_flag sa, (sa, ra)) (hill_flag sb, (sb, rb)) =
  (if Z.ltb (hill_rank sa) (hill_rank sb) then true
   else if Z.ltb (hill_rank sb) (hill_rank sa) then false
   else if str_ltb sa sb then true else if str_ltb sb sa then false else ltZZZ ra rb).
Proof.
  intros sa sb ra rb. unfold hill_ltK, lex_ltb, hill_flag, hill_rank. simpl fst. simpl snd.
  destruct (String.eqb_spec sa "C") as [Ea|Ea]; destruct (String.eqb_spec sb "C") as [Eb|Eb];
    try subst sa; try subst sb; simpl; try reflexivity.
  - destruct (String.eqb_spec sb "H") as [Eb'|Eb']; [subst sb|]; reflexivity.
  - destruct (String.eqb_spec sa "H") as [Ea'|Ea']; [subst sa|]; reflexivity.
  - destruct (String.eqb_spec sa "H") as [Ea'|Ea']; destruct (String.eqb_spec sb "H") as [Eb'|Eb'];
      try subst sa; try subst sb; simpl; reflexivity.
Qed.

Theorem hill_order_meaning : forall sym a b, hill_ltb sym a b = spec_ltb sym a b.
Proof.
  intros sym a b. unfold hill_ltb, hill_tuple, spec_ltb. rewrite hill_key_meaning.
  unfold ltZZZ, ltZZ, lex_ltb. simpl fst. simpl snd. reflexivity.
Qed.

(* consequences spelled out *)
Corollary hill_C_first : forall sym a b, sym a = "C"%string -> sym b <> "C"%string -> hill_ltb sym a b = true.
Proof.
  intros sym a b Ha Hb. rewrite hill_order_meaning. unfold spec_ltb, hill_rank. rewrite Ha. simpl.
  destruct (String.eqb_spec (sym b) "C"); [contradiction|]. destruct (String.eqb (sym b) "H"); reflexivity.
Qed.
Corollary hill_H_second : forall sym a b, sym a = "H"%string -> sym b <> "C"%string -> sym b <> "H"%string ->
  hill_ltb sym a b = true.
Proof.
  intros sym a b Ha Hb Hb'. rewrite hill_order_meaning. unfold spec_ltb, hill_rank. rewrite Ha. simpl.
  destruct (String.eqb_spec (sym b) "C"); [contradiction|]. destruct (String.eqb_spec (sym b) "H"); [contradiction|].
  reflexivity.
Qed.
Corollary hill_others_alphabetical : forall sym a b,
  sym a <> "C"%string -> sym a <> "H"%string -> sym b <> "C"%string -> sym b <> "H"%string ->
  str_ltb (sym a) (sym b) = true -> hill_ltb sym a b = true.
Proof.
  intros sym a b H1 H2 H3 H4 L. rewrite hill_order_meaning. unfold spec_ltb, hill_rank.
  destruct (String.eqb_spec (sym a) "C"); [contradiction|]. destruct (String.eqb_spec (sym a) "H"); [contradiction|].
  destruct (String.eqb_spec (sym b) "C"); [contradiction|]. destruct (String.eqb_spec (sym b) "H"); [contradiction|].
  simpl. rewrite L. reflexivity.
Qed.
Corollary hill_isotopes_by_mass_number : forall sym a b, sym a = sym b -> (aa a < aa b)%Z -> hill_ltb sym a b = true.
Proof.
  intros sym a b Hs L. rewrite hill_order_meaning. unfold spec_ltb. rewrite Hs.
  rewrite Z.ltb_irrefl. rewrite str_ltb_irrefl. apply Z.ltb_lt in L. rewrite L. reflexivity.
Qed.
Corollary hill_ions_by_charge : forall sym a b, sym a = sym b -> aa a = aa b -> (aq a < aq b)%Z -> hill_ltb sym a b = true.
Proof.
  intros sym a b Hs Ha L. rewrite hill_order_meaning. unfold spec_ltb. rewrite Hs, Ha.
  rewrite !Z.ltb_irrefl. rewrite str_ltb_irrefl. apply Z.ltb_lt in L. rewrite L. reflexivity.
Qed.

(* ================================================================ 4. symbols determine the element *)
Definition eb_zs (eb : ebase) : list (Z * string) :=
  map (fun r => match r with (z, _, s, _, _) => (z, s) end) eb.

(* no element is called D or T, and two rows with one symbol have one atomic number *)
Definition sym_sweep (eb : ebase) : bool :=
  forallb (fun r1 =>
    negb (String.eqb (snd r1) "D") && negb (String.eqb (snd r1) "T") &&
    forallb (fun r2 => implb (String.eqb (snd r1) (snd r2)) (Z.eqb (fst r1) (fst r2))) (eb_zs eb))
  (eb_zs eb).

Lemma sym_sweep_ok : sym_sweep element_base = true.
Proof. vm_compute. reflexivity. Qed.

Lemma table_rows_nonempty : (length element_base > 100)%nat.
Proof. vm_compute. repeat constructor. Qed.

Lemma eb_symbol_in : forall eb z s, eb_symbol eb z = Some s -> In (z, s) (eb_zs eb).
Proof.
  intros eb z s. unfold eb_symbol.
  destruct (find (fun r => match r with (z', _, _, _, _) => Z.eqb z z' end) eb) as [r|] eqn:F; [|discriminate].
  apply find_some in F. destruct F as [Hin Hp]. destruct r as [[[[z' n] s'] l1] l2].
  intro H. inversion H; subst s'. apply Z.eqb_eq in Hp. subst z'.
  unfold eb_zs. apply in_map_iff. exists (z, n, s, l1, l2). split; [reflexivity|exact Hin].
Qed.

Lemma sweep_elim : forall eb, sym_sweep eb = true -> forall z1 s1 z2 s2,
  In (z1, s1) (eb_zs eb) -> In (z2, s2) (eb_zs eb) ->
  s1 <> "D"%string /\ s1 <> "T"%string /\ (s1 = s2 -> z1 = z2).
Proof.
  intros eb H z1 s1 z2 s2 H1 H2. unfold sym_sweep in H. rewrite forallb_forall in H.
  specialize (H _ H1). simpl in H. apply andb_prop in H. destruct H as [H Hf].
  apply andb_prop in H. destruct H as [HD HT].
  rewrite forallb_forall in Hf. specialize (Hf _ H2). simpl in Hf.
  apply negb_true_iff in HD, HT. apply String.eqb_neq in HD, HT.
  split; [exact HD|]. split; [exact HT|]. intro E. subst s2. rewrite String.eqb_refl in Hf. simpl in Hf.
  apply Z.eqb_eq. exact Hf.
Qed.

(* an atom of the table: its atomic number has a row *)
Definition table_atom (eb : ebase) (a : atom) : Prop := eb_symbol eb (az a) <> None.

Theorem symbols_unique_gen : forall eb, sym_sweep eb = true -> forall a b,
  table_atom eb a -> table_atom eb b ->
  sym_of eb a = sym_of eb b -> aa a = aa b -> aq a = aq b -> a = b.
Proof.
  intros eb Hs a b Ta Tb Hsym Haa Hqq.
  assert (Hz : az a = az b).
  { unfold table_atom in Ta, Tb.
    destruct (eb_symbol eb (az a)) as [sa|] eqn:Ea; [|contradiction (Ta eq_refl)].
    destruct (eb_symbol eb (az b)) as [sb|] eqn:Eb; [|contradiction (Tb eq_refl)].
    pose proof (eb_symbol_in _ _ _ Ea) as Ia. pose proof (eb_symbol_in _ _ _ Eb) as Ib.
    destruct (sweep_elim eb Hs _ _ _ _ Ia Ib) as [HaD [HaT Hab]].
    destruct (sweep_elim eb Hs _ _ _ _ Ib Ia) as [HbD [HbT _]].
    unfold sym_of in Hsym. rewrite Ea, Eb in Hsym. rewrite <- Haa in Hsym.
    destruct (Z.eqb_spec (az a) 1) as [A1|A1]; destruct (Z.eqb_spec (az b) 1) as [B1|B1]; simpl in Hsym.
    - congruence.
    - destruct (Z.eqb (aa a) 2); [symmetry in Hsym; contradiction|].
      destruct (Z.eqb (aa a) 3); [symmetry in Hsym; contradiction|]. apply Hab. exact Hsym.
    - destruct (Z.eqb (aa a) 2); [contradiction|].
      destruct (Z.eqb (aa a) 3); [contradiction|]. apply Hab. exact Hsym.
    - apply Hab. exact Hsym. }
  destruct a as [z1 a1 q1], b as [z2 a2 q2]. simpl in *. subst. reflexivity.
Qed.

(* for atoms of the table, equal (symbol, mass number, charge) means the same atom *)
Theorem symbols_unique : forall a b, table_atom element_base a -> table_atom element_base b ->
  sym_of element_base a = sym_of element_base b -> aa a = aa b -> aq a = aq b -> a = b.
Proof. apply symbols_unique_gen. exact sym_sweep_ok. Qed.

(* the documented order without the atomic number *)
Definition doc_ltb (sym : atom -> string) (a b : atom) : bool :=
  if Z.ltb (hill_rank (sym a)) (hill_rank (sym b)) then true
  else if Z.ltb (hill_rank (sym b)) (hill_rank (sym a)) then false
  else if str_ltb (sym a) (sym b) then true
  else if str_ltb (sym b) (sym a) then false
  else if Z.ltb (aa a) (aa b) then true
  else if Z.ltb (aa b) (aa a) then false
  else Z.ltb (aq a) (aq b).

Theorem hill_order_meaning_table : forall a b, table_atom element_base a -> table_atom element_base b ->
  hill_ltb (sym_of element_base) a b = doc_ltb (sym_of element_base) a b.
Proof.
  intros a b Ta Tb. rewrite hill_order_meaning. unfold spec_ltb, doc_ltb.
  destruct (Z.ltb (hill_rank (sym_of element_base a)) (hill_rank (sym_of element_base b))); [reflexivity|].
  destruct (Z.ltb (hill_rank (sym_of element_base b)) (hill_rank (sym_of element_base a))); [reflexivity|].
  destruct (str_ltb (sym_of element_base a) (sym_of element_base b)) eqn:S1; [reflexivity|].
  destruct (str_ltb (sym_of element_base b) (sym_of element_base a)) eqn:S2; [reflexivity|].
  destruct (Z.ltb (aa a) (aa b)) eqn:A1; [reflexivity|].
  destruct (Z.ltb (aa b) (aa a)) eqn:A2; [reflexivity|].
  destruct (Z.ltb (aq a) (aq b)) eqn:Q1; [reflexivity|].
  destruct (Z.ltb (aq b) (aq a)) eqn:Q2; [reflexivity|].
  assert (a = b).
  { apply symbols_unique; try assumption.
    - apply str_ltb_total; assumption.
    - apply Zltb_total; assumption.
    - apply Zltb_total; assumption. }
  subst b. apply Z.ltb_irrefl.
Qed.

Definition is_some' {A} (o : option A) : bool := match o with Some _ => true | None => false end.
Lemma the_dens_some : is_some' the_dens = true.
Proof. vm_compute. reflexivity. Qed.

(* the symbols the environment of the correspondence check uses are those of element_base *)
Lemma the_env_sym : e_sym the_env = sym_of element_base.
Proof.
  destruct the_tbl_loaded as [t Ht]. pose proof the_dens_some as Hd.
  unfold the_env. rewrite Ht. destruct the_dens; [reflexivity|discriminate Hd].
Qed.

(* ================================================================ 5. sorting (atom, count) pairs *)
Definition pkey (E : aenv) (p : atom * Q) : hill_K := hill_tuple (e_sym E) (fst p).
Definition pltb (E : aenv) (p q : atom * Q) : bool := hill_ltb (e_sym E) (fst p) (fst q).
Definition ple (E : aenv) (p q : atom * Q) : Prop := pltb E q p = false.
Definition hsort (E : aenv) (d : dict) : dict := sort_lt (pltb E) d.

Definition hill_item (p : atom * Q) : Q * frag := (Qred (snd p), FAtom (fst p)).

Lemma hill_struct_eq : forall E d, hill_struct E d = map hill_item (hsort E d).
Proof. reflexivity. Qed.

Lemma hsort_perm : forall E d, Permutation (hsort E d) d.
Proof. intros E d. exact (sort_perm _ _ (pkey E) hill_ltK d). Qed.

Lemma hsort_sorted : forall E d, LocallySorted (ple E) (hsort E d).
Proof. intros E d. exact (sort_sorted _ _ (pkey E) hill_ltK hill_ltK_asym d). Qed.

Lemma hsort_id : forall E l, LocallySorted (ple E) l -> hsort E l = l.
Proof. intros E l. exact (sort_sorted_id _ _ (pkey E) hill_ltK hill_ltK_trans hill_ltK_total l). Qed.

Lemma hsort_canonical : forall E l m, NoDup (map (pkey E) l) -> Permutation l m -> hsort E l = hsort E m.
Proof.
  intros E l m. exact (sort_canonical _ _ (pkey E) hill_ltK hill_ltK_asym hill_ltK_trans hill_ltK_total l m).
Qed.

Lemma nodup_pkey : forall E l, NoDup (keys l) -> NoDup (map (pkey E) l).
Proof.
  intros E l. unfold keys. induction l as [|p r IH]; simpl; intro H; [constructor|].
  inversion H as [|? ? Hn Hr]; subst. constructor; [|apply IH; exact Hr].
  intro Hin. apply Hn. apply in_map_iff in Hin. destruct Hin as [q [Hk Hq]].
  apply hill_tuple_inj in Hk. rewrite <- Hk. apply in_map. exact Hq.
Qed.

(* sorting commutes with a map that leaves the order alone *)
Section SortMap.
  Variable A : Type.
  Variable lt : A -> A -> bool.
  Variable f : A -> A.
  Hypothesis Hf : forall x y, lt (f x) (f y) = lt x y.
  Lemma insert_map : forall x l, insert_lt lt (f x) (map f l) = map f (insert_lt lt x l).
  Proof.
    intros x l. induction l as [|y r IH]; simpl; [reflexivity|].
    rewrite Hf. destruct (lt y x); [rewrite IH|]; reflexivity.
  Qed.
  Lemma sort_map : forall l, sort_lt lt (map f l) = map f (sort_lt lt l).
  Proof.
    unfold sort_lt. induction l as [|x r IH]; simpl; [reflexivity|]. rewrite IH. apply insert_map.
  Qed.
End SortMap.

Lemma hsort_map : forall E (f : atom * Q -> atom * Q), (forall p, fst (f p) = fst p) ->
  forall l, hsort E (map f l) = map f (hsort E l).
Proof.
  intros E f Hf l. unfold hsort. apply sort_map. intros x y. unfold pltb. rewrite !Hf. reflexivity.
Qed.

Lemma sorted_map : forall (A B : Type) (f : A -> B) (R : B -> B -> Prop) l,
  LocallySorted R (map f l) <-> LocallySorted (fun x y => R (f x) (f y)) l.
Proof.
  intros A B f R. induction l as [|x r IH]; simpl.
  - split; constructor.
  - destruct r as [|y r'].
    + simpl. split; constructor.
    + simpl in *. split; intro H; inversion H; subst; constructor; try assumption; apply IH; assumption.
Qed.

(* ================================================================ 6. same atom counts *)
Lemma cnt_map_item : forall b l, cnt b (FGroup (map hill_item l)) == dsum l b.
Proof.
  intros b l. induction l as [|[a w] r IH]; simpl map.
  - reflexivity.
  - unfold hill_item at 1. simpl fst. simpl snd. rewrite cnt_group_cons. rewrite IH.
    simpl. rewrite Qred_correct. destruct (atom_eqb b a); ring.
Qed.

Lemma dsum_perm : forall l m b, Permutation l m -> dsum l b == dsum m b.
Proof.
  intros l m b H. induction H as [|[a w] l m H IH|[a w] [a' w'] l|l m n H1 IH1 H2 IH2]; simpl.
  - reflexivity.
  - rewrite IH. reflexivity.
  - ring.
  - rewrite IH1. exact IH2.
Qed.

(* the Hill structure of ANY dictionary holds, for every atom, the dictionary's total *)
Theorem hill_atoms : forall E d b, cnt b (FGroup (hill_struct E d)) == dsum d b.
Proof.
  intros E d b. rewrite hill_struct_eq. rewrite cnt_map_item. apply dsum_perm. apply hsort_perm.
Qed.

(* the Hill form of a structure has exactly the atom counts of the structure *)
Theorem hill_same_counts : forall E s b, cnt_s b (hill_struct E (count_atoms s)) == cnt_s b s.
Proof.
  intros E s b. unfold cnt_s. rewrite hill_atoms. unfold count_atoms. apply dsum_count_frag.
Qed.

Theorem f_hill_same_counts : forall E f b, cnt_s b (f_struct (f_hill E f)) == cnt_s b (f_struct f).
Proof. intros E f b. unfold f_hill, f_atoms. cbn [f_struct]. apply hill_same_counts. Qed.

(* ================================================================ 7. the Hill structure is flat and sorted *)
Definition top_atoms (s : struct) : list atom :=
  flat_map (fun p => match snd p with FAtom a => [a] | FGroup _ => [] end) s.
Definition is_flat (s : struct) : bool :=
  forallb (fun p => match snd p with FAtom _ => true | FGroup _ => false end) s.

Lemma top_atoms_items : forall l, top_atoms (map hill_item l) = keys l.
Proof. unfold top_atoms, keys. induction l as [|p r IH]; simpl; [reflexivity|]. rewrite IH. reflexivity. Qed.

Theorem hill_flat : forall E d, is_flat (hill_struct E d) = true.
Proof.
  intros E d. rewrite hill_struct_eq. induction (hsort E d) as [|p r IH]; simpl; [reflexivity|exact IH].
Qed.

Theorem hill_atoms_perm : forall E d, Permutation (top_atoms (hill_struct E d)) (keys d).
Proof.
  intros E d. rewrite hill_struct_eq, top_atoms_items. unfold keys. apply Permutation_map. apply hsort_perm.
Qed.

Theorem hill_length : forall E d, length (hill_struct E d) = length d.
Proof.
  intros E d. rewrite hill_struct_eq, map_length. apply Permutation_length. apply hsort_perm.
Qed.

(* no atom of the Hill structure is followed by a smaller one *)
Theorem hill_sorted : forall E d,
  LocallySorted (fun a b => hill_ltb (e_sym E) b a = false) (top_atoms (hill_struct E d)).
Proof.
  intros E d. rewrite hill_struct_eq, top_atoms_items. unfold keys. apply sorted_map. apply hsort_sorted.
Qed.

(* with distinct keys (every .atoms dictionary): strictly increasing *)
Lemma sorted_strict : forall sym l, NoDup l -> LocallySorted (fun a b => hill_ltb sym b a = false) l ->
  LocallySorted (fun a b => hill_ltb sym a b = true) l.
Proof.
  intros sym l Hnd H. induction H as [|x|x y r Hs IH Hxy]; [constructor|constructor|].
  inversion Hnd as [|? ? Hn Hr]; subst. constructor; [apply IH; exact Hr|].
  destruct (hill_ltb sym x y) eqn:E; [reflexivity|]. exfalso. apply Hn. left.
  symmetry. apply (hill_ltb_total sym); assumption.
Qed.

Theorem hill_sorted_strict : forall E d, NoDup (keys d) ->
  LocallySorted (fun a b => hill_ltb (e_sym E) a b = true) (top_atoms (hill_struct E d)).
Proof.
  intros E d Hnd. apply sorted_strict; [|apply hill_sorted].
  apply (Permutation_NoDup (Permutation_sym (hill_atoms_perm E d))). exact Hnd.
Qed.

(* ================================================================ 8. canonical *)
Definition norm (p : atom * Q) : atom * Q := (fst p, Qred (snd p)).

Lemma Qred_idem : forall q, Qred (Qred q) = Qred q.
Proof. intro q. apply Qred_complete. apply Qred_correct. Qed.

Lemma hill_item_norm : forall p, hill_item (norm p) = hill_item p.
Proof. intros [a w]. unfold hill_item, norm. cbn [fst snd]. rewrite Qred_idem. reflexivity. Qed.

Lemma hill_struct_norm : forall E d, hill_struct E d = map hill_item (hsort E (map norm d)).
Proof.
  intros E d. rewrite hill_struct_eq. rewrite hsort_map by reflexivity. rewrite map_map.
  apply map_ext. intro p. symmetry. apply hill_item_norm.
Qed.

Lemma dget_in : forall d a w, NoDup (keys d) -> In (a, w) d -> dget d a = Some w.
Proof.
  induction d as [|[b v] r IH]; intros a w Hnd Hin; [destruct Hin|].
  simpl in Hnd. inversion Hnd as [|? ? Hn Hr]; subst. simpl. destruct Hin as [Hin|Hin].
  - inversion Hin; subst. rewrite atom_eqb_refl. reflexivity.
  - destruct (atom_eqb a b) eqn:E.
    + apply atom_eqb_eq in E. subst b. exfalso. apply Hn. change a with (fst (a, w)). apply in_map. exact Hin.
    + apply IH; assumption.
Qed.

Lemma in_norm_char : forall d a q, NoDup (keys d) ->
  (In (a, q) (map norm d) <-> In a (keys d) /\ q = Qred (dget0 d a)).
Proof.
  intros d a q Hnd. split.
  - intro H. apply in_map_iff in H. destruct H as [[a' w] [Hn Hin]]. unfold norm in Hn. simpl in Hn.
    inversion Hn; subst. split.
    + change a with (fst (a, w)). apply in_map. exact Hin.
    + unfold dget0. rewrite (dget_in d a w Hnd Hin). reflexivity.
  - intros [Hk Hq]. unfold keys in Hk. apply in_map_iff in Hk. destruct Hk as [[a' w] [Ha Hin]]. simpl in Ha. subst a'.
    unfold dget0 in Hq. rewrite (dget_in d a w Hnd Hin) in Hq. subst q.
    change (a, Qred w) with (norm (a, w)). apply in_map. exact Hin.
Qed.

Lemma nodup_norm : forall d, NoDup (keys d) -> NoDup (map norm d).
Proof.
  intros d H. apply (NoDup_map_inv fst). rewrite map_map. simpl. exact H.
Qed.

(* two dictionaries with distinct keys, the same key set and equal values (as rationals) have
   the same Hill structure, whatever their insertion orders *)
Theorem hill_canonical : forall E d1 d2, NoDup (keys d1) -> NoDup (keys d2) ->
  (forall a, In a (keys d1) <-> In a (keys d2)) ->
  (forall a, dget0 d1 a == dget0 d2 a) ->
  hill_struct E d1 = hill_struct E d2.
Proof.
  intros E d1 d2 N1 N2 Hk Hv. rewrite (hill_struct_norm E d1), (hill_struct_norm E d2). f_equal.
  apply hsort_canonical.
  - apply nodup_pkey. unfold keys. rewrite map_map. simpl. exact N1.
  - apply NoDup_Permutation; [apply nodup_norm; exact N1|apply nodup_norm; exact N2|].
    intros [a q]. rewrite (in_norm_char d1 a q N1), (in_norm_char d2 a q N2).
    rewrite (Hk a). rewrite (Qred_complete _ _ (Hv a)). reflexivity.
Qed.

(* equality of formulas is reflexive *)
Lemma frag_eqb_group_cons : forall c f r c' f' r',
  frag_eqb (FGroup ((c, f) :: r)) (FGroup ((c', f') :: r')) =
  (Qeq_bool c c' && frag_eqb f f' && frag_eqb (FGroup r) (FGroup r'))%bool.
Proof. reflexivity. Qed.

Lemma Qeq_bool_refl : forall q, Qeq_bool q q = true.
Proof. intro q. apply Qeq_bool_iff. reflexivity. Qed.

Lemma frag_eqb_refl : forall f, frag_eqb f f = true.
Proof.
  intro f. induction f as [a|l IH] using frag_ind'.
  - simpl. apply atom_eqb_refl.
  - induction l as [|[c f'] r IHr]; [reflexivity|].
    rewrite frag_eqb_group_cons. inversion IH as [|? ? H1 H2]; subst. simpl in H1.
    rewrite Qeq_bool_refl, H1, (IHr H2). reflexivity.
Qed.

Lemma formula_eqb_refl : forall f, formula_eqb f f = true.
Proof.
  intro f. unfold formula_eqb, struct_eqb. rewrite frag_eqb_refl. destruct (f_kind f); reflexivity.
Qed.

(* formulas with equal .atoms dictionaries (same key set, equal counts; Python's dict ==)
   have identical Hill forms, hence == holds *)
Theorem f_hill_canonical_eq : forall E f g,
  (forall a, In a (keys (f_atoms f)) <-> In a (keys (f_atoms g))) ->
  (forall a, cnt_s a (f_struct f) == cnt_s a (f_struct g)) ->
  f_hill E f = f_hill E g.
Proof.
  intros E f g Hk Hc. unfold f_hill.
  assert (Hs : hill_struct E (f_atoms f) = hill_struct E (f_atoms g)).
  { apply hill_canonical; try exact Hk; try (unfold f_atoms, count_atoms; apply nodup_count_frag).
    intro a. unfold f_atoms. rewrite !count_atoms_spec. apply Hc. }
  rewrite Hs. reflexivity.
Qed.

Theorem f_hill_canonical : forall E f g,
  (forall a, In a (keys (f_atoms f)) <-> In a (keys (f_atoms g))) ->
  (forall a, cnt_s a (f_struct f) == cnt_s a (f_struct g)) ->
  formula_eqb (f_hill E f) (f_hill E g) = true.
Proof. intros E f g Hk Hc. rewrite (f_hill_canonical_eq E f g Hk Hc). apply formula_eqb_refl. Qed.

(* ---- every order and grouping of the same atoms: reordering the items of a structure, and
   writing a group c*(g) out as its items with their counts multiplied by c, satisfy the
   hypotheses of the canonical theorem *)
Lemma keys_fold_scaled : forall part total c x,
  In x (keys (fold_left (add_scaled c) part total)) <-> In x (keys total) \/ In x (keys part).
Proof.
  induction part as [|[a w] r IH]; intros total c x; simpl fold_left.
  - simpl. intuition.
  - rewrite IH. unfold add_scaled at 1. simpl fst. simpl snd. rewrite keys_dict_add_in. simpl. intuition.
Qed.

Lemma keys_count_go : forall l total x,
  In x (keys (count_go l total)) <->
  In x (keys total) \/ exists p, In p l /\ In x (keys (count_frag (snd p))).
Proof.
  induction l as [|[c f] r IH]; intros total x.
  - simpl. split; [intro H; left; exact H|]. intros [H|[p [[] _]]]. exact H.
  - rewrite count_go_cons, IH, keys_fold_scaled. split.
    + intros [[H|H]|[p [Hp Hx]]].
      * left. exact H.
      * right. exists (c, f). split; [left; reflexivity|exact H].
      * right. exists p. split; [right; exact Hp|exact Hx].
    + intros [H|[p [[Hp|Hp] Hx]]].
      * left. left. exact H.
      * subst p. left. right. exact Hx.
      * right. exists p. split; assumption.
Qed.

Lemma keys_count_atoms : forall s x,
  In x (keys (count_atoms s)) <-> exists p, In p s /\ In x (keys (count_frag (snd p))).
Proof.
  intros s x. unfold count_atoms. rewrite count_frag_group, keys_count_go. simpl. intuition.
Qed.

Lemma cnt_perm : forall a s t, Permutation s t -> cnt a (FGroup s) == cnt a (FGroup t).
Proof.
  intros a s t H. induction H as [|[c f] l m H IH|[c f] [c' f'] l|l m n H1 IH1 H2 IH2].
  - reflexivity.
  - rewrite !cnt_group_cons, IH. reflexivity.
  - rewrite !cnt_group_cons. ring.
  - rewrite IH1. exact IH2.
Qed.

Theorem hill_reorder : forall E s t, Permutation s t ->
  hill_struct E (count_atoms s) = hill_struct E (count_atoms t).
Proof.
  intros E s t H. apply hill_canonical; try (unfold count_atoms; apply nodup_count_frag).
  - intro a. rewrite !keys_count_atoms. split; intros [p [Hp Hx]]; exists p; split; try exact Hx.
    + exact (Permutation_in _ H Hp).
    + exact (Permutation_in _ (Permutation_sym H) Hp).
  - intro a. rewrite !count_atoms_spec. unfold cnt_s. apply cnt_perm. exact H.
Qed.

Definition scale_items (c : Q) (g : struct) : struct := map (fun p => (c * fst p, snd p)) g.

Lemma cnt_scale_items : forall a c g, cnt a (FGroup (scale_items c g)) == c * cnt a (FGroup g).
Proof.
  intros a c g. induction g as [|[c' f] r IH]; simpl scale_items.
  - rewrite !cnt_group_nil. ring.
  - simpl fst. simpl snd. rewrite !cnt_group_cons. unfold scale_items in IH. rewrite IH. ring.
Qed.

Theorem hill_regroup : forall E c g r,
  hill_struct E (count_atoms ((c, FGroup g) :: r)) = hill_struct E (count_atoms (scale_items c g ++ r)%list).
Proof.
  intros E c g r. apply hill_canonical; try (unfold count_atoms; apply nodup_count_frag).
  - intro a. rewrite !keys_count_atoms. split.
    + intros [p [[Hp|Hp] Hx]].
      * subst p. simpl snd in Hx. change (count_frag (FGroup g)) with (count_atoms g) in Hx.
        rewrite keys_count_atoms in Hx. destruct Hx as [q [Hq Hx]].
        exists (c * fst q, snd q). split; [|exact Hx]. apply in_or_app. left.
        unfold scale_items. apply in_map_iff. exists q. split; [reflexivity|exact Hq].
      * exists p. split; [apply in_or_app; right; exact Hp|exact Hx].
    + intros [p [Hp Hx]]. apply in_app_or in Hp. destruct Hp as [Hp|Hp].
      * unfold scale_items in Hp. apply in_map_iff in Hp. destruct Hp as [q [Hq Hin]]. subst p. simpl snd in Hx.
        exists (c, FGroup g). split; [left; reflexivity|]. simpl snd.
        change (count_frag (FGroup g)) with (count_atoms g). rewrite keys_count_atoms. exists q. split; assumption.
      * exists p. split; [right; exact Hp|exact Hx].
  - intro a. rewrite !count_atoms_spec. unfold cnt_s. rewrite cnt_group_cons, cnt_app, cnt_scale_items. reflexivity.
Qed.

(* ================================================================ 9. _count_atoms of a flat structure *)
Definition flat_item (p : atom * Q) : Q * frag := (snd p, FAtom (fst p)).
Definition cnt_item (p : atom * Q) : atom * Q := (fst p, 0 + 1 * snd p).

Lemma dict_add_fresh : forall d a v, ~ In a (keys d) -> dict_add d a v = (d ++ [(a, 0 + v)])%list.
Proof.
  induction d as [|[b w] r IH]; intros a v H; simpl; [reflexivity|].
  destruct (atom_eqb a b) eqn:E.
  - apply atom_eqb_eq in E. subst b. exfalso. apply H. left. reflexivity.
  - rewrite IH; [reflexivity|]. intro Hin. apply H. right. exact Hin.
Qed.

Lemma count_go_flat : forall l total, NoDup (keys total ++ map fst l)%list ->
  count_go (map flat_item l) total = (total ++ map cnt_item l)%list.
Proof.
  induction l as [|[a c] r IH]; intros total H; simpl map.
  - simpl. rewrite app_nil_r. reflexivity.
  - unfold flat_item at 1. simpl fst. simpl snd. rewrite count_go_cons. simpl count_frag. simpl fold_left.
    unfold add_scaled. simpl fst. simpl snd. rewrite dict_add_fresh.
    + rewrite IH.
      * rewrite <- app_assoc. reflexivity.
      * unfold keys. rewrite map_app. simpl. rewrite <- app_assoc. simpl. exact H.
    + apply NoDup_remove_2 in H. intro Hin. apply H. apply in_or_app. left. exact Hin.
Qed.

(* the atoms dictionary of a flat structure with distinct atoms is that list, in order, each
   count stored as 0 + 1 * c (what total[el] += elcount*count computes from the default 0) *)
Theorem count_atoms_flat : forall l, NoDup (map fst l) -> count_atoms (map flat_item l) = map cnt_item l.
Proof.
  intros l H. unfold count_atoms. rewrite count_frag_group. rewrite count_go_flat; [reflexivity|exact H].
Qed.

Lemma hill_item_cnt : forall p, hill_item (cnt_item p) = hill_item p.
Proof.
  intros [a w]. unfold hill_item, cnt_item. cbn [fst snd]. f_equal. apply Qred_complete. ring.
Qed.

(* a flat structure whose distinct atoms are already in Hill order is its own Hill structure
   (up to the representation of the counts) *)
Theorem own_hill_flat : forall E l, NoDup (map fst l) -> LocallySorted (ple E) l ->
  hill_struct E (count_atoms (map flat_item l)) = map hill_item l.
Proof.
  intros E l Hnd Hs. rewrite count_atoms_flat by exact Hnd. rewrite hill_struct_eq.
  rewrite hsort_map by reflexivity. rewrite (hsort_id E l Hs). rewrite map_map.
  apply map_ext. apply hill_item_cnt.
Qed.

(* ================================================================ 10. idempotent *)
Lemma hill_struct_flat : forall E d, hill_struct E d = map flat_item (map norm (hsort E d)).
Proof. intros E d. rewrite hill_struct_eq, map_map. reflexivity. Qed.

Theorem hill_idempotent : forall E d, NoDup (keys d) ->
  hill_struct E (count_atoms (hill_struct E d)) = hill_struct E d.
Proof.
  intros E d Hnd. rewrite (hill_struct_flat E d) at 1. rewrite own_hill_flat.
  - rewrite map_map. rewrite hill_struct_eq. apply map_ext. apply hill_item_norm.
  - rewrite map_map. simpl. apply (Permutation_NoDup (Permutation_sym (Permutation_map fst (hsort_perm E d)))).
    exact Hnd.
  - apply (proj2 (sorted_map _ _ norm (ple E) (hsort E d))). apply hsort_sorted.
Qed.

Lemma f_hill_unfold : forall E f, f_hill E f =
  mkF (hill_struct E (count_atoms (f_struct f))) KTuple
      (init_density E (hill_struct E (count_atoms (f_struct f))) None None) None.
Proof. reflexivity. Qed.

Theorem f_hill_idempotent_eq : forall E f, f_hill E (f_hill E f) = f_hill E f.
Proof.
  intros E f. rewrite (f_hill_unfold E (f_hill E f)). rewrite (f_hill_unfold E f). cbn [f_struct].
  rewrite hill_idempotent by apply nodup_count_frag. reflexivity.
Qed.

Theorem f_hill_idempotent : forall E f, formula_eqb (f_hill E (f_hill E f)) (f_hill E f) = true.
Proof. intros E f. rewrite f_hill_idempotent_eq. apply formula_eqb_refl. Qed.

(* ================================================================ 11. ordered formulas are their own Hill form *)
Lemma struct_eqb_flat_hill : forall l, struct_eqb (map flat_item l) (map hill_item l) = true.
Proof.
  unfold struct_eqb. induction l as [|[a c] r IH]; [reflexivity|].
  simpl map. unfold flat_item at 1, hill_item at 1. simpl fst. simpl snd.
  rewrite frag_eqb_group_cons, IH. simpl frag_eqb. rewrite atom_eqb_refl.
  assert (H : Qeq_bool c (Qred c) = true) by (apply Qeq_bool_iff; symmetry; apply Qred_correct).
  rewrite H. reflexivity.
Qed.

(* f.structure = ((c1, a1), ..., (cn, an)) as a tuple, the ai distinct and none followed by a
   smaller one in Hill order: f == f.hill *)
Theorem ordered_is_own_hill : forall E f l,
  f_struct f = map flat_item l -> f_kind f = KTuple ->
  NoDup (map fst l) -> LocallySorted (fun a b => hill_ltb (e_sym E) b a = false) (map fst l) ->
  formula_eqb f (f_hill E f) = true.
Proof.
  intros E f l Hst Hk Hnd Hs. unfold formula_eqb, f_hill, f_atoms. cbn [f_kind f_struct].
  rewrite Hk, Hst. rewrite own_hill_flat; [|exact Hnd|].
  - rewrite struct_eqb_flat_hill. reflexivity.
  - apply (proj1 (sorted_map _ _ fst (fun a b => hill_ltb (e_sym E) b a = false) l)). exact Hs.
Qed.

Lemma strict_nodup : forall sym l, LocallySorted (fun a b => hill_ltb sym a b = true) l ->
  NoDup l /\ LocallySorted (fun a b => hill_ltb sym b a = false) l.
Proof.
  intros sym l H. split.
  - apply Sorted_LocallySorted_iff in H. apply Sorted_StronglySorted in H.
    + induction H as [|a r Hs IH Hf]; constructor; [|exact IH].
      intro Hin. rewrite Forall_forall in Hf. specialize (Hf a Hin). rewrite hill_ltb_irrefl in Hf. discriminate.
    + intros x y z. apply hill_ltb_trans.
  - induction H as [|x|x y r Hs IH Hxy]; constructor; [exact IH|]. apply hill_ltb_asym. exact Hxy.
Qed.

(* the same with the atoms strictly increasing *)
Theorem ordered_is_own_hill_strict : forall E f l,
  f_struct f = map flat_item l -> f_kind f = KTuple ->
  LocallySorted (fun a b => hill_ltb (e_sym E) a b = true) (map fst l) ->
  formula_eqb f (f_hill E f) = true.
Proof.
  intros E f l Hst Hk Hs. destruct (strict_nodup _ _ Hs) as [Hnd Hle].
  exact (ordered_is_own_hill E f l Hst Hk Hnd Hle).
Qed.

(* a list-typed structure is never equal to its (tuple-typed) Hill form: why the repair of
   _convert_to_hill_notation matters *)
Theorem list_kind_never_own_hill : forall E f, f_kind f = KList -> formula_eqb f (f_hill E f) = false.
Proof. intros E f H. unfold formula_eqb, f_hill. cbn [f_kind]. rewrite H. reflexivity. Qed.

(* ================================================================ 12. concrete instances *)
Definition E0 : aenv := mkEnv (fun _ => 0) (fun _ => 0) (fun _ => None) (sym_of element_base).
Definition aC := mkAtom 6 0 0.   Definition aH := mkAtom 1 0 0.
Definition aD := mkAtom 1 2 0.   Definition aT := mkAtom 1 3 0.
Definition aO := mkAtom 8 0 0.   Definition aO18 := mkAtom 8 18 0.
Definition aFe2 := mkAtom 26 0 2. Definition aFe3 := mkAtom 26 0 3.
Definition aCl := mkAtom 17 0 0. Definition aCa := mkAtom 20 0 0.
Definition aDp := mkAtom 1 2 1.  Definition aFe56_2 := mkAtom 26 56 2.
Definition fT (s : struct) : fobj := mkF s KTuple None None.

Example ex_syms : map (sym_of element_base) [aC; aH; aD; aT; aFe2; aO18; aDp] =
  ["C"; "H"; "D"; "T"; "Fe"; "O"; "D"]%string.
Proof. vm_compute. reflexivity. Qed.

(* H4C -> CH4 *)
Example ex_ch4 : hill_struct E0 (count_atoms [(4, FAtom aH); (1, FAtom aC)]) = [(1, FAtom aC); (4, FAtom aH)].
Proof. vm_compute. reflexivity. Qed.

(* C before H before Ca, Cl, D, Fe, O, T; O before O[18]; Fe{2+} before Fe{3+}, in both input orders *)
Example ex_order : top_atoms (hill_struct E0 [(aT,1); (aO18,1); (aFe3,1); (aCl,1); (aH,1); (aO,1); (aFe56_2, 1); (aFe2,1); (aD,1); (aCa,1); (aC,1); (aDp, 1)])
  = [aC; aH; aCa; aCl; aD; aDp; aFe2; aFe3; aFe56_2; aO; aO18; aT].
Proof. vm_compute. reflexivity. Qed.

Example ex_fe_both_orders :
  hill_struct E0 [(aFe3, 1); (aFe2, 2)] = [(2, FAtom aFe2); (1, FAtom aFe3)] /\
  hill_struct E0 [(aFe2, 2); (aFe3, 1)] = [(2, FAtom aFe2); (1, FAtom aFe3)].
Proof. split; vm_compute; reflexivity. Qed.

(* grouping and order do not matter: (OH)2 Ca  vs  Ca O2 H2 *)
Example ex_canonical :
  formula_eqb (f_hill E0 (fT [(2, FGroup [(1, FAtom aO); (1, FAtom aH)]); (1, FAtom aCa)]))
              (f_hill E0 (fT [(1, FAtom aCa); (2, FAtom aO); (2, FAtom aH)])) = true.
Proof. vm_compute. reflexivity. Qed.

Example ex_own_hill : formula_eqb (fT [(1, FAtom aC); (4, FAtom aH)]) (f_hill E0 (fT [(1, FAtom aC); (4, FAtom aH)])) = true.
Proof. vm_compute. reflexivity. Qed.

Example ex_not_own_hill : formula_eqb (fT [(4, FAtom aH); (1, FAtom aC)]) (f_hill E0 (fT [(4, FAtom aH); (1, FAtom aC)])) = false.
Proof. vm_compute. reflexivity. Qed.

(* the hypotheses of ordered_is_own_hill_strict are satisfiable *)
Example ex_strict : LocallySorted (fun a b => hill_ltb (e_sym E0) a b = true) [aC; aH; aD; aFe2; aFe3; aT].
Proof. repeat constructor. Qed.

(* ties on (symbol, mass number) are decided by the charge *)
Example ex_charge_decides : hill_ltb (sym_of element_base) aFe2 aFe3 = true /\ hill_ltb (sym_of element_base) aFe3 aFe2 = false.
Proof. split; vm_compute; reflexivity. Qed.
