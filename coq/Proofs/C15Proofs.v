(* Proofs/C15Proofs.v — theorems about the real-number instance of the model of decay_time /
   find_root (Model/DecayTime.v). *)
From Coq Require Import Reals ZArith QArith Qreals List Bool Lra Lia.
From Coquelicot Require Import Coquelicot.
From Interval Require Import Tactic.
From PT Require Import Dec Py IExpr ActEval DecayTime.
Import ListNotations.
Open Scope R_scope.

(* ------------------------------------------------------------------ what f and df compute *)
Fixpoint sumR (data : list (R * R)) (To t : R) : R :=
  match data with
  | [] => 0
  | (Ia, La) :: r => Ia * exp (- (La * (t - To))) + sumR r To t
  end.
Definition fR (data : list (R * R)) (To target t : R) : R := sumR data To t - target.
Fixpoint dfR (data : list (R * R)) (To t : R) : R :=
  match data with
  | [] => 0
  | (Ia, La) :: r => La * Ia * (To - 1) * exp (- (La * (t - To))) + dfR r To t
  end.
(* the derivative of f *)
Fixpoint derR (data : list (R * R)) (To t : R) : R :=
  match data with
  | [] => 0
  | (Ia, La) :: r => - (La * Ia * exp (- (La * (t - To)))) + derR r To t
  end.

Lemma fR_is_derive : forall data To target t, is_derive (fR data To target) t (derR data To t).
Proof.
  intros data To target t. unfold fR.
  assert (H : is_derive (sumR data To) t (derR data To t)).
  { induction data as [|[Ia La] r IH]; simpl.
    - apply (is_derive_const (V := R_NormedModule)).
    - apply (is_derive_plus (V := R_NormedModule)); [|exact IH].
      auto_derive; [trivial|]. unfold Rminus. ring. }
  replace (derR data To t) with (derR data To t - 0) by ring.
  apply (is_derive_minus (V := R_NormedModule)); [exact H|]. apply (is_derive_const (V := R_NormedModule)).
Qed.

(* the code's df is (1 - To) times the derivative *)
Lemma dfR_factor : forall data To t, dfR data To t = (1 - To) * derR data To t.
Proof. induction data as [|[Ia La] r IH]; intros; simpl; [ring|]. rewrite IH. ring. Qed.

Theorem df_is_derivative_partial : forall data target t,
  is_derive (fR data 0 target) t (dfR data 0 t).
Proof. intros. rewrite dfR_factor. replace ((1 - 0) * derR data 0 t) with (derR data 0 t) by ring. apply fR_is_derive. Qed.

(* REFUTED at full strength: with the smallest rest time 1 h, df is 0 while f decreases *)
Theorem df_is_derivative_refuted :
  exists data To target t, ~ is_derive (fR data To target) t (dfR data To t).
Proof.
  exists [(1, 1)], 1, 0, 1. intro H.
  pose proof (fR_is_derive [(1, 1)] 1 0 1) as H'.
  pose proof (is_derive_unique _ _ _ H) as E. rewrite (is_derive_unique _ _ _ H') in E.
  simpl in E. replace (1 - 1) with 0 in E by ring. rewrite Rmult_0_r, Ropp_0, exp_0 in E. lra.
Qed.

(* ------------------------------------------------------------------ the model computes them *)
Lemma lt_numR : forall a b, nlt R numR a b = Some (if Rlt_dec a b then true else false).
Proof. reflexivity. Qed.

Lemma sexp_R : forall x v, sexp R numR x = Ok v -> v = exp x.
Proof.
  intros x v. unfold sexp, lt, dec. try rewrite lt_numR; cbn [nlt numR]. destruct (Rlt_dec _ _); [discriminate|].
  intro H. injection H as <-. reflexivity.
Qed.

Lemma fsum_R : forall data To t acc s, fsum R numR data To t acc = Ok s -> s = acc + sumR data To t.
Proof.
  induction data as [|[Ia La] r IH]; intros To t acc s H; simpl in *.
  - injection H as <-. ring.
  - destruct (sexp R numR _) as [e| |] eqn:E; simpl in H; try discriminate.
    apply sexp_R in E. subst e. apply IH in H. rewrite H. simpl. ring.
Qed.

Lemma f_R : forall data To target t v, f R numR data To target t = Ok v -> v = fR data To target t.
Proof.
  intros data To target t v H. unfold f in H.
  destruct (fsum R numR data To t _) as [s| |] eqn:E; simpl in H; try discriminate.
  injection H as <-. apply fsum_R in E. subst s. unfold fR, q. simpl.
  replace (Q2R 0) with 0 by (unfold Q2R; simpl; field). ring.
Qed.

Lemma find_root_loop_R : forall dff data To target fuel x fx t ft,
  fx = fR data To target x ->
  find_root_loop R numR dff data To target fuel x fx = Ok (t, ft) -> ft = fR data To target t.
Proof.
  intros dff data To target fuel. induction fuel as [|k IH]; intros x fx t ft Hfx H; simpl in H.
  - injection H as <- <-. exact Hfx.
  - destruct (f R numR data To target x) as [fx'| |] eqn:E1; simpl in H; try discriminate.
    unfold dec, lt in H. try rewrite lt_numR in H; cbn [nlt numR] in H.
    destruct (Rlt_dec _ _).
    + injection H as <- <-. exact Hfx.
    + destruct (df R numR dff data To x) as [d| |]; simpl in H; try discriminate.
      destruct (sdiv R numR fx d) as [s| |]; simpl in H; try discriminate.
      destruct (f R numR data To target (x - s)) as [fx2| |] eqn:E2; simpl in H; try discriminate.
      apply (IH _ _ _ _ (f_R _ _ _ _ _ E2) H).
Qed.

Lemma find_root_R : forall dff data To target x t ft,
  find_root R numR dff data To target x = Ok (t, ft) -> ft = fR data To target t.
Proof.
  intros dff data To target x t ft H. unfold find_root in H.
  destruct (f R numR data To target x) as [fx| |] eqn:E; cbn [rbind] in H; try discriminate.
  apply (find_root_loop_R _ _ _ _ _ _ _ _ _ (f_R _ _ _ _ _ E) H).
Qed.

Lemma Q2R_100 : Q2R 100 = 100.  Proof. unfold Q2R; simpl; field. Qed.
Lemma Q2R_tenth : Q2R (1 # 10) = / 10.  Proof. unfold Q2R; simpl; field. Qed.
Lemma Q2R_zero : Q2R 0 = 0.  Proof. unfold Q2R; simpl; field. Qed.
Lemma Q2R_one_C15 : Q2R 1 = 1.  Proof. unfold Q2R; simpl; field. Qed.

(* whenever the model returns a time, the final guard makes it accurate to 0.1% for the function f
   it solves *)
Theorem returned_time_accurate_f : forall ev dff data To target t, 0 < target ->
  decay_time_core R numR ev dff data To target = Ok (Ret t) ->
  Rabs (fR data To target t) <= / 1000 * target.
Proof.
  intros ev dff data To target t Htg H. unfold decay_time_core in H.
  destruct (f R numR data To target _) as [f0| |]; cbn [rbind] in H; try discriminate.
  assert (H' : (do x0 <- initial_guess R numR To target data;;
                do tf <- find_root R numR dff data To target x0;;
                (let '(t, ft) := tf in
                 do pe <- sdiv R numR (nmul R numR (q R numR 100) (nabs R numR ft)) target;;
                 dec (lt R numR (q R numR (1 # 10)) pe) (fun bad : bool => if bad then Err RuntimeErr else Ok (Ret t))))
               = Ok (Ret t)).
  { destruct ev; unfold dec, lt in H; cbn [nlt numR] in H.
    - destruct (Rlt_dec f0 target); [discriminate|exact H].
    - destruct (Rlt_dec _ f0); cbn [negb] in H; [exact H|discriminate]. }
  clear H. rename H' into H.
  destruct (initial_guess R numR To target data) as [x0| |]; cbn [rbind] in H; try discriminate.
  destruct (find_root R numR dff data To target x0) as [[t' ft]| |] eqn:E; cbn [rbind] in H; try discriminate.
  apply find_root_R in E.
  destruct (sdiv R numR _ target) as [pe| |] eqn:Ep; cbn [rbind] in H; try discriminate.
  unfold dec, lt in H. try rewrite lt_numR in H; cbn [nlt numR] in H. destruct (Rlt_dec _ pe) as [|Hpe]; [discriminate|].
  injection H as <-.
  unfold sdiv, dec, is_zero, lt in Ep. try rewrite lt_numR in Ep; cbn [nlt numR] in Ep.
  destruct (Rlt_dec _ _); simpl in Ep; [|discriminate]. injection Ep as <-.
  unfold q in Hpe. simpl in Hpe. rewrite Q2R_100, Q2R_tenth in Hpe. rewrite <- E.
  apply Rnot_lt_le in Hpe.
  apply (Rmult_le_compat_r target) in Hpe; [|lra]. unfold Rdiv in Hpe.
  rewrite Rmult_assoc, Rinv_l, Rmult_1_r in Hpe by lra. lra.
Qed.

(* ------------------------------------------------------------------ the true summed activity *)
(* products at removal: (A_i(0), T_i);  A(t) = sum_i A_i(0) 2^(-t/T_i) *)
Fixpoint true_A (rem : list (R * R)) (t : R) : R :=
  match rem with
  | [] => 0
  | (a, T) :: r => a * Rpower 2 (- t / T) + true_A r t
  end.
(* what calculate_activation hands to decay_time when the smallest rest time is To (C14: each
   product has fallen by 2^(-To/T)), with the decay constant ln 2 / T *)
Definition data_at (rem : list (R * R)) (To : R) : list (R * R) :=
  map (fun p : R * R => (fst p * Rpower 2 (- To / snd p), ln 2 / snd p)) rem.

Lemma sumR_true_A : forall rem To t, sumR (data_at rem To) To t = true_A rem t.
Proof.
  induction rem as [|[a T] r IH]; intros To t; simpl; [reflexivity|]. rewrite IH. f_equal.
  unfold Rpower. rewrite Rmult_assoc, <- exp_plus. f_equal. f_equal. unfold Rdiv. ring.
Qed.

(* f is the true activity minus the target, whatever rest times were requested *)
Theorem f_is_true_activity : forall rem To target t, fR (data_at rem To) To target t = true_A rem t - target.
Proof. intros. unfold fR. rewrite sumR_true_A. reflexivity. Qed.

Theorem returned_time_accurate : forall ev dff rem To target t, 0 < target ->
  decay_time_core R numR ev dff (data_at rem To) To target = Ok (Ret t) ->
  Rabs (true_A rem t - target) <= / 1000 * target.
Proof.
  intros ev dff rem To target t Htg H. rewrite <- (f_is_true_activity rem To).
  apply (returned_time_accurate_f ev dff); assumption.
Qed.

Theorem f_independent_of_rest_list : forall rem To To' target t,
  fR (data_at rem To) To target t = fR (data_at rem To') To' target t.
Proof. intros. rewrite !f_is_true_activity. reflexivity. Qed.

(* the time the property asks for is unique: the summed activity is strictly decreasing *)
Definition physical_rem (rem : list (R * R)) : Prop := List.Forall (fun p : R * R => 0 <= fst p /\ 0 < snd p) rem.

Lemma Rpower2_decr : forall T t1 t2, 0 < T -> t1 < t2 -> Rpower 2 (- t2 / T) < Rpower 2 (- t1 / T).
Proof.
  intros T t1 t2 HT Ht. apply Rpower_lt; [lra|]. unfold Rdiv.
  apply Rmult_lt_compat_r; [apply Rinv_0_lt_compat; assumption|lra].
Qed.

Lemma true_A_decr : forall rem t1 t2, physical_rem rem -> t1 < t2 ->
  true_A rem t2 <= true_A rem t1 /\ (0 < true_A rem t1 -> true_A rem t2 < true_A rem t1).
Proof.
  induction rem as [|[a T] r IH]; intros t1 t2 Hp Ht; simpl.
  - split; [lra|intro; lra].
  - inversion Hp as [|? ? [Ha HT] Hr]; subst. simpl in Ha, HT.
    destruct (IH t1 t2 Hr Ht) as [Hle Hlt].
    pose proof (Rpower2_decr T t1 t2 HT Ht) as Hd.
    assert (0 < Rpower 2 (- t2 / T)) by (unfold Rpower; apply exp_pos).
    split; [nra|]. intro Hpos.
    destruct (Rle_lt_or_eq_dec 0 a Ha) as [Hap|Ha0].
    + nra.
    + subst a. rewrite !Rmult_0_l, !Rplus_0_l in *. apply Hlt. assumption.
Qed.

Theorem spec_root_unique : forall rem target t1 t2, physical_rem rem -> 0 < target ->
  true_A rem t1 = target -> true_A rem t2 = target -> t1 = t2.
Proof.
  intros rem target t1 t2 Hp Htg H1 H2.
  destruct (Rtotal_order t1 t2) as [L|[E|G]]; [|assumption|].
  - destruct (true_A_decr rem t1 t2 Hp L) as [_ Hlt]. lra.
  - destruct (true_A_decr rem t2 t1 Hp G) as [_ Hlt]. lra.
Qed.

(* hence the answer the property asks for does not depend on the rest-time list: for every To the
   zero of f(.) is the unique time at which the true activity meets the target *)
Theorem rest_list_independent : forall rem To To' target t t', physical_rem rem -> 0 < target ->
  fR (data_at rem To) To target t = 0 -> fR (data_at rem To') To' target t' = 0 -> t = t'.
Proof.
  intros rem To To' target t t' Hp Htg H H'. rewrite f_is_true_activity in H, H'.
  apply (spec_root_unique rem target); try assumption; lra.
Qed.

(* ------------------------------------------------------------------ the early exit *)
(* the model returns 0 exactly when f(0) < target, i.e. when A(0) < 2 target *)
Theorem zero_iff_below_twice : forall dff data To target f0,
  f R numR data To target 0 = Ok f0 ->
  (decay_time_core R numR true dff data To target = Ok RetZero <-> sumR data To 0 < 2 * target).
Proof.
  intros dff data To target f0 Hf. unfold decay_time_core, q. simpl nQ. rewrite Q2R_zero, Hf. cbn [rbind].
  apply f_R in Hf. unfold fR in Hf. unfold dec, lt. try rewrite lt_numR; cbn [nlt numR].
  destruct (Rlt_dec f0 target) as [L|L].
  - split; [intro; lra|reflexivity].
  - split; [|intro; exfalso; lra]. intro H.
    destruct (initial_guess R numR To target data) as [x0| |]; cbn [rbind] in H; try discriminate.
    destruct (find_root R numR dff data To target x0) as [[t' ft]| |]; cbn [rbind] in H; try discriminate.
    destruct (sdiv R numR _ target) as [pe| |]; cbn [rbind] in H; try discriminate.
    unfold dec, lt in H. try rewrite lt_numR in H; cbn [nlt numR] in H. destruct (Rlt_dec _ pe); discriminate.
Qed.

(* with the repaired test f(0) <= 0 the early exit is the one the property states *)
Theorem zero_iff_already_below_repaired : forall dff data To target f0,
  f R numR data To target 0 = Ok f0 ->
  (decay_time_core R numR false dff data To target = Ok RetZero <-> sumR data To 0 <= target).
Proof.
  intros dff data To target f0 Hf. unfold decay_time_core, q. simpl nQ. rewrite Q2R_zero, Hf. cbn [rbind].
  apply f_R in Hf. unfold fR in Hf. unfold dec, lt. cbn [nlt numR]. simpl nQ. rewrite ?Q2R_zero.
  destruct (Rlt_dec 0 f0) as [L|L]; cbn [negb].
  - split; [|intro; exfalso; lra]. intro H.
    destruct (initial_guess R numR To target data) as [x0| |]; cbn [rbind] in H; try discriminate.
    destruct (find_root R numR dff data To target x0) as [[t' ft]| |]; cbn [rbind] in H; try discriminate.
    destruct (sdiv R numR _ target) as [pe| |]; cbn [rbind] in H; try discriminate.
    unfold dec, lt in H. cbn [nlt numR] in H. destruct (Rlt_dec _ pe); discriminate.
  - split; [intro; lra|reflexivity].
Qed.

(* partial: already at or below the target -> 0 *)
Theorem already_below_returns_zero : forall dff rem To target f0, 0 < target ->
  f R numR (data_at rem To) To target 0 = Ok f0 ->
  true_A rem 0 <= target -> decay_time_core R numR true dff (data_at rem To) To target = Ok RetZero.
Proof.
  intros dff rem To target f0 Htg Hf Hle. apply (zero_iff_below_twice dff _ _ _ f0 Hf).
  rewrite sumR_true_A. lra.
Qed.

(* REFUTED at full strength ("returns 0 exactly when the activity at removal is at or below the
   target"): one product of 3 uCi, target 2 uCi: the activity at removal is above the target, yet 0
   is returned *)
Theorem zero_iff_already_below_refuted :
  exists rem To target, physical_rem rem /\ 0 < target /\ target < true_A rem 0 /\
    forall dff, decay_time_core R numR true dff (data_at rem To) To target = Ok RetZero.
Proof.
  exists [(3, 1)], 0, 2.
  assert (HA : true_A [(3, 1)] 0 = 3).
  { simpl. replace (- 0 / 1) with 0 by field. rewrite Rpower_O by lra. ring. }
  split; [repeat constructor; simpl; lra|]. split; [lra|]. split; [rewrite HA; lra|]. intro dff.
  assert (Hf : exists f0, f R numR (data_at [(3, 1)] 0) 0 2 0 = Ok f0).
  { unfold f, data_at. simpl map. simpl fsum. unfold sexp, dec, lt. try rewrite lt_numR; cbn [nlt numR].
    destruct (Rlt_dec _ _) as [L|L].
    - exfalso. simpl in L. replace (- (ln 2 / 1 * (0 - 0))) with 0 in L by field.
      unfold q in L. simpl in L. unfold EXPMAX, Q2R in L. simpl in L. lra.
    - simpl. eexists. reflexivity. }
  destruct Hf as [f0 Hf]. apply (zero_iff_below_twice dff _ _ _ f0 Hf).
  rewrite sumR_true_A, HA. lra.
Qed.

(* ------------------------------------------------------------------ the derivative the model uses *)
Lemma dfsum_R : forall data To t acc s, dfsum R numR data To t acc = Ok s -> s = acc + dfR data To t.
Proof.
  induction data as [|[Ia La] r IH]; intros To t acc s H; simpl in *.
  - injection H as <-. ring.
  - destruct (sexp R numR _) as [e| |] eqn:E; simpl in H; try discriminate.
    apply sexp_R in E. subst e. apply IH in H. rewrite H. unfold q. simpl. rewrite Q2R_one_C15. ring.
Qed.
Lemma dfsum'_R : forall data To t acc s, dfsum' R numR data To t acc = Ok s -> s = acc - derR data To t.
Proof.
  induction data as [|[Ia La] r IH]; intros To t acc s H; simpl in *.
  - injection H as <-. ring.
  - destruct (sexp R numR _) as [e| |] eqn:E; simpl in H; try discriminate.
    apply sexp_R in E. subst e. apply IH in H. rewrite H. simpl. ring.
Qed.

(* what df computes in the model: the code's (1-To) f' with the rest factor, f' without *)
Theorem model_df : forall dff data To t v, df R numR dff data To t = Ok v ->
  v = if dff then dfR data To t else derR data To t.
Proof.
  intros dff data To t v H. unfold df in H. destruct dff.
  - apply dfsum_R in H. rewrite H. unfold q. simpl. rewrite Q2R_zero. ring.
  - destruct (dfsum' R numR data To t _) as [s| |] eqn:E; simpl in H; try discriminate.
    injection H as <-. apply dfsum'_R in E. rewrite E. unfold q. simpl. rewrite Q2R_zero. ring.
Qed.

(* repaired derivative: df is the derivative of f for every rest-time list *)
Theorem df_is_derivative_repaired : forall data To target t v, df R numR false data To t = Ok v ->
  is_derive (fR data To target) t v.
Proof. intros data To target t v H. rewrite (model_df false _ _ _ _ H). apply fR_is_derive. Qed.

(* ------------------------------------------------------------------ Newton from the left of the root
   f is convex and decreasing (non-negative activities, positive decay constants); a Newton step with
   the TRUE derivative from a point left of the root moves right and does not pass the root.  (The
   initial guess of decay_time is left of the root: there one product alone equals the target.) *)
Definition physical_data (data : list (R * R)) : Prop := List.Forall (fun p : R * R => 0 <= fst p /\ 0 < snd p) data.

Lemma sumR_convex : forall data To x r, physical_data data ->
  sumR data To x + derR data To x * (r - x) <= sumR data To r.
Proof.
  induction data as [|[Ia La] d IH]; intros To x r Hp; simpl; [lra|].
  inversion Hp as [|? ? [Ha Hl] Hd]; subst. simpl in Ha, Hl. specialize (IH To x r Hd).
  assert (E : exp (- (La * (r - To))) = exp (- (La * (x - To))) * exp (- (La * (r - x)))).
  { rewrite <- exp_plus. f_equal. ring. }
  pose proof (exp_ineq1_le (- (La * (r - x)))) as Hc.
  pose proof (exp_pos (- (La * (x - To)))) as Hpos.
  rewrite E.
  set (ex := exp (- (La * (x - To)))) in *. set (er := exp (- (La * (r - x)))) in *.
  assert (H1 : Ia * ex * (1 + - (La * (r - x))) <= Ia * ex * er).
  { apply Rmult_le_compat_l; [apply Rmult_le_pos; lra|exact Hc]. }
  lra.
Qed.

Lemma derR_nonpos : forall data To x, physical_data data -> derR data To x <= 0.
Proof.
  induction data as [|[Ia La] d IH]; intros To x Hp; simpl; [lra|].
  inversion Hp as [|? ? [Ha Hl] Hd]; subst. simpl in Ha, Hl. specialize (IH To x Hd).
  pose proof (exp_pos (- (La * (x - To)))).
  assert (0 <= La * Ia * exp (- (La * (x - To)))) by (apply Rmult_le_pos; [apply Rmult_le_pos; lra|lra]).
  lra.
Qed.

Theorem newton_left_monotone : forall data To target x r, physical_data data ->
  fR data To target r = 0 -> 0 <= fR data To target x -> derR data To x < 0 ->
  let x' := x - fR data To target x / derR data To x in
  x <= x' <= r.
Proof.
  intros data To target x r Hp Hr Hx Hd x'. subst x'.
  pose proof (sumR_convex data To x r Hp) as Hc. unfold fR in *.
  assert (Hi : / derR data To x < 0) by (apply Rinv_lt_0_compat; assumption).
  split.
  - assert (0 <= - ((sumR data To x - target) / derR data To x)); [|lra].
    replace (- ((sumR data To x - target) / derR data To x)) with ((sumR data To x - target) * - / derR data To x)
      by (field; lra).
    apply Rmult_le_pos; lra.
  - assert (H : (sumR data To x - target) + derR data To x * (r - x) <= 0) by lra.
    assert (H' : - ((sumR data To x - target) / derR data To x) <= r - x); [|lra].
    apply (Rmult_le_reg_r (- derR data To x)); [lra|].
    replace (- ((sumR data To x - target) / derR data To x) * - derR data To x) with (sumR data To x - target) by (field; lra).
    lra.
Qed.

(* ------------------------------------------------------------------ the source as it stands
   (the two flags are regenerated from /repo on every run) *)
From PT.Gen Require ActivationDat.
Definition decay_time_cur : list (R * R) -> R -> R -> res (dt R) :=
  decay_time_core R numR ActivationDat.dt_early_exit_vs_target ActivationDat.dt_df_rest_factor.
Lemma cur_early_exit : ActivationDat.dt_early_exit_vs_target = false.  Proof. reflexivity. Qed.
Lemma cur_df : ActivationDat.dt_df_rest_factor = false.  Proof. reflexivity. Qed.

(* "returns 0 exactly when the activity at removal is already at or below the target" *)
Theorem zero_iff_already_below : forall rem To target f0,
  f R numR (data_at rem To) To target 0 = Ok f0 ->
  (decay_time_cur (data_at rem To) To target = Ok RetZero <-> true_A rem 0 <= target).
Proof.
  intros rem To target f0 Hf. unfold decay_time_cur. rewrite cur_early_exit.
  rewrite (zero_iff_already_below_repaired _ _ _ _ f0 Hf), sumR_true_A. tauto.
Qed.

(* "df is the derivative of f" *)
Theorem df_is_derivative : forall data To target t v,
  df R numR ActivationDat.dt_df_rest_factor data To t = Ok v -> is_derive (fR data To target) t v.
Proof. intros data To target t v. rewrite cur_df. apply df_is_derivative_repaired. Qed.

(* REFUTED at full strength, still: "the answer does not depend on which rest times were requested" and
   "raises RuntimeError rather than ...".  Over the reals f is the same function for every rest list
   (f_independent_of_rest_list), but the code evaluates exp(La (To - t)) at t = 0 and exp overflows above
   709.78: one product of 1 uCi with a half-life of 3.6 s, target 2 uCi: with rest_times = [2] the call
   raises OverflowError, with rest_times = [0] it returns 0. *)
Theorem rest_list_independence_refuted :
  exists rem To target, physical_rem rem /\ 0 < target /\
    decay_time_cur (data_at rem To) To target = Err OtherErr /\
    decay_time_cur (data_at rem 0) 0 target = Ok RetZero.
Proof.
  exists [(1, / 1000)], 2, 2.
  split; [repeat constructor; simpl; lra|]. split; [lra|].
  unfold decay_time_cur. rewrite cur_early_exit. split.
  - unfold decay_time_core, f, data_at. simpl map. simpl fsum. unfold sexp, dec, lt. cbn [nlt numR].
    destruct (Rlt_dec _ _) as [L|L]; [reflexivity|]. exfalso. apply L. clear L.
    unfold q. simpl. rewrite Q2R_zero. unfold EXPMAX, Q2R. simpl.
    replace (- (ln 2 / / 1000 * (0 - 2))) with (2000 * ln 2) by (field; lra). interval.
  - unfold decay_time_core, f, data_at. simpl map. simpl fsum. unfold sexp, dec, lt. cbn [nlt numR].
    destruct (Rlt_dec _ _) as [L|L].
    + exfalso. unfold q in L. simpl in L. rewrite Q2R_zero in L.
      replace (- (ln 2 / / 1000 * (0 - 0))) with 0 in L by (field; lra). unfold EXPMAX, Q2R in L. simpl in L. lra.
    + cbn [rbind]. cbn [nlt numR]. unfold q. simpl nQ. rewrite ?Q2R_zero.
      destruct (Rlt_dec 0 _) as [P|P]; cbn [negb]; [|reflexivity]. exfalso.
      simpl in P. replace (- (ln 2 / / 1000 * (0 - 0))) with 0 in P by (field; lra).
      replace (- 0 / / 1000) with 0 in P by (field; lra). rewrite Rpower_O, exp_0 in P by lra. lra.
Qed.
