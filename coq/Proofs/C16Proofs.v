(* Proofs/C16Proofs.v — D2O contrast matching (C16).
   Part 1: algebra over R.  At unchanged cell volume the real and imaginary SLD are linear in the
   composition, so mixing the SLDs of the fully hydrogenated and fully deuterated forms with weights
   (1-f, f) gives the SLD of the compound with a fraction f of its labile hydrogens deuterated; the
   solution mixes linearly in the volume fraction; at the match fraction the real SLD does not depend
   on the volume fraction.  What the model's expressions mean.  The fasta numbers. *)
From Coq Require Import Reals ZArith QArith Qreals Qabs String List Bool Lra Lia.
From PT Require Import Str Dec Loaders Formula FormulaAlg AtomEnv Nsf IExpr Neutron NsfCalc NeutronData NeutronContrast
                       C03Spec C03Data C03Refine C03Top C04Proofs C17Proofs C16Calc.
Import ListNotations.
Open Scope R_scope.

Notation ev := (evalR no_env_R).

(* ------------------------------------------------------------------ linear at fixed cell volume *)
Definition mix5 (f : R) (a b : R * R * R * R * R) : R * R * R * R * R :=
  match a, b with
  | (a1, a2, a3, a4, a5), (b1, b2, b3, b4, b5) =>
      (mix a1 b1 f, mix a2 b2 f, mix a3 b3 f, mix a4 b4 f, mix a5 b5 f)
  end.

Section FixedVolume.
  Variables (NA rho M : R).
  Hypothesis HNA : NA <> 0.
  Hypothesis Hrho : rho <> 0.
  Hypothesis HM : M <> 0.
  (* the density that keeps the cell volume of the original compound (molar mass M, density rho) *)
  Definition rho_of (l : list comp) : R := rho * molar_mass l / M.

  Lemma rho_re_fixed : forall l, n_total l <> 0 -> molar_mass l <> 0 ->
    rho_re NA l (rho_of l) = sum (fun c => c_n c * c_re c) l * (rho * NA / (M * (A_per_cm * A_per_cm * A_per_cm))) * A_per_fm * micro.
  Proof.
    intros l Hn Hm. unfold rho_re, number_density, cell_volume, b_re, rho_of, A_per_cm.
    field. repeat split; try assumption; lra.
  Qed.
  Lemma rho_im_fixed : forall l, n_total l <> 0 -> molar_mass l <> 0 ->
    rho_im' NA l (rho_of l) = - sum (fun c => c_n c * c_im c) l * (rho * NA / (M * (A_per_cm * A_per_cm * A_per_cm))) * A_per_fm * micro.
  Proof.
    intros l Hn Hm. unfold rho_im', number_density, cell_volume, b_im, rho_of, A_per_cm.
    field. repeat split; try assumption; lra.
  Qed.

  (* the cell with composition f*l1 + (1-f)*l0 (five sums mixed) has the mixed real and imaginary SLD *)
  Theorem sld_linear_fixed_volume : forall l0 l1 lf f,
    aggr lf = mix5 f (aggr l1) (aggr l0) ->
    n_total l0 <> 0 -> molar_mass l0 <> 0 -> n_total l1 <> 0 -> molar_mass l1 <> 0 ->
    n_total lf <> 0 -> molar_mass lf <> 0 ->
    rho_re NA lf (rho_of lf) = mix (rho_re NA l1 (rho_of l1)) (rho_re NA l0 (rho_of l0)) f /\
    rho_im' NA lf (rho_of lf) = mix (rho_im' NA l1 (rho_of l1)) (rho_im' NA l0 (rho_of l0)) f.
  Proof.
    intros l0 l1 lf f H Hn0 Hm0 Hn1 Hm1 Hnf Hmf. unfold aggr, mix5 in H. injection H as H1 H2 H3 H4 H5.
    rewrite !rho_re_fixed, !rho_im_fixed by assumption. rewrite H3, H4. unfold mix. split; ring.
  Qed.
End FixedVolume.

(* ------------------------------------------------------------------ the solution *)
Theorem solution_at_one : forall sD sH wD wH f, solution sD sH wD wH 1 f = mix sD sH f.
Proof. intros. unfold solution, mix. ring. Qed.
Theorem solution_at_zero : forall sD sH wD wH f, solution sD sH wD wH 0 f = mix wD wH f.
Proof. intros. unfold solution, mix. ring. Qed.
Theorem solution_linear : forall sD sH wD wH vf f,
  solution sD sH wD wH vf f = vf * solution sD sH wD wH 1 f + (1 - vf) * solution sD sH wD wH 0 f.
Proof. intros. unfold solution, mix. ring. Qed.

(* at the reported fraction solute and solvent have the same real SLD, so the solution's real SLD
   is the same for every volume fraction (and is the reported match SLD) *)
Theorem match_point_invariant : forall sD sH wD wH vf,
  sD - sH + wH - wD <> 0 ->
  let fm := match_fraction sD sH wD wH in
  mix sD sH fm = mix wD wH fm /\ solution sD sH wD wH vf fm = mix sD sH fm.
Proof.
  intros sD sH wD wH vf Hd fm.
  assert (E : mix sD sH fm = mix wD wH fm).
  { unfold fm, match_fraction, mix. field. exact Hd. }
  split; [exact E|]. unfold solution. rewrite <- E. unfold mix. ring.
Qed.
(* and it is the only such fraction *)
Theorem match_point_unique : forall sD sH wD wH f,
  sD - sH + wH - wD <> 0 -> mix sD sH f = mix wD wH f -> f = match_fraction sD sH wD wH.
Proof.
  intros sD sH wD wH f Hd H. unfold match_fraction, mix in *.
  apply (Rmult_eq_reg_r (sD - sH + wH - wD)); [|exact Hd].
  replace ((wH - sH) / (sD - sH + wH - wD) * (sD - sH + wH - wD)) with (wH - sH) by (field; exact Hd). lra.
Qed.

(* ------------------------------------------------------------------ what the model's expressions mean *)
Lemma ev_mixE : forall a b f, ev (mixE a b f) = mix (ev a) (ev b) (ev f).
Proof. intros. unfold mixE, mix. cbn [evalR]. rewrite ev_ez. reflexivity. Qed.

Theorem D2O_sld_meaning : forall x vf f,
  let '(re, im, inc) := D2O_sld x vf f in
  ev re = solution (ev (o_re (fst (x_D x)))) (ev (o_re (fst (x_H x)))) (ev (o_re (fst (x_D2O x)))) (ev (o_re (fst (x_H2O x)))) (Q2R vf) (Q2R f) /\
  ev im = solution (ev (o_im (fst (x_D x)))) (ev (o_im (fst (x_H x)))) (ev (o_im (fst (x_D2O x)))) (ev (o_im (fst (x_H2O x)))) (Q2R vf) (Q2R f).
Proof.
  intros x vf f. unfold D2O_sld, mix3, triple. cbn [fst snd]. rewrite !ev_mixE, !ev_cq. unfold solution. split; reflexivity.
Qed.

Theorem D2O_match_meaning : forall x,
  let sD := ev (re3 (x_D x)) in let sH := ev (re3 (x_H x)) in
  let wD := ev (re3 (x_D2O x)) in let wH := ev (re3 (x_H2O x)) in
  ev (fst (D2O_match x)) = match_fraction sD sH wD wH /\
  ev (snd (D2O_match x)) = mix sD sH (match_fraction sD sH wD wH).
Proof.
  intros x sD sH wD wH. unfold D2O_match. cbn [fst snd]. rewrite ev_mixE. cbn [evalR].
  unfold match_fraction, sD, sH, wD, wH. split; reflexivity.
Qed.

(* the biomolecule classes: D2Omatch is 100 x the match fraction, D2Osld the real part of D2O_sld *)
Theorem molecule_agrees : forall x vf f,
  ev (molecule_D2Omatch x) = 100 * ev (fst (D2O_match x)) /\
  ev (molecule_D2Osld x vf f) = ev (fst (fst (D2O_sld x vf f))).
Proof.
  intros x vf f. split.
  - unfold molecule_D2Omatch, D2O_match. cbn [fst evalR]. rewrite ev_ez. unfold Rdiv. ring.
  - unfold molecule_D2Osld, D2O_sld, mix3, triple, mixE, re3. cbn [fst snd evalR]. rewrite !ev_ez, !ev_cq. ring.
Qed.

(* ================================================================== Part 2: the substitution keeps the cell volume *)

(* ------------------------------------------------------------------ totals of the dictionary operations *)
Definition ind (a b : atom) (v : Q) : Q := if atom_eqb a b then v else 0%Q.

Lemma dsum_set_add : forall d a v b, (dsum (dict_set_add d a v) b == dsum d b + ind b a v)%Q.
Proof.
  intros d a v b. unfold ind. induction d as [|[c w] r IH].
  - cbn [dict_set_add dsum]. destruct (atom_eqb b a); rewrite ?Qred_correct; ring.
  - cbn [dict_set_add]. destruct (atom_eqb a c) eqn:E.
    + apply atom_eqb_eq in E. subst c. cbn [dsum]. destruct (atom_eqb b a); rewrite ?Qred_correct; ring.
    + cbn [dsum]. rewrite IH. ring.
Qed.
Lemma keys_set_add : forall d a v x, In x (keys (dict_set_add d a v)) <-> x = a \/ In x (keys d).
Proof.
  induction d as [|[c w] r IH]; intros a v x.
  - simpl. intuition.
  - simpl. destruct (atom_eqb a c) eqn:E.
    + apply atom_eqb_eq in E. subst c. simpl. intuition.
    + simpl. rewrite IH. intuition.
Qed.
Lemma nodup_set_add : forall d a v, NoDup (keys d) -> NoDup (keys (dict_set_add d a v)).
Proof.
  induction d as [|[c w] r IH]; intros a v H.
  - simpl. constructor; [intros []|constructor].
  - simpl. destruct (atom_eqb a c) eqn:E.
    + simpl. exact H.
    + simpl. inversion H as [|? ? Hn Hr]; subst. constructor.
      * intro Hin. apply keys_set_add in Hin. destruct Hin as [->|Hin].
        -- rewrite atom_eqb_refl in E. discriminate.
        -- exact (Hn Hin).
      * apply IH. exact Hr.
Qed.
Lemma dsum_absent : forall d a, ~ In a (keys d) -> (dsum d a == 0)%Q.
Proof.
  induction d as [|[c w] r IH]; intros a H; [reflexivity|]. simpl.
  destruct (atom_eqb a c) eqn:E.
  - apply atom_eqb_eq in E. subst c. exfalso. apply H. left. reflexivity.
  - rewrite IH; [ring|]. intro Hin. apply H. right. exact Hin.
Qed.
Lemma dsum_del : forall d a b, NoDup (keys d) ->
  (dsum (dict_del d a) b == dsum d b - ind b a (dsum d a))%Q.
Proof.
  intros d a b. unfold ind. induction d as [|[c w] r IH]; intro H.
  - cbn [dict_del dsum]. destruct (atom_eqb b a); ring.
  - inversion H as [|? ? Hn Hr]; subst. cbn [dict_del]. destruct (atom_eqb a c) eqn:E.
    + apply atom_eqb_eq in E. subst c. cbn [dsum]. rewrite atom_eqb_refl.
      pose proof (dsum_absent r a Hn) as Hz.
      destruct (atom_eqb b a); rewrite ?Hz; ring.
    + cbn [dsum]. rewrite (IH Hr). rewrite E.
      destruct (atom_eqb b c) eqn:Ebc; destruct (atom_eqb b a) eqn:Eba; try ring.
      all: apply atom_eqb_eq in Ebc, Eba; subst; rewrite atom_eqb_refl in E; discriminate.
Qed.
Lemma dget_dsum : forall d a n, NoDup (keys d) -> dget d a = Some n -> (dsum d a == n)%Q.
Proof.
  intros d a n Hnd H. rewrite <- (dget0_dsum d a Hnd). unfold dget0. rewrite H. reflexivity.
Qed.
Lemma dget_none_dsum' : forall d a, dget d a = None -> (dsum d a == 0)%Q.
Proof. exact dget_none_dsum. Qed.

(* _isotope_substitution: the totals after replacing all of [source] by [target] *)
Theorem substitute_totals : forall E d rho source target, NoDup (keys d) -> source <> target ->
  forall b, (dsum (fst (substitute E d rho source target)) b
             == dsum d b + ind b target (dsum d source) - ind b source (dsum d source))%Q.
Proof.
  intros E d rho source target Hnd Hne b. unfold substitute.
  destruct (dget d source) as [n|] eqn:Eg; cbn [fst].
  - pose proof (dget_dsum d source n Hnd Eg) as Hn.
    rewrite dsum_del by (apply nodup_set_add; exact Hnd). unfold ind.
    assert (Est : atom_eqb source target = false).
    { destruct (atom_eqb source target) eqn:Eq; [|reflexivity]. apply atom_eqb_eq in Eq. contradiction. }
    destruct (atom_eqb b source) eqn:Ebs.
    + apply atom_eqb_eq in Ebs. subst b. rewrite Est. ring.
    + rewrite dsum_set_add. unfold ind. destruct (atom_eqb b target); rewrite ?Hn; ring.
  - pose proof (dget_none_dsum' d source Eg) as Hz. unfold ind.
    destruct (atom_eqb b target); destruct (atom_eqb b source); rewrite ?Hz; ring.
Qed.

(* Q2R of the reduced weighted sum is the real dict sum *)
Lemma Q2R_rweight_gen : forall (w : atom -> Q) d acc,
  Q2R (fold_left (fun acc p => Qred (acc + w (fst p) * snd p)) d acc) = Q2R acc + dsumR (fun a => Q2R (w a)) d.
Proof.
  intros w d. induction d as [|[a n] r IH]; intro acc; cbn [fold_left dsumR fst snd]; [ring|].
  rewrite IH, Q2R_Qred, Q2R_plus, Q2R_mult. ring.
Qed.
Lemma Q2R_rweight : forall (w : atom -> Q) d, Q2R (rweight w d) = dsumR (fun a => Q2R (w a)) d.
Proof. intros w d. unfold rweight. rewrite Q2R_rweight_gen, RMicromega.Q2R_0. ring. Qed.

(* a dict sum after adding n of [target] and removing n of [source] *)
Lemma dsumR_corrected : forall F d d' (t s : atom) (nt ns : Q),
  (forall b, (dsum d' b == dsum d b + ind b t nt - ind b s ns)%Q) ->
  dsumR F d' = dsumR F d + Q2R nt * F t - Q2R ns * F s.
Proof.
  intros F d d' t s nt ns H.
  rewrite (dsumR_totals F (length (d ++ [(t, nt); (s, (- ns)%Q)])%list) (d ++ [(t, nt); (s, (- ns)%Q)])%list d' (Nat.le_refl _)).
  - rewrite dsumR_app. cbn [dsumR]. rewrite Q2R_opp. ring.
  - intro b. rewrite H, dsum_app. unfold ind. cbn [dsum]. destruct (atom_eqb b t); destruct (atom_eqb b s); ring.
Qed.

(* the density chosen by _isotope_substitution keeps the cell volume: mass/density is unchanged *)
Theorem substitute_keeps_volume : forall E d rho source target d' rho',
  NoDup (keys d) -> source <> target -> substitute E d rho source target = (d', rho') ->
  Q2R (rweight (e_mass E) d) <> 0 ->
  Q2R rho' * Q2R (rweight (e_mass E) d) = Q2R rho * Q2R (rweight (e_mass E) d').
Proof.
  intros E d rho source target d' rho' Hnd Hne H Hm.
  pose proof (substitute_totals E d rho source target Hnd Hne) as Htot.
  unfold substitute in H, Htot. destruct (dget d source) as [n|] eqn:Eg; cbn [fst] in Htot.
  - match type of H with (?dd, ?rr) = _ => set (d2 := dd) in *; set (r2 := rr) in * end.
    assert (Ed : d' = d2) by congruence. assert (Er : rho' = r2) by congruence. subst d' rho'. clear H.
    rewrite (Q2R_rweight (e_mass E) d2).
    rewrite (dsumR_corrected _ d d2 target source (dsum d source) (dsum d source) Htot).
    rewrite <- (Q2R_rweight (e_mass E) d). unfold r2. rewrite Q2R_Qred.
    pose proof (dget_dsum d source n Hnd Eg) as Hn. rewrite (Qeq_eqR _ _ Hn).
    rewrite Q2R_div' by exact Hm. rewrite Q2R_mult, Q2R_minus, !Q2R_mult, Q2R_minus.
    replace (Q2R 1) with 1 by (unfold Q2R; cbn [Qnum Qden]; lra). field. exact Hm.
  - assert (Ed : d' = d) by congruence. assert (Er : rho' = rho) by congruence. subst d' rho'. ring.
Qed.

(* ------------------------------------------------------------------ the substituted compound is the mix *)
Lemma dsumR_plus : forall F d c d', (forall b, (dsum d' b == dsum (d ++ c)%list b)%Q) ->
  dsumR F d' = dsumR F d + dsumR F c.
Proof.
  intros F d c d' H. rewrite <- dsumR_app.
  apply (dsumR_totals F (length (d ++ c)%list) (d ++ c)%list d' (Nat.le_refl _)). exact H.
Qed.

Lemma dsum_without : forall d a b, (dsum (dict_without d a) b == if atom_eqb b a then 0 else dsum d b)%Q.
Proof.
  intros d a b. unfold dict_without. induction d as [|[c w] r IH].
  - cbn [filter dsum]. destruct (atom_eqb b a); reflexivity.
  - cbn [filter fst]. destruct (atom_eqb a c) eqn:E; cbn [negb].
    + apply atom_eqb_eq in E. subst c. cbn [dsum]. rewrite IH. destruct (atom_eqb b a); ring.
    + cbn [dsum]. rewrite IH. destruct (atom_eqb b a) eqn:Eba; [|ring].
      apply atom_eqb_eq in Eba. subst b. rewrite E. ring.
Qed.

(* totals of the documented substituted compound: (1-f) n of H, f n of D, no H[1] *)
Lemma substituted_totals : forall E d rho f, NoDup (keys d) ->
  let n := dsum d labile in
  forall b, (dsum (fst (substituted E d rho f)) b
             == dsum (d ++ [(hydrogen, (1 - f) * n); (deuterium, f * n); (labile, - n)])%list b)%Q.
Proof.
  intros E d rho f Hnd n b. unfold substituted. cbn [fst]. rewrite dsum_app. cbn [dsum].
  rewrite dsum_without. pose proof (dget0_dsum d labile Hnd) as Hn. fold n in Hn.
  assert (H1 : atom_eqb labile hydrogen = false) by reflexivity.
  assert (H2 : atom_eqb labile deuterium = false) by reflexivity.
  destruct (atom_eqb b labile) eqn:Eb.
  - apply atom_eqb_eq in Eb. subst b. rewrite H1, H2. unfold n. ring.
  - destruct (atom_eqb b hydrogen); destruct (atom_eqb b deuterium); rewrite ?Qred_correct, ?Hn; ring.
Qed.

Lemma cnt_struct_of : forall d a, (cnt_s a (struct_of d) == dsum d a)%Q.
Proof.
  intros d a. unfold cnt_s, struct_of. induction d as [|[b n] r IH]; [reflexivity|].
  cbn [map fst snd]. rewrite cnt_group_cons. cbn [cnt dsum]. rewrite IH.
  destruct (atom_eqb a b); ring.
Qed.
Lemma dsum_atoms_struct_of : forall d a, (dsum (atoms_of (struct_of d)) a == dsum d a)%Q.
Proof. intros d a. rewrite dsum_atoms_of. apply cnt_struct_of. Qed.

Lemma tab_comp_mass : forall D w a n c, tab_comp D w (a, n) = Some c -> c_m c = Q2R (e_mass (nd_env D) a).
Proof.
  intros D w a n c H. unfold tab_comp in H. cbn [fst snd] in H.
  destruct (r_tab (nd_rec D (az a) (aa a))) as [[rows|]|].
  - inversion H; subst c. reflexivity.
  - destruct (r_bc (nd_rec D (nd_lu D) 175)); [|discriminate].
    destruct (r_abs (nd_rec D (nd_lu D) 175)); [|discriminate].
    destruct (r_tab (nd_rec D (nd_lu D) 176)) as [[rows|]|]; try discriminate.
    destruct (nd_abund D (nd_lu D) 175); [|discriminate].
    destruct (nd_abund D (nd_lu D) 176); [|discriminate].
    inversion H; subst c. reflexivity.
  - destruct (r_bc (nd_rec D (az a) (aa a))); [|discriminate].
    destruct (r_abs (nd_rec D (az a) (aa a))); [|discriminate].
    destruct (r_tot (nd_rec D (az a) (aa a))); [|discriminate].
    inversion H; subst c. reflexivity.
Qed.

Lemma dsumR_ext_keys : forall (F G : atom -> R) d, (forall a, In a (keys d) -> F a = G a) -> dsumR F d = dsumR G d.
Proof.
  intros F G d H. induction d as [|[a n] r IH]; [reflexivity|]. cbn [dsumR].
  rewrite (H a (or_introl eq_refl)), IH; [reflexivity|]. intros b Hb. apply H. right. exact Hb.
Qed.

(* the molar mass of a documented cell is the weighted sum of the atomic masses *)
Lemma cell_molar_mass : forall D w d l, tab_cell D w d = Some l ->
  molar_mass l = dsumR (fun a => Q2R (e_mass (nd_env D) a)) d.
Proof.
  intros D w d l H. unfold molar_mass. rewrite (cell_sum D w c_m d l (fun c n => eq_refl) H).
  apply dsumR_ext_keys. intros a Hin. unfold per_atom.
  unfold keys in Hin. apply in_map_iff in Hin. destruct Hin as ([a' n] & E & Hin). cbn [fst] in E. subst a'.
  unfold tab_cell in H. destruct (all_some_in_fwd (tab_comp D w) d l H (a, n) Hin) as (c & Hc & _).
  destruct (tab_comp_count D w a n c Hc) as [_ H0]. rewrite H0. cbn [c_m]. apply (tab_comp_mass D w a n c Hc).
Qed.

Lemma tuple5_eq : forall (a1 a2 a3 a4 a5 b1 b2 b3 b4 b5 : R),
  a1 = b1 -> a2 = b2 -> a3 = b3 -> a4 = b4 -> a5 = b5 -> (a1, a2, a3, a4, a5) = (b1, b2, b3, b4, b5).
Proof. intros. subst. reflexivity. Qed.

(* the documented SLD (real, imaginary) of the compound with a fraction f of its labile hydrogen
   deuterated, at unchanged cell volume, is the (f, 1-f) mix of the SLDs of the D form and of the H
   form that _isotope_substitution builds, at the densities it assigns *)
Theorem substituted_compound_is_mix : forall D w d rho f dh rh dd rd lH lD lf,
  NoDup (keys d) ->
  substitute (nd_env D) d rho aH1 aH = (dh, rh) ->
  substitute (nd_env D) d rho aH1 aD = (dd, rd) ->
  tab_cell D w (atoms_of (struct_of dh)) = Some lH ->
  tab_cell D w (atoms_of (struct_of dd)) = Some lD ->
  tab_cell D w (fst (substituted (nd_env D) d rho f)) = Some lf ->
  Q2R NAq <> 0 -> Q2R rho <> 0 -> Q2R (rweight (e_mass (nd_env D)) d) <> 0 ->
  n_total lH <> 0 -> molar_mass lH <> 0 -> n_total lD <> 0 -> molar_mass lD <> 0 ->
  n_total lf <> 0 -> molar_mass lf <> 0 ->
  let rf := snd (substituted (nd_env D) d rho f) in
  rho_re (Q2R NAq) lf (Q2R rf) = mix (rho_re (Q2R NAq) lD (Q2R rd)) (rho_re (Q2R NAq) lH (Q2R rh)) (Q2R f) /\
  rho_im' (Q2R NAq) lf (Q2R rf) = mix (rho_im' (Q2R NAq) lD (Q2R rd)) (rho_im' (Q2R NAq) lH (Q2R rh)) (Q2R f).
Proof.
  intros D w d rho f dh rh dd rd lH lD lf Hnd Hh Hd HlH HlD Hlf HNA Hrho HM HnH HmH HnD HmD Hnf Hmf rf.
  set (M := Q2R (rweight (e_mass (nd_env D)) d)) in *.
  set (n := dsum d labile).
  assert (Hne1 : aH1 <> aH) by discriminate. assert (Hne2 : aH1 <> aD) by discriminate.
  (* totals of the three dictionaries, as corrections of d *)
  pose proof (substitute_totals (nd_env D) d rho aH1 aH Hnd Hne1) as TH. rewrite Hh in TH. cbn [fst] in TH.
  pose proof (substitute_totals (nd_env D) d rho aH1 aD Hnd Hne2) as TD. rewrite Hd in TD. cbn [fst] in TD.
  pose proof (substituted_totals (nd_env D) d rho f Hnd) as TF. cbn zeta in TF. fold n in TF.
  assert (SH : forall F, dsumR F (atoms_of (struct_of dh)) = dsumR F d + Q2R n * F aH - Q2R n * F aH1).
  { intro F. apply dsumR_corrected. intro b. rewrite dsum_atoms_struct_of. apply TH. }
  assert (SD : forall F, dsumR F (atoms_of (struct_of dd)) = dsumR F d + Q2R n * F aD - Q2R n * F aH1).
  { intro F. apply dsumR_corrected. intro b. rewrite dsum_atoms_struct_of. apply TD. }
  assert (SF : forall F, dsumR F (fst (substituted (nd_env D) d rho f))
                         = dsumR F d + (Q2R (1 - f) * Q2R n * F aH + (Q2R f * Q2R n * F aD + (- Q2R n * F aH1 + 0)))).
  { intro F. rewrite (dsumR_plus F d _ _ TF). cbn [dsumR]. rewrite !Q2R_mult, Q2R_opp. reflexivity. }
  (* the five sums of the mixed cell *)
  assert (Hag : aggr lf = mix5 (Q2R f) (aggr lD) (aggr lH)).
  { rewrite (cell_aggr D w _ lf Hlf), (cell_aggr D w _ lD HlD), (cell_aggr D w _ lH HlH).
    unfold mix5, mix. rewrite !SF, !SD, !SH, Q2R_minus. replace (Q2R 1) with 1 by (unfold Q2R; cbn [Qnum Qden]; lra).
    apply tuple5_eq; ring. }
  (* the three densities keep the cell volume M / rho *)
  assert (DH : Q2R rh = rho_of (Q2R rho) M lH).
  { unfold rho_of. rewrite (cell_molar_mass D w _ lH HlH).
    rewrite (dsumR_totals _ (length dh) dh (atoms_of (struct_of dh)) (Nat.le_refl _) (dsum_atoms_struct_of dh)).
    rewrite <- Q2R_rweight. pose proof (substitute_keeps_volume (nd_env D) d rho aH1 aH dh rh Hnd Hne1 Hh HM) as K.
    fold M in K. apply (Rmult_eq_reg_r M); [|exact HM]. rewrite K. field. exact HM. }
  assert (DD : Q2R rd = rho_of (Q2R rho) M lD).
  { unfold rho_of. rewrite (cell_molar_mass D w _ lD HlD).
    rewrite (dsumR_totals _ (length dd) dd (atoms_of (struct_of dd)) (Nat.le_refl _) (dsum_atoms_struct_of dd)).
    rewrite <- Q2R_rweight. pose proof (substitute_keeps_volume (nd_env D) d rho aH1 aD dd rd Hnd Hne2 Hd HM) as K.
    fold M in K. apply (Rmult_eq_reg_r M); [|exact HM]. rewrite K. field. exact HM. }
  assert (DF : Q2R rf = rho_of (Q2R rho) M lf).
  { unfold rho_of, rf, substituted. cbn [snd fst]. rewrite Q2R_Qred, Q2R_div' by exact HM. rewrite Q2R_mult.
    fold M. rewrite (cell_molar_mass D w _ lf Hlf). unfold substituted. cbn [fst]. rewrite <- Q2R_rweight. reflexivity. }
  rewrite DH, DD, DF.
  apply (sld_linear_fixed_volume (Q2R NAq) (Q2R rho) M HNA Hrho HM lH lD lf (Q2R f) Hag); assumption.
Qed.

(* ------------------------------------------------------------------ the headline *)
Definition atoms_fine (D : ndata) (d : dict) : Prop :=
  forall p, In p d ->
    (0 <= snd p)%Q /\ (0 < e_mass (nd_env D) (fst p))%Q
    /\ (has_data D (fst p) = true -> rec_okb D (az (fst p)) (aa (fst p)) = true).

(* one neutron_sld of the model: the documented real and imaginary SLD of its cell *)
Lemma sld_at_is_documented : forall D s rho w x, wl_pos w -> (0 < rho)%Q ->
  atoms_fine D (atoms_of s) ->
  sld_at D s (Some rho) None w = Some x ->
  exists l, tab_cell D w (atoms_of s) = Some l /\ n_total l <> 0 /\ molar_mass l <> 0 /\
            ev (o_re (fst x)) = rho_re (Q2R NAq) l (Q2R rho) /\
            ev (o_im (fst x)) = rho_im' (Q2R NAq) l (Q2R rho).
Proof.
  intros D s rho w x Hw Hrho Hfine H. unfold sld_at in H.
  destruct (neutron_scattering D s (Some rho) None [w]) as [| |v|] eqn:En; try discriminate.
  destruct v as [|x0 [|? ?]]; try discriminate. inversion H; subst x0. clear H.
  assert (Hdens : density_of_compound D s (Some rho) None = Some rho) by reflexivity.
  destruct (scattering_cell_ok D s (Some rho) None [w] [x] rho Hfine Hdens En) as [Hcell _].
  pose proof (nsf_model_refines_spec D s (Some rho) None [w] [x] rho) as R.
  assert (Hws : forall w0, In w0 [w] -> wl_pos w0) by (intros w0 [E|[]]; subst; exact Hw).
  specialize (R Hws Hfine Hdens Hrho En). inversion R as [|? ? ? ? Hag _]; subst.
  destruct Hag as (l & Hl & Heq). exists l.
  destruct (cell_facts D w (atoms_of s) l Hcell Hl) as (F1 & F2 & _).
  split; [exact Hl|]. split; [lra|]. split; [lra|].
  unfold outs_list, outputs in Heq. cbn [map] in Heq. injection Heq as E1 E2 _ _ _ _ _.
  split; [exact E1|]. rewrite E2. apply rho_im_forms. apply Rgt_not_eq. apply (wl_R_pos EF_R_pos). exact Hw.
Qed.

(* For every compound: the real and imaginary SLD that the model of D2O_sld reports at solute volume
   fraction 1 and D2O fraction f ARE the documented SLD of the compound with a fraction f of its
   labile hydrogens replaced by deuterium and the rest by natural hydrogen, at unchanged cell volume *)
Theorem D2O_sld_equals_substitution : forall D s density natural_density w x rho f lf,
  wl_pos w ->
  density_of_compound D s density natural_density = Some rho -> (0 < rho)%Q ->
  D2O_slds D s density natural_density w = Some x ->
  let d := atoms_of s in
  let dh := fst (substitute (nd_env D) d rho aH1 aH) in
  let dd := fst (substitute (nd_env D) d rho aH1 aD) in
  (0 < snd (substitute (nd_env D) d rho aH1 aH))%Q -> (0 < snd (substitute (nd_env D) d rho aH1 aD))%Q ->
  atoms_fine D (atoms_of (struct_of dh)) -> atoms_fine D (atoms_of (struct_of dd)) ->
  Q2R (rweight (e_mass (nd_env D)) d) <> 0 ->
  tab_cell D w (fst (substituted (nd_env D) d rho f)) = Some lf -> n_total lf <> 0 -> molar_mass lf <> 0 ->
  let rf := snd (substituted (nd_env D) d rho f) in
  let '(re, im, _) := D2O_sld x 1 f in
  ev re = rho_re (Q2R NAq) lf (Q2R rf) /\ ev im = rho_im' (Q2R NAq) lf (Q2R rf).
Proof.
  intros D s density natural_density w x rho f lf Hw Hrho Hpos H d dh dd Hrh Hrd FH FD HM Hlf Hnf Hmf rf.
  unfold D2O_slds in H.
  destruct (sld_at D (water aH) None (Some WATER_DENSITY) w) as [h2o|]; [|discriminate]. cbn [bind] in H.
  destruct (sld_at D (water aD) None (Some WATER_DENSITY) w) as [d2o|]; [|discriminate]. cbn [bind] in H.
  rewrite Hrho in H. cbn [bind] in H. fold d in H.
  destruct (substitute (nd_env D) d rho aH1 aH) as [dh0 rh] eqn:Eh.
  destruct (substitute (nd_env D) d rho aH1 aD) as [dd0 rd] eqn:Ed.
  cbn [fst snd] in *. subst dh dd.
  destruct (sld_at D (struct_of dh0) (Some rh) None w) as [hs|] eqn:EH; [|discriminate]. cbn [bind] in H.
  destruct (sld_at D (struct_of dd0) (Some rd) None w) as [ds|] eqn:ED; [|discriminate]. cbn [bind] in H.
  inversion H; subst x. clear H.
  destruct (sld_at_is_documented D (struct_of dh0) rh w hs Hw Hrh FH EH) as (lH & HlH & HnH & HmH & RH & IH).
  destruct (sld_at_is_documented D (struct_of dd0) rd w ds Hw Hrd FD ED) as (lD & HlD & HnD & HmD & RD & ID).
  pose proof (D2O_sld_meaning (mkSlds h2o d2o hs ds) 1 f) as Hm.
  destruct (D2O_sld (mkSlds h2o d2o hs ds) 1 f) as [[re im] inc]. destruct Hm as [Hre Him].
  cbn [x_D x_H x_D2O x_H2O] in Hre, Him.
  replace (Q2R 1) with 1 in Hre, Him by (unfold Q2R; cbn [Qnum Qden]; lra).
  rewrite solution_at_one in Hre, Him. rewrite Hre, Him, RH, RD, IH, ID.
  assert (HNA : Q2R NAq <> 0) by (apply Rgt_not_eq; exact NA_pos).
  assert (Hr : Q2R rho <> 0) by (apply Rgt_not_eq; apply Q2R_pos; exact Hpos).
  destruct (substituted_compound_is_mix D w d rho f dh0 rh dd0 rd lH lD lf (nodup_atoms_of s) Eh Ed HlH HlD Hlf
              HNA Hr HM HnH HmH HnD HmD Hnf Hmf) as [A B].
  split; symmetry; [exact A|exact B].
Qed.
