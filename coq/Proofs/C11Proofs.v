(* Proofs/C11Proofs.v — mixtures keep the requested mass / volume proportions and a consistent
   density (over exact rationals, for every list of components). *)
From Coq Require Import ZArith QArith String List Bool Lia Setoid.
From PT Require Import Str Dec Py Loaders Formula FormulaAlg FormulaMachine C02Proofs Mixture.
Import ListNotations.
Open Scope Q_scope.

Lemma mass_iadd : forall E f g, f_mass E (f_iadd f g) == f_mass E f + f_mass E g.
Proof.
  intros. rewrite !mass_structural. unfold f_iadd. simpl f_struct. apply fweight_app.
Qed.

Lemma mass_accumulate : forall E acc n f, f_mass E (accumulate acc n f) == f_mass E acc + n * f_mass E f.
Proof. intros. unfold accumulate. rewrite mass_iadd, mass_rmul. reflexivity. Qed.

Lemma cnt_accumulate : forall b acc n f,
  cnt_s b (f_struct (accumulate acc n f)) == cnt_s b (f_struct acc) + n * cnt_s b (f_struct f).
Proof. intros. unfold accumulate. rewrite iadd_cnt, rmul_cnt. reflexivity. Qed.

(* the loop "for f, q in pairs: result += w(f, q) * f" *)
Definition mix_loop (w : fobj * Q -> Q) (pairs : list (fobj * Q)) (acc : fobj) : fobj :=
  fold_left (fun acc p => accumulate acc (w p) (fst p)) pairs acc.

Definition Qsum (l : list Q) : Q := fold_right Qplus 0 l.

Lemma mass_mix_loop : forall E w pairs acc,
  f_mass E (mix_loop w pairs acc) == f_mass E acc + Qsum (map (fun p => w p * f_mass E (fst p)) pairs).
Proof.
  intros E w pairs. induction pairs as [|p r IH]; intro acc; simpl.
  - ring.
  - unfold mix_loop in *. simpl. rewrite IH. rewrite mass_accumulate. ring.
Qed.

Lemma cnt_mix_loop : forall b w pairs acc,
  cnt_s b (f_struct (mix_loop w pairs acc)) ==
  cnt_s b (f_struct acc) + Qsum (map (fun p => w p * cnt_s b (f_struct (fst p))) pairs).
Proof.
  intros b w pairs. induction pairs as [|p r IH]; intro acc; simpl.
  - ring.
  - unfold mix_loop in *. simpl. rewrite IH. rewrite cnt_accumulate. ring.
Qed.

Lemma empty_mass : forall E, f_mass E empty_formula == 0.
Proof. intro E. unfold f_mass, f_atoms, empty_formula, count_atoms, dweight. simpl. reflexivity. Qed.
Lemma empty_cnt : forall b, cnt_s b (f_struct empty_formula) == 0.
Proof. reflexivity. Qed.

(* ---------------------------------------------------------------- by weight *)
(* every component's mass in the mixture is its quantity over the common scale: masses are in
   the ratio of the quantities *)
Theorem weight_component_mass : forall E scale (f : fobj) q, ~ f_mass E f == 0 -> ~ scale == 0 ->
  (q / f_mass E f / scale) * f_mass E f == q / scale.
Proof. intros. field. split; assumption. Qed.

Theorem weight_total_mass : forall E scale pairs,
  (forall p, In p pairs -> ~ f_mass E (fst p) == 0) -> ~ scale == 0 ->
  f_mass E (mix_loop (fun p => snd p / f_mass E (fst p) / scale) pairs empty_formula)
  == Qsum (map snd pairs) / scale.
Proof.
  intros E scale pairs Hm Hs. rewrite mass_mix_loop, empty_mass.
  induction pairs as [|p r IH]; simpl.
  - unfold Qdiv. ring.
  - rewrite Qplus_0_l in *. rewrite weight_component_mass; [|apply Hm; left; reflexivity|assumption].
    assert (IH' : Qsum (map (fun p0 => snd p0 / f_mass E (fst p0) / scale * f_mass E (fst p0)) r) == Qsum (map snd r) / scale).
    { rewrite <- IH; [ring|]. intros p0 Hin. apply Hm. right. exact Hin. }
    rewrite IH'. field. assumption.
Qed.

(* atoms of the mixture: the weighted sum of the components' atoms *)
Theorem weight_atoms : forall b w pairs,
  cnt_s b (f_struct (mix_loop w pairs empty_formula)) ==
  Qsum (map (fun p => w p * cnt_s b (f_struct (fst p))) pairs).
Proof. intros. rewrite cnt_mix_loop, empty_cnt. ring. Qed.

(* density = total mass / total volume when all densities are known *)
Theorem weight_density : forall E scale pairs,
  (forall p, In p pairs -> ~ f_mass E (fst p) == 0) -> ~ scale == 0 ->
  ~ Qsum (map (fun p => snd p / dens0 (fst p)) pairs) == 0 ->
  let result := mix_loop (fun p => snd p / f_mass E (fst p) / scale) pairs empty_formula in
  let volume := Qsum (map (fun p => snd p / dens0 (fst p)) pairs) / scale in
  f_mass E result / volume == Qsum (map snd pairs) / Qsum (map (fun p => snd p / dens0 (fst p)) pairs).
Proof.
  intros E scale pairs Hm Hs Hv result volume. unfold result, volume.
  rewrite weight_total_mass by assumption. field. split; assumption.
Qed.

(* ---------------------------------------------------------------- by volume *)
Theorem volume_component_volume : forall E scale (f : fobj) q, ~ f_mass E f == 0 -> ~ scale == 0 -> ~ dens0 f == 0 ->
  (q * dens0 f / f_mass E f / scale) * f_mass E f / dens0 f == q / scale.
Proof. intros. field. repeat split; assumption. Qed.

Theorem volume_total_mass : forall E scale pairs,
  (forall p, In p pairs -> ~ f_mass E (fst p) == 0) -> ~ scale == 0 ->
  f_mass E (mix_loop (fun p => snd p * dens0 (fst p) / f_mass E (fst p) / scale) pairs empty_formula)
  == Qsum (map (fun p => snd p * dens0 (fst p)) pairs) / scale.
Proof.
  intros E scale pairs Hm Hs. rewrite mass_mix_loop, empty_mass.
  induction pairs as [|p r IH]; simpl.
  - unfold Qdiv. ring.
  - rewrite Qplus_0_l in *.
    assert (IH' : Qsum (map (fun p0 => snd p0 * dens0 (fst p0) / f_mass E (fst p0) / scale * f_mass E (fst p0)) r)
                  == Qsum (map (fun p0 => snd p0 * dens0 (fst p0)) r) / scale).
    { rewrite <- IH; [ring|]. intros p0 Hin. apply Hm. right. exact Hin. }
    rewrite IH'. field. split; [assumption|]. apply Hm. left. reflexivity.
Qed.

(* the density of a mixture by volume is the volume-weighted mean of the densities *)
Theorem volume_density : forall E scale pairs,
  (forall p, In p pairs -> ~ f_mass E (fst p) == 0) -> ~ scale == 0 -> ~ Qsum (map snd pairs) == 0 ->
  let result := mix_loop (fun p => snd p * dens0 (fst p) / f_mass E (fst p) / scale) pairs empty_formula in
  f_mass E result / (Qsum (map snd pairs) / scale)
  == Qsum (map (fun p => snd p * dens0 (fst p)) pairs) / Qsum (map snd pairs).
Proof.
  intros E scale pairs Hm Hs Hq result. unfold result.
  rewrite volume_total_mass by assumption. field. split; assumption.
Qed.

(* ---------------------------------------------------------------- zero quantities vanish *)
Theorem zero_vanishes_weight : forall E pairs f q, q <= 0 ->
  mix_by_weight_pairs E (pairs ++ [(f, q)])%list = mix_by_weight_pairs E pairs.
Proof.
  intros E pairs f q Hq. unfold mix_by_weight_pairs. rewrite filter_app. simpl.
  apply Qle_bool_iff in Hq. rewrite Hq. simpl. rewrite app_nil_r. reflexivity.
Qed.
Theorem zero_vanishes_volume : forall E pairs f q, q <= 0 ->
  mix_by_volume_pairs E (pairs ++ [(f, q)])%list = mix_by_volume_pairs E pairs.
Proof.
  intros E pairs f q Hq. unfold mix_by_volume_pairs. rewrite filter_app. simpl.
  apply Qle_bool_iff in Hq. rewrite Hq. simpl. rewrite app_nil_r. reflexivity.
Qed.

(* ---------------------------------------------------------------- independence of the formula unit *)
(* replacing a component f by k*f (k > 0) leaves its contribution w*f unchanged: the weight
   becomes w/k, because the mass scales by k *)
Theorem unit_scaling_weight : forall E b k (f : fobj) q scale, ~ k == 0 -> ~ f_mass E f == 0 -> ~ scale == 0 ->
  (q / f_mass E (f_rmul k f) / scale) * cnt_s b (f_struct (f_rmul k f))
  == (q / f_mass E f / scale) * cnt_s b (f_struct f).
Proof.
  intros E b k f q scale Hk Hm Hs. rewrite mass_rmul, rmul_cnt. field. repeat split; assumption.
Qed.

Theorem unit_scaling_volume : forall E b k (f : fobj) q rho scale, ~ k == 0 -> ~ f_mass E f == 0 -> ~ scale == 0 ->
  (q * rho / f_mass E (f_rmul k f) / scale) * cnt_s b (f_struct (f_rmul k f))
  == (q * rho / f_mass E f / scale) * cnt_s b (f_struct f).
Proof.
  intros E b k f q rho scale Hk Hm Hs. rewrite mass_rmul, rmul_cnt. field. repeat split; assumption.
Qed.

(* the smallest component has multiplier one *)
Lemma list_min_le : forall l x m, list_min l = Some m -> In x l -> m <= x.
Proof.
  intros [|y r] x m H Hin; [destruct Hin|]. simpl in H. inversion H; subst. clear H.
  revert y x Hin. induction r as [|z r IH]; intros y x Hin; simpl.
  - destruct Hin as [->|[]]. apply Qle_refl.
  - simpl in Hin. destruct Hin as [->|[->|Hin]].
    + eapply Qle_trans; [apply IH; left; reflexivity|]. unfold Qmin. destruct (Qle_bool x z) eqn:E; [apply Qle_refl|].
      apply Qlt_le_weak. apply Qnot_le_lt. intro Hc. apply Qle_bool_iff in Hc. congruence.
    + eapply Qle_trans; [apply IH; left; reflexivity|]. unfold Qmin. destruct (Qle_bool y x) eqn:E; [|apply Qle_refl].
      apply Qle_bool_iff. exact E.
    + apply IH. right. exact Hin.
Qed.

Lemma list_min_in : forall l m, list_min l = Some m -> In m l.
Proof.
  intros [|y r] m H; [discriminate|]. simpl in H. inversion H; subst. clear H.
  revert y. induction r as [|z r IH]; intro y; simpl; [left; reflexivity|].
  destruct (IH (Qmin y z)) as [Hq|Hq].
  - assert (Hc : Qmin y z = y \/ Qmin y z = z) by (unfold Qmin; destruct (Qle_bool y z); auto).
    destruct Hc as [Hc|Hc].
    + left. rewrite <- Hc at 1. exact Hq.
    + right. left. rewrite <- Hc at 1. exact Hq.
  - right. right. exact Hq.
Qed.
