(* Proofs/ActEvalSound.v — the BigZ-backed evaluator of Model/ActEval.v encloses the meaning
   (same argument as Analytic/IExpr.evalI_sound), and its sign verdicts are theorems about evalR. *)
From Coq Require Import Reals ZArith QArith Qreals List Bool Lra.
From Interval Require Import Specific_bigint Specific_ops Float_full Interval Xreal Basic.
From PT Require Import Dec IExpr ActEval.

Definition env_okB (ienv : nat -> IB.type) (env : nat -> R) : Prop :=
  forall n, contains (IB.convert (ienv n)) (Xreal (env n)).

Lemma widen_tiny_sound : forall prec ia e v,
  contains (IB.convert e) v -> contains (IB.convert (widen_tiny prec ia e)) v.
Proof.
  intros prec ia e v H. unfold widen_tiny.
  destruct (IB.sign_strict _); try exact H.
  apply IB.join_correct. left. apply IB.join_correct. left. exact H.
Qed.

Theorem evalB_sound : forall prec ienv env e, env_okB ienv env ->
  contains (IB.convert (evalB prec ienv e)) (evalX env e).
Proof.
  intros prec ienv env e Henv. induction e; cbn [evalB evalX].
  - apply Henv.
  - apply IB.div_correct; apply IB.fromZ_correct.
  - apply IB.pi_correct.
  - apply IB.add_correct; assumption.
  - apply IB.sub_correct; assumption.
  - apply IB.mul_correct; assumption.
  - apply IB.div_correct; assumption.
  - apply IB.neg_correct; assumption.
  - apply IB.abs_correct; assumption.
  - apply IB.sqrt_correct; assumption.
  - apply IB.sqr_correct; assumption.
  - apply widen_tiny_sound. apply IB.exp_correct; assumption.
  - apply IB.ln_correct; assumption.
  - apply IB.cos_correct; assumption.
  - apply IB.sin_correct; assumption.
  - apply (IB.power_int_correct prec n); assumption.
Qed.

Lemma no_env_okB : env_okB no_env_B no_env_R.
Proof. intro n. apply IB.fromZ_correct. Qed.

Lemma ln2_env_okB : forall prec, env_okB (ln2_env_B prec) ln2_env_R.
Proof.
  intros prec n. unfold ln2_env_B, ln2_env_R.
  pose proof (IB.ln_correct prec (IB.fromZ prec 2) (Xreal 2) (IB.fromZ_correct prec 2)) as H.
  simpl in H. unfold Xln' in H. destruct (is_positive_spec 2) as [_|Hn]; [exact H|]. exfalso. lra.
Qed.

Definition sgn_means (s : sgn) (x : R) : Prop :=
  match s with
  | SPos => (0 < x)%R
  | SNonneg => (0 <= x)%R
  | SNeg => (x < 0)%R
  | SUnknown => True
  end.

Lemma sign_interval_sound : forall prec ienv env e, env_okB ienv env ->
  let i := evalB prec ienv e in
  (IB.sign_strict i = Xgt -> (0 < evalR env e)%R) /\
  (IB.sign_strict i = Xlt -> (evalR env e < 0)%R) /\
  (IB.sign_large i = Xgt \/ IB.sign_large i = Xeq -> (0 <= evalR env e)%R) /\
  (IB.sign_large i = Xlt \/ IB.sign_large i = Xeq -> (evalR env e <= 0)%R).
Proof.
  intros prec ienv env e Henv i.
  pose proof (evalB_sound prec ienv env e Henv) as Hc. fold i in Hc.
  pose proof (IB.sign_strict_correct i) as Hs. pose proof (IB.sign_large_correct i) as Hl.
  repeat split.
  - intro E. rewrite E in Hs. destruct (Hs _ Hc) as [Hx Hp].
    rewrite (evalX_real env e _ Hx) in Hp. exact Hp.
  - intro E. rewrite E in Hs. destruct (Hs _ Hc) as [Hx Hp].
    rewrite (evalX_real env e _ Hx) in Hp. exact Hp.
  - intros [E|E]; rewrite E in Hl.
    + destruct (Hl _ Hc) as [Hx Hp]. rewrite (evalX_real env e _ Hx) in Hp. exact Hp.
    + pose proof (Hl _ Hc) as Hx. rewrite <- (evalX_real env e _ Hx). apply Rle_refl.
  - intros [E|E]; rewrite E in Hl.
    + destruct (Hl _ Hc) as [Hx Hp]. rewrite (evalX_real env e _ Hx) in Hp. exact Hp.
    + pose proof (Hl _ Hc) as Hx. rewrite <- (evalX_real env e _ Hx). apply Rle_refl.
Qed.

Theorem sign_at_sound : forall p e, sgn_means (sign_at p e) (evalR ln2_env_R e).
Proof.
  intros p e. unfold sign_at.
  destruct (sign_interval_sound (FB.PtoP p) (ln2_env_B (FB.PtoP p)) ln2_env_R e (ln2_env_okB _)) as (H1 & H2 & H3 & _).
  destruct (IB.sign_strict _) eqn:Es; simpl.
  - destruct (IB.sign_large _) eqn:El; simpl; auto.
  - apply H2; reflexivity.
  - apply H1; reflexivity.
  - destruct (IB.sign_large _) eqn:El; simpl; auto.
Qed.

Theorem sign_of_sound : forall e, sgn_means (sign_of e) (evalR ln2_env_R e).
Proof.
  intro e. unfold sign_of.
  pose proof (sign_at_sound 90 e). pose proof (sign_at_sound 240 e). pose proof (sign_at_sound 700 e).
  destruct (sign_at 90 e); auto; destruct (sign_at 240 e); auto.
Qed.

(* what a passed tolerance test means *)
Theorem slack_sound : forall tp py v scale fl,
  is_ge0 (sign_of (slack tp py v scale fl)) = true ->
  (Rabs (Q2R py - evalR ln2_env_R v) <= Q2R (D2Q 1 tp) * Rabs (evalR ln2_env_R scale) + Q2R fl)%R.
Proof.
  intros tp py v scale fl H. pose proof (sign_of_sound (slack tp py v scale fl)) as S.
  unfold slack in S. cbn [evalR] in S.
  destruct (sign_of _); simpl in H; try discriminate; simpl in S; lra.
Qed.

(* what a proved violation means *)
Theorem slack_violated_sound : forall tp py v scale fl,
  is_lt0 (sign_of (slack tp py v scale fl)) = true ->
  (Rabs (Q2R py - evalR ln2_env_R v) > Q2R (D2Q 1 tp) * Rabs (evalR ln2_env_R scale) + Q2R fl)%R.
Proof.
  intros tp py v scale fl H. pose proof (sign_of_sound (slack tp py v scale fl)) as S.
  unfold slack in S. cbn [evalR] in S.
  destruct (sign_of _); simpl in H; try discriminate; simpl in S; lra.
Qed.
