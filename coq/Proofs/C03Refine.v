(* Proofs/C03Refine.v — the code-shaped model of neutron_scattering (Model/NsfCalc.v) refines the
   documented equations (Spec/Neutron.v) on the tabulated data (Spec/NeutronData.v): all seven
   outputs are equal as real numbers.  This is where a wrong power of ten, a sum normalised by the
   wrong count, b_c used instead of b_c_complex, or a different interpolation rule fails to prove. *)
From Coq Require Import Reals ZArith QArith Qreals Qabs String List Bool Lra Lia FMapPositive.
From PT Require Import Str Dec Loaders Formula AtomEnv Nsf C07Check C07Sweep IExpr Neutron NsfCalc NeutronData C03Spec C03Data.
Import ListNotations.
Open Scope R_scope.

Notation ev := (evalR no_env_R).

(* ------------------------------------------------------------------ regenerated constants *)
(* the source expressions of nsf.py are the documented constants *)
Lemma FOURPI_100_is : FOURPI_100 = EDiv (EMul (ECst 4) EPi) (ECst 100).
Proof. vm_compute. reflexivity. Qed.
Lemma EF_is_spec_c : Qeq_bool EF EF_spec = true.
Proof. vm_compute. reflexivity. Qed.
Lemma VF_is_spec_c : Qeq_bool VF VF_spec = true.
Proof. vm_compute. reflexivity. Qed.
Lemma EF_is_spec : (EF == EF_spec)%Q.
Proof. apply Qeq_bool_iff. exact EF_is_spec_c. Qed.
Lemma VF_is_spec : (VF == VF_spec)%Q.
Proof. apply Qeq_bool_iff. exact VF_is_spec_c. Qed.
Lemma EF_spec_pos_c : Qlt_bool 0 EF_spec = true.
Proof. vm_compute. reflexivity. Qed.
Lemma NAq_pos_c : Qlt_bool 0 NAq = true.
Proof. vm_compute. reflexivity. Qed.
Lemma ABS_WL_is_c : Qeq_bool ABS_WL (1798 # 1000) = true.
Proof. vm_compute. reflexivity. Qed.

Lemma Q2R_EF : Q2R EF = EF_R.
Proof. apply Qeq_eqR. exact EF_is_spec. Qed.
Lemma EF_R_pos : 0 < EF_R.
Proof.
  unfold EF_R. pose proof EF_spec_pos_c as H. apply Qlt_bool_Rlt in H.
  rewrite RMicromega.Q2R_0 in H. exact H.
Qed.
Lemma NA_pos : 0 < Q2R NAq.
Proof. pose proof NAq_pos_c as H. apply Qlt_bool_Rlt in H. rewrite RMicromega.Q2R_0 in H. exact H. Qed.

Lemma ev_FOURPI_100 : ev FOURPI_100 = 4 * PI / 100.
Proof.
  rewrite FOURPI_100_is. cbn [evalR]. unfold Q2R. cbn [Qnum Qden]. field.
Qed.

(* ------------------------------------------------------------------ _calculate_scattering over R *)
Definition calc_R (n lam bre bim ss : R) : list R :=
  let sigma_c := 4 * PI / 100 * (sqrt (bre * bre + bim * bim) * sqrt (bre * bre + bim * bim)) in
  let sigma_i := Rmax (ss - sigma_c) 0 in
  [10 * n * bre; Rabs (10 * n * bim); n * sqrt (sigma_i / (4 * PI / 100)) * 10;
   n * sigma_c; n * (2000 * Rabs bim * lam); n * sigma_i;
   1 / (n * (2000 * Rabs bim * lam) + n * ss)].

Lemma ev_maximum0 : forall x, ev (maximum0 x) = Rmax (ev x) 0.
Proof. intro x. unfold maximum0. cbn [evalR]. rewrite ev_ez. apply Rmax0_abs. Qed.

Lemma ev_cabs2 : forall re im,
  ev (cabs2 re im) = sqrt (ev re * ev re + ev im * ev im) * sqrt (ev re * ev re + ev im * ev im).
Proof. intros. reflexivity. Qed.

Lemma ev_calculate_scattering : forall N lam bre bim ss,
  map ev (outs_list (calculate_scattering N lam bre bim ss)) = calc_R (ev N) (ev lam) (ev bre) (ev bim) (ev ss).
Proof.
  intros. unfold calculate_scattering, outs_list, calc_R.
  cbn [o_re o_im o_inc o_coh o_abs o_ixs o_pen map].
  repeat (f_equal; [|]); cbn [evalR]; rewrite ?ev_maximum0; cbn [evalR];
    rewrite ?ev_FOURPI_100, ?ev_ez, ?ev_cabs2; reflexivity.
Qed.

(* ------------------------------------------------------------------ sums *)
Lemma sum_ext : forall (f g : comp -> R) l, (forall c, f c = g c) -> sum f l = sum g l.
Proof. intros f g l H. induction l as [|c r IH]; simpl; [reflexivity|]. rewrite H, IH. reflexivity. Qed.

Lemma ev_acc_sum_gen : forall (f : compE -> expr) (g : comp -> R) l acc,
  (forall c, ev (f c) = g (evalC c)) ->
  ev (fold_left (fun acc c => EAdd acc (f c)) l acc) = ev acc + sum g (map evalC l).
Proof.
  intros f g l. induction l as [|c r IH]; intros acc H; cbn [fold_left map sum fold_right].
  - ring.
  - rewrite IH by exact H. cbn [evalR]. rewrite H. unfold sum. ring.
Qed.
Lemma ev_acc_sum : forall (f : compE -> expr) (g : comp -> R) l,
  (forall c, ev (f c) = g (evalC c)) -> ev (acc_sum f l) = sum g (map evalC l).
Proof.
  intros f g l H. unfold acc_sum. rewrite (ev_acc_sum_gen f g l (ez 0) H). rewrite ev_ez. ring.
Qed.

Lemma sum_pos : forall (f : comp -> R) l, l <> [] -> (forall c, In c l -> 0 < f c) -> 0 < sum f l.
Proof.
  intros f l Hne H. destruct l as [|c r]; [congruence|]. clear Hne.
  revert c H. induction r as [|c' r IH]; intros c H.
  - simpl. assert (0 < f c) by (apply H; left; reflexivity). lra.
  - change (0 < f c + sum f (c' :: r)). assert (0 < f c) by (apply H; left; reflexivity).
    assert (0 < sum f (c' :: r)) by (apply IH; intros x Hx; apply H; right; exact Hx). lra.
Qed.
Lemma sum_nonpos : forall (f : comp -> R) l, (forall c, In c l -> f c <= 0) -> sum f l <= 0.
Proof.
  intros f l H. induction l as [|c r IH]; simpl; [lra|].
  assert (f c <= 0) by (apply H; left; reflexivity).
  assert (sum f r <= 0) by (apply IH; intros x Hx; apply H; right; exact Hx). lra.
Qed.

(* ------------------------------------------------------------------ the algebra *)
(* the model's number density (molar mass summed as m*n, division by N_A, times 1e24) is the
   documented one (m = sum n m, V = m/rho . 1/N_A . (10^8)^3, N = sum n / V) *)
Definition model_N (NA rho : R) (l : list comp) : R :=
  n_total l / (sum (fun c => c_m c * c_n c) l / rho / NA * Q2R E24).

Lemma Q2R_E24 : Q2R E24 = 100000000 * 100000000 * 100000000.
Proof. unfold E24, Q2R, inject_Z. cbn [Qnum Qden]. rewrite <- !mult_IZR. replace (10 ^ 24)%Z with (100000000 * 100000000 * 100000000)%Z by reflexivity. rewrite !mult_IZR. lra. Qed.

Lemma model_N_is : forall NA rho l, NA <> 0 -> rho <> 0 -> molar_mass l <> 0 ->
  model_N NA rho l = number_density NA l rho.
Proof.
  intros NA rho l HNA Hrho Hm. unfold model_N, number_density, cell_volume, A_per_cm.
  rewrite Q2R_E24.
  replace (sum (fun c => c_m c * c_n c) l) with (molar_mass l)
    by (unfold molar_mass; apply sum_ext; intro c; ring).
  field. repeat split; assumption.
Qed.

Theorem calc_is_spec : forall NA l rho lam,
  0 < NA -> 0 < rho -> 0 < lam -> 0 < n_total l -> 0 < molar_mass l ->
  sum (fun c => c_n c * c_im c) l <= 0 ->
  calc_R (model_N NA rho l) lam (b_re l) (b_im l) (sigma_s l) = outputs NA l rho lam.
Proof.
  intros NA l rho lam HNA Hrho Hlam Hn Hm Him.
  rewrite model_N_is by lra.
  set (N := number_density NA l rho).
  assert (HN : 0 < N).
  { unfold N, number_density, cell_volume, A_per_cm.
    apply Rdiv_lt_0_compat; [exact Hn|].
    apply Rmult_lt_0_compat; [|lra]. apply Rmult_lt_0_compat.
    - apply Rdiv_lt_0_compat; assumption.
    - apply Rdiv_lt_0_compat; lra. }
  assert (Hbim : b_im l <= 0).
  { unfold b_im. unfold Rdiv. rewrite <- (Rmult_0_l (/ n_total l)).
    apply Rmult_le_compat_r; [|exact Him]. left. apply Rinv_0_lt_compat. exact Hn. }
  assert (Hpi : 0 < PI) by apply PI_RGT_0.
  assert (Habs : Rabs (b_im l) = - b_im l) by (apply Rabs_left1; exact Hbim).
  assert (Hsc : 4 * PI / 100 * (sqrt (b_re l * b_re l + b_im l * b_im l) * sqrt (b_re l * b_re l + b_im l * b_im l))
                = sigma_c l).
  { rewrite sqrt_sqrt by nra. unfold sigma_c, fm2_per_barn. field. }
  unfold calc_R, outputs. rewrite Hsc. fold (sigma_i l).
  assert (Hsa : sigma_a l lam = 2000 * Rabs (b_im l) * lam).
  { rewrite Habs, sigma_a_scales_with_wavelength by lra. ring. }
  repeat (f_equal; [|]).
  - unfold rho_re. fold N. unfold A_per_fm, micro. field.
  - rewrite rho_im_forms by lra. unfold rho_im'. fold N. unfold A_per_fm, micro.
    rewrite Rabs_left1; [field|]. nra.
  - unfold rho_inc. fold N. unfold A_per_fm, micro, fm2_per_barn.
    replace (sigma_i l / (4 * PI / 100)) with (sigma_i l / (4 * PI) * 100) by (field; lra). field.
  - unfold Sigma_coh. fold N. unfold A2_per_barn, A_per_cm. field.
  - unfold Sigma_abs. fold N. rewrite Hsa. unfold A2_per_barn, A_per_cm. field.
  - unfold Sigma_inc. fold N. unfold A2_per_barn, A_per_cm. field.
  - unfold t_u, Sigma_s, Sigma_abs. fold N. rewrite Hsa. unfold A2_per_barn, A_per_cm.
    apply (f_equal (fun x => [1 / x])). field.
Qed.

(* ------------------------------------------------------------------ what the proofs need of a record *)
Definition rows_posb (rows : list erow) : bool := forallb (fun r => Qlt_bool 0 (fst (fst r))) rows.
Definition rows_im_nonposb (rows : list erow) : bool := forallb (fun r => Qle_bool (snd r) 0) rows.
Definition tab_okb (rows : list erow) : bool :=
  (negb (Nat.eqb (length rows) 0) && rows_posb rows && rows_im_nonposb rows)%bool.
Definition abs_nonnegb (r : nrec) : bool :=
  match r_abs r with Some ab => Qle_bool 0 ab | None => false end.
Definition nonnegb (o : option Q) : bool := match o with Some q => Qle_bool 0 q | None => false end.

(* the record (Z, A) serves: complex b_c consistent with b_c and absorption (C07), absorption >= 0;
   or a non-empty table with positive energies and Im b <= 0; or (natural Lu) the same for Lu-175,
   Lu-176 and non-negative abundances *)
Definition rec_okb (D : ndata) (z a : Z) : bool :=
  let r := nd_rec D z a in
  match r_tab r with
  | None => (bcc_ok r && abs_nonnegb r)%bool
  | Some (ETab rows) => tab_okb rows
  | Some ELuNat =>
      let r175 := nd_rec D (nd_lu D) 175 in
      (bcc_ok r175 && abs_nonnegb r175
       && match r_tab (nd_rec D (nd_lu D) 176) with Some (ETab rows) => tab_okb rows | _ => false end
       && nonnegb (nd_abund D (nd_lu D) 175) && nonnegb (nd_abund D (nd_lu D) 176))%bool
  end.

Lemma rows_posb_ok : forall rows, rows_posb rows = true -> rows_pos rows.
Proof.
  intros rows H. unfold rows_posb in H. rewrite forallb_forall in H. apply Forall_forall.
  intros r Hin. specialize (H r Hin). apply Qlt_bool_Rlt in H. rewrite RMicromega.Q2R_0 in H.
  apply Q2R_pos_inv. exact H.
Qed.
Lemma tab_okb_ok : forall rows, tab_okb rows = true ->
  rows <> [] /\ rows_pos rows /\ (forall r, In r rows -> Q2R (snd r) <= 0).
Proof.
  intros rows H. unfold tab_okb in H. apply andb_prop in H. destruct H as [H H3].
  apply andb_prop in H. destruct H as [H1 H2]. repeat split.
  - intro E. subst rows. discriminate H1.
  - apply rows_posb_ok. exact H2.
  - intros r Hin. unfold rows_im_nonposb in H3. rewrite forallb_forall in H3. specialize (H3 r Hin).
    apply Qle_bool_Rle in H3. rewrite RMicromega.Q2R_0 in H3. exact H3.
Qed.

(* the imaginary part derived by the loader is the documented one *)
Lemma Q2R_2000_lambda0 : forall ab im, (im == - ab / (2000 * (1798 # 1000)))%Q ->
  Q2R im = im_of_absorption (Q2R ab).
Proof.
  intros ab im H. rewrite (Qeq_eqR _ _ H). unfold im_of_absorption, lambda_0.
  rewrite Q2R_div', Q2R_opp, Q2R_mult.
  - replace (Q2R 2000) with 2000 by (unfold Q2R; cbn [Qnum Qden]; lra).
    replace (Q2R (1798 # 1000)) with (1798 / 1000) by (unfold Q2R; cbn [Qnum Qden]; lra). field.
  - rewrite Q2R_mult. replace (Q2R 2000) with 2000 by (unfold Q2R; cbn [Qnum Qden]; lra).
    replace (Q2R (1798 # 1000)) with (1798 / 1000) by (unfold Q2R; cbn [Qnum Qden]; lra). lra.
Qed.

Lemma ev_num_expr : forall n, ev (num_expr n) = num_R n.
Proof.
  intros [q|q|c]; cbn [num_expr num_R evalR]; try reflexivity. rewrite ev_FOURPI_100. reflexivity.
Qed.
Lemma num_same_R : forall b re, num_same (Some b) (Some re) -> num_R b = num_R re.
Proof.
  intros [q|q|c] [q'|q'|c'] H; cbn [num_same] in H; try contradiction; cbn [num_R];
    rewrite (Qeq_eqR _ _ H); reflexivity.
Qed.

(* ------------------------------------------------------------------ numpy.interp on the table *)
Section ModelInterp.
  Variable w : wl.
  Hypothesis Hw : wl_pos w.
  Let X := wl_R w.

  Lemma Q2R_wl_en : Q2R (wl_en w) = Q2R (spec_key w).
  Proof.
    destruct w as [q|e]; cbn [wl_en spec_key]; [|reflexivity].
    apply Qeq_eqR. rewrite EF_is_spec. reflexivity.
  Qed.

  Lemma ev_wl_expr : ev (wl_expr w) = X.
  Proof.
    unfold X. destruct w as [q|e]; cbn [wl_expr wl_R]; [reflexivity|].
    unfold neutron_wavelength_E. cbn [evalR]. rewrite !ev_cq, Q2R_EF. reflexivity.
  Qed.
  Lemma ev_node_expr : forall e, ev (node_expr e) = node_x_R e.
  Proof.
    intro e. unfold node_expr, node_x_R. cbn [evalR]. rewrite !ev_cq, ev_ez, Q2R_EF.
    f_equal. f_equal. ring.
  Qed.

  Lemma Q2R_e1000 : forall e, Q2R (e * 1000) = 1000 * Q2R e.
  Proof. intro e. rewrite Q2R_mult. replace (Q2R 1000) with 1000 by (unfold Q2R; cbn [Qnum Qden]; lra). ring. Qed.

  Lemma lt_node_ok : forall e, (0 < e)%Q -> (lt_node (wl_en w) e = true <-> X < node_x_R e).
  Proof.
    intros e He. unfold lt_node. rewrite Qlt_bool_Rlt, Q2R_e1000, Q2R_wl_en.
    unfold X. rewrite (wl_R_key EF_R_pos w Hw). unfold node_x_R.
    symmetry. apply sqrt_div_lt; [exact EF_R_pos|apply (key_pos EF_R_pos); exact Hw|].
    apply Q2R_pos in He. lra.
  Qed.
  Lemma le_node_ok : forall e, (0 < e)%Q -> (le_node (wl_en w) e = true <-> X <= node_x_R e).
  Proof.
    intros e He. unfold le_node. rewrite Qle_bool_Rle, Q2R_e1000, Q2R_wl_en.
    unfold X. rewrite (wl_R_key EF_R_pos w Hw). unfold node_x_R.
    symmetry. apply sqrt_div_le; [exact EF_R_pos|apply (key_pos EF_R_pos); exact Hw|].
    apply Q2R_pos in He. lra.
  Qed.

  Lemma ev_lin : forall x x0 x1 y0 y1,
    ev (lin x x0 x1 y0 y1) = Q2R y0 + (Q2R y1 - Q2R y0) * ((ev x - ev x0) / (ev x1 - ev x0)).
  Proof. intros. unfold lin. cbn [evalR]. rewrite !ev_cq. unfold Rdiv. ring. Qed.

  Lemma locate_from_sound : forall rest e0 re0 im0, rows_pos rest ->
    let s := locate_from (wl_en w) e0 re0 im0 rest in
    ev (seg_re (wl_expr w) s) = interp_from X (node_x_R e0) (Q2R re0) (re_nodes_R rest) /\
    ev (seg_im (wl_expr w) s) = interp_from X (node_x_R e0) (Q2R im0) (im_nodes_R rest).
  Proof.
    induction rest as [|[[e1 re1] im1] r IH]; intros e0 re0 im0 Hp; cbn zeta.
    - cbn [locate_from seg_re seg_im re_nodes_R im_nodes_R map interp_from]. split; reflexivity.
    - inversion Hp as [|? ? H1 H2]; subst. cbn [fst] in H1.
      cbn [locate_from re_nodes_R im_nodes_R map interp_from].
      pose proof (lt_node_ok e1 H1) as Hlt.
      destruct (lt_node (wl_en w) e1) eqn:E.
      + destruct (Rlt_dec X (node_x_R e1)) as [H|H]; [|exfalso; apply H; apply Hlt; reflexivity].
        cbn [seg_re seg_im]. rewrite !ev_lin, ev_wl_expr, !ev_node_expr. split; reflexivity.
      + destruct (Rlt_dec X (node_x_R e1)) as [H|H]; [apply Hlt in H; congruence|].
        apply (IH e1 re1 im1 H2).
  Qed.

  Theorem locate_sound : forall rows s, rows_pos rows -> locate (wl_en w) rows = Some s ->
    ev (seg_re (wl_expr w) s) = interp X (re_nodes_R rows) /\
    ev (seg_im (wl_expr w) s) = interp X (im_nodes_R rows).
  Proof.
    intros [|[[e0 re0] im0] r] s Hp H; [discriminate|].
    inversion Hp as [|? ? H1 H2]; subst. cbn [fst] in H1.
    cbn [locate] in H. inversion H; subst s. clear H.
    cbn [re_nodes_R im_nodes_R map interp].
    pose proof (le_node_ok e0 H1) as Hle.
    destruct (le_node (wl_en w) e0) eqn:E.
    - destruct (Rle_dec X (node_x_R e0)) as [H|H]; [|exfalso; apply H; apply Hle; reflexivity].
      split; reflexivity.
    - destruct (Rle_dec X (node_x_R e0)) as [H|H]; [apply Hle in H; congruence|].
      apply (locate_from_sound r e0 re0 im0 H2).
  Qed.
End ModelInterp.
