(* Proofs/C03Refine.v — the code-shaped model of neutron_scattering (Model/NsfCalc.v) refines the
   documented equations (Spec/Neutron.v) on the tabulated data (Spec/NeutronData.v): all seven
   outputs are equal as real numbers.  This is where a wrong power of ten, a sum normalised by the
   wrong count, b_c used instead of b_c_complex, or a different interpolation rule fails to prove. *)
From Coq Require Import Reals ZArith QArith Qreals Qabs String List Bool Lra Lia FMapPositive.
From PT Require Import Str Dec Loaders Formula AtomEnv Nsf C07Check C07Sweep IExpr Neutron NsfCalc NeutronData C03Spec C03Data.
Import ListNotations.
Open Scope R_scope.

Notation ev := (evalR no_env_R).

(* ------------------------------------------------------------------ regenerated constants *)
(* the source expressions of nsf.py are the documented constants *)
Lemma FOURPI_100_is : FOURPI_100 = EDiv (EMul (ECst 4) EPi) (ECst 100).
Proof. vm_compute. reflexivity. Qed.
Lemma EF_is_spec_c : Qeq_bool EF EF_spec = true.
Proof. vm_compute. reflexivity. Qed.
Lemma VF_is_spec_c : Qeq_bool VF VF_spec = true.
Proof. vm_compute. reflexivity. Qed.
Lemma EF_is_spec : (EF == EF_spec)%Q.
Proof. apply Qeq_bool_iff. exact EF_is_spec_c. Qed.
Lemma VF_is_spec : (VF == VF_spec)%Q.
Proof. apply Qeq_bool_iff. exact VF_is_spec_c. Qed.
Lemma EF_spec_pos_c : Qlt_bool 0 EF_spec = true.
Proof. vm_compute. reflexivity. Qed.
Lemma NAq_pos_c : Qlt_bool 0 NAq = true.
Proof. vm_compute. reflexivity. Qed.
Lemma ABS_WL_is_c : Qeq_bool ABS_WL (1798 # 1000) = true.
Proof. vm_compute. reflexivity. Qed.

Lemma Q2R_EF : Q2R EF = EF_R.
Proof. apply Qeq_eqR. exact EF_is_spec. Qed.
Lemma EF_R_pos : 0 < EF_R.
Proof.
  unfold EF_R. pose proof EF_spec_pos_c as H. apply Qlt_bool_Rlt in H.
  rewrite RMicromega.Q2R_0 in H. exact H.
Qed.
Lemma NA_pos : 0 < Q2R NAq.
Proof. pose proof NAq_pos_c as H. apply Qlt_bool_Rlt in H. rewrite RMicromega.Q2R_0 in H. exact H. Qed.

Lemma ev_FOURPI_100 : ev FOURPI_100 = 4 * PI / 100.
Proof.
  rewrite FOURPI_100_is. cbn [evalR]. unfold Q2R. cbn [Qnum Qden]. field.
Qed.

(* ------------------------------------------------------------------ _calculate_scattering over R *)
Definition calc_R (n lam bre bim ss : R) : list R :=
  let sigma_c := 4 * PI / 100 * (sqrt (bre * bre + bim * bim) * sqrt (bre * bre + bim * bim)) in
  let sigma_i := Rmax (ss - sigma_c) 0 in
  [10 * n * bre; Rabs (10 * n * bim); n * sqrt (sigma_i / (4 * PI / 100)) * 10;
   n * sigma_c; n * (2000 * Rabs bim * lam); n * sigma_i;
   1 / (n * (2000 * Rabs bim * lam) + n * ss)].

Lemma ev_maximum0 : forall x, ev (maximum0 x) = Rmax (ev x) 0.
Proof. intro x. unfold maximum0. cbn [evalR]. rewrite ev_ez. apply Rmax0_abs. Qed.

Lemma ev_cabs2 : forall re im,
  ev (cabs2 re im) = sqrt (ev re * ev re + ev im * ev im) * sqrt (ev re * ev re + ev im * ev im).
Proof. intros. reflexivity. Qed.

Lemma ev_calculate_scattering : forall N lam bre bim ss,
  map ev (outs_list (calculate_scattering N lam bre bim ss)) = calc_R (ev N) (ev lam) (ev bre) (ev bim) (ev ss).
Proof.
  intros. unfold calculate_scattering, outs_list, calc_R.
  cbn [o_re o_im o_inc o_coh o_abs o_ixs o_pen map].
  repeat (f_equal; [|]); cbn [evalR]; rewrite ?ev_maximum0; cbn [evalR];
    rewrite ?ev_FOURPI_100, ?ev_ez, ?ev_cabs2; reflexivity.
Qed.

(* ------------------------------------------------------------------ sums *)
Lemma sum_ext : forall (f g : comp -> R) l, (forall c, f c = g c) -> sum f l = sum g l.
Proof. intros f g l H. induction l as [|c r IH]; simpl; [reflexivity|]. rewrite H, IH. reflexivity. Qed.

Lemma ev_acc_sum_gen : forall (f : compE -> expr) (g : comp -> R) l acc,
  (forall c, ev (f c) = g (evalC c)) ->
  ev (fold_left (fun acc c => EAdd acc (f c)) l acc) = ev acc + sum g (map evalC l).
Proof.
  intros f g l. induction l as [|c r IH]; intros acc H; cbn [fold_left map sum fold_right].
  - ring.
  - rewrite IH by exact H. cbn [evalR]. rewrite H. unfold sum. ring.
Qed.
Lemma ev_acc_sum : forall (f : compE -> expr) (g : comp -> R) l,
  (forall c, ev (f c) = g (evalC c)) -> ev (acc_sum f l) = sum g (map evalC l).
Proof.
  intros f g l H. unfold acc_sum. rewrite (ev_acc_sum_gen f g l (ez 0) H). rewrite ev_ez. ring.
Qed.

Lemma sum_pos : forall (f : comp -> R) l, l <> [] -> (forall c, In c l -> 0 < f c) -> 0 < sum f l.
Proof.
  intros f l Hne H. destruct l as [|c r]; [congruence|]. clear Hne.
  revert c H. induction r as [|c' r IH]; intros c H.
  - simpl. assert (0 < f c) by (apply H; left; reflexivity). lra.
  - change (0 < f c + sum f (c' :: r)). assert (0 < f c) by (apply H; left; reflexivity).
    assert (0 < sum f (c' :: r)) by (apply IH; intros x Hx; apply H; right; exact Hx). lra.
Qed.
Lemma sum_nonpos : forall (f : comp -> R) l, (forall c, In c l -> f c <= 0) -> sum f l <= 0.
Proof.
  intros f l H. induction l as [|c r IH]; simpl; [lra|].
  assert (f c <= 0) by (apply H; left; reflexivity).
  assert (sum f r <= 0) by (apply IH; intros x Hx; apply H; right; exact Hx). lra.
Qed.

(* ------------------------------------------------------------------ the algebra *)
(* the model's number density (molar mass summed as m*n, division by N_A, times 1e24) is the
   documented one (m = sum n m, V = m/rho . 1/N_A . (10^8)^3, N = sum n / V) *)
Definition model_N (NA rho : R) (l : list comp) : R :=
  n_total l / (sum (fun c => c_m c * c_n c) l / rho / NA * Q2R E24).

Lemma Q2R_E24 : Q2R E24 = 100000000 * 100000000 * 100000000.
Proof. unfold E24, Q2R, inject_Z. cbn [Qnum Qden]. rewrite <- !mult_IZR. replace (10 ^ 24)%Z with (100000000 * 100000000 * 100000000)%Z by reflexivity. rewrite !mult_IZR. lra. Qed.

Lemma model_N_is : forall NA rho l, NA <> 0 -> rho <> 0 -> molar_mass l <> 0 ->
  model_N NA rho l = number_density NA l rho.
Proof.
  intros NA rho l HNA Hrho Hm. unfold model_N, number_density, cell_volume, A_per_cm.
  rewrite Q2R_E24.
  replace (sum (fun c => c_m c * c_n c) l) with (molar_mass l)
    by (unfold molar_mass; apply sum_ext; intro c; ring).
  field. repeat split; assumption.
Qed.

Theorem calc_is_spec : forall NA l rho lam,
  0 < NA -> 0 < rho -> 0 < lam -> 0 < n_total l -> 0 < molar_mass l ->
  sum (fun c => c_n c * c_im c) l <= 0 ->
  calc_R (model_N NA rho l) lam (b_re l) (b_im l) (sigma_s l) = outputs NA l rho lam.
Proof.
  intros NA l rho lam HNA Hrho Hlam Hn Hm Him.
  rewrite model_N_is by lra.
  set (N := number_density NA l rho).
  assert (HN : 0 < N).
  { unfold N, number_density, cell_volume, A_per_cm.
    apply Rdiv_lt_0_compat; [exact Hn|].
    apply Rmult_lt_0_compat; [|lra]. apply Rmult_lt_0_compat.
    - apply Rdiv_lt_0_compat; assumption.
    - apply Rdiv_lt_0_compat; lra. }
  assert (Hbim : b_im l <= 0).
  { unfold b_im. unfold Rdiv. rewrite <- (Rmult_0_l (/ n_total l)).
    apply Rmult_le_compat_r; [|exact Him]. left. apply Rinv_0_lt_compat. exact Hn. }
  assert (Hpi : 0 < PI) by apply PI_RGT_0.
  assert (Habs : Rabs (b_im l) = - b_im l) by (apply Rabs_left1; exact Hbim).
  assert (Hsc : 4 * PI / 100 * (sqrt (b_re l * b_re l + b_im l * b_im l) * sqrt (b_re l * b_re l + b_im l * b_im l))
                = sigma_c l).
  { rewrite sqrt_sqrt by nra. unfold sigma_c, fm2_per_barn. field. }
  unfold calc_R, outputs. rewrite Hsc. fold (sigma_i l).
  assert (Hsa : sigma_a l lam = 2000 * Rabs (b_im l) * lam).
  { rewrite Habs, sigma_a_scales_with_wavelength by lra. ring. }
  repeat (f_equal; [|]).
  - unfold rho_re. fold N. unfold A_per_fm, micro. field.
  - rewrite rho_im_forms by lra. unfold rho_im'. fold N. unfold A_per_fm, micro.
    rewrite Rabs_left1; [field|]. nra.
  - unfold rho_inc. fold N. unfold A_per_fm, micro, fm2_per_barn.
    replace (sigma_i l / (4 * PI / 100)) with (sigma_i l / (4 * PI) * 100) by (field; lra). field.
  - unfold Sigma_coh. fold N. unfold A2_per_barn, A_per_cm. field.
  - unfold Sigma_abs. fold N. rewrite Hsa. unfold A2_per_barn, A_per_cm. field.
  - unfold Sigma_inc. fold N. unfold A2_per_barn, A_per_cm. field.
  - unfold t_u, Sigma_s, Sigma_abs. fold N. rewrite Hsa. unfold A2_per_barn, A_per_cm.
    apply (f_equal (fun x => [1 / x])). field.
Qed.

(* ------------------------------------------------------------------ what the proofs need of a record *)
Definition rows_posb (rows : list erow) : bool := forallb (fun r => Qlt_bool 0 (fst (fst r))) rows.
Definition rows_im_nonposb (rows : list erow) : bool := forallb (fun r => Qle_bool (snd r) 0) rows.
Definition tab_okb (rows : list erow) : bool :=
  (negb (Nat.eqb (length rows) 0) && rows_posb rows && rows_im_nonposb rows)%bool.
Definition abs_nonnegb (r : nrec) : bool :=
  match r_abs r with Some ab => Qle_bool 0 ab | None => false end.
Definition nonnegb (o : option Q) : bool := match o with Some q => Qle_bool 0 q | None => false end.

(* the record (Z, A) serves: complex b_c consistent with b_c and absorption (C07), absorption >= 0;
   or a non-empty table with positive energies and Im b <= 0; or (natural Lu) the same for Lu-175,
   Lu-176 and non-negative abundances *)
Definition tot_nonnegb (r : nrec) : bool :=
  match r_tot r with
  | Some (NRead q) | Some (NCalc q) => Qle_bool 0 q
  | Some (NSqrt4pi _) => true
  | None => false
  end.
Definition rec_okb_r (D : ndata) (r : nrec) : bool :=
  match r_tab r with
  | None => (bcc_ok r && abs_nonnegb r && tot_nonnegb r)%bool
  | Some (ETab rows) => tab_okb rows
  | Some ELuNat =>
      let r175 := nd_rec D (nd_lu D) 175 in
      (bcc_ok r175 && abs_nonnegb r175
       && match r_tab (nd_rec D (nd_lu D) 176) with Some (ETab rows) => tab_okb rows | _ => false end
       && nonnegb (nd_abund D (nd_lu D) 175) && nonnegb (nd_abund D (nd_lu D) 176))%bool
  end.
Definition rec_okb (D : ndata) (z a : Z) : bool := rec_okb_r D (nd_rec D z a).

Lemma rows_posb_ok : forall rows, rows_posb rows = true -> rows_pos rows.
Proof.
  intros rows H. unfold rows_posb in H. rewrite forallb_forall in H. apply Forall_forall.
  intros r Hin. specialize (H r Hin). apply Qlt_bool_Rlt in H. rewrite RMicromega.Q2R_0 in H.
  apply Q2R_pos_inv. exact H.
Qed.
Lemma tab_okb_ok : forall rows, tab_okb rows = true ->
  rows <> [] /\ rows_pos rows /\ (forall r, In r rows -> Q2R (snd r) <= 0).
Proof.
  intros rows H. unfold tab_okb in H. apply andb_prop in H. destruct H as [H H3].
  apply andb_prop in H. destruct H as [H1 H2]. repeat split.
  - intro E. subst rows. discriminate H1.
  - apply rows_posb_ok. exact H2.
  - intros r Hin. unfold rows_im_nonposb in H3. rewrite forallb_forall in H3. specialize (H3 r Hin).
    apply Qle_bool_Rle in H3. rewrite RMicromega.Q2R_0 in H3. exact H3.
Qed.

(* the imaginary part derived by the loader is the documented one *)
Lemma Q2R_2000_lambda0 : forall ab im, (im == - ab / (2000 * (1798 # 1000)))%Q ->
  Q2R im = im_of_absorption (Q2R ab).
Proof.
  intros ab im H. rewrite (Qeq_eqR _ _ H). unfold im_of_absorption, lambda_0.
  rewrite Q2R_div', Q2R_opp, Q2R_mult.
  - replace (Q2R 2000) with 2000 by (unfold Q2R; cbn [Qnum Qden]; lra).
    replace (Q2R (1798 # 1000)) with (1798 / 1000) by (unfold Q2R; cbn [Qnum Qden]; lra). field.
  - rewrite Q2R_mult. replace (Q2R 2000) with 2000 by (unfold Q2R; cbn [Qnum Qden]; lra).
    replace (Q2R (1798 # 1000)) with (1798 / 1000) by (unfold Q2R; cbn [Qnum Qden]; lra). lra.
Qed.

Lemma ev_num_expr : forall n, ev (num_expr n) = num_R n.
Proof.
  intros [q|q|c]; cbn [num_expr num_R evalR]; try reflexivity. rewrite ev_FOURPI_100. reflexivity.
Qed.
Lemma num_same_R : forall b re, num_same (Some b) (Some re) -> num_R b = num_R re.
Proof.
  intros [q|q|c] [q'|q'|c'] H; cbn [num_same] in H; try contradiction; cbn [num_R];
    rewrite (Qeq_eqR _ _ H); reflexivity.
Qed.

(* ------------------------------------------------------------------ numpy.interp on the table *)
Section ModelInterp.
  Variable w : wl.
  Hypothesis Hw : wl_pos w.
  Let X := wl_R w.

  Lemma Q2R_wl_en : Q2R (wl_en w) = Q2R (spec_key w).
  Proof.
    destruct w as [q|e]; cbn [wl_en spec_key]; [|reflexivity].
    apply Qeq_eqR. rewrite EF_is_spec. reflexivity.
  Qed.

  Lemma ev_wl_expr : ev (wl_expr w) = X.
  Proof.
    unfold X. destruct w as [q|e]; cbn [wl_expr wl_R]; [reflexivity|].
    unfold neutron_wavelength_E. cbn [evalR]. rewrite !ev_cq, Q2R_EF. reflexivity.
  Qed.
  Lemma ev_node_expr : forall e, ev (node_expr e) = node_x_R e.
  Proof.
    intro e. unfold node_expr, node_x_R. cbn [evalR]. rewrite !ev_cq, ev_ez, Q2R_EF.
    f_equal. f_equal. ring.
  Qed.

  Lemma Q2R_e1000 : forall e, Q2R (e * 1000) = 1000 * Q2R e.
  Proof. intro e. rewrite Q2R_mult. replace (Q2R 1000) with 1000 by (unfold Q2R; cbn [Qnum Qden]; lra). ring. Qed.

  Lemma lt_node_ok : forall e, (0 < e)%Q -> (lt_node (wl_en w) e = true <-> X < node_x_R e).
  Proof.
    intros e He. unfold lt_node. rewrite Qlt_bool_Rlt, Q2R_e1000, Q2R_wl_en.
    unfold X. rewrite (wl_R_key EF_R_pos w Hw). unfold node_x_R.
    symmetry. apply sqrt_div_lt; [exact EF_R_pos|apply (key_pos EF_R_pos); exact Hw|].
    apply Q2R_pos in He. lra.
  Qed.
  Lemma le_node_ok : forall e, (0 < e)%Q -> (le_node (wl_en w) e = true <-> X <= node_x_R e).
  Proof.
    intros e He. unfold le_node. rewrite Qle_bool_Rle, Q2R_e1000, Q2R_wl_en.
    unfold X. rewrite (wl_R_key EF_R_pos w Hw). unfold node_x_R.
    symmetry. apply sqrt_div_le; [exact EF_R_pos|apply (key_pos EF_R_pos); exact Hw|].
    apply Q2R_pos in He. lra.
  Qed.

  Lemma ev_lin : forall x x0 x1 y0 y1,
    ev (lin x x0 x1 y0 y1) = Q2R y0 + (Q2R y1 - Q2R y0) * ((ev x - ev x0) / (ev x1 - ev x0)).
  Proof. intros. unfold lin. cbn [evalR]. rewrite !ev_cq. unfold Rdiv. ring. Qed.

  Lemma locate_from_sound : forall rest e0 re0 im0, rows_pos rest ->
    let s := locate_from (wl_en w) e0 re0 im0 rest in
    ev (seg_re (wl_expr w) s) = interp_from X (node_x_R e0) (Q2R re0) (re_nodes_R rest) /\
    ev (seg_im (wl_expr w) s) = interp_from X (node_x_R e0) (Q2R im0) (im_nodes_R rest).
  Proof.
    induction rest as [|[[e1 re1] im1] r IH]; intros e0 re0 im0 Hp; cbn zeta.
    - cbn [locate_from seg_re seg_im re_nodes_R im_nodes_R map interp_from]. split; reflexivity.
    - inversion Hp as [|? ? H1 H2]; subst. cbn [fst] in H1.
      cbn [locate_from re_nodes_R im_nodes_R map interp_from].
      pose proof (lt_node_ok e1 H1) as Hlt.
      destruct (lt_node (wl_en w) e1) eqn:E.
      + destruct (Rlt_dec X (node_x_R e1)) as [H|H]; [|exfalso; apply H; apply Hlt; reflexivity].
        cbn [seg_re seg_im]. rewrite !ev_lin, ev_wl_expr, !ev_node_expr. split; reflexivity.
      + destruct (Rlt_dec X (node_x_R e1)) as [H|H]; [apply Hlt in H; congruence|].
        apply (IH e1 re1 im1 H2).
  Qed.

  Theorem locate_sound : forall rows s, rows_pos rows -> locate (wl_en w) rows = Some s ->
    ev (seg_re (wl_expr w) s) = interp X (re_nodes_R rows) /\
    ev (seg_im (wl_expr w) s) = interp X (im_nodes_R rows).
  Proof.
    intros [|[[e0 re0] im0] r] s Hp H; [discriminate|].
    inversion Hp as [|? ? H1 H2]; subst. cbn [fst] in H1.
    cbn [locate] in H. inversion H; subst s. clear H.
    cbn [re_nodes_R im_nodes_R map interp].
    pose proof (le_node_ok e0 H1) as Hle.
    destruct (le_node (wl_en w) e0) eqn:E.
    - destruct (Rle_dec X (node_x_R e0)) as [H|H]; [|exfalso; apply H; apply Hle; reflexivity].
      split; reflexivity.
    - destruct (Rle_dec X (node_x_R e0)) as [H|H]; [apply Hle in H; congruence|].
      apply (locate_from_sound r e0 re0 im0 H2).
  Qed.
End ModelInterp.

(* ------------------------------------------------------------------ scattering_by_wavelength *)
Lemma sigma_s_cabs2 : forall re im,
  ev (EMul FOURPI_100 (cabs2 re im)) = sigma_s_of_b (ev re) (ev im).
Proof.
  intros re im. unfold cabs2. cbn [evalR]. rewrite ev_FOURPI_100. unfold sigma_s_of_b, fm2_per_barn.
  rewrite sqrt_sqrt by nra. field.
Qed.

(* natural Lu: the table built by energy_dependent_init is the affine image of the Lu-176 table *)
Lemma lu_nodes_re : forall re175 im175 a175 a176 rows,
  re_nodes_R (map (fun r => match r with
                            | (e, re, im) => (e, Qred ((re175 * a175 + re * a176) / 100),
                                                 Qred ((im175 * a175 + im * a176) / 100))
                            end) rows)
  = map (fun p => (fst p, Q2R re175 * Q2R a175 / 100 + Q2R a176 / 100 * snd p)) (re_nodes_R rows).
Proof.
  intros. induction rows as [|[[e re] im] r IH]; [reflexivity|].
  cbn [map re_nodes_R fst snd]. fold (re_nodes_R r). unfold re_nodes_R in IH. rewrite IH. f_equal. f_equal.
  rewrite Q2R_Qred, Q2R_div', Q2R_plus, !Q2R_mult.
  - replace (Q2R 100) with 100 by (unfold Q2R; cbn [Qnum Qden]; lra). field.
  - replace (Q2R 100) with 100 by (unfold Q2R; cbn [Qnum Qden]; lra). lra.
Qed.
Lemma lu_nodes_im : forall re175 im175 a175 a176 rows,
  im_nodes_R (map (fun r => match r with
                            | (e, re, im) => (e, Qred ((re175 * a175 + re * a176) / 100),
                                                 Qred ((im175 * a175 + im * a176) / 100))
                            end) rows)
  = map (fun p => (fst p, Q2R im175 * Q2R a175 / 100 + Q2R a176 / 100 * snd p)) (im_nodes_R rows).
Proof.
  intros. induction rows as [|[[e re] im] r IH]; [reflexivity|].
  cbn [map im_nodes_R fst snd]. fold (im_nodes_R r). unfold im_nodes_R in IH. rewrite IH. f_equal. f_equal.
  rewrite Q2R_Qred, Q2R_div', Q2R_plus, !Q2R_mult.
  - replace (Q2R 100) with 100 by (unfold Q2R; cbn [Qnum Qden]; lra). field.
  - replace (Q2R 100) with 100 by (unfold Q2R; cbn [Qnum Qden]; lra). lra.
Qed.

Lemma rows_pos_map : forall (f : erow -> erow) rows, (forall r, fst (fst (f r)) = fst (fst r)) ->
  rows_pos rows -> rows_pos (map f rows).
Proof.
  intros f rows Hf H. unfold rows_pos in *. rewrite Forall_forall in *. intros r Hin.
  apply in_map_iff in Hin. destruct Hin as (r0 & E & Hin). subst r. rewrite Hf. exact (H r0 Hin).
Qed.

Lemma bcc_ok_parts : forall r, bcc_ok r = true ->
  exists ab re im, r_abs r = Some ab /\ r_bcc r = Some (re, im) /\
                   Q2R im = im_of_absorption (Q2R ab) /\ num_same (r_bc r) re.
Proof.
  intros r H. destruct (bcc_ok_sound r H) as (ab & re & im & H1 & H2 & H3 & H4).
  exists ab, re, im. repeat split; try assumption. apply Q2R_2000_lambda0. exact H3.
Qed.

(* one kind of atom: the piece the model sums is the documented per-atom quantity *)
Theorem atom_piece_refines : forall D w p c, wl_pos w ->
  rec_okb D (az (fst p)) (aa (fst p)) = true ->
  atom_piece D w p = Some c -> tab_comp D w p = Some (evalC c).
Proof.
  intros D w [a n] c Hw Hok H. unfold atom_piece in H. cbn [fst snd] in *.
  destruct (scattering_by_wavelength D (az a) (aa a) w) as [[[re im] ss]|] eqn:Es; [|discriminate].
  cbn [bind fst snd] in H. inversion H; subst c. clear H.
  unfold tab_comp. cbn [fst snd]. unfold evalC. cbn [ce_n ce_m ce_re ce_im ce_ss]. rewrite Q2R_Qred.
  unfold scattering_by_wavelength, rows_of in Es. unfold rec_okb, rec_okb_r in Hok.
  destruct (r_tab (nd_rec D (az a) (aa a))) as [[rows|]|].
  - (* own table *)
    cbn [bind] in Es. destruct (tab_okb_ok rows Hok) as (Hne & Hp & _).
    destruct (locate (wl_en w) rows) as [s|] eqn:El; [|discriminate]. cbn [bind] in Es.
    inversion Es; subst re im ss. clear Es.
    destruct (locate_sound w Hw rows s Hp El) as [Hre Him].
    rewrite sigma_s_cabs2, Hre, Him. reflexivity.
  - (* natural Lu *)
    apply andb_prop in Hok. destruct Hok as [Hok Ha176]. apply andb_prop in Hok. destruct Hok as [Hok Ha175].
    apply andb_prop in Hok. destruct Hok as [Hok Ht]. apply andb_prop in Hok. destruct Hok as [Hbcc Habs].
    destruct (bcc_ok_parts _ Hbcc) as (ab & re' & im' & H1 & H2 & H3 & H4).
    unfold lu_rows in Es. rewrite H2 in Es.
    destruct re' as [[re175|?|?]|]; try discriminate.
    destruct (r_tab (nd_rec D (nd_lu D) 176)) as [[rows|]|]; try discriminate.
    destruct (nd_abund D (nd_lu D) 175) as [a175|]; [|discriminate].
    destruct (nd_abund D (nd_lu D) 176) as [a176|]; [|discriminate].
    cbn [bind] in Es. destruct (tab_okb_ok rows Ht) as (Hne & Hp & _).
    match type of Es with context [locate _ ?m] => set (mix := m) in Es end.
    destruct (locate (wl_en w) mix) as [s|] eqn:El; [|discriminate]. cbn [bind] in Es.
    inversion Es; subst re im ss. clear Es.
    assert (Hpm : rows_pos mix).
    { unfold mix. apply rows_pos_map; [|exact Hp]. intros [[e r1] i1]. reflexivity. }
    destruct (locate_sound w Hw mix s Hpm El) as [Hre Him].
    rewrite sigma_s_cabs2, Hre, Him. unfold mix. rewrite lu_nodes_re, lu_nodes_im.
    assert (Hn1 : re_nodes_R rows <> []) by (destruct rows; [congruence|discriminate]).
    assert (Hn2 : im_nodes_R rows <> []) by (destruct rows; [congruence|discriminate]).
    rewrite !interp_affine by assumption.
    destruct (r_bc (nd_rec D (nd_lu D) 175)) as [b|] eqn:Eb; [|contradiction].
    rewrite H1. rewrite (num_same_R _ _ H4). cbn [num_R]. rewrite <- H3.
    unfold abundance_mix.
    replace (Q2R re175 * Q2R a175 / 100 + Q2R a176 / 100 * interp (wl_R w) (re_nodes_R rows))
      with ((Q2R re175 * Q2R a175 + interp (wl_R w) (re_nodes_R rows) * Q2R a176) / 100) by field.
    replace (Q2R im' * Q2R a175 / 100 + Q2R a176 / 100 * interp (wl_R w) (im_nodes_R rows))
      with ((Q2R im' * Q2R a175 + interp (wl_R w) (im_nodes_R rows) * Q2R a176) / 100) by field.
    reflexivity.
  - (* tabulated b_c, absorption, total *)
    cbn [bind] in Es. apply andb_prop in Hok. destruct Hok as [Hok Htot].
    apply andb_prop in Hok. destruct Hok as [Hbcc Habs].
    destruct (bcc_ok_parts _ Hbcc) as (ab & re' & im' & H1 & H2 & H3 & H4).
    rewrite H2 in Es. destruct re' as [re'|]; [|discriminate].
    destruct (r_tot (nd_rec D (az a) (aa a))) as [t|]; [|discriminate].
    inversion Es; subst re im ss. clear Es.
    destruct (r_bc (nd_rec D (az a) (aa a))) as [b|]; [|contradiction].
    rewrite H1, !ev_num_expr, ev_cq, H3, (num_same_R _ _ H4). reflexivity.
Qed.

(* ------------------------------------------------------------------ bounds of an interpolated value *)
Lemma interp_from_le : forall M rest x x0 y0, x0 <= x -> y0 <= M ->
  (forall p, In p rest -> snd p <= M) -> interp_from x x0 y0 rest <= M.
Proof.
  intros M. induction rest as [|[x1 y1] r IH]; intros x x0 y0 Hx Hy Hall; cbn [interp_from]; [exact Hy|].
  assert (Hy1 : y1 <= M) by (apply (Hall (x1, y1)); left; reflexivity).
  destruct (Rlt_dec x x1) as [Hlt|Hge].
  - set (t := (x - x0) / (x1 - x0)).
    assert (Ht : t * (x1 - x0) = x - x0) by (unfold t; field; lra).
    assert (0 <= t) by (unfold t; apply Rmult_le_pos; [lra|]; left; apply Rinv_0_lt_compat; lra).
    assert (t <= 1) by nra.
    nra.
  - apply IH; [lra|exact Hy1|]. intros p Hin. apply Hall. right. exact Hin.
Qed.
Lemma interp_le : forall M t x, t <> [] -> (forall p, In p t -> snd p <= M) -> interp x t <= M.
Proof.
  intros M [|[x0 y0] r] x Hne Hall; [congruence|]. cbn [interp].
  assert (y0 <= M) by (apply (Hall (x0, y0)); left; reflexivity).
  destruct (Rle_dec x x0); [assumption|].
  apply interp_from_le; [lra|assumption|]. intros p Hin. apply Hall. right. exact Hin.
Qed.

Lemma im_nodes_nonpos : forall rows, (forall r, In r rows -> Q2R (snd r) <= 0) ->
  forall p, In p (im_nodes_R rows) -> snd p <= 0.
Proof.
  intros rows H p Hin. unfold im_nodes_R in Hin. apply in_map_iff in Hin.
  destruct Hin as ([[e re] im] & E & Hin). subst p. cbn [snd]. exact (H _ Hin).
Qed.

Lemma im_of_absorption_nonpos : forall ab, 0 <= ab -> im_of_absorption ab <= 0.
Proof.
  intros ab H. unfold im_of_absorption, lambda_0.
  assert (0 <= ab / (1000 * 2 * (1798 / 1000))).
  { apply Rmult_le_pos; [exact H|]. left. apply Rinv_0_lt_compat. lra. }
  unfold Rdiv in *. rewrite Ropp_mult_distr_l_reverse. lra.
Qed.

Lemma abs_nonnegb_ok : forall r ab, abs_nonnegb r = true -> r_abs r = Some ab -> 0 <= Q2R ab.
Proof.
  intros r ab H E. unfold abs_nonnegb in H. rewrite E in H. apply Qle_bool_Rle in H.
  rewrite RMicromega.Q2R_0 in H. exact H.
Qed.
Lemma nonnegb_ok : forall q, nonnegb (Some q) = true -> 0 <= Q2R q.
Proof. intros q H. cbn [nonnegb] in H. apply Qle_bool_Rle in H. rewrite RMicromega.Q2R_0 in H. exact H. Qed.

Lemma sigma_s_of_b_nonneg : forall re im, 0 <= sigma_s_of_b re im.
Proof.
  intros re im. unfold sigma_s_of_b, fm2_per_barn. assert (0 < PI) by apply PI_RGT_0.
  apply Rmult_le_pos; [|lra]. apply Rmult_le_pos; [lra|]. nra.
Qed.
Lemma tot_nonnegb_ok : forall r t, tot_nonnegb r = true -> r_tot r = Some t -> 0 <= num_R t.
Proof.
  intros r t H E. unfold tot_nonnegb in H. rewrite E in H. destruct t as [q|q|c]; cbn [num_R].
  - apply Qle_bool_Rle in H. rewrite RMicromega.Q2R_0 in H. exact H.
  - apply Qle_bool_Rle in H. rewrite RMicromega.Q2R_0 in H. exact H.
  - apply sqrt_pos.
Qed.

(* count, mass, sign of Im b_c and of sigma_s of a documented per-atom record *)
Theorem tab_comp_facts : forall D w p c, rec_okb D (az (fst p)) (aa (fst p)) = true ->
  tab_comp D w p = Some c ->
  c_n c = Q2R (snd p) /\ c_m c = Q2R (e_mass (nd_env D) (fst p)) /\ c_im c <= 0 /\ 0 <= c_ss c.
Proof.
  intros D w [a n] c Hok H. unfold tab_comp in H. unfold rec_okb, rec_okb_r in Hok. cbn [fst snd] in *.
  destruct (r_tab (nd_rec D (az a) (aa a))) as [[rows|]|].
  - inversion H; subst c. cbn [c_n c_m c_im c_ss]. repeat split; [|apply sigma_s_of_b_nonneg].
    destruct (tab_okb_ok rows Hok) as (Hne & _ & Him).
    apply interp_le; [destruct rows; [congruence|discriminate]|]. apply im_nodes_nonpos. exact Him.
  - apply andb_prop in Hok. destruct Hok as [Hok Ha176]. apply andb_prop in Hok. destruct Hok as [Hok Ha175].
    apply andb_prop in Hok. destruct Hok as [Hok Ht]. apply andb_prop in Hok. destruct Hok as [Hbcc Habs].
    destruct (r_bc (nd_rec D (nd_lu D) 175)) as [b|]; [|discriminate].
    destruct (r_abs (nd_rec D (nd_lu D) 175)) as [ab|] eqn:Eab; [|discriminate].
    destruct (r_tab (nd_rec D (nd_lu D) 176)) as [[rows|]|]; try discriminate.
    destruct (nd_abund D (nd_lu D) 175) as [a175|]; [|discriminate].
    destruct (nd_abund D (nd_lu D) 176) as [a176|]; [|discriminate].
    inversion H; subst c. cbn [c_n c_m c_im c_ss]. repeat split; [|apply sigma_s_of_b_nonneg].
    destruct (tab_okb_ok rows Ht) as (Hne & _ & Him).
    assert (H176 : interp (wl_R w) (im_nodes_R rows) <= 0).
    { apply interp_le; [destruct rows; [congruence|discriminate]|]. apply im_nodes_nonpos. exact Him. }
    assert (H175 : im_of_absorption (Q2R ab) <= 0).
    { apply im_of_absorption_nonpos. exact (abs_nonnegb_ok _ _ Habs Eab). }
    pose proof (nonnegb_ok _ Ha175). pose proof (nonnegb_ok _ Ha176).
    unfold abundance_mix. nra.
  - apply andb_prop in Hok. destruct Hok as [Hok Htot]. apply andb_prop in Hok. destruct Hok as [Hbcc Habs].
    destruct (r_bc (nd_rec D (az a) (aa a))) as [b|]; [|discriminate].
    destruct (r_abs (nd_rec D (az a) (aa a))) as [ab|] eqn:Eab; [|discriminate].
    destruct (r_tot (nd_rec D (az a) (aa a))) as [t|] eqn:Et; [|discriminate].
    inversion H; subst c. cbn [c_n c_m c_im c_ss]. repeat split.
    + apply im_of_absorption_nonpos. exact (abs_nonnegb_ok _ _ Habs Eab).
    + exact (tot_nonnegb_ok _ _ Htot Et).
Qed.

(* ------------------------------------------------------------------ lists of options *)
Lemma all_some_map_rel : forall {A B C} (f : A -> option B) (g : A -> option C) (h : B -> C) d ps,
  all_some (map f d) = Some ps ->
  (forall p c, In p d -> f p = Some c -> g p = Some (h c)) ->
  all_some (map g d) = Some (map h ps).
Proof.
  intros A B C f g h. induction d as [|p r IH]; intros ps H Hrel; cbn [map all_some] in *.
  - inversion H. reflexivity.
  - destruct (f p) as [c|] eqn:Ef; [|discriminate].
    destruct (all_some (map f r)) as [ps'|] eqn:Er; [|discriminate]. inversion H; subst ps.
    rewrite (Hrel p c (or_introl eq_refl) Ef).
    rewrite (IH ps' eq_refl (fun p0 c0 Hin => Hrel p0 c0 (or_intror Hin))). reflexivity.
Qed.
Lemma all_some_in : forall {A B} (g : A -> option B) d l, all_some (map g d) = Some l ->
  forall c, In c l -> exists p, In p d /\ g p = Some c.
Proof.
  intros A B g. induction d as [|p r IH]; intros l H c Hin; cbn [map all_some] in H.
  - inversion H; subst l. destruct Hin.
  - destruct (g p) as [c0|] eqn:Eg; [|discriminate].
    destruct (all_some (map g r)) as [l'|] eqn:Er; [|discriminate]. inversion H; subst l.
    destruct Hin as [E|Hin].
    + subst c0. exists p. split; [left; reflexivity|exact Eg].
    + destruct (IH l' eq_refl c Hin) as (p0 & Hp0 & Hg). exists p0. split; [right; exact Hp0|exact Hg].
Qed.
Lemma all_some_length : forall {A B} (g : A -> option B) d l, all_some (map g d) = Some l -> length l = length d.
Proof.
  intros A B g. induction d as [|p r IH]; intros l H; cbn [map all_some] in H.
  - inversion H. reflexivity.
  - destruct (g p); [|discriminate]. destruct (all_some (map g r)) as [l'|] eqn:Er; [|discriminate].
    inversion H; subst l. cbn [length]. f_equal. apply IH. reflexivity.
Qed.

(* ------------------------------------------------------------------ one wavelength of a compound *)
(* what is asked of the composition: non-negative counts, not all zero, positive masses, records
   that serve *)
Definition cell_ok (D : ndata) (d : dict) : Prop :=
  (forall p, In p d -> (0 <= snd p)%Q /\ (0 < e_mass (nd_env D) (fst p))%Q
                       /\ rec_okb D (az (fst p)) (aa (fst p)) = true) /\
  (exists p, In p d /\ (0 < snd p)%Q).

Lemma all_some_in_fwd : forall {A B} (g : A -> option B) d l, all_some (map g d) = Some l ->
  forall p, In p d -> exists c, g p = Some c /\ In c l.
Proof.
  intros A B g. induction d as [|q r IH]; intros l H p Hin; [destruct Hin|]. cbn [map all_some] in H.
  destruct (g q) as [c0|] eqn:Eg; [|discriminate].
  destruct (all_some (map g r)) as [l'|] eqn:Er; [|discriminate]. inversion H; subst l.
  destruct Hin as [E|Hin].
  - subst q. exists c0. split; [exact Eg|left; reflexivity].
  - destruct (IH l' eq_refl p Hin) as (c & Hc & Hl). exists c. split; [exact Hc|right; exact Hl].
Qed.

Lemma sum_nonneg : forall (f : comp -> R) l, (forall c, In c l -> 0 <= f c) -> 0 <= sum f l.
Proof.
  intros f l H. induction l as [|c r IH]; simpl; [lra|].
  assert (0 <= f c) by (apply H; left; reflexivity).
  assert (0 <= sum f r) by (apply IH; intros x Hx; apply H; right; exact Hx). lra.
Qed.
Lemma sum_pos_one : forall (f : comp -> R) l, (forall c, In c l -> 0 <= f c) ->
  (exists c, In c l /\ 0 < f c) -> 0 < sum f l.
Proof.
  intros f l H (c & Hin & Hc). induction l as [|c0 r IH]; [destruct Hin|]. simpl.
  assert (0 <= f c0) by (apply H; left; reflexivity).
  assert (0 <= sum f r) by (apply sum_nonneg; intros x Hx; apply H; right; exact Hx).
  destruct Hin as [E|Hin]; [subst c0; lra|].
  assert (0 < sum f r) by (apply IH; [intros x Hx; apply H; right; exact Hx|exact Hin]). lra.
Qed.

(* the facts about the documented cell that the algebra needs *)
Lemma cell_facts : forall D w d l, cell_ok D d -> tab_cell D w d = Some l ->
  0 < n_total l /\ 0 < molar_mass l /\ sum (fun c => c_n c * c_im c) l <= 0 /\ 0 <= sigma_s l /\ b_im l <= 0.
Proof.
  intros D w d l [Hd (p0 & Hp0 & Hpos)] Hl.
  assert (Hfacts : forall c, In c l -> 0 <= c_n c /\ 0 < c_m c /\ c_im c <= 0 /\ 0 <= c_ss c).
  { intros c Hin. destruct (all_some_in (tab_comp D w) d l Hl c Hin) as (p & Hp & Hc).
    destruct (Hd p Hp) as (Hcnt & Hmass & Hok).
    destruct (tab_comp_facts D w p c Hok Hc) as (E1 & E2 & E3 & E4).
    rewrite E1, E2. repeat split; [|apply Q2R_pos; exact Hmass|exact E3|exact E4].
    apply Qle_Rle in Hcnt. rewrite RMicromega.Q2R_0 in Hcnt. exact Hcnt. }
  destruct (all_some_in_fwd (tab_comp D w) d l Hl p0 Hp0) as (c0 & Hc0 & Hin0).
  destruct (Hd p0 Hp0) as (_ & _ & Hok0).
  destruct (tab_comp_facts D w p0 c0 Hok0 Hc0) as (E1 & _ & _ & _).
  assert (Hc0pos : 0 < c_n c0) by (rewrite E1; apply Q2R_pos; exact Hpos).
  assert (Hn : 0 < n_total l).
  { unfold n_total. apply sum_pos_one; [intros c Hin; exact (proj1 (Hfacts c Hin))|].
    exists c0. split; assumption. }
  assert (Him : sum (fun c => c_n c * c_im c) l <= 0).
  { apply sum_nonpos. intros c Hin. destruct (Hfacts c Hin) as (H1 & _ & H3 & _). nra. }
  repeat split.
  - exact Hn.
  - unfold molar_mass. apply sum_pos_one.
    + intros c Hin. destruct (Hfacts c Hin) as (H1 & H2 & _). nra.
    + exists c0. split; [exact Hin0|]. destruct (Hfacts c0 Hin0) as (_ & H2 & _). nra.
  - exact Him.
  - unfold sigma_s. apply Rmult_le_pos; [|left; apply Rinv_0_lt_compat; exact Hn].
    apply sum_nonneg. intros c Hin. destruct (Hfacts c Hin) as (H1 & _ & _ & H4). nra.
  - unfold b_im. unfold Rdiv. rewrite <- (Rmult_0_l (/ n_total l)).
    apply Rmult_le_compat_r; [left; apply Rinv_0_lt_compat; exact Hn|exact Him].
Qed.

Theorem compound_refines : forall D d rho w o ps,
  wl_pos w -> (0 < rho)%Q -> cell_ok D d ->
  compound_at D d rho w = Some (o, ps) ->
  exists l, tab_cell D w d = Some l /\
            map ev (outs_list o) = outputs (Q2R NAq) l (Q2R rho) (wl_R w).
Proof.
  intros D d rho w o ps Hw Hrho Hcell H. pose proof Hcell as [Hd _]. unfold compound_at in H.
  destruct (all_some (map (atom_piece D w) d)) as [ps'|] eqn:Eps; [|discriminate].
  cbn [bind] in H. inversion H; subst o ps'. clear H.
  set (l := map evalC ps). exists l.
  assert (Hl : tab_cell D w d = Some l).
  { unfold tab_cell, l. apply (all_some_map_rel (atom_piece D w) (tab_comp D w) evalC d ps Eps).
    intros p c Hin Hp. apply atom_piece_refines; [exact Hw| |exact Hp]. exact (proj2 (proj2 (Hd p Hin))). }
  split; [exact Hl|].
  unfold compound_parts, calc5. rewrite ev_calculate_scattering.
  (* the five arguments *)
  assert (Hn : ev (acc_sum (fun c => cq (ce_n c)) ps) = n_total l).
  { unfold n_total, l. apply ev_acc_sum. intro c. reflexivity. }
  assert (Hre : ev (EDiv (acc_sum (fun c => EMul (cq (ce_n c)) (ce_re c)) ps) (acc_sum (fun c => cq (ce_n c)) ps)) = b_re l).
  { cbn [evalR]. rewrite Hn. unfold b_re. f_equal. unfold l. apply ev_acc_sum. intro c. reflexivity. }
  assert (Him : ev (EDiv (acc_sum (fun c => EMul (cq (ce_n c)) (ce_im c)) ps) (acc_sum (fun c => cq (ce_n c)) ps)) = b_im l).
  { cbn [evalR]. rewrite Hn. unfold b_im. f_equal. unfold l. apply ev_acc_sum. intro c. reflexivity. }
  assert (Hss : ev (EDiv (acc_sum (fun c => EMul (cq (ce_n c)) (ce_ss c)) ps) (acc_sum (fun c => cq (ce_n c)) ps)) = sigma_s l).
  { cbn [evalR]. rewrite Hn. unfold sigma_s. f_equal. unfold l. apply ev_acc_sum. intro c. reflexivity. }
  rewrite Hre, Him, Hss.
  assert (HN : ev (EDiv (acc_sum (fun c => cq (ce_n c)) ps)
                        (EMul (EDiv (EDiv (acc_sum (fun c => EMul (cq (ce_m c)) (cq (ce_n c))) ps) (cq rho)) (cq NAq)) (cq E24)))
               = model_N (Q2R NAq) (Q2R rho) l).
  { cbn [evalR]. rewrite Hn. unfold model_N. rewrite !ev_cq. f_equal. f_equal. f_equal. f_equal.
    unfold l. apply ev_acc_sum. intro c. reflexivity. }
  rewrite HN, (ev_wl_expr w Hw).
  destruct (cell_facts D w d l Hcell Hl) as (F1 & F2 & F3 & _ & _).
  apply calc_is_spec; try assumption.
  - exact NA_pos.
  - apply Q2R_pos. exact Hrho.
  - apply (wl_R_pos EF_R_pos). exact Hw.
Qed.
