(* Proofs/C07Fix.v — generic lemmas (any input) about nsf.fix_number, the complex b_c built by
   the row loader, and numpy.interp at the nodes of a strictly increasing table. *)
From Coq Require Import ZArith QArith Qabs String Ascii List Bool Lia.
From PT Require Import Str Dec Loaders Nsf.
Import ListNotations.
Open Scope string_scope.

(* ------------------------------------------------------------------ strings *)

Lemma remove_char_app : forall c s t, remove_char c (s ++ t) = remove_char c s ++ remove_char c t.
Proof.
  intros c s t. induction s as [|a s IH]; simpl; [reflexivity|].
  destruct (Ascii.eqb a c); simpl; rewrite IH; reflexivity.
Qed.

Lemma strip_marks_app : forall s t, strip_marks (s ++ t) = strip_marks s ++ strip_marks t.
Proof. intros. unfold strip_marks. rewrite !remove_char_app. reflexivity. Qed.

Definition not_mark (c : ascii) : bool := negb (Ascii.eqb c "<" || Ascii.eqb c "*").

Lemma remove_char_absent : forall c s, contains_char c s = false -> remove_char c s = s.
Proof.
  intros c s. induction s as [|a s IH]; simpl; [reflexivity|].
  unfold ascii_eqb. destruct (Ascii.eqb a c); simpl; [discriminate|].
  intro H. rewrite (IH H). reflexivity.
Qed.

Lemma remove_char_removes : forall c s, contains_char c (remove_char c s) = false.
Proof.
  intros c s. induction s as [|a s IH]; simpl; [reflexivity|].
  destruct (Ascii.eqb a c) eqn:E; [exact IH|]. simpl. unfold ascii_eqb. rewrite E. exact IH.
Qed.

Lemma remove_char_keeps_absent : forall c d s, contains_char d s = false -> contains_char d (remove_char c s) = false.
Proof.
  intros c d s. induction s as [|a s IH]; simpl; [reflexivity|].
  intro H. apply orb_false_iff in H. destruct H as [H1 H2].
  destruct (Ascii.eqb a c); [exact (IH H2)|]. simpl. rewrite H1. exact (IH H2).
Qed.

(* what fix_number hands to parse_uncertainty has no '<' and no '*' ... *)
Lemma strip_marks_clean : forall s,
  contains_char "<" (strip_marks s) = false /\ contains_char "*" (strip_marks s) = false.
Proof.
  intro s. unfold strip_marks. split.
  - apply remove_char_keeps_absent. apply remove_char_removes.
  - apply remove_char_removes.
Qed.

(* ... and is the text itself when there was none *)
Lemma strip_marks_id : forall s, contains_char "<" s = false -> contains_char "*" s = false -> strip_marks s = s.
Proof.
  intros s H1 H2. unfold strip_marks. rewrite (remove_char_absent "<" s H1). apply remove_char_absent. exact H2.
Qed.

(* s.split(c) when the first c is at a known place *)
Lemma split_char_aux_app : forall c v w cur, contains_char c v = false ->
  split_char_aux c (v ++ String c w) cur = cur v :: split_char_aux c w (fun x => x).
Proof.
  intros c v. induction v as [|a v IH]; intros w cur H; simpl.
  - unfold ascii_eqb. rewrite Ascii.eqb_refl. reflexivity.
  - simpl in H. apply orb_false_iff in H. destruct H as [H1 H2]. rewrite H1.
    rewrite (IH w (fun x => cur (String a x)) H2). reflexivity.
Qed.

Lemma split_char_app : forall c v w, contains_char c v = false ->
  split_char c (v ++ String c w) = v :: split_char c w.
Proof. intros. unfold split_char. apply split_char_aux_app. assumption. Qed.

Lemma split_char_aux_none : forall c v cur, contains_char c v = false -> split_char_aux c v cur = [cur v].
Proof.
  intros c v. induction v as [|a v IH]; intros cur H; simpl; [reflexivity|].
  simpl in H. apply orb_false_iff in H. destruct H as [H1 H2]. rewrite H1. apply IH. exact H2.
Qed.

Lemma split_char_none : forall c v, contains_char c v = false -> split_char c v = [v].
Proof. intros. unfold split_char. apply split_char_aux_none. assumption. Qed.

Lemma split_char_aux_nonempty : forall c s cur, exists h t, split_char_aux c s cur = h :: t.
Proof.
  intros c s. induction s as [|a s IH]; intro cur; simpl.
  - eexists; eexists; reflexivity.
  - destruct (ascii_eqb a c); [eexists; eexists; reflexivity | apply IH].
Qed.

(* ------------------------------------------------------------------ fix_number *)

Lemma fix_number_blank : fix_number "" = Some None.
Proof. reflexivity. Qed.

(* only the text with '<' and '*' deleted matters *)
Lemma fix_number_marks : forall s t, strip_marks s = strip_marks t -> fix_number s = fix_number t.
Proof. intros s t H. unfold fix_number. rewrite H. reflexivity. Qed.

Lemma fix_number_limit : forall s, fix_number (String "<" s) = fix_number s.
Proof. intro s. apply fix_number_marks. reflexivity. Qed.

Lemma fix_number_estimate : forall s, fix_number (s ++ "*") = fix_number s.
Proof.
  intro s. apply fix_number_marks. rewrite strip_marks_app.
  change (strip_marks "*") with "". clear. induction (strip_marks s) as [|a r IH]; simpl; [reflexivity|].
  rewrite IH. reflexivity.
Qed.

(* a cell without '(' , '[' , '<' , '*' is read as the number it spells *)
Definition plain (v : string) : Prop :=
  contains_char "(" v = false /\ startswith "[" v = false /\
  contains_char "<" v = false /\ contains_char "*" v = false.

Lemma fix_number_plain : forall v, plain v -> v <> "" ->
  fix_number v = match parse_dec v with Some q => Some (Some q) | None => None end.
Proof.
  intros v (Hp & Hb & Hl & Hs) Hne. unfold fix_number. rewrite (strip_marks_id v Hl Hs).
  unfold parse_uncertainty.
  destruct (String.eqb_spec v "") as [E|_]; [contradiction|].
  rewrite Hb. rewrite (split_char_none _ v Hp).
  destruct (parse_dec v); reflexivity.
Qed.

(* value(unc)...: the uncertainty is dropped.  Whenever fix_number returns, it returns the
   number spelled by the text before the parenthesis. *)
Lemma parse_uncertainty_value_unc : forall v w r,
  contains_char "(" v = false -> startswith "[" v = false ->
  parse_uncertainty (v ++ String "(" w) = Some r ->
  exists q u, r = Some (q, u) /\ parse_dec v = Some q.
Proof.
  intros v w r Hp Hb H. unfold parse_uncertainty in H.
  assert (E0 : String.eqb (v ++ String "(" w) "" = false).
  { destruct v; reflexivity. }
  rewrite E0 in H.
  assert (E1 : startswith "[" (v ++ String "(" w) = false).
  { destruct v as [|a v]; [reflexivity|].
    change (startswith "[" (String a v)) with (ascii_eqb "[" a && true)%bool in Hb.
    change (startswith "[" (String a v ++ String "(" w)) with (ascii_eqb "[" a && true)%bool.
    exact Hb. }
  rewrite E1 in H. rewrite (split_char_app _ v w Hp) in H.
  destruct (split_char_aux_nonempty "("%char w (fun x => x)) as (h & t & E2).
  unfold split_char in H. rewrite E2 in H.
  destruct (parse_dec v) as [q|]; [|discriminate H].
  match type of H with match ?X with _ => _ end = _ => destruct X as [uu|] end; [|discriminate H].
  injection H as <-. eexists; eexists; split; reflexivity.
Qed.

Lemma fix_number_value_unc : forall v w x,
  plain v -> fix_number (v ++ String "(" w) = Some x ->
  x <> None /\ x = parse_dec v.
Proof.
  intros v w x (Hp & Hb & Hl & Hs) H. unfold fix_number in H.
  rewrite strip_marks_app, (strip_marks_id v Hl Hs) in H.
  change (strip_marks (String "(" w)) with (String "(" (strip_marks w)) in H.
  destruct (parse_uncertainty (v ++ String "(" (strip_marks w))) as [r|] eqn:E; [|discriminate H].
  destruct (parse_uncertainty_value_unc v _ r Hp Hb E) as (q & u & -> & Hq).
  injection H as <-. rewrite Hq. split; [discriminate | reflexivity].
Qed.

(* ------------------------------------------------------------------ complex b_c of a row *)

(* the record built from a line carries b_c_complex = b_c - i absorption/(2000*1.798),
   with a missing b_c giving a nan real part *)
Lemma row_record_bcc : forall columns nd r, row_record columns nd = Some r ->
  exists ab im, r_abs r = Some ab /\ r_bcc r = Some (r_bc r, im) /\
                (im == - ab / (2000 * (1798 # 1000)))%Q.
Proof.
  intros columns nd r H. unfold row_record, bind in H.
  destruct (nth_error columns 1); [|discriminate H].
  destruct (nth_error columns 2); [|discriminate H].
  destruct (unpack 3 (map fix_number (slice 3 6 columns))) as [b|]; [|discriminate H].
  destruct (nth_error columns 6); [|discriminate H].
  destruct (unpack 4 (map fix_number (skipn 7 columns))) as [c|]; [|discriminate H].
  destruct (nthq 3 c) as [ab|] eqn:E; [|discriminate H].
  injection H as <-. simpl. exists ab. exists (Qred (- ab / two_thousand_lambda)).
  split; [reflexivity|]. split.
  - reflexivity.
  - apply Qeq_trans with (- ab / two_thousand_lambda)%Q; [apply Qred_correct|].
    unfold two_thousand_lambda.
    assert (E2 : (2000 * (1798 # 1000) == 3596)%Q) by reflexivity. rewrite E2. reflexivity.
Qed.


(* ------------------------------------------------------------------ column mapping *)

Lemma all_some_map : forall {A} (l : list (option A)) v, all_some l = Some v -> l = map Some v.
Proof.
  intros A l. induction l as [|[x|] l IH]; intros v H; simpl in H.
  - injection H as <-. reflexivity.
  - destruct (all_some l) as [r|]; [|discriminate H]. injection H as <-. simpl. rewrite (IH r eq_refl). reflexivity.
  - discriminate H.
Qed.

Lemma unpack_spec : forall {A} n (l : list (option A)) v, unpack n l = Some v -> l = map Some v /\ length v = n.
Proof.
  intros A n l v H. unfold unpack in H. destruct (all_some l) as [w|] eqn:E; [|discriminate H].
  destruct (Nat.eqb_spec (length w) n) as [L|_]; [|discriminate H]. injection H as <-.
  split; [apply all_some_map; exact E | exact L].
Qed.

Lemma nth_skipn' : forall {A} n i (l : list A) d, nth i (skipn n l) d = nth (n + i) l d.
Proof.
  intros A n. induction n as [|n IH]; intros i l d; simpl; [reflexivity|].
  destruct l as [|x l]; [destruct i; reflexivity | apply IH].
Qed.

Lemma nth_firstn' : forall {A} n i (l : list A) d, (i < n)%nat -> nth i (firstn n l) d = nth i l d.
Proof.
  intros A n. induction n as [|n IH]; intros i l d H; [lia|].
  destruct l as [|x l]; [reflexivity|]. destruct i as [|i]; [reflexivity|]. simpl. apply IH. lia.
Qed.

(* [v1; ...; vn] = [f(c) for c in cells]  read back cell by cell *)
Lemma unpack_map_nth : forall n (cells : list string) v i, unpack n (map fix_number cells) = Some v ->
  (i < n)%nat -> fix_number (nth i cells "") = Some (nthq i v).
Proof.
  intros n cells v i H Hi. destruct (unpack_spec _ _ _ H) as [E L].
  assert (Lc : length cells = n).
  { rewrite <- L. rewrite <- (map_length fix_number cells), E, map_length. reflexivity. }
  assert (N : nth i (map fix_number cells) None = nth i (map Some v) None) by (rewrite E; reflexivity).
  rewrite (nth_indep (map fix_number cells) None (fix_number "")) in N by (rewrite map_length; lia).
  rewrite map_nth in N. rewrite N.
  rewrite (nth_indep (map Some v) None (Some None)) by (rewrite map_length; lia).
  rewrite (map_nth Some v None i). reflexivity.
Qed.

(* any line the row loader accepts has exactly eleven comma-separated columns, and the fields
   of the record are the columns by position: 3 b_c, 4 b+, 5 b-, 6 flag, 7 coherent,
   8 incoherent, 9 total, 10 absorption, each read by fix_number *)
Theorem row_record_columns : forall columns nd r, row_record columns nd = Some r ->
  let cell i := nth i columns "" in
  length columns = 11%nat /\
  (exists x, fix_number (cell 3%nat) = Some x /\ r_bc r = option_map NRead x) /\
  fix_number (cell 4%nat) = Some (r_bp r) /\
  fix_number (cell 5%nat) = Some (r_bm r) /\
  r_energy r = String.eqb (cell 6%nat) "E" /\
  fix_number (cell 7%nat) = Some (r_coh r) /\
  fix_number (cell 8%nat) = Some (r_inc r) /\
  (exists t, fix_number (cell 9%nat) = Some t /\ r_tot r = option_map NRead t) /\
  fix_number (cell 10%nat) = Some (r_abs r) /\
  r_bci r = None /\ r_bpi r = None /\ r_bmi r = None /\ r_tab r = None /\ r_nd r = nd.
Proof.
  intros columns nd r H cell. unfold row_record, bind in H.
  destruct (nth_error columns 1); [|discriminate H].
  destruct (nth_error columns 2); [|discriminate H].
  destruct (unpack 3 (map fix_number (slice 3 6 columns))) as [b|] eqn:Eb; [|discriminate H].
  destruct (nth_error columns 6) as [flag|] eqn:Ef; [|discriminate H].
  destruct (unpack 4 (map fix_number (skipn 7 columns))) as [c|] eqn:Ec; [|discriminate H].
  destruct (nthq 3 c) as [ab|] eqn:Ea; [|discriminate H].
  injection H as <-. simpl.
  assert (Lc : length columns = 11%nat).
  { destruct (unpack_spec _ _ _ Ec) as [E L].
    assert (L4 : length (skipn 7 columns) = 4%nat).
    { rewrite <- (map_length fix_number (skipn 7 columns)), E, map_length. exact L. }
    rewrite skipn_length in L4. lia. }
  assert (B : forall i, (i < 3)%nat -> fix_number (cell (3 + i)%nat) = Some (nthq i b)).
  { intros i Hi. rewrite <- (unpack_map_nth 3 _ b i Eb Hi). f_equal. unfold slice, cell.
    rewrite nth_firstn' by exact Hi. apply eq_sym. apply nth_skipn'. }
  assert (C : forall i, (i < 4)%nat -> fix_number (cell (7 + i)%nat) = Some (nthq i c)).
  { intros i Hi. rewrite <- (unpack_map_nth 4 _ c i Ec Hi). f_equal. unfold cell.
    apply eq_sym. apply nth_skipn'. }
  split; [exact Lc|].
  split; [exists (nthq 0 b); split; [exact (B 0%nat ltac:(lia)) | reflexivity]|].
  split; [exact (B 1%nat ltac:(lia))|].
  split; [exact (B 2%nat ltac:(lia))|].
  split.
  { unfold cell. f_equal. apply eq_sym. apply nth_error_nth. exact Ef. }
  split; [exact (C 0%nat ltac:(lia))|].
  split; [exact (C 1%nat ltac:(lia))|].
  split; [exists (nthq 2 c); split; [exact (C 2%nat ltac:(lia)) | reflexivity]|].
  split; [rewrite <- Ea; exact (C 3%nat ltac:(lia))|].
  repeat split.
Qed.

(* ------------------------------------------------------------------ interpolation at nodes *)

Open Scope Q_scope.

Fixpoint sorted_from (x0 : Q) (rest : list (Q * cplx)) : Prop :=
  match rest with
  | [] => True
  | (x1, _) :: r => x0 < x1 /\ sorted_from x1 r
  end.
Definition sorted (t : list (Q * cplx)) : Prop :=
  match t with [] => True | (x0, _) :: r => sorted_from x0 r end.

Fixpoint sorted_from_b (x0 : Q) (rest : list (Q * cplx)) : bool :=
  match rest with
  | [] => true
  | (x1, _) :: r => (Qlt_bool x0 x1 && sorted_from_b x1 r)%bool
  end.
Definition sorted_b (t : list (Q * cplx)) : bool :=
  match t with [] => true | (x0, _) :: r => sorted_from_b x0 r end.

Lemma Qlt_bool_true : forall x y, Qlt_bool x y = true -> x < y.
Proof.
  intros x y H. unfold Qlt_bool in H. apply negb_true_iff in H.
  apply Qnot_le_lt. intro L. apply Qle_bool_iff in L. congruence.
Qed.
Lemma Qlt_bool_lt : forall x y, x < y -> Qlt_bool x y = true.
Proof.
  intros x y H. unfold Qlt_bool. apply negb_true_iff.
  destruct (Qle_bool y x) eqn:E; [|reflexivity]. apply Qle_bool_iff in E. exfalso. exact (Qlt_not_le _ _ H E).
Qed.
Lemma Qlt_bool_irrefl : forall x, Qlt_bool x x = false.
Proof. intro x. unfold Qlt_bool. apply negb_false_iff. apply Qle_bool_iff. apply Qle_refl. Qed.
Lemma Qlt_bool_ge : forall x y, y < x -> Qlt_bool x y = false.
Proof.
  intros x y H. unfold Qlt_bool. apply negb_false_iff. apply Qle_bool_iff. apply Qlt_le_weak. exact H.
Qed.

Lemma sorted_from_b_ok : forall r x0, sorted_from_b x0 r = true -> sorted_from x0 r.
Proof.
  induction r as [|[x1 y1] r IH]; intros x0 H; simpl in *; [exact I|].
  apply andb_prop in H. destruct H as [H1 H2]. split; [apply Qlt_bool_true; exact H1 | apply IH; exact H2].
Qed.
Lemma sorted_b_ok : forall t, sorted_b t = true -> sorted t.
Proof. intros [|[x0 y0] r] H; simpl in *; [exact I | apply sorted_from_b_ok; exact H]. Qed.

Lemma sorted_from_lt : forall r x0 k v, sorted_from x0 r -> In (k, v) r -> x0 < k.
Proof.
  induction r as [|[x1 y1] r IH]; intros x0 k v S Hin; simpl in *; [contradiction|].
  destruct S as [L S]. destruct Hin as [E|Hin].
  - injection E as <- <-. exact L.
  - apply Qlt_trans with x1; [exact L | exact (IH x1 k v S Hin)].
Qed.

Lemma interp_from_at_start : forall r k y, sorted_from k r -> interp_from k k y r = y.
Proof.
  intros [|[x2 y2] r] k y S; simpl; [reflexivity|].
  destruct S as [L _]. rewrite (Qlt_bool_lt _ _ L).
  assert (E : Qeq_bool k k = true) by (apply Qeq_bool_iff; reflexivity). rewrite E. reflexivity.
Qed.

Lemma interp_from_node : forall r x0 y0 k v, sorted_from x0 r -> In (k, v) r -> interp_from k x0 y0 r = v.
Proof.
  induction r as [|[x1 y1] r IH]; intros x0 y0 k v S Hin; simpl in *; [contradiction|].
  destruct S as [L S]. destruct Hin as [E|Hin].
  - injection E as <- <-. rewrite Qlt_bool_irrefl. apply interp_from_at_start. exact S.
  - pose proof (sorted_from_lt r x1 k v S Hin) as L1.
    rewrite (Qlt_bool_ge _ _ L1). apply IH; assumption.
Qed.

(* numpy.interp on a strictly increasing abscissa returns the tabulated ordinate at every node *)
Theorem interp_node : forall t, sorted t -> forall k v, In (k, v) t -> interp k t = Some v.
Proof.
  intros [|[x0 y0] r] S k v Hin; simpl in *; [contradiction|]. f_equal.
  destruct Hin as [E|Hin].
  - injection E as <- <-.
    assert (E : Qle_bool x0 x0 = true) by (apply Qle_bool_iff; apply Qle_refl). rewrite E. reflexivity.
  - pose proof (sorted_from_lt r x0 k v S Hin) as L.
    assert (E : Qle_bool k x0 = false).
    { destruct (Qle_bool k x0) eqn:E; [|reflexivity]. apply Qle_bool_iff in E. exfalso. exact (Qlt_not_le _ _ L E). }
    rewrite E. apply interp_from_node; assumption.
Qed.

(* beyond the ends the table is extended by its end values *)
Lemma interp_left : forall x0 y0 r x, x <= x0 -> interp x ((x0, y0) :: r) = Some y0.
Proof. intros. simpl. apply Qle_bool_iff in H. rewrite H. reflexivity. Qed.
