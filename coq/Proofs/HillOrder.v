(* Proofs/HillOrder.v — the Hill order is a strict total order; insertion sort yields the
   unique sorted permutation. *)
From Coq Require Import ZArith QArith String Ascii List Bool Lia Permutation Sorted.
From PT Require Import Str Dec Loaders Formula FormulaAlg.
Import ListNotations.

(* ---------------------------------------------------------------- strings *)
Lemma str_ltb_irrefl : forall a, str_ltb a a = false.
Proof. induction a as [|x a IH]; simpl; [reflexivity|]. rewrite N.ltb_irrefl. exact IH. Qed.

Lemma N_of_ascii_inj : forall x y, N_of_ascii x = N_of_ascii y -> x = y.
Proof. intros x y H. rewrite <- (ascii_N_embedding x), <- (ascii_N_embedding y). rewrite H. reflexivity. Qed.

Lemma str_ltb_asym : forall a b, str_ltb a b = true -> str_ltb b a = false.
Proof.
  induction a as [|x a IH]; intros [|y b] H; simpl in *; try discriminate; try reflexivity.
  destruct (N.ltb_spec (N_of_ascii x) (N_of_ascii y)) as [L|L].
  - destruct (N.ltb_spec (N_of_ascii y) (N_of_ascii x)); [lia|].
    destruct (N.ltb_spec (N_of_ascii x) (N_of_ascii y)); [reflexivity|lia].
  - destruct (N.ltb_spec (N_of_ascii y) (N_of_ascii x)) as [L2|L2]; [discriminate|].
    apply IH. exact H.
Qed.

Lemma str_ltb_total : forall a b, str_ltb a b = false -> str_ltb b a = false -> a = b.
Proof.
  induction a as [|x a IH]; intros [|y b] H1 H2; simpl in *; try discriminate; try reflexivity.
  destruct (N.ltb_spec (N_of_ascii x) (N_of_ascii y)) as [L|L]; [discriminate|].
  destruct (N.ltb_spec (N_of_ascii y) (N_of_ascii x)) as [L2|L2]; [discriminate|].
  assert (N_of_ascii x = N_of_ascii y) by lia. apply N_of_ascii_inj in H. subst y.
  f_equal. apply IH; assumption.
Qed.

Lemma str_ltb_trans : forall a b c, str_ltb a b = true -> str_ltb b c = true -> str_ltb a c = true.
Proof.
  induction a as [|x a IH]; intros [|y b] [|z c] H1 H2; simpl in *; try discriminate; try reflexivity.
  destruct (N.ltb_spec (N_of_ascii x) (N_of_ascii y)) as [L|L].
  - destruct (N.ltb_spec (N_of_ascii y) (N_of_ascii z)) as [M|M].
    + destruct (N.ltb_spec (N_of_ascii x) (N_of_ascii z)); [reflexivity|lia].
    + destruct (N.ltb_spec (N_of_ascii z) (N_of_ascii y)) as [M2|M2]; [discriminate|].
      destruct (N.ltb_spec (N_of_ascii x) (N_of_ascii z)); [reflexivity|lia].
  - destruct (N.ltb_spec (N_of_ascii y) (N_of_ascii x)) as [L2|L2]; [discriminate|].
    destruct (N.ltb_spec (N_of_ascii y) (N_of_ascii z)) as [M|M].
    + destruct (N.ltb_spec (N_of_ascii x) (N_of_ascii z)); [reflexivity|lia].
    + destruct (N.ltb_spec (N_of_ascii z) (N_of_ascii y)) as [M2|M2]; [discriminate|].
      destruct (N.ltb_spec (N_of_ascii x) (N_of_ascii z)) as [K|K]; [reflexivity|].
      destruct (N.ltb_spec (N_of_ascii z) (N_of_ascii x)) as [K2|K2]; [lia|].
      apply (IH b c); assumption.
Qed.

(* ---------------------------------------------------------------- sorting by a key with a strict total order *)
Section Order.
  Variables A K : Type.
  Variable key : A -> K.
  Variable ltK : K -> K -> bool.
  Hypothesis asym : forall a b, ltK a b = true -> ltK b a = false.
  Hypothesis trans : forall a b c, ltK a b = true -> ltK b c = true -> ltK a c = true.

  Definition ltb (x y : A) : bool := ltK (key x) (key y).
  Definition leb (a b : A) : Prop := ltb b a = false.

  Lemma insert_perm : forall x l, Permutation (insert_lt ltb x l) (x :: l).
  Proof.
    intros x l. induction l as [|y r IH]; simpl; [apply Permutation_refl|].
    destruct (ltb y x); [|apply Permutation_refl].
    eapply Permutation_trans; [apply perm_skip; exact IH|apply perm_swap].
  Qed.

  Theorem sort_perm : forall l, Permutation (sort_lt ltb l) l.
  Proof.
    induction l as [|x r IH]; simpl; [constructor|].
    eapply Permutation_trans; [apply insert_perm|]. apply perm_skip. exact IH.
  Qed.

  Lemma insert_sorted : forall x l, LocallySorted leb l -> LocallySorted leb (insert_lt ltb x l).
  Proof.
    intros x l H. induction H as [|y|y z r Hs IH Hyz]; simpl.
    - constructor.
    - destruct (ltb y x) eqn:E.
      + constructor; [constructor|]. unfold leb, ltb. apply asym. exact E.
      + constructor; [constructor|]. exact E.
    - destruct (ltb y x) eqn:E.
      + simpl in IH. destruct (ltb z x) eqn:E2.
        * constructor; [exact IH|exact Hyz].
        * constructor; [exact IH|]. unfold leb, ltb. apply asym. exact E.
      + constructor; [constructor; assumption|]. exact E.
  Qed.

  Theorem sort_sorted : forall l, LocallySorted leb (sort_lt ltb l).
  Proof. induction l as [|x r IH]; simpl; [constructor|]. apply insert_sorted. exact IH. Qed.

  Lemma insert_front : forall x l, (forall y, In y l -> ltb y x = false) -> insert_lt ltb x l = x :: l.
  Proof.
    intros x [|y r] H; simpl; [reflexivity|]. rewrite (H y); [reflexivity|]. left. reflexivity.
  Qed.

  Hypothesis total : forall a b, ltK a b = false -> ltK b a = false -> a = b.

  Lemma le_trans : forall a b c, leb a b -> leb b c -> leb a c.
  Proof.
    unfold leb, ltb. intros a b c H1 H2. destruct (ltK (key c) (key a)) eqn:E; [|reflexivity].
    destruct (ltK (key a) (key b)) eqn:E3.
    - rewrite (trans _ _ _ E E3) in H2. discriminate.
    - assert (Hk : key a = key b) by (apply total; assumption). rewrite <- Hk in H2. rewrite E in H2. discriminate.
  Qed.

  Lemma sorted_head_le : forall x l, LocallySorted leb (x :: l) -> forall y, In y l -> leb x y.
  Proof.
    intros x l. revert x. induction l as [|z r IH]; intros x H y Hin; [destruct Hin|].
    inversion H as [| |? ? ? Hs Hxz]; subst. destruct Hin as [->|Hin]; [exact Hxz|].
    eapply le_trans; [exact Hxz|]. apply IH; assumption.
  Qed.

  (* a sorted list is left unchanged by the sort *)
  Theorem sort_sorted_id : forall l, LocallySorted leb l -> sort_lt ltb l = l.
  Proof.
    induction l as [|x r IH]; intro H; simpl; [reflexivity|].
    assert (Hr : LocallySorted leb r) by (inversion H; subst; [constructor|assumption]).
    rewrite (IH Hr). apply insert_front. intros y Hy. exact (sorted_head_le x r H y Hy).
  Qed.

  Lemma nodup_key_inj : forall l x y, NoDup (map key l) -> In x l -> In y l -> key x = key y -> x = y.
  Proof.
    induction l as [|z r IH]; intros x y Hnd Hx Hy Hk; [destruct Hx|].
    simpl in Hnd. inversion Hnd as [|? ? Hn Hr]; subst.
    destruct Hx as [->|Hx], Hy as [->|Hy].
    - reflexivity.
    - exfalso. apply Hn. rewrite Hk. apply in_map. exact Hy.
    - exfalso. apply Hn. rewrite <- Hk. apply in_map. exact Hx.
    - apply IH; assumption.
  Qed.

  (* two sorted permutations of each other with pairwise distinct keys are equal *)
  Theorem sorted_perm_unique : forall l m, NoDup (map key l) -> LocallySorted leb l -> LocallySorted leb m ->
    Permutation l m -> l = m.
  Proof.
    induction l as [|x r IH]; intros m Hnd Hl Hm Hp.
    - apply Permutation_nil in Hp. subst. reflexivity.
    - destruct m as [|y s]; [apply Permutation_sym, Permutation_nil in Hp; discriminate|].
      assert (Hxy : x = y).
      { assert (Hx : In x (y :: s)) by (apply (Permutation_in _ Hp); left; reflexivity).
        assert (Hy : In y (x :: r)) by (apply (Permutation_in _ (Permutation_sym Hp)); left; reflexivity).
        destruct Hx as [->|Hx]; [reflexivity|]. destruct Hy as [Hy|Hy]; [exact Hy|].
        apply (nodup_key_inj (x :: r)); [exact Hnd|left; reflexivity|right; exact Hy|].
        apply total.
        - exact (sorted_head_le y s Hm x Hx).
        - exact (sorted_head_le x r Hl y Hy). }
      subst y. f_equal. apply IH.
      + simpl in Hnd. inversion Hnd; assumption.
      + inversion Hl; subst; [constructor|assumption].
      + inversion Hm; subst; [constructor|assumption].
      + apply Permutation_cons_inv with x. exact Hp.
  Qed.

  Theorem sort_canonical : forall l m, NoDup (map key l) -> Permutation l m -> sort_lt ltb l = sort_lt ltb m.
  Proof.
    intros l m Hnd Hp. apply sorted_perm_unique.
    - apply (Permutation_NoDup (Permutation_map key (Permutation_sym (sort_perm l)))). exact Hnd.
    - apply sort_sorted.
    - apply sort_sorted.
    - eapply Permutation_trans; [apply sort_perm|]. eapply Permutation_trans; [exact Hp|].
      apply Permutation_sym. apply sort_perm.
  Qed.
End Order.
