(* Proofs/C18Proofs.v — biomolecule sequences are the sum of their residues.
   Generic theorems hold for ANY atom environment and ANY code table; the statements about the
   tables of this source tree are kernel-evaluated sweeps over Gen/FastaTables.v run through the
   parser model. *)
From Coq Require Import ZArith QArith Qabs Qreduction String Ascii List Bool Lia Permutation Setoid Morphisms.
From PT Require Import Str Dec Py Loaders Formula FormulaMachine FormulaAlg C06Check AtomEnv Pyparse TableEnv
     C02Proofs C19Proofs Fasta.
From PT.Gen Require Import FastaTables.
Import ListNotations.
Open Scope Q_scope.

(* ================================================================ 0. sums *)
Fixpoint qsum (l : list Q) : Q := match l with [] => 0 | x :: r => x + qsum r end.

(* equal-weight average; the average of nothing is 0 (gap / masked codes) *)
Definition qmean (l : list Q) : Q :=
  match l with [] => 0 | _ => qsum l / inject_Z (Z.of_nat (length l)) end.

Lemma qsum_app : forall l m, qsum (l ++ m) == qsum l + qsum m.
Proof. induction l as [|x r IH]; intro m; simpl; [ring|]. rewrite IH. ring. Qed.

Lemma qsum_perm : forall l m, Permutation l m -> qsum l == qsum m.
Proof.
  intros l m H. induction H as [|x l m H IH|x y l|l m n H1 IH1 H2 IH2]; simpl.
  - reflexivity.
  - rewrite IH. reflexivity.
  - ring.
  - rewrite IH1. exact IH2.
Qed.

Lemma Qred_idem' : forall q, Qred (Qred q) = Qred q.
Proof. intro q. apply Qred_complete. apply Qred_correct. Qed.

(* reduced values that are equal as rationals are identical *)
Lemma canon_eq : forall x y, Qred x = x -> Qred y = y -> x == y -> x = y.
Proof. intros x y Hx Hy H. rewrite <- Hx, <- Hy. apply Qred_complete. exact H. Qed.

Lemma fold_red_spec : forall (f : molecule -> Q) l acc,
  fold_left (fun acc p => Qred (acc + f p)) l acc == acc + qsum (map f l).
Proof.
  intros f l. induction l as [|p r IH]; intro acc; cbn [fold_left map qsum].
  - ring.
  - rewrite IH. rewrite Qred_correct. ring.
Qed.

Lemma fold_red_canon : forall (f : molecule -> Q) l acc, Qred acc = acc ->
  Qred (fold_left (fun acc p => Qred (acc + f p)) l acc) = fold_left (fun acc p => Qred (acc + f p)) l acc.
Proof.
  intros f l. induction l as [|p r IH]; intros acc H; cbn [fold_left].
  - exact H.
  - apply IH. apply Qred_idem'.
Qed.

Lemma sum_red_spec : forall f parts, sum_red f parts == qsum (map f parts).
Proof. intros. unfold sum_red. rewrite fold_red_spec. ring. Qed.

Lemma sum_red_canon : forall f parts, Qred (sum_red f parts) = sum_red f parts.
Proof. intros. unfold sum_red. apply fold_red_canon. reflexivity. Qed.

Lemma sum_red_perm : forall f l m, Permutation l m -> sum_red f l = sum_red f m.
Proof.
  intros f l m H. apply canon_eq; try apply sum_red_canon.
  rewrite !sum_red_spec. apply qsum_perm. apply Permutation_map. exact H.
Qed.

(* ================================================================ 1. dict operations *)
Lemma dget0_cons : forall a b w r, dget0 ((b, w) :: r) a = if atom_eqb a b then w else dget0 r a.
Proof. intros. unfold dget0. simpl. destruct (atom_eqb a b); reflexivity. Qed.

Lemma dweight_nil : forall w, dweight w [] == 0.
Proof. intro w. unfold dweight. simpl. ring. Qed.

Lemma dweight_dict_set : forall w d a v,
  dweight w (dict_set d a v) == dweight w d - w a * dget0 d a + w a * v.
Proof.
  intros w d a v. induction d as [|[b x] r IH].
  - simpl. rewrite dweight_cons, dweight_nil. unfold dget0. simpl. ring.
  - simpl. rewrite dget0_cons. destruct (atom_eqb a b) eqn:E.
    + apply atom_eqb_eq in E. subst b. rewrite !dweight_cons. ring.
    + rewrite !dweight_cons. rewrite IH. ring.
Qed.

Lemma dweight_dict_del : forall w d a, dweight w (dict_del d a) == dweight w d - w a * dget0 d a.
Proof.
  intros w d a. induction d as [|[b x] r IH].
  - simpl. rewrite dweight_nil. unfold dget0. simpl. ring.
  - simpl. rewrite dget0_cons. destruct (atom_eqb a b) eqn:E.
    + apply atom_eqb_eq in E. subst b. rewrite dweight_cons. ring.
    + rewrite !dweight_cons. rewrite IH. ring.
Qed.

Lemma dget0_dict_set_other : forall d a v b, atom_eqb b a = false -> dget0 (dict_set d a v) b = dget0 d b.
Proof.
  intros d a v b Hba. induction d as [|[c x] r IH].
  - simpl. rewrite dget0_cons. rewrite Hba. reflexivity.
  - simpl. destruct (atom_eqb a c) eqn:E.
    + apply atom_eqb_eq in E. subst c. rewrite !dget0_cons. rewrite Hba. reflexivity.
    + rewrite !dget0_cons. rewrite IH. reflexivity.
Qed.

Lemma dget_dget0 : forall d a c, dget d a = Some c -> dget0 d a = c.
Proof. intros d a c H. unfold dget0. rewrite H. reflexivity. Qed.

(* weight with the source atom weighed as the target *)
Definition subst_w (w : atom -> Q) (src tgt : atom) : atom -> Q :=
  fun a => if atom_eqb a src then w tgt else w a.

Lemma dweight_subst : forall w s t d, dweight (subst_w w s t) d == dweight w d + (w t - w s) * dsum d s.
Proof.
  intros w s t d. induction d as [|[b x] r IH].
  - rewrite !dweight_nil. simpl. ring.
  - rewrite !dweight_cons. rewrite IH. simpl. unfold subst_w at 1. rewrite (atom_eqb_sym b s).
    destruct (atom_eqb s b) eqn:E.
    + apply atom_eqb_eq in E. subst b. ring.
    + ring.
Qed.

(* ================================================================ 2. weights through the Hill form *)
Lemma fweight_map_item : forall w l, fweight w (FGroup (map hill_item l)) == dweight w l.
Proof.
  intros w l. induction l as [|[a x] r IH]; simpl map.
  - rewrite fweight_group_nil, dweight_nil. reflexivity.
  - unfold hill_item at 1. simpl fst. simpl snd. rewrite fweight_group_cons, dweight_cons, IH.
    simpl. rewrite Qred_correct. ring.
Qed.

Lemma dweight_perm : forall w l m, Permutation l m -> dweight w l == dweight w m.
Proof.
  intros w l m H. induction H as [|[a x] l m H IH|[a x] [b y] l|l m n H1 IH1 H2 IH2].
  - reflexivity.
  - rewrite !dweight_cons, IH. reflexivity.
  - rewrite !dweight_cons. ring.
  - rewrite IH1. exact IH2.
Qed.

Lemma fweight_hill : forall E w d, fweight w (FGroup (hill_struct E d)) == dweight w d.
Proof.
  intros E w d. rewrite hill_struct_eq, fweight_map_item. apply dweight_perm. apply hsort_perm.
Qed.

(* the weight over the atoms of formula(dict) is the weight over the dict *)
Lemma dweight_atoms_hill : forall E w d, dweight w (count_atoms (hill_struct E d)) == dweight w d.
Proof. intros. unfold count_atoms. rewrite dweight_count_frag. apply fweight_hill. Qed.

Lemma cnt_flat_map : forall a (parts : list molecule),
  cnt_s a (parts_structure parts) == qsum (map (fun p => cnt_s a (f_struct (m_labile p))) parts).
Proof.
  intros a parts. unfold parts_structure, cnt_s. induction parts as [|p r IH]; cbn [flat_map map qsum].
  - reflexivity.
  - rewrite cnt_app, IH. reflexivity.
Qed.

Lemma fweight_flat_map : forall w (parts : list molecule),
  fweight w (FGroup (parts_structure parts)) ==
  qsum (map (fun p => fweight w (FGroup (f_struct (m_labile p)))) parts).
Proof.
  intros w parts. unfold parts_structure. induction parts as [|p r IH]; cbn [flat_map map qsum].
  - reflexivity.
  - rewrite fweight_app, IH. reflexivity.
Qed.

(* ================================================================ 3. Formula.replace *)
Definition replaced_mass (E : aenv) (src tgt : atom) (f : fobj) : Q :=
  dweight (subst_w (e_mass E) src tgt) (f_atoms f).
(* mass with every labile hydrogen counted as natural H / as D *)
Definition natural_mass (E : aenv) (f : fobj) : Q := replaced_mass E aH1 aH f.
Definition deuterated_mass (E : aenv) (f : fobj) : Q := replaced_mass E aH1 aD f.

Lemma f_atoms_new : forall E s k d nd n, f_atoms (new_formula E s k d nd n) = count_atoms s.
Proof. reflexivity. Qed.

Lemma nodup_f_atoms : forall f, NoDup (keys (f_atoms f)).
Proof. intro f. unfold f_atoms, count_atoms. apply nodup_count_frag. Qed.

Lemma replace_mass : forall E f src tgt g, atom_eqb src tgt = false ->
  f_replace1 E f src tgt = FOk g -> f_mass E g == replaced_mass E src tgt f.
Proof.
  intros E f src tgt g Hne H. unfold f_replace1 in H. unfold replaced_mass.
  rewrite dweight_subst. rewrite <- dget0_dsum by apply nodup_f_atoms.
  destruct (dget (f_atoms f) src) as [c|] eqn:Hs.
  - destruct (f_density f) as [rho|]; [|discriminate].
    destruct (Qeq_bool (dweight (e_mass E) (f_atoms f)) 0); [discriminate|].
    inversion H; subst g; clear H. unfold f_mass. rewrite f_atoms_new. rewrite dweight_atoms_hill.
    rewrite dweight_dict_del. rewrite dweight_dict_set.
    rewrite dget0_dict_set_other by exact Hne. rewrite (dget_dget0 _ _ _ Hs). ring.
  - inversion H; subst g; clear H. unfold f_mass. rewrite f_atoms_new. rewrite dweight_atoms_hill.
    unfold dget0. rewrite Hs. ring.
Qed.

(* the density formula(atoms, density=...) keeps *)
Lemma new_formula_density : forall E s k d n, f_density (new_formula E s k (Some d) None n) = Some d.
Proof. reflexivity. Qed.

Lemma replaced_mass_eq : forall E src tgt f,
  replaced_mass E src tgt f == f_mass E f + (e_mass E tgt - e_mass E src) * dget0 (f_atoms f) src.
Proof.
  intros. unfold replaced_mass. rewrite dweight_subst. rewrite <- dget0_dsum by apply nodup_f_atoms.
  reflexivity.
Qed.

Lemma replace_density : forall E f src tgt g rho, atom_eqb src tgt = false ->
  f_density f = Some rho -> f_replace1 E f src tgt = FOk g ->
  exists d, f_density g = Some d /\ d * f_mass E f == rho * replaced_mass E src tgt f.
Proof.
  intros E f src tgt g rho Hne Hd H. unfold f_replace1 in H.
  destruct (dget (f_atoms f) src) as [c|] eqn:Hs.
  - rewrite Hd in H. destruct (Qeq_bool (dweight (e_mass E) (f_atoms f)) 0) eqn:Hz; [discriminate|].
    inversion H; subst g; clear H. eexists. split; [reflexivity|].
    rewrite replaced_mass_eq. rewrite (dget_dget0 _ _ _ Hs). unfold f_mass.
    assert (Hm : ~ dweight (e_mass E) (f_atoms f) == 0).
    { intro Hq. apply Qeq_bool_iff in Hq. rewrite Hq in Hz. discriminate. }
    field. exact Hm.
  - inversion H; subst g; clear H. rewrite Hd. eexists. split; [reflexivity|].
    rewrite replaced_mass_eq. unfold dget0. rewrite Hs. ring.
Qed.

(* ================================================================ 4. Molecule *)
Lemma aH1_aH : atom_eqb aH1 aH = false. Proof. reflexivity. Qed.
Lemma aH1_aD : atom_eqb aH1 aD = false. Proof. reflexivity. Qed.

Definition mol_consistent (E : aenv) (m : molecule) : Prop :=
  m_mass m == natural_mass E (m_labile m) /\ m_Dmass m == deuterated_mass E (m_labile m).

Lemma molecule_of_inv : forall E name M0 vol q m, molecule_of E name M0 vol q = FOk m ->
  let M := mkF (f_struct M0) (f_kind M0) (Some (volume_density E M0 vol)) (f_name M0) in
  exists H D, f_replace1 E M aH1 aH = FOk H /\ f_replace1 E M aH1 aD = FOk D /\
              m = mkMol name vol q M H D (f_mass E H) (f_mass E D) (f_density H).
Proof.
  intros E name M0 vol q m H. unfold molecule_of in H.
  destruct (dict_mem (f_atoms M0) aT); [discriminate|].
  cbv zeta. destruct (f_replace1 E _ aH1 aH) as [Hf| |] eqn:EH; simpl in H; try discriminate.
  destruct (f_replace1 E _ aH1 aD) as [Df| |] eqn:ED; simpl in H; try discriminate.
  inversion H. exists Hf, Df. repeat split; assumption.
Qed.

(* what Molecule.__init__ stores *)
Theorem molecule_fields : forall E name M0 vol q m, molecule_of E name M0 vol q = FOk m ->
  m_name m = name /\ m_vol m = vol /\ m_charge m = q /\ f_struct (m_labile m) = f_struct M0 /\
  mol_consistent E m.
Proof.
  intros E name M0 vol q m H. destruct (molecule_of_inv _ _ _ _ _ _ H) as [Hf [Df [EH [ED Hm]]]].
  subst m. simpl. repeat split; unfold mol_consistent; simpl.
  - exact (replace_mass _ _ _ _ _ aH1_aH EH).
  - exact (replace_mass _ _ _ _ _ aH1_aD ED).
Qed.

(* density is mass over cell volume: 1e24 * (mass / N_A) / V, for the labile and for the natural form *)
Theorem molecule_density : forall E name M0 vol q m, molecule_of E name M0 vol q = FOk m ->
  exists dl dn, f_density (m_labile m) = Some dl /\ f_density (m_natural m) = Some dn /\
    m_density m = Some dn /\
    (0 < vol -> dl == TEN24 * (f_mass E (m_labile m) / NA) / vol /\
                dn == TEN24 * (m_mass m / NA) / vol) /\
    (vol <= 0 -> dl == 0 /\ dn == 0).
Proof.
  intros E name M0 vol q m H. destruct (molecule_of_inv _ _ _ _ _ _ H) as [Hf [Df [EH [ED Hm]]]].
  cbv zeta in EH, ED.
  set (M := mkF (f_struct M0) (f_kind M0) (Some (volume_density E M0 vol)) (f_name M0)) in *.
  assert (HdM : f_density M = Some (volume_density E M0 vol)) by reflexivity.
  destruct (replace_density _ _ _ _ _ _ aH1_aH HdM EH) as [dn [Hdn Heq]].
  pose proof (replace_mass _ _ _ _ _ aH1_aH EH) as Hmass.
  subst m. simpl. exists (volume_density E M0 vol), dn. split; [reflexivity|]. split; [exact Hdn|].
  split; [exact Hdn|].
  assert (HMM : f_mass E M = f_mass E M0) by reflexivity.
  (* the replace succeeded: either no labile hydrogen (masses agree) or a non-zero mass *)
  assert (Hcases : ~ f_mass E M0 == 0 \/ dn = volume_density E M0 vol /\ f_mass E Hf == f_mass E M0).
  { unfold f_replace1 in EH. destruct (dget (f_atoms M) aH1) as [c|] eqn:Hs.
    - rewrite HdM in EH. destruct (Qeq_bool (dweight (e_mass E) (f_atoms M)) 0) eqn:Hz; [discriminate|].
      left. intro Hq. change (f_mass E M0) with (dweight (e_mass E) (f_atoms M)) in Hq.
      apply Qeq_bool_iff in Hq. rewrite Hq in Hz. discriminate.
    - right. inversion EH; subst Hf. change (Some (volume_density E M0 vol) = Some dn) in Hdn.
      inversion Hdn. split; [reflexivity|].
      unfold f_mass. rewrite f_atoms_new. rewrite dweight_atoms_hill. reflexivity. }
  rewrite HMM in Heq. rewrite <- Hmass in Heq.
  split.
  - intro Hpos. assert (Hv : Qle_bool vol 0 = false).
    { destruct (Qle_bool vol 0) eqn:Ev; [|reflexivity]. apply Qle_bool_iff in Ev.
      exfalso. exact (Qlt_not_le _ _ Hpos Ev). }
    unfold volume_density in *. rewrite Hv in *. split; [reflexivity|].
    destruct Hcases as [Hnz|[Hd Hsame]].
    + assert (Hinv : f_mass E M0 * / f_mass E M0 == 1) by (apply Qmult_inv_r; exact Hnz).
      transitivity (dn * f_mass E M0 * / f_mass E M0).
      * rewrite <- Qmult_assoc, Hinv. ring.
      * rewrite Heq. unfold Qdiv.
        transitivity (TEN24 * (f_mass E Hf * / NA) * / vol * (f_mass E M0 * / f_mass E M0)); [ring|].
        rewrite Hinv. ring.
    + subst dn. rewrite Hsame. reflexivity.
  - intro Hle. assert (Hv : Qle_bool vol 0 = true) by (apply Qle_bool_iff; exact Hle).
    unfold volume_density in *. rewrite Hv in *. split; [reflexivity|].
    destruct Hcases as [Hnz|[Hd _]].
    + assert (Hinv : f_mass E M0 * / f_mass E M0 == 1) by (apply Qmult_inv_r; exact Hnz).
      transitivity (dn * f_mass E M0 * / f_mass E M0).
      * rewrite <- Qmult_assoc, Hinv. ring.
      * rewrite Heq. ring.
    + subst dn. reflexivity.
Qed.

(* ================================================================ 5. Sequence: the sum of its residues *)
Lemma qsum_map_ext : forall (A : Type) (f g : A -> Q) l, (forall x, f x == g x) ->
  qsum (map f l) == qsum (map g l).
Proof. intros A f g l H. induction l as [|x r IH]; simpl; [reflexivity|]. rewrite H, IH. reflexivity. Qed.

Lemma replaced_mass_struct : forall E s t f,
  replaced_mass E s t f == fweight (subst_w (e_mass E) s t) (FGroup (f_struct f)).
Proof. intros. unfold replaced_mass, f_atoms, count_atoms. apply dweight_count_frag. Qed.

(* the structure parse_formula(structure).hill hands to Molecule.__init__ *)
Definition seq_formula (E : aenv) (parts : list molecule) : fobj :=
  f_hill E (new_formula E (parts_structure parts) KTuple None None None).

Lemma seq_formula_struct : forall E parts,
  f_struct (seq_formula E parts) = hill_struct E (count_atoms (parts_structure parts)).
Proof. reflexivity. Qed.

Lemma sequence_of_parts_eq : forall E name parts,
  sequence_of_parts E name parts =
  molecule_of E name (formula_of_formula E (seq_formula E parts)) (sum_vol parts) (sum_charge parts).
Proof. reflexivity. Qed.

Lemma replaced_mass_seq : forall E s t parts m,
  f_struct (m_labile m) = hill_struct E (count_atoms (parts_structure parts)) ->
  replaced_mass E s t (m_labile m) == qsum (map (fun p => replaced_mass E s t (m_labile p)) parts).
Proof.
  intros E s t parts m Hs. unfold replaced_mass at 1. unfold f_atoms. rewrite Hs.
  rewrite dweight_atoms_hill. unfold count_atoms. rewrite dweight_count_frag, fweight_flat_map.
  apply qsum_map_ext. intro p. symmetry. apply replaced_mass_struct.
Qed.

Theorem parts_is_sum : forall E name parts m, sequence_of_parts E name parts = FOk m ->
  m_vol m == qsum (map m_vol parts) /\
  m_charge m == qsum (map m_charge parts) /\
  (forall a, dget0 (f_atoms (m_labile m)) a == qsum (map (fun p => dget0 (f_atoms (m_labile p)) a) parts)) /\
  m_mass m == qsum (map (fun p => natural_mass E (m_labile p)) parts) /\
  m_Dmass m == qsum (map (fun p => deuterated_mass E (m_labile p)) parts).
Proof.
  intros E name parts m H. rewrite sequence_of_parts_eq in H.
  destruct (molecule_fields _ _ _ _ _ _ H) as [_ [Hv [Hq [Hs [Hm HD]]]]].
  change (f_struct (formula_of_formula E (seq_formula E parts)))
    with (hill_struct E (count_atoms (parts_structure parts))) in Hs.
  split; [rewrite Hv; apply sum_red_spec|].
  split; [rewrite Hq; apply sum_red_spec|].
  split; [|split].
  - intro a. unfold f_atoms at 1. rewrite Hs. rewrite count_atoms_spec, hill_same_counts, cnt_flat_map.
    apply qsum_map_ext. intro p. symmetry. unfold f_atoms. apply count_atoms_spec.
  - rewrite Hm. unfold natural_mass. apply replaced_mass_seq. exact Hs.
  - rewrite HD. unfold deuterated_mass. apply replaced_mass_seq. exact Hs.
Qed.

(* the parts are the table entries of the codes, in order *)
Lemma parts_of_spec : forall tab cs parts, parts_of tab cs = Some parts ->
  Forall2 (fun c p => tab_get tab (code_key c) = Some p) cs parts.
Proof.
  intros tab cs. induction cs as [|c r IH]; intros parts H; simpl in H.
  - inversion H. constructor.
  - destruct (tab_get tab (code_key c)) as [m|] eqn:E; [|discriminate].
    destruct (parts_of tab r) as [ms|]; [|discriminate]. inversion H. constructor; [exact E|].
    apply IH. reflexivity.
Qed.

Lemma sequence_of_inv : forall E tab name s sm, sequence_of E tab name s = FOk sm ->
  exists parts, parts_of tab (chars (clean s)) = Some parts /\
                sequence_of_parts E name parts = FOk (s_mol sm) /\ s_sequence sm = clean s.
Proof.
  intros E tab name s sm H. unfold sequence_of in H. cbv zeta in H.
  destruct (parts_of tab (chars (clean s))) as [parts|]; [|discriminate].
  exists parts. destruct (sequence_of_parts E name parts) as [m| |]; simpl in H; try discriminate.
  inversion H. simpl. repeat split.
Qed.

(* for ANY code string: volume, charge, every atom count and both masses of the sequence are the sums
   over its residues, the residues being the table entries of the codes that remain after spaces are
   removed and the text is cut at the first '*' *)
Theorem sequence_is_sum_gen : forall E tab name s sm, sequence_of E tab name s = FOk sm ->
  exists parts,
    Forall2 (fun c p => tab_get tab (code_key c) = Some p) (chars (clean s)) parts /\
    s_sequence sm = clean s /\
    m_vol (s_mol sm) == qsum (map m_vol parts) /\
    m_charge (s_mol sm) == qsum (map m_charge parts) /\
    (forall a, dget0 (f_atoms (m_labile (s_mol sm))) a ==
               qsum (map (fun p => dget0 (f_atoms (m_labile p)) a) parts)) /\
    m_mass (s_mol sm) == qsum (map (fun p => natural_mass E (m_labile p)) parts) /\
    m_Dmass (s_mol sm) == qsum (map (fun p => deuterated_mass E (m_labile p)) parts).
Proof.
  intros E tab name s sm H. destruct (sequence_of_inv _ _ _ _ _ H) as [parts [Hp [Hm Hs]]].
  exists parts. split; [apply parts_of_spec; exact Hp|]. split; [exact Hs|].
  exact (parts_is_sum _ _ _ _ Hm).
Qed.

(* when the table entries store the masses of their own formulas (true of every Molecule, see
   molecule_fields), the masses are the sums of the residues' stored masses *)
Definition table_consistent (E : aenv) (tab : table) : Prop :=
  forall k m, tab_get tab k = Some m -> mol_consistent E m.

Theorem sequence_mass_is_sum : forall E tab name s sm, table_consistent E tab ->
  sequence_of E tab name s = FOk sm ->
  exists parts,
    Forall2 (fun c p => tab_get tab (code_key c) = Some p) (chars (clean s)) parts /\
    m_mass (s_mol sm) == qsum (map m_mass parts) /\ m_Dmass (s_mol sm) == qsum (map m_Dmass parts).
Proof.
  intros E tab name s sm Hc H. destruct (sequence_is_sum_gen _ _ _ _ _ H) as [parts [HF [_ [_ [_ [_ [Hm HD]]]]]]].
  exists parts. split; [exact HF|].
  assert (Hall : Forall (mol_consistent E) parts).
  { clear -HF Hc. induction HF as [|c p cs ps Hcp _ IH]; constructor; [exact (Hc _ _ Hcp)|exact IH]. }
  split.
  - rewrite Hm. clear -Hall. induction Hall as [|p ps [H1 _] _ IH]; simpl; [reflexivity|]. rewrite H1, IH. reflexivity.
  - rewrite HD. clear -Hall. induction Hall as [|p ps [_ H2] _ IH]; simpl; [reflexivity|]. rewrite H2, IH. reflexivity.
Qed.

(* ================================================================ 6. independence of the order *)
Lemma parts_of_perm : forall tab cs cs', Permutation cs cs' ->
  match parts_of tab cs, parts_of tab cs' with
  | Some p, Some p' => Permutation p p'
  | None, None => True
  | _, _ => False
  end.
Proof.
  intros tab cs cs' H. induction H as [|x l l' H IH|x y l|l l' l'' H1 IH1 H2 IH2].
  - simpl. constructor.
  - simpl. destruct (tab_get tab (code_key x)); [|exact I].
    destruct (parts_of tab l), (parts_of tab l'); try exact IH; try exact I.
    constructor. exact IH.
  - simpl. destruct (tab_get tab (code_key x)), (tab_get tab (code_key y)), (parts_of tab l);
      try exact I. apply perm_swap.
  - destruct (parts_of tab l), (parts_of tab l'), (parts_of tab l''); try exact I; try contradiction.
    exact (Permutation_trans IH1 IH2).
Qed.

Lemma seq_formula_perm : forall E parts parts', Permutation parts parts' ->
  seq_formula E parts = seq_formula E parts'.
Proof.
  intros E parts parts' H. unfold seq_formula, f_hill, f_atoms, new_formula. cbn [f_struct].
  assert (Hs : hill_struct E (count_atoms (parts_structure parts)) =
               hill_struct E (count_atoms (parts_structure parts'))).
  { apply hill_reorder. unfold parts_structure. apply Permutation_flat_map. exact H. }
  rewrite Hs. reflexivity.
Qed.

Theorem parts_perm_eq : forall E name parts parts', Permutation parts parts' ->
  sequence_of_parts E name parts = sequence_of_parts E name parts'.
Proof.
  intros E name parts parts' H. rewrite !sequence_of_parts_eq.
  rewrite (seq_formula_perm E _ _ H). unfold sum_vol, sum_charge.
  rewrite (sum_red_perm m_vol _ _ H), (sum_red_perm m_charge _ _ H). reflexivity.
Qed.

(* the Molecule part of a Sequence (everything but the .sequence text) *)
Definition seq_mol_of (E : aenv) (tab : table) (name : option string) (s : string) : fres molecule :=
  match sequence_of E tab name s with
  | FOk sm => FOk (s_mol sm)
  | FErr e => FErr e
  | FUnmodelled => FUnmodelled
  end.

Lemma seq_mol_of_eq : forall E tab name s,
  seq_mol_of E tab name s =
  match parts_of tab (chars (clean s)) with
  | None => FErr KeyErr
  | Some parts => sequence_of_parts E name parts
  end.
Proof.
  intros. unfold seq_mol_of, sequence_of. cbv zeta. destruct (parts_of tab (chars (clean s))); [|reflexivity].
  destruct (sequence_of_parts E name l); reflexivity.
Qed.

(* two code strings with the same multiset of codes give the same molecule: identical Hill
   structure, volume, charge, densities, masses (and the same error if a code is unknown) *)
Theorem permutation_invariant_gen : forall E tab name s s',
  Permutation (chars (clean s)) (chars (clean s')) ->
  seq_mol_of E tab name s = seq_mol_of E tab name s'.
Proof.
  intros E tab name s s' H. rewrite !seq_mol_of_eq. pose proof (parts_of_perm tab _ _ H) as HP.
  destruct (parts_of tab (chars (clean s))), (parts_of tab (chars (clean s'))); try contradiction.
  - apply parts_perm_eq. exact HP.
  - reflexivity.
Qed.

(* ================================================================ 7. spaces, '*' *)
Lemma cut_star_app_star' : forall s1 s2, cut_star (s1 ++ String "*" s2) = cut_star s1.
Proof.
  induction s1 as [|c r IH]; intro s2; simpl.
  - reflexivity.
  - destruct (Ascii.eqb c "*"); [reflexivity|]. rewrite IH. reflexivity.
Qed.
Lemma cut_star_app_star : forall s1 s2, cut_star (s1 ++ "*" ++ s2) = cut_star s1.
Proof. intros. exact (cut_star_app_star' s1 s2). Qed.

Lemma remove_spaces_cut_star : forall s, remove_spaces (cut_star s) = cut_star (remove_spaces s).
Proof.
  induction s as [|c r IH]; simpl; [reflexivity|].
  destruct (Ascii.eqb_spec c "*") as [->|Hs].
  - simpl. reflexivity.
  - destruct (Ascii.eqb_spec c " ") as [->|Hb].
    + simpl. exact IH.
    + simpl. apply Ascii.eqb_neq in Hs, Hb. rewrite Hs, Hb. rewrite IH. reflexivity.
Qed.

Lemma remove_spaces_app_space' : forall s1 s2, remove_spaces (s1 ++ String " " s2) = remove_spaces (s1 ++ s2).
Proof.
  induction s1 as [|c r IH]; intro s2; simpl.
  - reflexivity.
  - rewrite IH. reflexivity.
Qed.
Lemma remove_spaces_app_space : forall s1 s2, remove_spaces (s1 ++ " " ++ s2) = remove_spaces (s1 ++ s2).
Proof. intros. exact (remove_spaces_app_space' s1 s2). Qed.

Lemma clean_spaces : forall s s', remove_spaces s = remove_spaces s' -> clean s = clean s'.
Proof. intros s s' H. unfold clean. rewrite !remove_spaces_cut_star, H. reflexivity. Qed.

Lemma sequence_of_clean : forall E tab name s s', clean s = clean s' ->
  sequence_of E tab name s = sequence_of E tab name s'.
Proof. intros E tab name s s' H. unfold sequence_of. rewrite H. reflexivity. Qed.

(* code strings that differ only in spaces give the same Sequence (same .sequence text too) *)
Theorem spaces_ignored_gen : forall E tab name s s', remove_spaces s = remove_spaces s' ->
  sequence_of E tab name s = sequence_of E tab name s'.
Proof. intros. apply sequence_of_clean. apply clean_spaces. assumption. Qed.

Corollary space_anywhere : forall E tab name s1 s2,
  sequence_of E tab name (s1 ++ " " ++ s2) = sequence_of E tab name (s1 ++ s2).
Proof. intros. apply spaces_ignored_gen. apply remove_spaces_app_space. Qed.

(* everything after the first '*' is dropped, whatever it is *)
Theorem star_truncates_gen : forall E tab name s1 s2,
  sequence_of E tab name (s1 ++ "*" ++ s2) = sequence_of E tab name s1.
Proof. intros. apply sequence_of_clean. unfold clean. rewrite cut_star_app_star. reflexivity. Qed.

(* ================================================================ 8. the 'aa:' / 'dna:' / 'rna:' prefixes *)
Lemma split_colon_app : forall ty s, contains_char ":" ty = false ->
  split_colon (ty ++ String ":" s) = Some (ty, s).
Proof.
  induction ty as [|c r IH]; intros s H; simpl.
  - reflexivity.
  - simpl in H. apply orb_false_elim in H. destruct H as [Hc Hr]. unfold ascii_eqb in Hc.
    rewrite Hc. rewrite (IH s Hr). reflexivity.
Qed.

(* what formula() returns for a Sequence result *)
Definition labile_of (x : fres seqmol) : fres fobj :=
  match x with
  | FOk sm => FOk (m_labile (s_mol sm))
  | FErr e => FErr e
  | FUnmodelled => FUnmodelled
  end.

Theorem prefix_equals_class_gen : forall E T ts ty tab s,
  tables_get ts ty = Some tab -> contains_char ":" ty = false ->
  formula_of_string E T ts (ty ++ ":" ++ s) = labile_of (sequence_of E tab None s).
Proof.
  intros E T ts ty tab s Ht Hc. unfold formula_of_string.
  change (ty ++ ":" ++ s)%string with (ty ++ String ":" s)%string.
  rewrite (split_colon_app ty s Hc). rewrite Ht. unfold fbind, labile_of.
  destruct (sequence_of E tab None s); reflexivity.
Qed.

(* ================================================================ 9. FASTA text *)
Definition is_header (l : string) : bool := startswith ">" (py_rstrip l).

(* a record as written to a file: the header line, then the sequence lines *)
Definition frecord := (string * list string)%type.
Definition emit (recs : list frecord) : list string := flat_map (fun r => fst r :: snd r) recs.
Definition record_of (r : frecord) : string * string :=
  (py_rstrip (fst r), join_all (map py_rstrip (snd r))).
Definition wf_record (r : frecord) : Prop :=
  is_header (fst r) = true /\ Forall (fun l => is_header l = false) (snd r).

Lemma go_cons : forall l r name seq,
  read_fasta_go (l :: r) name seq =
  if is_header l then (flush_record name seq ++ read_fasta_go r (Some (py_rstrip l)) [])%list
  else read_fasta_go r name (seq ++ [py_rstrip l])%list.
Proof. reflexivity. Qed.

Lemma go_body : forall ls rest name seq, Forall (fun l => is_header l = false) ls ->
  read_fasta_go (ls ++ rest)%list name seq = read_fasta_go rest name (seq ++ map py_rstrip ls)%list.
Proof.
  induction ls as [|l r IH]; intros rest name seq H.
  - simpl. rewrite app_nil_r. reflexivity.
  - inversion H as [|? ? Hl Hr]; subst. change ((l :: r) ++ rest)%list with (l :: (r ++ rest))%list.
    rewrite go_cons, Hl. rewrite (IH _ _ _ Hr). simpl map. rewrite <- app_assoc. reflexivity.
Qed.

Lemma header_nonempty : forall l, is_header l = true -> String.eqb (py_rstrip l) "" = false.
Proof. intros l H. unfold is_header in H. destruct (py_rstrip l); [discriminate|reflexivity]. Qed.

Lemma go_emit : forall recs n seq, Forall wf_record recs -> String.eqb n "" = false ->
  read_fasta_go (emit recs) (Some n) seq = (n, join_all seq) :: map record_of recs.
Proof.
  induction recs as [|[nm ls] rs IH]; intros n seq Hwf Hn.
  - simpl. rewrite Hn. reflexivity.
  - inversion Hwf as [|? ? [Hh Hb] Hrs]; subst. simpl in Hh, Hb.
    change (emit ((nm, ls) :: rs)) with (nm :: (ls ++ emit rs))%list.
    rewrite go_cons, Hh. rewrite (go_body _ _ _ _ Hb). simpl app.
    rewrite (IH _ _ Hrs (header_nonempty _ Hh)). simpl. rewrite Hn. reflexivity.
Qed.

(* a FASTA text yields one record per '>' header, whose sequence is the concatenation of the lines
   that follow it (each line stripped on the right); lines before the first header are dropped *)
Theorem read_fasta_records_gen : forall pre recs,
  Forall (fun l => is_header l = false) pre -> Forall wf_record recs ->
  read_fasta (pre ++ emit recs)%list = map record_of recs.
Proof.
  intros pre recs Hpre Hwf. unfold read_fasta. rewrite (go_body _ _ _ _ Hpre).
  destruct recs as [|[nm ls] rs].
  - reflexivity.
  - inversion Hwf as [|? ? [Hh Hb] Hrs]; subst. simpl in Hh, Hb.
    change (emit ((nm, ls) :: rs)) with (nm :: (ls ++ emit rs))%list.
    rewrite go_cons, Hh. rewrite (go_body _ _ _ _ Hb). simpl app.
    rewrite (go_emit _ _ _ Hrs (header_nonempty _ Hh)). reflexivity.
Qed.

(* records whose lines carry no trailing white space come back unchanged *)
Corollary read_fasta_roundtrip : forall recs,
  Forall wf_record recs ->
  Forall (fun r : frecord => py_rstrip (fst r) = fst r /\ Forall (fun l => py_rstrip l = l) (snd r)) recs ->
  read_fasta (emit recs) = map (fun r : frecord => (fst r, join_all (snd r))) recs.
Proof.
  intros recs Hwf Hfix. change (emit recs) with ([] ++ emit recs)%list.
  rewrite (read_fasta_records_gen [] recs (Forall_nil _) Hwf).
  clear Hwf. induction Hfix as [|[nm ls] rs [Hn Hl] _ IH]; [reflexivity|].
  simpl map. rewrite IH. unfold record_of at 1. simpl in *. rewrite Hn. f_equal. f_equal. f_equal.
  clear -Hl. induction Hl as [|l r H _ IH]; simpl; [reflexivity|]. rewrite H, IH. reflexivity.
Qed.

(* the text of a file: every line followed by '\n' *)
Fixpoint unlines (l : list string) : string :=
  match l with
  | [] => EmptyString
  | x :: r => (x ++ String "010" (unlines r))%string
  end.

Lemma lines_of_line : forall x rest, contains_char "010" x = false ->
  lines_of (x ++ String "010" rest) = x :: lines_of rest.
Proof.
  induction x as [|c r IH]; intros rest H.
  - reflexivity.
  - simpl in H. apply orb_false_elim in H. destruct H as [Hc Hr]. unfold ascii_eqb in Hc.
    change (String c r ++ String "010" rest)%string with (String c (r ++ String "010" rest))%string.
    cbn [lines_of]. rewrite Hc. rewrite (IH rest Hr). reflexivity.
Qed.

Lemma lines_of_unlines : forall l, Forall (fun x => contains_char "010" x = false) l ->
  lines_of (unlines l) = l.
Proof.
  induction l as [|x r IH]; intro H; [reflexivity|].
  inversion H; subst. cbn [unlines]. rewrite lines_of_line by assumption. rewrite IH by assumption. reflexivity.
Qed.

Theorem read_fasta_text_records : forall pre recs,
  Forall (fun x => contains_char "010" x = false) (pre ++ emit recs)%list ->
  Forall (fun l => is_header l = false) pre -> Forall wf_record recs ->
  read_fasta_text (unlines (pre ++ emit recs)%list) = map record_of recs.
Proof.
  intros pre recs Hnl Hpre Hwf. unfold read_fasta_text. rewrite (lines_of_unlines _ Hnl).
  apply read_fasta_records_gen; assumption.
Qed.

(* ================================================================ 10. type from the file extension *)
Lemma endswith_refl : forall s, endswith s s = true.
Proof. intro s. destruct s; simpl; [reflexivity|]. rewrite Ascii.eqb_refl, String.eqb_refl. reflexivity. Qed.

Lemma endswith_app : forall suf stem, endswith suf (stem ++ suf) = true.
Proof.
  intros suf stem. induction stem as [|a r IH].
  - apply endswith_refl.
  - change (String a r ++ suf)%string with (String a (r ++ suf))%string. cbn [endswith]. rewrite IH.
    apply orb_true_r.
Qed.

Lemma endswith_spec : forall suf s, endswith suf s = true -> exists p, s = (p ++ suf)%string.
Proof.
  intros suf s. induction s as [|a r IH]; intro H.
  - cbn [endswith] in H. rewrite orb_false_r in H. apply String.eqb_eq in H. subst suf. exists ""%string. reflexivity.
  - cbn [endswith] in H. apply orb_true_iff in H. destruct H as [H|H].
    + apply String.eqb_eq in H. subst suf. exists ""%string. reflexivity.
    + destruct (IH H) as [p Hp]. exists (String a p). rewrite Hp. reflexivity.
Qed.

Lemma length_app : forall a b, String.length (a ++ b) = (String.length a + String.length b)%nat.
Proof. induction a as [|c r IH]; intro b; simpl; [reflexivity|]. rewrite IH. reflexivity. Qed.

Lemma app_inv_len : forall a b x y, (a ++ x = b ++ y)%string -> String.length x = String.length y -> x = y.
Proof.
  induction a as [|c r IH]; destruct b as [|d b']; simpl; intros x y H L.
  - exact H.
  - subst x. simpl in L. rewrite length_app in L. lia.
  - subst y. simpl in L. rewrite length_app in L. lia.
  - injection H as _ H. exact (IH _ _ _ H L).
Qed.

Lemma endswith_other : forall suf suf' stem, String.length suf = String.length suf' -> suf <> suf' ->
  endswith suf (stem ++ suf') = false.
Proof.
  intros suf suf' stem L N. destruct (endswith suf (stem ++ suf')) eqn:E; [|reflexivity].
  apply endswith_spec in E. destruct E as [p Hp]. symmetry in L.
  pose proof (app_inv_len _ _ _ _ Hp L) as H. exfalso. apply N. symmetry. exact H.
Qed.

(* the four extensions Sequence.load understands, the default, and an explicit type *)
Theorem type_from_extension_rules :
  (forall stem, guess_type (stem ++ ".fna") None = "dna"%string) /\
  (forall stem, guess_type (stem ++ ".ffn") None = "dna"%string) /\
  (forall stem, guess_type (stem ++ ".faa") None = "aa"%string) /\
  (forall stem, guess_type (stem ++ ".frn") None = "rna"%string) /\
  (forall f, endswith ".fna" f = false -> endswith ".ffn" f = false -> endswith ".faa" f = false ->
             endswith ".frn" f = false -> guess_type f None = "aa"%string) /\
  (forall f t, guess_type f (Some t) = t).
Proof.
  unfold guess_type, guess_type_with, guess_rules, guess_default. cbn [guess_from].
  repeat split; intros.
  - rewrite endswith_app. reflexivity.
  - rewrite endswith_other by (reflexivity || discriminate). rewrite endswith_app. reflexivity.
  - rewrite !endswith_other by (reflexivity || discriminate). rewrite endswith_app. reflexivity.
  - rewrite !endswith_other by (reflexivity || discriminate). rewrite endswith_app. reflexivity.
  - rewrite H, H0, H1, H2. reflexivity.
Qed.

(* load / loadall: the records of the text, each a Sequence typed by the extension *)
Theorem loadall_records : forall E ts filename type text,
  loadall E ts filename type text =
  map (fun r : string * string => sequence_typed E ts (Some (fst r)) (snd r) (guess_type filename type))
      (read_fasta_text text).
Proof. reflexivity. Qed.

Theorem load_first : forall E ts filename type text,
  load E ts filename type text = match loadall E ts filename type text with
                                 | [] => FErr OtherErr
                                 | x :: _ => x
                                 end.
Proof. intros. unfold load, loadall. destruct (read_fasta_text text); reflexivity. Qed.

(* ================================================================ 11. the tables of this source tree *)
Definition on_fres {A} (x : fres A) (P : A -> bool) : bool :=
  match x with FOk a => P a | _ => false end.

Definition mass_okb (E : aenv) (m : molecule) : bool :=
  (Qeq_bool (m_mass m) (natural_mass E (m_labile m)) &&
   Qeq_bool (m_Dmass m) (deuterated_mass E (m_labile m)))%bool.
Definition tables_okb (E : aenv) (ts : tables) : bool :=
  forallb (fun kt : string * table => forallb (fun km : string * molecule => mass_okb E (snd km)) (snd kt)) ts.

Fixpoint str_list_eqb (a b : list string) : bool :=
  match a, b with
  | [], [] => true
  | x :: r, y :: r' => (String.eqb x y && str_list_eqb r r')%bool
  | _, _ => false
  end.
Lemma str_list_eqb_eq : forall a b, str_list_eqb a b = true -> a = b.
Proof.
  induction a as [|x r IH]; destruct b as [|y r']; simpl; intro H; try discriminate; [reflexivity|].
  apply andb_prop in H. destruct H as [H1 H2]. apply String.eqb_eq in H1. subst y. rewrite (IH _ H2). reflexivity.
Qed.
Definition keys_okb (ts : tables) : bool := str_list_eqb (map fst ts) ["aa"; "dna"; "rna"]%string.

(* ---- an averaged code against the codes it stands for *)
Definition is_average (m : molecule) (members : list molecule) : Prop :=
  m_vol m == qmean (map m_vol members) /\
  m_charge m == qmean (map m_charge members) /\
  forall a, dget0 (f_atoms (m_labile m)) a == qmean (map (fun p => dget0 (f_atoms (m_labile p)) a) members).

Definition mean_okb (x : Q) (l : list Q) : bool := Qeq_bool x (qmean l).
Definition avg_atoms (m : molecule) (members : list molecule) : list atom :=
  (keys (f_atoms (m_labile m)) ++ flat_map (fun p => keys (f_atoms (m_labile p))) members)%list.
Definition avg_okb (tab : table) (target codes : string) : bool :=
  match tab_get tab target, parts_of tab (chars codes) with
  | Some m, Some members =>
      (mean_okb (m_vol m) (map m_vol members) && mean_okb (m_charge m) (map m_charge members) &&
       forallb (fun a => mean_okb (dget0 (f_atoms (m_labile m)) a)
                                  (map (fun p => dget0 (f_atoms (m_labile p)) a) members))
               (avg_atoms m members))%bool
  | _, _ => false
  end.

Lemma atom_dec : forall a b : atom, {a = b} + {a <> b}.
Proof. decide equality; apply Z.eq_dec. Qed.

Lemma dget_notin : forall d a, ~ In a (keys d) -> dget d a = None.
Proof.
  induction d as [|[b w] r IH]; intros a H; simpl; [reflexivity|].
  destruct (atom_eqb a b) eqn:E.
  - apply atom_eqb_eq in E. subst b. exfalso. apply H. left. reflexivity.
  - apply IH. intro Hin. apply H. right. exact Hin.
Qed.

Lemma dget0_notin : forall d a, ~ In a (keys d) -> dget0 d a = 0.
Proof. intros d a H. unfold dget0. rewrite (dget_notin d a H). reflexivity. Qed.

Lemma qmean_zeros : forall (A : Type) (l : list A), qmean (map (fun _ => 0) l) == 0.
Proof.
  intros A l. unfold qmean. destruct (map (fun _ : A => 0) l) eqn:E; [reflexivity|]. rewrite <- E.
  assert (H : qsum (map (fun _ : A => 0) l) == 0).
  { clear. induction l as [|x r IH]; simpl; [reflexivity|]. rewrite IH. ring. }
  rewrite H. unfold Qdiv. ring.
Qed.

Lemma avg_okb_sound : forall tab target codes, avg_okb tab target codes = true ->
  exists m members, tab_get tab target = Some m /\ parts_of tab (chars codes) = Some members /\
                    is_average m members.
Proof.
  intros tab target codes H. unfold avg_okb in H.
  destruct (tab_get tab target) as [m|]; [|discriminate].
  destruct (parts_of tab (chars codes)) as [members|]; [|discriminate].
  exists m, members. split; [reflexivity|]. split; [reflexivity|].
  apply andb_prop in H. destruct H as [H Ha]. apply andb_prop in H. destruct H as [Hv Hq].
  unfold mean_okb in *. split; [apply Qeq_bool_iff; exact Hv|]. split; [apply Qeq_bool_iff; exact Hq|].
  intro a. destruct (in_dec atom_dec a (avg_atoms m members)) as [Hin|Hout].
  - rewrite forallb_forall in Ha. apply Qeq_bool_iff. exact (Ha a Hin).
  - unfold avg_atoms in Hout. rewrite in_app_iff in Hout.
    rewrite dget0_notin by (intro Hk; apply Hout; left; exact Hk).
    assert (Hm : map (fun p => dget0 (f_atoms (m_labile p)) a) members = map (fun _ => 0) members).
    { apply map_ext_in. intros p Hp. apply dget0_notin. intro Hk. apply Hout. right.
      apply in_flat_map. exists p. split; assumption. }
    rewrite Hm. symmetry. apply qmean_zeros.
Qed.

Definition avgs_okb {A} (ty : string) (rows : list (string * string * A)) (ts : tables) : bool :=
  match tables_get ts ty with
  | Some tab => forallb (fun r : string * string * A => avg_okb tab (fst (fst r)) (snd (fst r))) rows
  | None => false
  end.

(* ---- what makes Molecule.__init__ succeed on a sum of entries: no tritium, labile masses >= 0, and
   > 0 for an entry that has labile hydrogen *)
Definition Qlt_bool (x y : Q) : bool := negb (Qle_bool y x).
Definition entry_okb (E : aenv) (m : molecule) : bool :=
  (negb (dict_mem (f_atoms (m_labile m)) aT) && Qle_bool 0 (f_mass E (m_labile m)) &&
   (negb (dict_mem (f_atoms (m_labile m)) aH1) || Qlt_bool 0 (f_mass E (m_labile m))))%bool.
Definition entries_okb (E : aenv) (ts : tables) : bool :=
  forallb (fun kt : string * table => forallb (fun km : string * molecule => entry_okb E (snd km)) (snd kt)) ts.

Definition sweep_all (ts : tables) : bool :=
  (tables_okb the_env ts && keys_okb ts && avgs_okb "aa" aa_averages ts &&
   avgs_okb "dna" nucleic_codes ts && avgs_okb "rna" nucleic_codes ts && entries_okb the_env ts)%bool.

(* the whole of fasta.py's table construction, run by the kernel on the regenerated rows *)
Lemma sweep_ok : on_fres the_tables sweep_all = true.
Proof. vm_compute. reflexivity. Qed.

Lemma on_fres_elim : forall (A : Type) (x : fres A) P a, on_fres x P = true -> x = FOk a -> P a = true.
Proof. intros A x P a H E. subst x. exact H. Qed.
Lemma on_fres_ok : forall (A : Type) (x : fres A) P, on_fres x P = true -> exists a, x = FOk a.
Proof. intros A x P H. destruct x as [a| |]; try discriminate. exists a. reflexivity. Qed.

Lemma sweep_elim : forall ts, the_tables = FOk ts -> sweep_all ts = true.
Proof. intros ts H. exact (on_fres_elim _ _ _ _ sweep_ok H). Qed.

(* the tables exist: every row parses, every average is defined *)
Theorem the_tables_built : exists ts, the_tables = FOk ts.
Proof. exact (on_fres_ok _ _ _ sweep_ok). Qed.

Theorem the_tables_keys : forall ts, the_tables = FOk ts -> map fst ts = ["aa"; "dna"; "rna"]%string.
Proof.
  intros ts H. pose proof (sweep_elim ts H) as S. unfold sweep_all in S.
  repeat (apply andb_prop in S; destruct S as [S ?]). apply str_list_eqb_eq. assumption.
Qed.

Lemma tables_get_in : forall ts k tab, tables_get ts k = Some tab -> In (k, tab) ts.
Proof.
  induction ts as [|[k' t] r IH]; intros k tab H; simpl in H; [discriminate|].
  destruct (String.eqb k k') eqn:E.
  - apply String.eqb_eq in E. subst k'. inversion H. left. reflexivity.
  - right. apply IH. exact H.
Qed.

Lemma tab_get_in : forall t k m, tab_get t k = Some m -> In (k, m) t.
Proof.
  induction t as [|[k' m'] r IH]; intros k m H; simpl in H; [discriminate|].
  destruct (String.eqb k k') eqn:E.
  - apply String.eqb_eq in E. subst k'. inversion H. left. reflexivity.
  - right. apply IH. exact H.
Qed.

Theorem the_tables_consistent : forall ts ty tab, the_tables = FOk ts -> tables_get ts ty = Some tab ->
  table_consistent the_env tab.
Proof.
  intros ts ty tab H Ht. pose proof (sweep_elim ts H) as S. unfold sweep_all in S.
  repeat (apply andb_prop in S; destruct S as [S ?]). unfold tables_okb in S.
  rewrite forallb_forall in S. pose proof (S _ (tables_get_in _ _ _ Ht)) as St. simpl in St.
  rewrite forallb_forall in St. intros k m Hk. pose proof (St _ (tab_get_in _ _ _ Hk)) as Hm.
  unfold mass_okb in Hm. cbn [snd] in Hm. apply andb_prop in Hm. destruct Hm as [Hm1 Hm2].
  split; apply Qeq_bool_iff; assumption.
Qed.

Lemma avgs_elim : forall (A : Type) ty (rows : list (string * string * A)) ts, avgs_okb ty rows ts = true ->
  exists tab, tables_get ts ty = Some tab /\
    forall code members x, In (code, members, x) rows ->
      exists m ms, tab_get tab code = Some m /\ parts_of tab (chars members) = Some ms /\ is_average m ms.
Proof.
  intros A ty rows ts H. unfold avgs_okb in H. destruct (tables_get ts ty) as [tab|]; [|discriminate].
  exists tab. split; [reflexivity|]. intros code members x Hin. rewrite forallb_forall in H.
  apply avg_okb_sound. exact (H _ Hin).
Qed.

(* every ambiguity code of the three tables is the equal-weight average — in cell volume, charge and
   every atom count — of the codes it stands for (the member lists being those of the source) *)
Theorem ambiguity_is_average_tables : forall ts, the_tables = FOk ts ->
  (exists tab, tables_get ts "aa" = Some tab /\
     forall code members name, In (code, members, name) aa_averages ->
       exists m ms, tab_get tab code = Some m /\ parts_of tab (chars members) = Some ms /\ is_average m ms) /\
  (exists tab, tables_get ts "dna" = Some tab /\
     forall code members name, In (code, members, name) nucleic_codes ->
       exists m ms, tab_get tab code = Some m /\ parts_of tab (chars members) = Some ms /\ is_average m ms) /\
  (exists tab, tables_get ts "rna" = Some tab /\
     forall code members name, In (code, members, name) nucleic_codes ->
       exists m ms, tab_get tab code = Some m /\ parts_of tab (chars members) = Some ms /\ is_average m ms).
Proof.
  intros ts H. pose proof (sweep_elim ts H) as S. unfold sweep_all in S.
  apply andb_prop in S. destruct S as [S _].
  apply andb_prop in S. destruct S as [S Hr]. apply andb_prop in S. destruct S as [S Hd].
  apply andb_prop in S. destruct S as [S Ha].
  split; [|split]; apply avgs_elim; assumption.
Qed.

(* ================================================================ 12. corollaries for Sequence objects *)
(* a Sequence's densities are its masses over its (summed) cell volume *)
Theorem sequence_density : forall E tab name s sm, sequence_of E tab name s = FOk sm ->
  let m := s_mol sm in
  exists dl dn, f_density (m_labile m) = Some dl /\ f_density (m_natural m) = Some dn /\
    m_density m = Some dn /\
    (0 < m_vol m -> dl == TEN24 * (f_mass E (m_labile m) / NA) / m_vol m /\
                    dn == TEN24 * (m_mass m / NA) / m_vol m) /\
    (m_vol m <= 0 -> dl == 0 /\ dn == 0).
Proof.
  intros E tab name s sm H. destruct (sequence_of_inv _ _ _ _ _ H) as [parts [_ [Hm _]]].
  rewrite sequence_of_parts_eq in Hm. cbv zeta.
  destruct (molecule_fields _ _ _ _ _ _ Hm) as [_ [Hv _]]. rewrite Hv.
  exact (molecule_density _ _ _ _ _ _ Hm).
Qed.

Lemma no_colon_keys : forall ts ty tab, map fst ts = ["aa"; "dna"; "rna"]%string ->
  tables_get ts ty = Some tab -> contains_char ":" ty = false.
Proof.
  intros ts ty tab Hk Ht. apply tables_get_in in Ht. apply (in_map fst) in Ht. rewrite Hk in Ht.
  simpl in Ht. destruct Ht as [<-|[<-|[<-|[]]]]; reflexivity.
Qed.

(* formula("aa:..."), formula("dna:..."), formula("rna:...") give the labile formula of the
   corresponding Sequence (or raise what it raises) *)
Theorem prefix_equals_class_tables : forall ts ty tab s, the_tables = FOk ts ->
  tables_get ts ty = Some tab ->
  formula_of_string the_env the_ptable ts (ty ++ ":" ++ s) = labile_of (sequence_of the_env tab None s).
Proof.
  intros ts ty tab s H Ht. apply prefix_equals_class_gen; [exact Ht|].
  exact (no_colon_keys _ _ _ (the_tables_keys _ H) Ht).
Qed.

(* with the tables of this source tree: the masses of a sequence are the sums of the masses its
   residues' table entries carry *)
Theorem sequence_mass_is_sum_tables : forall ts ty tab name s sm, the_tables = FOk ts ->
  tables_get ts ty = Some tab -> sequence_of the_env tab name s = FOk sm ->
  exists parts,
    Forall2 (fun c p => tab_get tab (code_key c) = Some p) (chars (clean s)) parts /\
    m_mass (s_mol sm) == qsum (map m_mass parts) /\ m_Dmass (s_mol sm) == qsum (map m_Dmass parts).
Proof.
  intros ts ty tab name s sm H Ht Hs.
  exact (sequence_mass_is_sum _ _ _ _ _ (the_tables_consistent _ _ _ H Ht) Hs).
Qed.

(* ================================================================ 13. every string over a code table has a Sequence *)
Lemma dict_mem_in : forall d a, dict_mem d a = true <-> In a (keys d).
Proof.
  intros d a. unfold dict_mem. induction d as [|[b w] r IH]; simpl.
  - split; [discriminate|intros []].
  - destruct (atom_eqb a b) eqn:E.
    + apply atom_eqb_eq in E. subst b. split; [intros _; left; reflexivity|reflexivity].
    + rewrite IH. split; [intro H; right; exact H|].
      intros [H|H]; [|exact H]. subst b. rewrite atom_eqb_refl in E. discriminate.
Qed.

(* an atom of the sequence's formula is an atom of one of its residues *)
Lemma seq_atoms_from_parts : forall E parts a,
  In a (keys (count_atoms (hill_struct E (count_atoms (parts_structure parts))))) ->
  exists p, In p parts /\ In a (keys (f_atoms (m_labile p))).
Proof.
  intros E parts a H. apply keys_count_atoms in H. destruct H as [it [Hit Ha]].
  rewrite hill_struct_eq in Hit. apply in_map_iff in Hit. destruct Hit as [q [Hq Hin]]. subst it.
  simpl in Ha. destruct Ha as [Ha|[]]. subst a.
  pose proof (Permutation_in _ (hsort_perm E _) Hin) as Hd.
  assert (Hk : In (fst q) (keys (count_atoms (parts_structure parts)))) by (apply in_map; exact Hd).
  apply keys_count_atoms in Hk. destruct Hk as [it' [Hit' Ha']].
  unfold parts_structure in Hit'. apply in_flat_map in Hit'. destruct Hit' as [p [Hp Hitp]].
  exists p. split; [exact Hp|]. unfold f_atoms. apply keys_count_atoms. exists it'. split; assumption.
Qed.

Lemma seq_labile_mass : forall E parts,
  f_mass E (formula_of_formula E (seq_formula E parts)) == qsum (map (fun p => f_mass E (m_labile p)) parts).
Proof.
  intros E parts. unfold f_mass at 1. unfold f_atoms.
  change (f_struct (formula_of_formula E (seq_formula E parts)))
    with (hill_struct E (count_atoms (parts_structure parts))).
  rewrite dweight_atoms_hill. unfold count_atoms. rewrite dweight_count_frag, fweight_flat_map.
  apply qsum_map_ext. intro p. unfold f_mass, f_atoms, count_atoms. symmetry. apply dweight_count_frag.
Qed.

Lemma qsum_nonneg : forall l, Forall (fun x => 0 <= x) l -> 0 <= qsum l.
Proof.
  intros l H. induction H as [|x r Hx _ IH]; simpl; [apply Qle_refl|].
  rewrite <- (Qplus_0_l 0). apply Qplus_le_compat; assumption.
Qed.

Lemma qsum_pos : forall l x, Forall (fun x => 0 <= x) l -> In x l -> 0 < x -> 0 < qsum l.
Proof.
  intros l x H. induction H as [|y r Hy Hr IH]; intros Hin Hx; [destruct Hin|].
  simpl. destruct Hin as [->|Hin].
  - rewrite <- (Qplus_0_r 0). apply Qplus_lt_le_compat; [exact Hx|apply qsum_nonneg; exact Hr].
  - rewrite <- (Qplus_0_r 0). rewrite (Qplus_comm y). apply Qplus_lt_le_compat; [exact (IH Hin Hx)|exact Hy].
Qed.

Definition entry_ok (E : aenv) (m : molecule) : Prop :=
  ~ In aT (keys (f_atoms (m_labile m))) /\ 0 <= f_mass E (m_labile m) /\
  (In aH1 (keys (f_atoms (m_labile m))) -> 0 < f_mass E (m_labile m)).

Lemma entry_okb_ok : forall E m, entry_okb E m = true -> entry_ok E m.
Proof.
  intros E m H. unfold entry_okb in H. apply andb_prop in H. destruct H as [H H3].
  apply andb_prop in H. destruct H as [H1 H2]. split; [|split].
  - intro Hin. apply dict_mem_in in Hin. rewrite Hin in H1. discriminate.
  - apply Qle_bool_iff. exact H2.
  - intro Hin. apply dict_mem_in in Hin. rewrite Hin in H3. simpl in H3. unfold Qlt_bool in H3.
    apply Qnot_le_lt. intro Hle. apply Qle_bool_iff in Hle. rewrite Hle in H3. discriminate.
Qed.

(* Molecule.__init__ succeeds on the sum of entries that are entry_ok *)
Theorem parts_total : forall E name parts, Forall (entry_ok E) parts ->
  exists m, sequence_of_parts E name parts = FOk m.
Proof.
  intros E name parts Hall. rewrite sequence_of_parts_eq. unfold molecule_of.
  set (M0 := formula_of_formula E (seq_formula E parts)).
  assert (HA : f_atoms M0 = count_atoms (hill_struct E (count_atoms (parts_structure parts)))) by reflexivity.
  rewrite Forall_forall in Hall.
  (* no tritium *)
  destruct (dict_mem (f_atoms M0) aT) eqn:HT.
  { exfalso. apply dict_mem_in in HT. rewrite HA in HT.
    destruct (seq_atoms_from_parts _ _ _ HT) as [p [Hp Hk]]. destruct (Hall p Hp) as [Hn _]. exact (Hn Hk). }
  set (M := mkF (f_struct M0) (f_kind M0) (Some (volume_density E M0 (sum_vol parts))) (f_name M0)).
  assert (Hrep : forall tgt, exists g, f_replace1 E M aH1 tgt = FOk g).
  { intro tgt. unfold f_replace1. change (f_atoms M) with (f_atoms M0). change (f_density M) with (Some (volume_density E M0 (sum_vol parts))).
    destruct (dget (f_atoms M0) aH1) as [c|] eqn:Hs; [|eexists; reflexivity].
    assert (Hin : In aH1 (keys (f_atoms M0))).
    { apply dict_mem_in. unfold dict_mem. rewrite Hs. reflexivity. }
    rewrite HA in Hin. destruct (seq_atoms_from_parts _ _ _ Hin) as [p [Hp Hk]].
    assert (Hpos : 0 < f_mass E M0).
    { unfold M0. rewrite seq_labile_mass. apply (qsum_pos _ (f_mass E (m_labile p))).
      - apply Forall_forall. intros x Hx. apply in_map_iff in Hx. destruct Hx as [p' [<- Hp']].
        destruct (Hall p' Hp') as [_ [Hge _]]. exact Hge.
      - apply in_map_iff. exists p. split; [reflexivity|exact Hp].
      - destruct (Hall p Hp) as [_ [_ Hgt]]. exact (Hgt Hk). }
    change (dweight (e_mass E) (f_atoms M0)) with (f_mass E M0).
    destruct (Qeq_bool (f_mass E M0) 0) eqn:Hz.
    - exfalso. apply Qeq_bool_iff in Hz. rewrite Hz in Hpos. exact (Qlt_irrefl 0 Hpos).
    - eexists. reflexivity. }
  destruct (Hrep aH) as [gH EH]. destruct (Hrep aD) as [gD ED].
  fold M. rewrite EH. cbn [fbind]. rewrite ED. cbn [fbind]. eexists. reflexivity.
Qed.

Lemma parts_of_total : forall tab cs, (forall c, In c cs -> tab_get tab (code_key c) <> None) ->
  exists parts, parts_of tab cs = Some parts.
Proof.
  intros tab cs. induction cs as [|c r IH]; intro H.
  - exists []. reflexivity.
  - simpl. destruct (tab_get tab (code_key c)) as [m|] eqn:E.
    + destruct IH as [ms Hms]; [intros c' Hc'; apply H; right; exact Hc'|]. rewrite Hms. eexists. reflexivity.
    + exfalso. apply (H c); [left; reflexivity|exact E].
Qed.

Theorem the_tables_entries_ok : forall ts ty tab, the_tables = FOk ts -> tables_get ts ty = Some tab ->
  forall k m, tab_get tab k = Some m -> entry_ok the_env m.
Proof.
  intros ts ty tab H Ht k m Hk. pose proof (sweep_elim ts H) as S. unfold sweep_all in S.
  apply andb_prop in S. destruct S as [_ S]. unfold entries_okb in S. rewrite forallb_forall in S.
  pose proof (S _ (tables_get_in _ _ _ Ht)) as St. cbn [snd] in St. rewrite forallb_forall in St.
  apply entry_okb_ok. exact (St _ (tab_get_in _ _ _ Hk)).
Qed.

(* with the tables of this source tree, EVERY string whose codes (after removing spaces and cutting at
   '*') are in the table has a Sequence; a string with another code raises KeyError *)
Theorem sequence_total : forall ts ty tab name s, the_tables = FOk ts -> tables_get ts ty = Some tab ->
  (forall c, In c (chars (clean s)) -> tab_get tab (code_key c) <> None) ->
  exists sm, sequence_of the_env tab name s = FOk sm.
Proof.
  intros ts ty tab name s H Ht Hc. destruct (parts_of_total tab _ Hc) as [parts Hp].
  assert (Hall : Forall (entry_ok the_env) parts).
  { pose proof (parts_of_spec _ _ _ Hp) as HF. clear -HF H Ht.
    induction HF as [|c p cs ps Hcp _ IH]; constructor; [|exact IH].
    exact (the_tables_entries_ok _ _ _ H Ht _ _ Hcp). }
  destruct (parts_total the_env name parts Hall) as [m Hm].
  exists (mkSeq m (clean s)). unfold sequence_of. cbv zeta. rewrite Hp. rewrite Hm. reflexivity.
Qed.

Theorem sequence_unknown_code : forall E tab name s c, In c (chars (clean s)) ->
  tab_get tab (code_key c) = None -> sequence_of E tab name s = FErr KeyErr.
Proof.
  intros E tab name s c Hin Hc. unfold sequence_of. cbv zeta.
  assert (Hn : parts_of tab (chars (clean s)) = None).
  { induction (chars (clean s)) as [|x r IH]; [destruct Hin|]. simpl. destruct Hin as [->|Hin].
    - rewrite Hc. reflexivity.
    - destruct (tab_get tab (code_key x)); [|reflexivity]. rewrite (IH Hin). reflexivity. }
  rewrite Hn. reflexivity.
Qed.

(* ================================================================ 14. _code_average computes the equal-weight mean *)
Lemma average_loop_spec : forall tab bases f v q f' v' q',
  average_loop tab bases (f, v, q) = FOk (f', v', q') ->
  exists members, parts_of tab bases = Some members /\
    f_struct f' = (f_struct f ++ parts_structure members)%list /\
    v' == v + qsum (map m_vol members) /\ q' == q + qsum (map m_charge members).
Proof.
  intros tab bases. induction bases as [|c r IH]; intros f v q f' v' q' H.
  - simpl in H. inversion H; subst. exists []. simpl. rewrite app_nil_r. repeat split; ring.
  - simpl in H. destruct (tab_get tab (code_key c)) as [base|] eqn:E; [|discriminate].
    destruct (IH _ _ _ _ _ _ H) as [ms [Hp [Hs [Hv Hq]]]].
    exists (base :: ms). simpl. rewrite E, Hp. split; [reflexivity|]. split.
    + rewrite Hs. unfold f_iadd. cbn [f_struct]. unfold parts_structure. simpl. rewrite app_assoc. reflexivity.
    + split; [rewrite Hv|rewrite Hq]; ring.
Qed.

Lemma parts_of_length : forall tab cs ms, parts_of tab cs = Some ms -> length ms = length cs.
Proof.
  intros tab cs. induction cs as [|c r IH]; intros ms H; simpl in H.
  - inversion H. reflexivity.
  - destruct (tab_get tab (code_key c)); [|discriminate]. destruct (parts_of tab r) as [ms'|]; [|discriminate].
    inversion H. simpl. rewrite (IH ms' eq_refl). reflexivity.
Qed.

Lemma chars_length : forall s, length (chars s) = String.length s.
Proof. induction s as [|c r IH]; simpl; [reflexivity|]. rewrite IH. reflexivity. Qed.

(* for ANY table: the formula, volume and charge _code_average returns are the equal-weight means
   over the entries of the codes it is given *)
Theorem code_average_is_mean : forall E tab bases f v q, code_average E tab bases = FOk (f, v, q) ->
  exists members, parts_of tab (chars bases) = Some members /\
    v == qmean (map m_vol members) /\ q == qmean (map m_charge members) /\
    forall a, cnt_s a (f_struct f) == qmean (map (fun p => cnt_s a (f_struct (m_labile p))) members).
Proof.
  intros E tab bases f v q H. unfold code_average in H.
  destruct (average_loop tab (chars bases) (empty_formula E, 0, 0)) as [[[f0 v0] q0]| |] eqn:EL; simpl in H; try discriminate.
  destruct (average_loop_spec _ _ _ _ _ _ _ _ EL) as [ms [Hp [Hs [Hv Hq]]]].
  exists ms. split; [exact Hp|]. pose proof (parts_of_length _ _ _ Hp) as Hlen. rewrite chars_length in Hlen.
  simpl in Hs.
  assert (Hcnt : forall a, cnt_s a (f_struct f0) == qsum (map (fun p => cnt_s a (f_struct (m_labile p))) ms)).
  { intro a. rewrite Hs. apply cnt_flat_map. }
  destruct ms as [|m0 ms'].
  - simpl in Hlen. rewrite <- Hlen in H. simpl in H. inversion H; subst. simpl in *.
    split; [rewrite Hv; ring|]. split; [rewrite Hq; ring|]. intro a. rewrite Hcnt. reflexivity.
  - set (n := inject_Z (Z.of_nat (String.length bases))) in *.
    assert (Hn : n == inject_Z (Z.of_nat (length (m0 :: ms')))) by (unfold n; rewrite Hlen; reflexivity).
    assert (Hpos : 0 < n).
    { unfold n. rewrite <- Hlen. simpl length. unfold Qlt. simpl. lia. }
    assert (Hle : Qle_bool n 0 = false).
    { destruct (Qle_bool n 0) eqn:Ele; [|reflexivity]. apply Qle_bool_iff in Ele.
      exfalso. exact (Qlt_not_le _ _ Hpos Ele). }
    rewrite Hle in H. inversion H; subst f v q. clear H.
    assert (Hm : forall g : molecule -> Q, qmean (map g (m0 :: ms')) == qsum (map g (m0 :: ms')) / n).
    { intro g. unfold qmean. cbn [map].
      change (Datatypes.length (g m0 :: map g ms')) with (Datatypes.length (map g (m0 :: ms'))).
      rewrite map_length. rewrite <- Hn. reflexivity. }
    split; [rewrite Hm, Hv; unfold Qdiv; ring|]. split; [rewrite Hm, Hq; unfold Qdiv; ring|].
    intro a. rewrite Hm. rewrite rmul_cnt. rewrite Hcnt. unfold Qdiv. ring.
Qed.
