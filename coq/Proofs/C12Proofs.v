(* Proofs/C12Proofs.v — density, natural density, isotope substitution (rational parts, over Q,
   axiom-free).  The volume formulas (over R) are in Proofs/C12Volume.v. *)
From Coq Require Import ZArith QArith Qabs String Ascii List Bool Lia Setoid Permutation.
From PT Require Import Str Dec Py Loaders Formula FormulaAlg FormulaMachine AtomEnv C02Proofs C19Proofs
                       Pyparse TableEnv Mixture PyparseMix Density.
Import ListNotations.
Open Scope Q_scope.

(* ================================================================ 1. natural density *)
Lemma mul_div_cancel : forall d r, ~ d == 0 -> d * r / d == r.
Proof. intros. field. assumption. Qed.

Lemma natural_mass_ratio_structural : forall E f,
  natural_mass_ratio E f ==
  fweight (e_natmass E) (FGroup (f_struct f)) / fweight (e_mass E) (FGroup (f_struct f)).
Proof.
  intros E f. unfold natural_mass_ratio, f_atoms, count_atoms. rewrite !dweight_count_frag. reflexivity.
Qed.

(* natural_density / density is the ratio of the structural sums count x natural mass and
   count x mass, for every structure of any nesting *)
Theorem natural_ratio_spec : forall E f d, f_density f = Some d -> ~ d == 0 ->
  exists nd, f_natural_density E f = Some nd /\
    nd / d == fweight (e_natmass E) (FGroup (f_struct f)) / fweight (e_mass E) (FGroup (f_struct f)).
Proof.
  intros E f d Hd Hnz. unfold f_natural_density. rewrite Hd. eexists. split; [reflexivity|].
  rewrite <- natural_mass_ratio_structural. apply mul_div_cancel. exact Hnz.
Qed.

(* the same with the sums taken over the atoms dictionary, whose entries are the count-weighted
   totals of the structure (FormulaAlg.count_atoms_spec) *)
Theorem natural_ratio_atoms : forall E f d, f_density f = Some d -> ~ d == 0 ->
  exists nd, f_natural_density E f = Some nd /\
    nd / d == dweight (e_natmass E) (f_atoms f) / dweight (e_mass E) (f_atoms f)
    /\ forall b, dget0 (f_atoms f) b == cnt_s b (f_struct f).
Proof.
  intros E f d Hd Hnz. unfold f_natural_density. rewrite Hd. eexists. split; [reflexivity|]. split.
  - apply mul_div_cancel. exact Hnz.
  - intro b. apply count_atoms_spec.
Qed.

(* what the two per-atom masses are in the table environment: the atom's own mass less its
   electrons, and the mass of its natural ELEMENT less the same electrons *)
Theorem env_masses : forall t d a,
  e_mass (env_with (Some t) (Some d)) a = q_of (mass_of t (az a) (aa a)) - inject_Z (aq a) * ME /\
  e_natmass (env_with (Some t) (Some d)) a = q_of (mass_of t (az a) 0) - inject_Z (aq a) * ME.
Proof. intros. split; reflexivity. Qed.

Lemma natmass_natural : forall ot od a, aa a = 0%Z ->
  e_natmass (env_with ot od) a = e_mass (env_with ot od) a.
Proof. intros [t|] [d|] a H; simpl; try reflexivity. rewrite H. reflexivity. Qed.

Lemma dweight_ext_in : forall (w1 w2 : atom -> Q) d,
  (forall a c, In (a, c) d -> w1 a == w2 a) -> dweight w1 d == dweight w2 d.
Proof.
  intros w1 w2 d. induction d as [|[a c] r IH]; intro H.
  - reflexivity.
  - rewrite !dweight_cons. rewrite IH.
    + rewrite (H a c) by (left; reflexivity). reflexivity.
    + intros a' c' Hin. apply (H a' c'). right. exact Hin.
Qed.

(* a formula without isotopes (ions allowed) has natural density = density *)
Theorem natural_formula_ratio_one : forall ot od f,
  (forall a c, In (a, c) (f_atoms f) -> aa a = 0%Z) -> ~ f_mass (env_with ot od) f == 0 ->
  natural_mass_ratio (env_with ot od) f == 1.
Proof.
  intros ot od f H Hm. unfold natural_mass_ratio.
  rewrite (dweight_ext_in (e_natmass (env_with ot od)) (e_mass (env_with ot od))).
  - fold (f_mass (env_with ot od) f). field. exact Hm.
  - intros a c Hin. rewrite (natmass_natural ot od a (H a c Hin)). reflexivity.
Qed.

(* ================================================================ 2. setter / getter *)
Lemma with_density_atoms : forall f d, f_atoms (with_density f d) = f_atoms f.
Proof. reflexivity. Qed.
Lemma ratio_with_density : forall E f d, natural_mass_ratio E (with_density f d) = natural_mass_ratio E f.
Proof. reflexivity. Qed.

(* set natural_density, read natural_density *)
Theorem setter_getter_inverse : forall E f nd, ~ natural_mass_ratio E f == 0 ->
  exists x, f_natural_density E (set_natural_density E nd f) = Some x /\ x == nd.
Proof.
  intros E f nd Hr. unfold f_natural_density, set_natural_density. cbn [with_density f_density].
  eexists. split; [reflexivity|]. rewrite ratio_with_density. field. exact Hr.
Qed.

(* set density, read natural_density, set natural_density to that: density is back *)
Theorem getter_setter_inverse : forall E f d, ~ natural_mass_ratio E f == 0 ->
  exists nd, f_natural_density E (set_density (Some d) f) = Some nd /\
  exists x, f_density (set_natural_density E nd (set_density (Some d) f)) = Some x /\ x == d.
Proof.
  intros E f d Hr. unfold f_natural_density, set_natural_density, set_density. cbn [with_density f_density].
  eexists. split; [reflexivity|]. eexists. split; [reflexivity|].
  rewrite !ratio_with_density. field. exact Hr.
Qed.

(* setting the natural density gives density = natural density / ratio *)
Theorem setter_value : forall E f nd,
  f_density (set_natural_density E nd f) = Some (nd / natural_mass_ratio E f).
Proof. reflexivity. Qed.

(* neither setter touches the structure or the name *)
Theorem setters_keep_structure : forall E f nd d,
  f_struct (set_natural_density E nd f) = f_struct f /\ f_struct (set_density d f) = f_struct f /\
  f_name (set_natural_density E nd f) = f_name f /\ f_name (set_density d f) = f_name f.
Proof. intros. repeat split. Qed.

(* ================================================================ 3. tags, keywords, attributes *)
(* on the parser model: the '@d' / '@di' tag is the density keyword, '@dn' the natural_density
   keyword of the Formula constructor *)
Theorem tag_equals_keyword : forall E st x,
  fobj_of_compound E st (DIso x) = new_formula E st KTuple (Some x) None None /\
  fobj_of_compound E st (DNat x) = new_formula E st KTuple None (Some x) None /\
  fobj_of_compound E st DNone = new_formula E st KTuple None None None.
Proof. intros. repeat split. Qed.

(* the tag text: '@' number, then 'n' selects natural, 'i' or nothing isotopic *)
Theorem tag_parse : forall r c r2, p_number r = POk c r2 ->
  p_density (String "@"%char r) =
    match skip_ws r2 with
    | String "n"%char r3 => POk (DNat c) r3
    | String "i"%char r3 => POk (DIso c) r3
    | _ => POk (DIso c) r2
    end.
Proof. intros r c r2 H. unfold p_density, lit. cbn. rewrite H. reflexivity. Qed.

(* the compound alternative of the grammar builds its Formula from the parsed structure and tag *)
Theorem compound_tag_formula : forall E T s st d r, p_compound T s = POk (st, d) r ->
  p_compound_m E T s = POk (plain (fobj_of_compound E st d)) r.
Proof. intros E T s st d r H. unfold p_compound_m. rewrite H. reflexivity. Qed.

(* keyword = attribute: constructing with natural_density=nd is constructing without and then
   assigning f.natural_density = nd; the same for density *)
Theorem keyword_equals_attribute : forall E st k d0 nd d name,
  new_formula E st k d0 (Some nd) name = set_natural_density E nd (new_formula E st k None None name) /\
  new_formula E st k (Some d) None name = set_density (Some d) (new_formula E st k None None name).
Proof. intros. split; reflexivity. Qed.

(* for strings formula(s, density=, natural_density=) assigns after parsing, overriding a tag *)
Theorem string_keyword_density : forall E f d nd, f_density (string_keywords E f (Some d) nd) = Some d.
Proof. reflexivity. Qed.
Theorem string_keyword_natural : forall E f nd,
  f_density (string_keywords E f None (Some nd)) = Some (nd / natural_mass_ratio E f).
Proof. reflexivity. Qed.
Theorem string_keyword_none : forall E f, string_keywords E f None None = f.
Proof. reflexivity. Qed.

(* ================================================================ 4. single atom default *)
Theorem single_atom_default : forall E st k name a c, count_atoms st = [(a, c)] ->
  f_density (new_formula E st k None None name) = e_density E a.
Proof. intros E st k name a c H. unfold new_formula, init_density. cbn [f_density]. rewrite H. reflexivity. Qed.

Corollary single_atom_default_atom : forall E k name a c,
  f_density (new_formula E [(c, FAtom a)] k None None name) = e_density E a.
Proof. intros. apply (single_atom_default E _ k name a (0 + 1 * c)). reflexivity. Qed.

(* a given density or natural density always wins over the default *)
Theorem given_density_wins : forall E st k name d,
  f_density (new_formula E st k (Some d) None name) = Some d.
Proof. reflexivity. Qed.

(* with two or more different atoms and nothing given the density is unknown *)
Theorem several_atoms_unknown : forall E st k name, length (count_atoms st) <> 1%nat ->
  f_density (new_formula E st k None None name) = None.
Proof.
  intros E st k name H. unfold new_formula, init_density. cbn [f_density].
  destruct (count_atoms st) as [|[a c] [|p r]]; try reflexivity. exfalso. apply H. reflexivity.
Qed.

(* ================================================================ 5. dict assignment and deletion *)
Lemma atom_eqb_neq : forall a b, a <> b -> atom_eqb a b = false.
Proof.
  intros a b H. destruct (atom_eqb a b) eqn:E; [|reflexivity]. apply atom_eqb_eq in E. contradiction.
Qed.

Lemma dget_dict_set : forall d a v b,
  dget (dict_set d a v) b = if atom_eqb b a then Some v else dget d b.
Proof.
  induction d as [|[c w] r IH]; intros a v b; simpl.
  - reflexivity.
  - destruct (atom_eqb a c) eqn:Eac.
    + apply atom_eqb_eq in Eac. subst c. simpl. destruct (atom_eqb b a); reflexivity.
    + simpl. destruct (atom_eqb b c) eqn:Ebc.
      * apply atom_eqb_eq in Ebc. subst c. rewrite atom_eqb_sym, Eac. reflexivity.
      * apply IH.
Qed.

Lemma dget0_dict_set : forall d a v b,
  dget0 (dict_set d a v) b = if atom_eqb b a then v else dget0 d b.
Proof. intros. unfold dget0. rewrite dget_dict_set. destruct (atom_eqb b a); reflexivity. Qed.

Lemma dget_dict_del : forall d a b,
  dget (dict_del d a) b = if atom_eqb b a then None else dget d b.
Proof.
  unfold dict_del. induction d as [|[c w] r IH]; intros a b; simpl.
  - destruct (atom_eqb b a); reflexivity.
  - destruct (atom_eqb a c) eqn:Eac; simpl.
    + apply atom_eqb_eq in Eac. subst c. rewrite IH. destruct (atom_eqb b a); reflexivity.
    + destruct (atom_eqb b c) eqn:Ebc.
      * apply atom_eqb_eq in Ebc. subst c. rewrite atom_eqb_sym, Eac. reflexivity.
      * apply IH.
Qed.

Lemma dget0_dict_del : forall d a b,
  dget0 (dict_del d a) b = if atom_eqb b a then 0 else dget0 d b.
Proof. intros. unfold dget0. rewrite dget_dict_del. destruct (atom_eqb b a); reflexivity. Qed.

Lemma keys_dict_set_in : forall d a v x, In x (keys (dict_set d a v)) <-> x = a \/ In x (keys d).
Proof.
  induction d as [|[c w] r IH]; intros a v x; simpl.
  - intuition.
  - destruct (atom_eqb a c) eqn:E; simpl.
    + apply atom_eqb_eq in E. subst c. intuition.
    + rewrite IH. intuition.
Qed.

Lemma nodup_dict_set : forall d a v, NoDup (keys d) -> NoDup (keys (dict_set d a v)).
Proof.
  induction d as [|[c w] r IH]; intros a v H; simpl.
  - constructor; [intros []|constructor].
  - inversion H as [|? ? Hn Hr]; subst. destruct (atom_eqb a c) eqn:E; simpl.
    + constructor; assumption.
    + constructor; [|apply IH; exact Hr]. intro Hin. apply keys_dict_set_in in Hin.
      destruct Hin as [Hin|Hin]; [|exact (Hn Hin)]. subst c. rewrite atom_eqb_refl in E. discriminate.
Qed.

Lemma nodup_dict_del : forall d a, NoDup (keys d) -> NoDup (keys (dict_del d a)).
Proof.
  unfold dict_del. induction d as [|[c w] r IH]; intros a H; simpl.
  - constructor.
  - inversion H as [|? ? Hn Hr]; subst. destruct (atom_eqb a c); simpl.
    + apply IH. exact Hr.
    + constructor; [|apply IH; exact Hr]. intro Hin. apply Hn. unfold keys in *.
      apply in_map_iff in Hin. destruct Hin as [p [Hp Hin]]. apply filter_In in Hin.
      apply in_map_iff. exists p. tauto.
Qed.

(* sums over the dict *)
Lemma dweight_dict_set : forall w d a v,
  dweight w (dict_set d a v) == dweight w d + w a * (v - dget0 d a).
Proof.
  intros w d a v. induction d as [|[c x] r IH]; simpl.
  - rewrite dweight_cons. unfold dweight, dget0. simpl. ring.
  - unfold dget0. simpl. destruct (atom_eqb a c) eqn:E.
    + apply atom_eqb_eq in E. subst c. rewrite !dweight_cons. ring.
    + rewrite !dweight_cons, IH. unfold dget0. ring.
Qed.

Lemma dget_none_notin : forall d a, ~ In a (keys d) -> dget d a = None.
Proof.
  induction d as [|[c x] r IH]; intros a H; simpl; [reflexivity|].
  destruct (atom_eqb a c) eqn:E.
  - apply atom_eqb_eq in E. subst c. exfalso. apply H. left. reflexivity.
  - apply IH. intro Hin. apply H. right. exact Hin.
Qed.

Lemma dweight_dict_del : forall w d a, NoDup (keys d) ->
  dweight w (dict_del d a) == dweight w d - w a * dget0 d a.
Proof.
  intros w d a. unfold dict_del. induction d as [|[c x] r IH]; intro H; simpl.
  - unfold dweight, dget0. simpl. ring.
  - inversion H as [|? ? Hn Hr]; subst. unfold dget0. simpl. destruct (atom_eqb a c) eqn:E; simpl.
    + apply atom_eqb_eq in E. subst c. rewrite dweight_cons, (IH Hr). unfold dget0.
      rewrite (dget_none_notin r a Hn). ring.
    + rewrite !dweight_cons, (IH Hr). unfold dget0. ring.
Qed.

Lemma dweight_perm : forall w l m, Permutation l m -> dweight w l == dweight w m.
Proof.
  intros w l m H. induction H as [|[a x] l m H IH|[a x] [b y] l|l m n H1 IH1 H2 IH2].
  - reflexivity.
  - rewrite !dweight_cons, IH. reflexivity.
  - rewrite !dweight_cons. ring.
  - rewrite IH1. exact IH2.
Qed.

Lemma fweight_map_item : forall w l, fweight w (FGroup (map hill_item l)) == dweight w l.
Proof.
  intros w l. induction l as [|[a x] r IH]; simpl map.
  - reflexivity.
  - unfold hill_item at 1. cbn [fst snd]. rewrite fweight_group_cons, IH, dweight_cons.
    simpl fweight at 1. rewrite Qred_correct. ring.
Qed.

(* any weight summed over the Hill structure of a dict is the sum over the dict *)
Lemma fweight_hill : forall w E d, fweight w (FGroup (hill_struct E d)) == dweight w d.
Proof.
  intros w E d. rewrite hill_struct_eq, fweight_map_item. apply dweight_perm. apply hsort_perm.
Qed.

(* ================================================================ 6. formula(atoms, density=...) *)
Lemma formula_of_dict_struct : forall E d x, f_struct (formula_of_dict E d x) = hill_struct E d.
Proof. reflexivity. Qed.

Lemma formula_of_dict_cnt : forall E d x b, NoDup (keys d) ->
  cnt_s b (f_struct (formula_of_dict E d x)) == dget0 d b.
Proof.
  intros E d x b H. rewrite formula_of_dict_struct. unfold cnt_s. rewrite hill_atoms.
  symmetry. apply dget0_dsum. exact H.
Qed.

Lemma formula_of_dict_weight : forall w E d x,
  dweight w (f_atoms (formula_of_dict E d x)) == dweight w d.
Proof.
  intros w E d x. unfold f_atoms, count_atoms. rewrite dweight_count_frag, formula_of_dict_struct.
  apply fweight_hill.
Qed.

Lemma formula_of_dict_mass : forall E d x, f_mass E (formula_of_dict E d x) == dweight (e_mass E) d.
Proof. intros. unfold f_mass. apply formula_of_dict_weight. Qed.

Lemma formula_of_dict_density_some : forall E d x, f_density (formula_of_dict E d (Some x)) = Some x.
Proof. reflexivity. Qed.

Lemma formula_of_dict_density_none : forall E d,
  f_density (formula_of_dict E d None) =
  match f_atoms (formula_of_dict E d None) with [(a, _)] => e_density E a | _ => None end.
Proof. reflexivity. Qed.

Lemma nodup_f_atoms : forall f, NoDup (keys (f_atoms f)).
Proof. intro f. unfold f_atoms, count_atoms. apply nodup_count_frag. Qed.

Lemma f_atoms_cnt : forall f b, dget0 (f_atoms f) b == cnt_s b (f_struct f).
Proof. intros. apply count_atoms_spec. Qed.

(* ================================================================ 7. the substituted dict *)
Lemma nodup_substituted : forall d src tgt ns p, NoDup (keys d) -> NoDup (keys (substituted d src tgt ns p)).
Proof.
  intros d src tgt ns p H. unfold substituted. destruct (Qeq_bool p 1).
  - apply nodup_dict_del, nodup_dict_set, H.
  - apply nodup_dict_set, nodup_dict_set, H.
Qed.

Lemma substituted_get : forall d src tgt ns p b, src <> tgt -> dget d src = Some ns ->
  dget0 (substituted d src tgt ns p) b ==
  if atom_eqb b src then ns * (1 - p)
  else if atom_eqb b tgt then dget0 d tgt + ns * p
  else dget0 d b.
Proof.
  intros d src tgt ns p b Hne Hs. unfold substituted.
  assert (Hst : atom_eqb src tgt = false) by (apply atom_eqb_neq; exact Hne).
  assert (Hns : dget0 d src = ns) by (unfold dget0; rewrite Hs; reflexivity).
  destruct (Qeq_bool p 1) eqn:Ep.
  - apply Qeq_bool_iff in Ep. rewrite dget0_dict_del, dget0_dict_set.
    destruct (atom_eqb b src) eqn:Eb.
    + rewrite Ep. ring.
    + reflexivity.
  - rewrite !dget0_dict_set. rewrite Hst. rewrite Hns.
    destruct (atom_eqb b src) eqn:Eb; reflexivity.
Qed.

Lemma substituted_weight : forall w d src tgt ns p, NoDup (keys d) -> src <> tgt -> dget d src = Some ns ->
  dweight w (substituted d src tgt ns p) == dweight w d - ns * p * (w src - w tgt).
Proof.
  intros w d src tgt ns p Hnd Hne Hs. unfold substituted.
  assert (Hst : atom_eqb src tgt = false) by (apply atom_eqb_neq; exact Hne).
  assert (Hns : dget0 d src = ns) by (unfold dget0; rewrite Hs; reflexivity).
  destruct (Qeq_bool p 1) eqn:Ep.
  - apply Qeq_bool_iff in Ep. rewrite dweight_dict_del by (apply nodup_dict_set; exact Hnd).
    rewrite dweight_dict_set, dget0_dict_set, Hst, Hns. rewrite Ep. ring.
  - rewrite !dweight_dict_set, !dget0_dict_set, Hst, Hns. ring.
Qed.

(* the atoms dictionary of formula(atoms) has one entry per entry of atoms *)
Lemma hill_count_length : forall E d, NoDup (keys d) ->
  length (count_atoms (hill_struct E d)) = length d.
Proof.
  intros E d H. rewrite hill_struct_flat. rewrite count_atoms_flat.
  - rewrite !map_length. apply Permutation_length. apply hsort_perm.
  - rewrite map_map. simpl.
    apply (Permutation_NoDup (Permutation_sym (Permutation_map fst (hsort_perm E d)))). exact H.
Qed.

(* ================================================================ 8. Formula.replace *)
Section Replace.
  Variable E : aenv.
  Variable f : fobj.
  Variables src tgt : atom.
  Variable p : Q.
  Let f' := f_replace E f src tgt p.
  Let n_src := cnt_s src (f_struct f).
  Let n_tgt := cnt_s tgt (f_struct f).

  Lemma dget_src_cnt : forall ns, dget (f_atoms f) src = Some ns -> ns == n_src.
  Proof.
    intros ns H. unfold n_src. rewrite <- f_atoms_cnt. unfold dget0. rewrite H. reflexivity.
  Qed.

  Lemma dget_src_none_cnt : dget (f_atoms f) src = None -> n_src == 0.
  Proof.
    intro H. unfold n_src. rewrite <- f_atoms_cnt. unfold dget0. rewrite H. reflexivity.
  Qed.

  (* every count of the result, source and target different *)
  Lemma replace_cnt_all : src <> tgt -> forall b,
    cnt_s b (f_struct f') ==
    if atom_eqb b src then n_src * (1 - p)
    else if atom_eqb b tgt then n_tgt + n_src * p
    else cnt_s b (f_struct f).
  Proof.
    intros Hne b. unfold f', f_replace. destruct (dget (f_atoms f) src) as [ns|] eqn:Hs.
    - rewrite (atom_eqb_neq _ _ Hne).
      rewrite formula_of_dict_cnt by (apply nodup_substituted, nodup_f_atoms).
      rewrite (substituted_get _ _ _ _ _ b Hne Hs). pose proof (dget_src_cnt ns Hs) as Hn.
      destruct (atom_eqb b src); [rewrite Hn; reflexivity|]. destruct (atom_eqb b tgt).
      + unfold n_tgt. rewrite f_atoms_cnt, Hn. reflexivity.
      + apply f_atoms_cnt.
    - rewrite formula_of_dict_cnt by apply nodup_f_atoms. rewrite f_atoms_cnt.
      pose proof (dget_src_none_cnt Hs) as Hz.
      destruct (atom_eqb b src) eqn:Eb.
      + apply atom_eqb_eq in Eb. subst b. fold n_src. rewrite Hz. ring.
      + destruct (atom_eqb b tgt) eqn:Et.
        * apply atom_eqb_eq in Et. subst b. fold n_tgt. rewrite Hz. ring.
        * reflexivity.
  Qed.

  (* all other counts are kept *)
  Theorem replace_other_counts : forall b, b <> src -> b <> tgt ->
    cnt_s b (f_struct f') == cnt_s b (f_struct f).
  Proof.
    intros b Hs Ht. destruct (atom_eqb src tgt) eqn:Est.
    - (* self-substitution: the identity *)
      apply atom_eqb_eq in Est. unfold f', f_replace. rewrite <- Est, atom_eqb_refl.
      destruct (dget (f_atoms f) src); rewrite formula_of_dict_cnt by apply nodup_f_atoms; apply f_atoms_cnt.
    - assert (Hne : src <> tgt) by (intro H; subst tgt; rewrite atom_eqb_refl in Est; discriminate).
      rewrite (replace_cnt_all Hne b). rewrite (atom_eqb_neq _ _ Hs), (atom_eqb_neq _ _ Ht). reflexivity.
  Qed.

  (* the target gains n_src * p, the source keeps n_src * (1 - p) *)
  Theorem replace_counts : src <> tgt ->
    cnt_s tgt (f_struct f') == n_tgt + n_src * p /\ cnt_s src (f_struct f') == n_src * (1 - p).
  Proof.
    intro Hne. split.
    - rewrite (replace_cnt_all Hne tgt). rewrite atom_eqb_refl.
      rewrite (atom_eqb_neq tgt src) by (intro H; apply Hne; symmetry; exact H). reflexivity.
    - rewrite (replace_cnt_all Hne src). rewrite atom_eqb_refl. reflexivity.
  Qed.

  (* any additive quantity (mass, natural mass, charge, ...) changes by the substituted amount *)
  Lemma replace_weight : forall w, src <> tgt ->
    dweight w (f_atoms f') == dweight w (f_atoms f) - n_src * p * (w src - w tgt).
  Proof.
    intros w Hne. unfold f', f_replace. destruct (dget (f_atoms f) src) as [ns|] eqn:Hs.
    - rewrite (atom_eqb_neq _ _ Hne). rewrite formula_of_dict_weight.
      rewrite (substituted_weight w _ _ _ _ p (nodup_f_atoms f) Hne Hs). rewrite (dget_src_cnt ns Hs). reflexivity.
    - rewrite formula_of_dict_weight. rewrite (dget_src_none_cnt Hs). ring.
  Qed.

  Theorem replace_mass : src <> tgt ->
    f_mass E f' == f_mass E f - n_src * p * (e_mass E src - e_mass E tgt).
  Proof. intro Hne. unfold f_mass. apply replace_weight. exact Hne. Qed.

  Theorem replace_charge : src <> tgt ->
    f_charge f' == f_charge f - n_src * p * (inject_Z (aq src) - inject_Z (aq tgt)).
  Proof. intro Hne. unfold f_charge. apply (replace_weight (fun a => inject_Z (aq a))). exact Hne. Qed.

  (* the cell volume mass/density is kept, so the density scales with the mass *)
  Theorem replace_keeps_cell_volume : forall rho, src <> tgt -> f_density f = Some rho ->
    ~ rho == 0 -> ~ f_mass E f == 0 -> ~ f_mass E f' == 0 ->
    exists rho', f_density f' = Some rho' /\ f_mass E f' / rho' == f_mass E f / rho
                 /\ rho' == rho * f_mass E f' / f_mass E f.
  Proof.
    intros rho Hne Hd Hr Hm Hm'. pose proof (replace_mass Hne) as HM. unfold f', f_replace in *.
    destruct (dget (f_atoms f) src) as [ns|] eqn:Hs.
    - rewrite (atom_eqb_neq _ _ Hne) in *. rewrite Hd in *. eexists. split; [reflexivity|].
      set (M' := f_mass E (formula_of_dict E (substituted (f_atoms f) src tgt ns p)
                   (Some (rho * (f_mass E f - ns * p * (e_mass E src - e_mass E tgt)) / f_mass E f)))) in *.
      assert (Hred : f_mass E f - ns * p * (e_mass E src - e_mass E tgt) == M').
      { rewrite HM. rewrite (dget_src_cnt ns Hs). reflexivity. }
      rewrite Hred. split; [|reflexivity]. field. repeat split; assumption.
    - rewrite Hd in *. eexists. split; [reflexivity|].
      set (M' := f_mass E (formula_of_dict E (f_atoms f) (Some rho))) in *.
      assert (HMM : M' == f_mass E f).
      { rewrite HM. rewrite (dget_src_none_cnt Hs). ring. }
      rewrite HMM. split; [reflexivity|]. field. exact Hm.
  Qed.

  (* repaired model: an unknown density stays unknown when more than one atom remains; when a
     single atom remains the result is a single-atom formula and takes that atom's density,
     exactly as formula() does *)
  Theorem replace_unknown_stays_unknown : f_density f = None ->
    length (f_atoms f') <> 1%nat -> f_density f' = None.
  Proof.
    intros Hd Hlen. unfold f', f_replace in *. rewrite Hd in *.
    destruct (dget (f_atoms f) src); [destruct (atom_eqb src tgt)|];
      rewrite formula_of_dict_density_none in *;
      match goal with |- context [f_atoms ?x] => destruct (f_atoms x) as [|[a0 c0] [|q0 r0]] end;
      try reflexivity; exfalso; apply Hlen; reflexivity.
  Qed.

  Theorem replace_unknown_single_atom : forall a c, f_density f = None ->
    f_atoms f' = [(a, c)] -> f_density f' = e_density E a.
  Proof.
    intros a c Hd Hat. unfold f', f_replace in *. rewrite Hd in *.
    destruct (dget (f_atoms f) src); [destruct (atom_eqb src tgt)|];
      rewrite formula_of_dict_density_none; rewrite Hat; reflexivity.
  Qed.

  (* a source that is not in the formula: same atoms, same density *)
  Theorem replace_absent_source_is_identity : dget (f_atoms f) src = None ->
    f_struct f' = hill_struct E (f_atoms f) /\
    (forall b, cnt_s b (f_struct f') == cnt_s b (f_struct f)) /\
    f_mass E f' == f_mass E f /\
    (forall rho, f_density f = Some rho -> f_density f' = Some rho) /\
    (f_density f = None -> length (f_atoms f) <> 1%nat -> f_density f' = None).
  Proof.
    intro Hs. unfold f', f_replace. rewrite Hs. split; [reflexivity|]. split; [|split; [|split]].
    - intro b. rewrite formula_of_dict_cnt by apply nodup_f_atoms. apply f_atoms_cnt.
    - apply formula_of_dict_mass.
    - intros rho Hd. rewrite Hd. reflexivity.
    - intros Hd Hlen. rewrite Hd. apply several_atoms_unknown.
      rewrite hill_count_length by apply nodup_f_atoms. exact Hlen.
  Qed.
End Replace.

(* ================================================================ 9. substituting an atom for itself *)
(* repaired model: the identity (atoms, mass, known density) *)
Theorem replace_same_atom_is_identity : forall E f a p,
  (forall b, cnt_s b (f_struct (f_replace E f a a p)) == cnt_s b (f_struct f)) /\
  f_mass E (f_replace E f a a p) == f_mass E f /\
  (forall rho, f_density f = Some rho -> f_density (f_replace E f a a p) = Some rho).
Proof.
  intros E f a p. unfold f_replace. rewrite atom_eqb_refl.
  replace (match dget (f_atoms f) a with
           | Some _ => formula_of_dict E (f_atoms f) (f_density f)
           | None => formula_of_dict E (f_atoms f) (f_density f) end)
    with (formula_of_dict E (f_atoms f) (f_density f)) by (destruct (dget (f_atoms f) a); reflexivity).
  split; [|split].
  - intro b. rewrite formula_of_dict_cnt by apply nodup_f_atoms. apply f_atoms_cnt.
  - apply formula_of_dict_mass.
  - intros rho Hd. rewrite Hd. reflexivity.
Qed.

(* ================================================================ 10. the code as it stands *)
(* after the two repairs the code is the model, for every input *)
Theorem replace_code_agrees : forall E f src tgt p,
  f_replace_code E f src tgt p = f_replace E f src tgt p.
Proof.
  intros E f src tgt p. unfold f_replace_code, f_replace.
  destruct (dget (f_atoms f) src); [|reflexivity].
  destruct (atom_eqb src tgt); reflexivity.
Qed.

Definition E_unit : aenv := mkEnv (fun _ => 1) (fun _ => 1) (fun _ => None) (sym_of Gen.ElementBase.element_base).
Definition water (rho : option Q) : fobj :=
  mkF [(2, FAtom (mkAtom 1 0 0)); (1, FAtom (mkAtom 8 0 0))] KTuple rho None.

(* the inputs on which the code used to fail (TypeError on H2O without density, H -> D; hydrogen lost on
   H2O@1, H -> H) now give what the property asks *)
Theorem replace_former_witnesses :
  f_density (f_replace_code E_unit (water None) (mkAtom 1 0 0) (mkAtom 1 2 0) 1) = None /\
  cnt_s (mkAtom 1 2 0) (f_struct (f_replace_code E_unit (water None) (mkAtom 1 0 0) (mkAtom 1 2 0) 1)) == 2 /\
  cnt_s (mkAtom 1 0 0) (f_struct (f_replace_code E_unit (water (Some 1)) (mkAtom 1 0 0) (mkAtom 1 0 0) 1)) == 2 /\
  f_density (f_replace_code E_unit (water (Some 1)) (mkAtom 1 0 0) (mkAtom 1 0 0) 1) = Some 1.
Proof. repeat split; vm_compute; reflexivity. Qed.

(* ================================================================ 11. positivity: the result has a mass *)
Lemma dweight_nonneg : forall w d, (forall a c, In (a, c) d -> 0 <= w a * c) -> 0 <= dweight w d.
Proof.
  intros w d. induction d as [|[a c] r IH]; intro H.
  - unfold dweight. simpl. apply Qle_refl.
  - rewrite dweight_cons. rewrite <- (Qplus_0_l 0). apply Qplus_le_compat.
    + apply (H a c). left. reflexivity.
    + apply IH. intros a' c' Hin. apply (H a' c'). right. exact Hin.
Qed.

Lemma dget_some_in : forall d a w, dget d a = Some w -> In (a, w) d.
Proof.
  induction d as [|[c x] r IH]; intros a w H; simpl in H; [discriminate|].
  destruct (atom_eqb a c) eqn:E.
  - apply atom_eqb_eq in E. subst c. inversion H. left. reflexivity.
  - right. apply IH. exact H.
Qed.

Theorem replace_mass_positive : forall E f src tgt p, src <> tgt -> 0 <= p -> p <= 1 ->
  (forall a, 0 < e_mass E a) -> (forall a c, In (a, c) (f_atoms f) -> 0 <= c) ->
  0 < f_mass E f -> 0 < f_mass E (f_replace E f src tgt p).
Proof.
  intros E f src tgt p Hne Hp0 Hp1 Hm Hc HM. rewrite (replace_mass E f src tgt p Hne).
  pose proof (dweight_dict_del (e_mass E) (f_atoms f) src (nodup_f_atoms f)) as Hdel.
  assert (Hrest : 0 <= dweight (e_mass E) (dict_del (f_atoms f) src)).
  { apply dweight_nonneg. intros a c Hin. unfold dict_del in Hin. apply filter_In in Hin.
    destruct Hin as [Hin _]. apply Qmult_le_0_compat; [apply Qlt_le_weak, Hm|exact (Hc a c Hin)]. }
  assert (Hns : dget0 (f_atoms f) src == cnt_s src (f_struct f)) by apply f_atoms_cnt.
  assert (Hn0 : 0 <= dget0 (f_atoms f) src).
  { unfold dget0. destruct (dget (f_atoms f) src) as [w|] eqn:Hs; [|apply Qle_refl].
    apply (Hc src w). apply dget_some_in. exact Hs. }
  unfold f_mass in *. rewrite <- Hns. 
  set (M := dweight (e_mass E) (f_atoms f)) in *.
  set (R := dweight (e_mass E) (dict_del (f_atoms f) src)) in *.
  set (n := dget0 (f_atoms f) src) in *.
  pose proof (Hm src) as Hs. pose proof (Hm tgt) as Ht.
  set (ms := e_mass E src) in *. set (mt := e_mass E tgt) in *.
  (* M - n p (ms - mt) = R + n ((1-p) ms + p mt) *)
  assert (Heq : M - n * p * (ms - mt) == R + n * ((1 - p) * ms + p * mt)) by (rewrite Hdel; ring).
  rewrite Heq.
  assert (Hk : 0 < (1 - p) * ms + p * mt).
  { destruct (Qlt_le_dec p 1) as [Hlt|Hge].
    - apply Qlt_le_trans with ((1 - p) * ms + 0).
      + rewrite Qplus_0_r. apply Qmult_lt_0_compat; [|exact Hs].
        unfold Qminus. rewrite <- (Qplus_opp_r p). apply Qplus_lt_le_compat; [exact Hlt|apply Qle_refl].
      + apply Qplus_le_compat; [apply Qle_refl|].
        apply Qmult_le_0_compat; [exact Hp0|apply Qlt_le_weak, Ht].
    - assert (Hp : p == 1) by (apply Qle_antisym; assumption).
      rewrite Hp. ring_simplify. exact Ht. }
  destruct (Qlt_le_dec 0 n) as [Hnp|Hnz].
  - apply Qlt_le_trans with (0 + n * ((1 - p) * ms + p * mt)).
    + rewrite Qplus_0_l. apply Qmult_lt_0_compat; assumption.
    + apply Qplus_le_compat; [exact Hrest|apply Qle_refl].
  - assert (Hn : n == 0) by (apply Qle_antisym; assumption).
    rewrite Hn. ring_simplify. 
    assert (HMR : M == R) by (rewrite Hdel, Hn; ring). rewrite <- HMR. exact HM.
Qed.

(* the statement of the property on its domain: positive masses, non-negative counts,
   0 <= portion <= 1, a known positive density *)
Theorem replace_keeps_cell_volume_domain : forall E f src tgt p rho, src <> tgt -> 0 <= p -> p <= 1 ->
  (forall a, 0 < e_mass E a) -> (forall a c, In (a, c) (f_atoms f) -> 0 <= c) -> 0 < f_mass E f ->
  f_density f = Some rho -> 0 < rho ->
  exists rho', f_density (f_replace E f src tgt p) = Some rho' /\ 0 < rho' /\
    f_mass E (f_replace E f src tgt p) / rho' == f_mass E f / rho.
Proof.
  intros E f src tgt p rho Hne Hp0 Hp1 Hm Hc HM Hd Hr.
  pose proof (replace_mass_positive E f src tgt p Hne Hp0 Hp1 Hm Hc HM) as HM'.
  destruct (replace_keeps_cell_volume E f src tgt p rho Hne Hd) as [rho' [H1 [H2 H3]]].
  - intro H. rewrite H in Hr. exact (Qlt_irrefl 0 Hr).
  - intro H. rewrite H in HM. exact (Qlt_irrefl 0 HM).
  - intro H. rewrite H in HM'. exact (Qlt_irrefl 0 HM').
  - exists rho'. split; [exact H1|]. split; [|exact H2]. rewrite H3.
    unfold Qdiv. apply Qmult_lt_0_compat; [apply Qmult_lt_0_compat; assumption|].
    apply Qinv_lt_0_compat. exact HM.
Qed.

(* ================================================================ 12. when does more than one atom remain *)
Lemma two_keys_length : forall (l : list atom) a b, NoDup l -> In a l -> In b l -> a <> b -> (2 <= length l)%nat.
Proof.
  intros l a b Hnd Ha Hb Hne. destruct l as [|x [|y r]]; simpl in *.
  - contradiction.
  - destruct Ha as [Ha|[]], Hb as [Hb|[]]. subst. contradiction.
  - lia.
Qed.

Lemma f_replace_atoms_length : forall E f src tgt p ns, src <> tgt -> dget (f_atoms f) src = Some ns ->
  length (f_atoms (f_replace E f src tgt p)) = length (substituted (f_atoms f) src tgt ns p).
Proof.
  intros E f src tgt p ns Hne Hs. unfold f_replace. rewrite Hs, (atom_eqb_neq _ _ Hne).
  unfold f_atoms at 1. rewrite formula_of_dict_struct. apply hill_count_length.
  apply nodup_substituted, nodup_f_atoms.
Qed.

(* a partial substitution (portion <> 1) of a present source by a different atom leaves both in
   the formula, so an unknown density stays unknown *)
Theorem replace_partial_unknown_stays_unknown : forall E f src tgt p ns, src <> tgt ->
  dget (f_atoms f) src = Some ns -> ~ p == 1 -> f_density f = None ->
  f_density (f_replace E f src tgt p) = None.
Proof.
  intros E f src tgt p ns Hne Hs Hp Hd. apply replace_unknown_stays_unknown; [exact Hd|].
  rewrite (f_replace_atoms_length E f src tgt p ns Hne Hs). unfold substituted.
  destruct (Qeq_bool p 1) eqn:Ep; [apply Qeq_bool_iff in Ep; contradiction|].
  set (d := dict_set (dict_set (f_atoms f) tgt (dget0 (f_atoms f) tgt + ns * p)) src _).
  assert (H2 : (2 <= length (keys d))%nat).
  { apply (two_keys_length (keys d) src tgt).
    - unfold d. apply nodup_dict_set, nodup_dict_set, nodup_f_atoms.
    - unfold d. apply keys_dict_set_in. left. reflexivity.
    - unfold d. apply keys_dict_set_in. right. apply keys_dict_set_in. left. reflexivity.
    - exact Hne. }
  unfold keys in H2. rewrite map_length in H2. lia.
Qed.

(* a full substitution in a formula holding a third atom also leaves more than one atom *)
Theorem replace_third_atom_unknown_stays_unknown : forall E f src tgt p ns b, src <> tgt ->
  dget (f_atoms f) src = Some ns -> b <> src -> b <> tgt -> In b (keys (f_atoms f)) -> f_density f = None ->
  f_density (f_replace E f src tgt p) = None.
Proof.
  intros E f src tgt p ns b Hne Hs Hbs Hbt Hin Hd. apply replace_unknown_stays_unknown; [exact Hd|].
  rewrite (f_replace_atoms_length E f src tgt p ns Hne Hs).
  set (d := substituted (f_atoms f) src tgt ns p).
  assert (Hb : In b (keys d) /\ In tgt (keys d)).
  { unfold d, substituted. destruct (Qeq_bool p 1).
    - unfold dict_del, keys. split; apply in_map_iff.
      + assert (Hb' : In b (keys (dict_set (f_atoms f) tgt (dget0 (f_atoms f) tgt + ns * p))))
          by (apply keys_dict_set_in; right; exact Hin).
        unfold keys in Hb'. apply in_map_iff in Hb'. destruct Hb' as [[b' w] [Hb1 Hb2]]. simpl in Hb1. subst b'.
        exists (b, w). split; [reflexivity|]. apply filter_In. split; [exact Hb2|]. simpl.
        rewrite (atom_eqb_neq src b) by (intro H; apply Hbs; symmetry; exact H). reflexivity.
      + assert (Ht' : In tgt (keys (dict_set (f_atoms f) tgt (dget0 (f_atoms f) tgt + ns * p))))
          by (apply keys_dict_set_in; left; reflexivity).
        unfold keys in Ht'. apply in_map_iff in Ht'. destruct Ht' as [[t' w] [Ht1 Ht2]]. simpl in Ht1. subst t'.
        exists (tgt, w). split; [reflexivity|]. apply filter_In. split; [exact Ht2|]. simpl.
        rewrite (atom_eqb_neq src tgt Hne). reflexivity.
    - split; apply keys_dict_set_in; right; apply keys_dict_set_in; [right; exact Hin|left; reflexivity]. }
  assert (H2 : (2 <= length (keys d))%nat).
  { apply (two_keys_length (keys d) b tgt); try tauto. unfold d. apply nodup_substituted, nodup_f_atoms. }
  unfold keys in H2. rewrite map_length in H2. lia.
Qed.
